(* Line-oriented driver around the extracted Gallina model (model.ml).
   Input : one case per line:  <id> <op> <sexp args...>
   Output: one line per case:  <id> <result>
   Only parsing/printing lives here; every computation is an extracted Gallina function. *)
module M = Model

type sexp = A of string | L of sexp list

let tokenize (s : string) : string list =
  let n = String.length s in
  let toks = ref [] in
  let i = ref 0 in
  while !i < n do
    let c = s.[!i] in
    if c = ' ' || c = '\t' || c = '\r' || c = '\n' then incr i
    else if c = '(' || c = ')' then (toks := String.make 1 c :: !toks; incr i)
    else begin
      let j = ref !i in
      while !j < n && (let d = s.[!j] in not (d = ' ' || d = '\t' || d = '(' || d = ')' || d = '\r' || d = '\n')) do incr j done;
      toks := String.sub s !i (!j - !i) :: !toks;
      i := !j
    end
  done;
  List.rev !toks

let rec parse_one (toks : string list) : sexp * string list =
  match toks with
  | [] -> failwith "unexpected end"
  | "(" :: rest ->
    let rec loop acc ts =
      match ts with
      | ")" :: r -> (L (List.rev acc), r)
      | [] -> failwith "unclosed paren"
      | _ -> let (e, r) = parse_one ts in loop (e :: acc) r
    in loop [] rest
  | ")" :: _ -> failwith "unexpected )"
  | a :: rest -> (A a, rest)

let parse_all (toks : string list) : sexp list =
  let rec go acc ts = match ts with [] -> List.rev acc | _ -> let (e, r) = parse_one ts in go (e :: acc) r in
  go [] toks

(* ---- Zarith <-> extracted Z ---- *)
let rec pos_of_zarith (z : Z.t) : M.positive =
  if Z.equal z Z.one then M.XH
  else if Z.is_even z then M.XO (pos_of_zarith (Z.shift_right z 1))
  else M.XI (pos_of_zarith (Z.shift_right z 1))

let z_of_zarith (z : Z.t) : Model.z =
  let s = Z.sign z in
  if s = 0 then M.Z0 else if s > 0 then M.Zpos (pos_of_zarith z) else M.Zneg (pos_of_zarith (Z.neg z))

let rec zarith_of_pos (p : M.positive) : Z.t =
  match p with
  | M.XH -> Z.one
  | M.XO q -> Z.shift_left (zarith_of_pos q) 1
  | M.XI q -> Z.succ (Z.shift_left (zarith_of_pos q) 1)

let zarith_of_z (z : Model.z) : Z.t =
  match z with M.Z0 -> Z.zero | M.Zpos p -> zarith_of_pos p | M.Zneg p -> Z.neg (zarith_of_pos p)

let z_of_string (s : string) : Model.z = z_of_zarith (Z.of_string s)
let string_of_z (z : Model.z) : string = Z.to_string (zarith_of_z z)

let string_of_q (q : Model.q) : string =
  string_of_z q.M.qnum ^ "/" ^ Z.to_string (zarith_of_pos q.M.qden)

(* ---- sexp -> model data ---- *)
let to_z = function A s -> z_of_string s | L _ -> failwith "expected integer"
let to_zlist = function L l -> List.map to_z l | A _ -> failwith "expected list"

let rec to_cexpr (e : sexp) : M.cexpr =
  match e with
  | L [A "L"; m; e] -> M.ELit (to_z m, to_z e)
  | L [A "M"; a; b] -> M.EMul (to_cexpr a, to_cexpr b)
  | L [A "D"; a; b] -> M.EDiv (to_cexpr a, to_cexpr b)
  | L [A "N"; a] -> M.ENeg (to_cexpr a)
  | _ -> failwith "bad cexpr"
let to_cexprs = function L l -> List.map to_cexpr l | A _ -> failwith "expected list of cexpr"
let to_const = function A "-" -> None | e -> Some (to_cexpr e)
let to_lib = function A "std" -> M.LibStd | A "core" -> M.LibCore | _ -> failwith "bad lib"
let to_q (e : sexp) : Model.q =
  match e with
  | L [n; d] ->
    (match to_z d with M.Zpos p -> { M.qnum = to_z n; qden = p } | _ -> failwith "bad denominator")
  | _ -> failwith "expected (num den)"

let run (op : string) (args : sexp list) : string =
  match op, args with
  | "new64", [lib; u; d; c; k; v] -> string_of_z (M.new64 (to_lib lib) (to_cexprs u) (to_zlist d) (to_cexpr c) (to_const k) (to_z v))
  | "get64", [lib; u; d; c; k; v] -> string_of_z (M.get64 (to_lib lib) (to_cexprs u) (to_zlist d) (to_cexpr c) (to_const k) (to_z v))
  | "new32", [lib; u; d; c; k; v] -> string_of_z (M.new32 (to_lib lib) (to_cexprs u) (to_zlist d) (to_cexpr c) (to_const k) (to_z v))
  | "get32", [lib; u; d; c; k; v] -> string_of_z (M.get32 (to_lib lib) (to_cexprs u) (to_zlist d) (to_cexpr c) (to_const k) (to_z v))
  | "rebase64", [lib; ul; ur; d; v] -> string_of_z (M.rebase64 (to_lib lib) (to_cexprs ul) (to_cexprs ur) (to_zlist d) (to_z v))
  | "rebase32", [lib; ul; ur; d; v] -> string_of_z (M.rebase32 (to_lib lib) (to_cexprs ul) (to_cexprs ur) (to_zlist d) (to_z v))
  | "coef64", [c] -> string_of_z (M.coef64 (to_cexpr c))
  | "coef32", [c] -> string_of_z (M.coef32 (to_cexpr c))
  | "qnew", [u; d; c; k; v] -> string_of_q (M.q_new (to_cexprs u) (to_zlist d) (to_cexpr c) (to_const k) (to_q v))
  | "qget", [u; d; c; k; v] -> string_of_q (M.q_get (to_cexprs u) (to_zlist d) (to_cexpr c) (to_const k) (to_q v))
  | "qrebase", [ul; ur; d; v] -> string_of_q (M.q_rebase (to_cexprs ul) (to_cexprs ur) (to_zlist d) (to_q v))
  | "znew", [u; d; c; k; v] -> string_of_z (M.z_new (to_cexprs u) (to_zlist d) (to_cexpr c) (to_const k) (to_z v))
  | "zget", [u; d; c; k; v] -> string_of_z (M.z_get (to_cexprs u) (to_zlist d) (to_cexpr c) (to_const k) (to_z v))
  | "zrebase", [ul; ur; d; v] -> string_of_z (M.z_rebase (to_cexprs ul) (to_cexprs ur) (to_zlist d) (to_z v))
  | "coefq", [c] -> string_of_q (M.coef_exact (to_cexpr c))
  | _ -> failwith ("unknown op or arity: " ^ op)

let () =
  let ic = if Array.length Sys.argv > 1 then open_in Sys.argv.(1) else stdin in
  (try
    while true do
      let line = input_line ic in
      if String.length line > 0 && line.[0] <> '#' then begin
        match parse_all (tokenize line) with
        | A id :: A op :: args ->
          let r = (try run op args with Failure m -> "ERROR:" ^ m | Division_by_zero -> "ERROR:div0" | Stack_overflow -> "ERROR:stack") in
          print_string id; print_char ' '; print_string r; print_char '\n'
        | _ -> print_string "? ERROR:bad line\n"
      end
    done
  with End_of_file -> ());
  flush stdout
