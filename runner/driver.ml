(* Line-oriented driver around the extracted Gallina model (model.ml).
   Input : one case per line:  <id> <op> <sexp args...>
   Output: one line per case:  <id> <result>
   Only parsing/printing lives here; every computation is an extracted Gallina function. *)
module M = Model

type sexp = A of string | L of sexp list

let tokenize (s : string) : string list =
  let n = String.length s in
  let toks = ref [] in
  let i = ref 0 in
  while !i < n do
    let c = s.[!i] in
    if c = ' ' || c = '\t' || c = '\r' || c = '\n' then incr i
    else if c = '(' || c = ')' then (toks := String.make 1 c :: !toks; incr i)
    else begin
      let j = ref !i in
      while !j < n && (let d = s.[!j] in not (d = ' ' || d = '\t' || d = '(' || d = ')' || d = '\r' || d = '\n')) do incr j done;
      toks := String.sub s !i (!j - !i) :: !toks;
      i := !j
    end
  done;
  List.rev !toks

let rec parse_one (toks : string list) : sexp * string list =
  match toks with
  | [] -> failwith "unexpected end"
  | "(" :: rest ->
    let rec loop acc ts =
      match ts with
      | ")" :: r -> (L (List.rev acc), r)
      | [] -> failwith "unclosed paren"
      | _ -> let (e, r) = parse_one ts in loop (e :: acc) r
    in loop [] rest
  | ")" :: _ -> failwith "unexpected )"
  | a :: rest -> (A a, rest)

let parse_all (toks : string list) : sexp list =
  let rec go acc ts = match ts with [] -> List.rev acc | _ -> let (e, r) = parse_one ts in go (e :: acc) r in
  go [] toks

(* ---- Zarith <-> extracted Z ---- *)
let rec pos_of_zarith (z : Z.t) : M.positive =
  if Z.equal z Z.one then M.XH
  else if Z.is_even z then M.XO (pos_of_zarith (Z.shift_right z 1))
  else M.XI (pos_of_zarith (Z.shift_right z 1))

let z_of_zarith (z : Z.t) : Model.z =
  let s = Z.sign z in
  if s = 0 then M.Z0 else if s > 0 then M.Zpos (pos_of_zarith z) else M.Zneg (pos_of_zarith (Z.neg z))

let rec zarith_of_pos (p : M.positive) : Z.t =
  match p with
  | M.XH -> Z.one
  | M.XO q -> Z.shift_left (zarith_of_pos q) 1
  | M.XI q -> Z.succ (Z.shift_left (zarith_of_pos q) 1)

let zarith_of_z (z : Model.z) : Z.t =
  match z with M.Z0 -> Z.zero | M.Zpos p -> zarith_of_pos p | M.Zneg p -> Z.neg (zarith_of_pos p)

let z_of_string (s : string) : Model.z = z_of_zarith (Z.of_string s)
let string_of_z (z : Model.z) : string = Z.to_string (zarith_of_z z)

let string_of_q (q : Model.q) : string =
  string_of_z q.M.qnum ^ "/" ^ Z.to_string (zarith_of_pos q.M.qden)

(* ---- sexp -> model data ---- *)
let to_z = function A s -> z_of_string s | L _ -> failwith "expected integer"
let to_zlist = function L l -> List.map to_z l | A _ -> failwith "expected list"

let rec to_cexpr (e : sexp) : M.cexpr =
  match e with
  | L [A "L"; m; e] -> M.ELit (to_z m, to_z e)
  | L [A "M"; a; b] -> M.EMul (to_cexpr a, to_cexpr b)
  | L [A "D"; a; b] -> M.EDiv (to_cexpr a, to_cexpr b)
  | L [A "N"; a] -> M.ENeg (to_cexpr a)
  | _ -> failwith "bad cexpr"
let to_cexprs = function L l -> List.map to_cexpr l | A _ -> failwith "expected list of cexpr"
let to_const = function A "-" -> None | e -> Some (to_cexpr e)
let to_lib = function A "std" -> M.LibStd | A "core" -> M.LibCore | _ -> failwith "bad lib"
let to_q (e : sexp) : Model.q =
  match e with
  | L [n; d] ->
    (match to_z d with M.Zpos p -> { M.qnum = to_z n; qden = p } | _ -> failwith "bad denominator")
  | _ -> failwith "expected (num den)"

let to_bool = function A "1" | A "true" -> true | A "0" | A "false" -> false | _ -> failwith "bad bool"
let to_binop = function
  | A "add" -> M.BAdd | A "sub" -> M.BSub | A "mul" -> M.BMul | A "div" -> M.BDiv | A "rem" -> M.BRem
  | A "max" -> M.BMax | A "min" -> M.BMin | _ -> failwith "bad binop"
let to_cmpop = function
  | A "eq" -> M.CEq | A "ne" -> M.CNe | A "lt" -> M.CLt | A "le" -> M.CLe | A "gt" -> M.CGt | A "ge" -> M.CGe
  | _ -> failwith "bad cmpop"
let to_unop = function
  | A "neg" -> M.UNeg | A "abs" -> M.UAbs | A "signum" -> M.USignum | A "recip" -> M.URecip | A "sqrt" -> M.USqrt
  | _ -> failwith "bad unop"
let to_rnd = function
  | A "floor" -> M.RFloor | A "ceil" -> M.RCeil | A "round" -> M.RRound | A "trunc" -> M.RTrunc | A "fract" -> M.RFract
  | _ -> failwith "bad rounding"

let to_hreq (tv : sexp -> 'v) (e : sexp) : 'v M.hreq =
  match e with
  | L [A "bin"; o; ur; b] -> M.HRBin (to_binop o, to_cexprs ur, tv b)
  | L [A "same"; o; b] -> M.HRSame (to_binop o, tv b)
  | L [A "un"; o] -> M.HRUn (to_unop o)
  | _ -> failwith "bad history op"

let to_req (tv : sexp -> 'v) (e : sexp) : 'v M.req =
  match e with
  | L [A "new"; u; d; c; k; v] -> M.RNew (to_cexprs u, to_zlist d, to_cexpr c, to_const k, tv v)
  | L [A "get"; u; d; c; k; v] -> M.RGet (to_cexprs u, to_zlist d, to_cexpr c, to_const k, tv v)
  | L [A "rebase"; ac; ul; ur; d; v] -> M.RRebase (to_bool ac, to_cexprs ul, to_cexprs ur, to_zlist d, tv v)
  | L [A "bin"; ac; o; ul; ur; d; a; b] -> M.RBin (to_bool ac, to_binop o, to_cexprs ul, to_cexprs ur, to_zlist d, tv a, tv b)
  | L [A "cmp"; ac; o; ul; ur; d; a; b] -> M.RCmp (to_bool ac, to_cmpop o, to_cexprs ul, to_cexprs ur, to_zlist d, tv a, tv b)
  | L [A "pcmp"; ac; ul; ur; d; a; b] -> M.RPcmp (to_bool ac, to_cexprs ul, to_cexprs ur, to_zlist d, tv a, tv b)
  | L [A "muladd"; ac; u; ua; ub; da; ds; x; a; b] ->
    M.RMulAdd (to_bool ac, to_cexprs u, to_cexprs ua, to_cexprs ub, to_zlist da, to_zlist ds, tv x, tv a, tv b)
  | L [A "round"; r; u; d; c; k; v] -> M.RRoundTo (to_rnd r, to_cexprs u, to_zlist d, to_cexpr c, to_const k, tv v)
  | L [A "un"; o; a] -> M.RUn (to_unop o, tv a)
  | L [A "hist"; ac; u; d; init; L ops] -> M.RHist (to_bool ac, to_cexprs u, to_zlist d, tv init, List.map (to_hreq tv) ops)
  | L [A "coef"; c] -> M.RCoef (to_cexpr c)
  | L [A "todur"; ac; u; d; ks; kn; v] -> M.RToDur (to_bool ac, to_cexprs u, to_zlist d, to_cexpr ks, to_cexpr kn, tv v)
  | L [A "fromdur"; ac; u; d; ks; kn; s; n] -> M.RFromDur (to_bool ac, to_cexprs u, to_zlist d, to_cexpr ks, to_cexpr kn, to_z s, to_z n)
  | _ -> failwith "bad request"

let to_treq (e : sexp) : M.treq =
  match e with
  | L [A "fmt"; st; a; sg; pl; shown; one] -> M.TFmt (to_bool st, to_zlist a, to_zlist sg, to_zlist pl, to_zlist shown, to_bool one)
  | L [A "debug"; shown; L abbrs; d] -> M.TDebug (to_zlist shown, List.map to_zlist abbrs, to_zlist d)
  | L [A "parse"; L units; s; ok] ->
    M.TParse (List.map (function L [a; sg; pl] -> ((to_zlist a, to_zlist sg), to_zlist pl) | _ -> failwith "bad unit labels") units,
              to_zlist s, to_bool ok)
  | _ -> failwith "bad text request"

(* strings of the model are lists of ascii (extracted inductive): build them from OCaml strings *)
let ascii_of_char (c : char) : M.ascii =
  let n = Char.code c in
  let bit k = (n lsr k) land 1 = 1 in
  M.Ascii (bit 0, bit 1, bit 2, bit 3, bit 4, bit 5, bit 6, bit 7)
let mstring (s : string) : M.string =
  let r = ref M.EmptyString in
  for i = String.length s - 1 downto 0 do r := M.String (ascii_of_char s.[i], !r) done; !r
let to_mstring = function A s -> mstring s | L _ -> failwith "expected name"
let to_marker = function
  | A "Add" -> M.MAdd | A "AddAssign" -> M.MAddAssign | A "Sub" -> M.MSub | A "SubAssign" -> M.MSubAssign
  | A "Mul" -> M.MMul | A "MulAssign" -> M.MMulAssign | A "Div" -> M.MDiv | A "DivAssign" -> M.MDivAssign
  | A "Neg" -> M.MNeg | A "Rem" -> M.MRem | A "RemAssign" -> M.MRemAssign | A "Saturating" -> M.MSaturating
  | _ -> failwith "bad marker"
let to_qty = function
  | L [d; k; u] -> { M.t_dim = to_zlist d; t_kind = to_mstring k; t_base = to_z u }
  | _ -> failwith "bad quantity type"
let to_aop = function
  | A "add" -> M.AAdd | A "sub" -> M.ASub | A "rem" -> M.ARem | A "addas" -> M.AAddAssign | A "subas" -> M.ASubAssign | A "remas" -> M.ARemAssign
  | _ -> failwith "bad additive op"
let to_prog (e : sexp) : M.prog =
  match e with
  | L [A "additive"; o; a; b] -> M.PAdditive (to_aop o, to_qty a, to_qty b)
  | L [A "compare"; a; b] -> M.PCompare (to_qty a, to_qty b)
  | L [A "mul"; a; b] -> M.PMul (to_qty a, to_qty b)
  | L [A "div"; a; b] -> M.PDiv (to_qty a, to_qty b)
  | L [A "scalar_right"; a] -> M.PScalarRight (to_qty a)
  | L [A "scalar_left_mul"; a] -> M.PScalarLeftMul (to_qty a)
  | L [A "scalar_left_div"; a] -> M.PScalarLeftDiv (to_qty a)
  | L [A "recip"; a] -> M.PRecip (to_qty a)
  | L [A "powi"; a; k] -> M.PPowi (to_qty a, to_z k)
  | L [A "sqrt"; a] -> M.PSqrt (to_qty a)
  | L [A "cbrt"; a] -> M.PCbrt (to_qty a)
  | L [A "muladd"; x; a; b] -> M.PMulAdd (to_qty x, to_qty a, to_qty b)
  | L [A "neg"; a] -> M.PNeg (to_qty a)
  | L [A "unchanged"; a] -> M.PUnchanged (to_qty a)
  | L [A "hypot"; a; b] -> M.PHypot (to_qty a, to_qty b)
  | L [A "atan2"; a; b] -> M.PAtan2 (to_qty a, to_qty b)
  | L [A "sametype"; a; b] -> M.PSameTypeOp (to_qty a, to_qty b)
  | L [A "from"; a; b] -> M.PFrom (to_qty a, to_qty b)
  | L [A "from_number"; b] -> M.PFromNumber (to_qty b)
  | L [A "into_number"; a] -> M.PIntoNumber (to_qty a)
  | L [A "unit"; qm; um] -> M.PUnit (to_mstring qm, to_mstring um)
  | L [A "let"; a; b] -> M.PLet (to_qty a, to_qty b)
  | _ -> failwith "bad program"
let rec nat_of_int (n : int) : M.nat = if n <= 0 then M.O else M.S (nat_of_int (n - 1))
let to_tyreq (e : sexp) : M.tyreq =
  match e with
  | L [L kinds; L froms; A n; temp; ac; std; p] ->
    { M.tr_kinds = List.map (function L [k; L ms; inh] -> { M.k_name = to_mstring k; k_markers = List.map to_marker ms; k_inherits = to_bool inh } | _ -> failwith "bad kind") kinds;
      tr_from = List.map (function L [a; b] -> (to_mstring a, to_mstring b) | _ -> failwith "bad impl_from") froms;
      tr_n = nat_of_int (int_of_string n); tr_temp = to_zlist temp;
      tr_cfg = { M.c_autoconvert = to_bool ac; c_std = to_bool std }; tr_prog = to_prog p }
  | _ -> failwith "bad typing request"

let to_creq (e : sexp) : M.creq =
  match e with
  | L [A "new"; u; d; c; k; re; im; n] -> M.CNew (to_cexprs u, to_zlist d, to_cexpr c, to_const k, to_z re, to_z im, to_z n)
  | L [A "get"; u; d; c; k; re; im; n] -> M.CGet (to_cexprs u, to_zlist d, to_cexpr c, to_const k, to_z re, to_z im, to_z n)
  | L [A "bin"; ac; o; u; d; ar; ai; br; bi; bn] -> M.CBin (to_bool ac, to_binop o, to_cexprs u, to_zlist d, to_z ar, to_z ai, to_z br, to_z bi, to_z bn)
  | L [A "eq"; ac; u; d; ar; ai; br; bi; bn] -> M.CEqual (to_bool ac, to_cexprs u, to_zlist d, to_z ar, to_z ai, to_z br, to_z bi, to_z bn)
  | _ -> failwith "bad complex request"

let to_ratio = function L [n; d] -> (to_z n, to_z d) | _ -> failwith "expected (n d)"
let to_ratios = function L l -> List.map to_ratio l | A _ -> failwith "expected list of (n d)"
let to_wreq (e : sexp) : M.wreq =
  match e with
  | L [A "new"; lo; hi; i; u; d; k; c; v] -> M.WNew (to_z lo, to_z hi, to_bool i, to_ratios u, to_zlist d, to_ratio k, to_ratio c, to_ratio v)
  | L [A "get"; lo; hi; i; u; d; k; c; v] -> M.WGet (to_z lo, to_z hi, to_bool i, to_ratios u, to_zlist d, to_ratio k, to_ratio c, to_ratio v)
  | L [A "rebase"; lo; hi; i; ul; ur; d; v] -> M.WRebase (to_z lo, to_z hi, to_bool i, to_ratios ul, to_ratios ur, to_zlist d, to_ratio v)
  | L [A "prim"; lo; hi; op; x; y] -> M.WPrim (to_z lo, to_z hi, to_z op, to_ratio x, to_ratio y)
  | _ -> failwith "bad fixed-width request"

let to_dwreq (e : sexp) : M.dwreq =
  match e with
  | L [A "to"; lo; hi; u; d; ks; kn; v] -> M.DWTo (to_z lo, to_z hi, to_ratios u, to_zlist d, to_ratio ks, to_ratio kn, to_z v)
  | L [A "from"; lo; hi; u; d; ks; kn; s; n] -> M.DWFrom (to_z lo, to_z hi, to_ratios u, to_zlist d, to_ratio ks, to_ratio kn, to_z s, to_z n)
  | _ -> failwith "bad integer duration request"

(* <id> <f32|f64|q|z|w|dw|text|ty|c32|c64> <std|core|-> <request> *)
let run (st : string) (lib : sexp) (r : sexp) : string =
  match st with
  | "f64" -> String.concat " " (List.map string_of_z (M.run64 (to_lib lib) (to_req to_z r)))
  | "f32" -> String.concat " " (List.map string_of_z (M.run32 (to_lib lib) (to_req to_z r)))
  | "a64" -> String.concat " " (List.map string_of_z (M.acc_run64 (to_lib lib) (to_req to_z r)))
  | "a32" -> String.concat " " (List.map string_of_z (M.acc_run32 (to_lib lib) (to_req to_z r)))
  | "q" -> String.concat " " (List.map string_of_q (M.q_run (to_req to_q r)))
  | "z" -> String.concat " " (List.map string_of_z (M.z_run (to_req to_z r)))
  | "w" -> String.concat " " (List.map string_of_z (M.w_run (to_wreq r)))
  | "dw" -> String.concat " " (List.map string_of_z (M.dw_run (to_dwreq r)))
  | "text" -> String.concat " " (List.map string_of_z (M.text_run (to_treq r)))
  | "ty" -> String.concat " " (List.map string_of_z (M.typing_run (to_tyreq r)))
  | "c64" -> String.concat " " (List.map string_of_z (M.crun64 (to_lib lib) (to_creq r)))
  | "c32" -> String.concat " " (List.map string_of_z (M.crun32 (to_lib lib) (to_creq r)))
  | _ -> failwith ("unknown storage class: " ^ st)

let () =
  let ic = if Array.length Sys.argv > 1 then open_in Sys.argv.(1) else stdin in
  (try
    while true do
      let line = input_line ic in
      if String.length line > 0 && line.[0] <> '#' then begin
        match parse_all (tokenize line) with
        | [A id; A st; lib; r] ->
          let r = (try run st lib r with Failure m -> "ERROR:" ^ m | Division_by_zero -> "ERROR:div0" | Stack_overflow -> "ERROR:stack") in
          print_string id; print_char ' '; print_string r; print_char '\n'
        | _ -> print_string "? ERROR:bad line\n"
      end
    done
  with End_of_file -> ());
  flush stdout
