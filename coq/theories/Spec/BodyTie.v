(* The bodies that Model/Text.v and Model/Duration.v transcribe BY HAND (statement sequences with early returns, macros and
   closures, for which no evaluator is built) are pinned here in normalised form: Gen/BodySrc.v is regenerated from the source on
   every run by translator/bodypin.py (comments and layout gone; parameters, let-bound names, closure parameters and macro
   metavariables named positionally), and each theorem says that the function still reads as it did when the model definition
   named beside it was written.  A failure means: re-read the function against that definition (the check then searches the
   correspondence stream for an input on which they differ). *)
From Coq Require Import List String Bool.
From UomV Require Import Gen.BodySrc.
Import ListNotations.
Open Scope string_scope.

Fixpoint body_of (k : string) (l : list (string * string)) : option string :=
  match l with [] => None | (k', b) :: r => if String.eqb k k' then Some b else body_of k r end.

Definition expected_bodies : list (string * string) := [
  (* Model.Text.debug_quantity: the storage value's own Debug output, then for every base quantity IN ORDER a suffix ' abbr^d' iff d <> 0 *)
  ("debug_fmt",
   "self . value . fmt ( _1 ) $ ( . and_then ( | _ | { let _2 = < D :: $ m1 as $ crate :: typenum :: Integer > :: to_i32 ( ) ; if 0 != _2 { write ! ( _1 , ' {}^{}' , U :: $ m2 :: abbreviation ( ) , _2 ) } else { Ok ( ( ) ) } } ) ) +");
  (* Model.Text.fmt_quantity: the value read in the unit N formatted by the storage type WITH the caller's formatter (so width / precision / sign flags apply to the number), one blank, then the abbreviation, or the singular iff the converted value is one, else the plural *)
  ("arguments_fmt",
   "let _2 = from_base :: < D , U , V , N > ( & self . quantity . value ) ; _2 . fmt ( _1 ) ? ; write ! ( _1 , ' {}' , match self . arguments . style { DisplayStyle :: Abbreviation => N :: abbreviation ( ) , DisplayStyle :: Description => { if _2 . is_one ( ) { N :: singular ( ) } else { N :: plural ( ) } } , } )");
  (* Model.Text.parse_quantity: split at the first blank (NoSeparator), parse the number (ValueParseError), trim the rest and look it up among abbreviation | singular | plural of the units in declaration order (UnknownUnit), construct in the matched unit *)
  ("from_str",
   "let mut _2 = _1 . splitn ( 2 , ' ' ) ; let _3 = _2 . next ( ) . unwrap ( ) ; let _4 = _2 . next ( ) . ok_or ( NoSeparator ) ? ; let _5 = _3 . parse :: < V > ( ) . map_err ( | _ | ValueParseError ) ? ; # [ allow ( unreachable_patterns ) ] match _4 . trim ( ) { $ ( $ m1 | $ m2 | $ m3 => Ok ( Self :: new :: < super :: super :: $ m4 > ( _5 ) ) , ) + _ => Err ( UnknownUnit ) , }");
  (* Model.Text.fmt_quantity (entry point 1): the unit and the style travel unchanged *)
  ("format_args",
   "__system :: fmt :: Arguments { dimension : $ crate :: lib :: marker :: PhantomData , unit : $ crate :: lib :: marker :: PhantomData , style : _2 , }");
  (* Model.Text.fmt_quantity (entry point 2): the unit, the style and the quantity travel unchanged *)
  ("into_format_args",
   "__system :: fmt :: QuantityArguments { arguments : __system :: fmt :: Arguments { dimension : $ crate :: lib :: marker :: PhantomData , unit : $ crate :: lib :: marker :: PhantomData , style : _2 , } , quantity : self , }");
  (* Model.Text.fmt_quantity (entry point 1, second step): the quantity travels unchanged *)
  ("arguments_with",
   "__system :: fmt :: QuantityArguments { arguments : self , quantity : _1 , }");
  (* Model.Duration.time_to_duration: negative stored value first; seconds = to_u64 of the value read in seconds; nanoseconds = to_u32 of (seconds % 1) constructed in seconds and read in nanoseconds; Overflow iff either is None; Duration::new *)
  ("duration_from_time",
   "if _1 < Time :: < U , V > :: zero ( ) { return Err ( TryFromError :: NegativeDuration ) ; } let _2 = _1 . get :: < second > ( ) ; let _3 = _2 . to_u64 ( ) ; let _4 = Time :: < U , V > :: new :: < second > ( _2 % V :: one ( ) ) . get :: < nanosecond > ( ) . to_u32 ( ) ; match ( _3 , _4 ) { ( Some ( _5 ) , Some ( _6 ) ) => Ok ( Self :: new ( _5 , _6 ) ) , _ => Err ( TryFromError :: Overflow ) , }");
  (* Model.Duration.duration_to_time: from_u64(secs) and from_u32(subsec_nanos), Overflow iff either is None, sum of the two constructions in second and nanosecond *)
  ("time_from_duration",
   "let _2 = V :: from_u64 ( _1 . as_secs ( ) ) ; let _3 = V :: from_u32 ( _1 . subsec_nanos ( ) ) ; match ( _2 , _3 ) { ( Some ( _4 ) , Some ( _5 ) ) => { Ok ( Time :: < U , V > :: new :: < second > ( _4 ) + Time :: < U , V > :: new :: < nanosecond > ( _5 ) ) } _ => Err ( TryFromError :: Overflow ) , }")
].

Definition body_pinned (k : string) : bool :=
  match body_of k src_bodies, body_of k expected_bodies with
  | Some a, Some b => String.eqb a b
  | _, _ => false
  end.

Theorem debug_fmt_is_what_the_model_transcribes : body_pinned "debug_fmt" = true.
Proof. vm_compute. reflexivity. Qed.
Theorem arguments_fmt_is_what_the_model_transcribes : body_pinned "arguments_fmt" = true.
Proof. vm_compute. reflexivity. Qed.
Theorem from_str_is_what_the_model_transcribes : body_pinned "from_str" = true.
Proof. vm_compute. reflexivity. Qed.
Theorem format_args_is_what_the_model_transcribes : body_pinned "format_args" = true.
Proof. vm_compute. reflexivity. Qed.
Theorem into_format_args_is_what_the_model_transcribes : body_pinned "into_format_args" = true.
Proof. vm_compute. reflexivity. Qed.
Theorem arguments_with_is_what_the_model_transcribes : body_pinned "arguments_with" = true.
Proof. vm_compute. reflexivity. Qed.
Theorem duration_from_time_is_what_the_model_transcribes : body_pinned "duration_from_time" = true.
Proof. vm_compute. reflexivity. Qed.
Theorem time_from_duration_is_what_the_model_transcribes : body_pinned "time_from_duration" = true.
Proof. vm_compute. reflexivity. Qed.
