(* The tie between the regenerated source trees (Gen/ConvSrc.v) and the model's conversion functions
   (Model/Conv.v): for EVERY conversion-factor record (float, rational, integer, complex ...), every base-unit
   list, dimension, coefficient, constant and value, evaluating the source IS the model function.
   A change to the association order, the comparison, the branch, the constant operation or the side of a
   coefficient in src/system.rs makes these statements fail to check. *)
From Coq Require Import ZArith List Bool String.
From UomV Require Import Model.Conv Model.ConvSrc Gen.ConvSrc.
Import ListNotations.

Theorem to_base_is_the_source :
  conv_shape_ok src_to_base ConsAdd = true
  /\ forall (T : Type) (F : CF T) U d coef cons v,
       eval_conv F src_to_base (base_factor F U d) coef cons v = Some (to_base F U d coef cons v).
Proof.
  split; [vm_compute; reflexivity|]. intros T F U d coef cons v.
  unfold eval_conv, to_base. cbn [eval_cond cs_cond src_to_base eval_term e_v e_f e_coef e_cons cs_then cs_else].
  destruct (cge F coef (base_factor F U d)); reflexivity.
Qed.

Theorem from_base_is_the_source :
  conv_shape_ok src_from_base ConsSub = true
  /\ forall (T : Type) (F : CF T) U d coef cons v,
       eval_conv F src_from_base (base_factor F U d) coef cons v = Some (from_base F U d coef cons v).
Proof.
  split; [vm_compute; reflexivity|]. intros T F U d coef cons v.
  unfold eval_conv, from_base. cbn [eval_cond cs_cond src_from_base eval_term e_v e_f e_coef e_cons cs_then cs_else].
  destruct (clt F coef (base_factor F U d)); reflexivity.
Qed.

Lemma fold_left_option_step {A B : Type} (f : A -> B -> A) (g : A -> B -> option A) (l : list B) (a : A) :
  (forall x y, g x y = Some (f x y)) ->
  fold_left (fun acc y => match acc with Some x => g x y | None => None end) l (Some a) = Some (fold_left f l a).
Proof. intros H. revert a. induction l as [|y l IH]; intros a; cbn [fold_left]; [reflexivity|]. rewrite H. apply IH. Qed.

Theorem change_base_is_the_source :
  rebase_shape_ok src_change_base = true
  /\ forall (T : Type) (F : CF T) Ul Ur d v,
       fold_left (fun acc p => match acc with Some x => eval_rebase_step F src_change_base x p | None => None end)
                 (combine (combine Ul Ur) d) (Some v)
       = Some (change_base F Ul Ur d v).
Proof.
  split; [vm_compute; reflexivity|]. intros T F Ul Ur d v. unfold change_base.
  apply fold_left_option_step. intros x [[ul ur] e].
  unfold eval_rebase_step, change_base_step.
  cbn [fst snd rs_r rs_l src_change_base eval_cond rs_cond eval_term e_r e_l e_v e_exp rs_then rs_else].
  destruct (ceq F ur ul); reflexivity.
Qed.

(* the three functions carry #[inline(always)] (zero cost depends on it) *)
Theorem conversions_are_inline_always :
  has_attr "inline(always)" (cs_attrs src_to_base) && has_attr "inline(always)" (cs_attrs src_from_base)
  && has_attr "inline(always)" (rs_attrs src_change_base) = true.
Proof. vm_compute. reflexivity. Qed.

(* struct Quantity: two phantom fields and the value, repr(transparent): size, alignment and ABI of the storage type *)
Theorem quantity_struct_is_transparent :
  struct_layout src_quantity_struct = {| lv_size_align_of_field := true; lv_abi := AbiAsField |}
  /\ map snd (ss_fields src_quantity_struct) = [FPhantom; FPhantom; FStorage].
Proof. split; vm_compute; reflexivity. Qed.
