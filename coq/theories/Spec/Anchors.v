(* C05 anchors: exactly defined units, written independently of the source tables (decimal-exact),
   and the seven-significant-digit class (NIST SP 811 roundings carried by the tables). *)
From Coq Require Import ZArith QArith List String.
Import ListNotations.
Open Scope string_scope.

Definition dec (m e : Z) : Q := if (0 <=? e)%Z then inject_Z (m * 10 ^ e) else Qmake m (Z.to_pos (10 ^ (- e))).

(* (module, unit, exact value) *)
Definition exact_anchors : list (string * string * Q) := [
  ("length", "meter", 1%Q); ("mass", "kilogram", 1%Q); ("time", "second", 1%Q);
  ("electric_current", "ampere", 1%Q); ("thermodynamic_temperature", "kelvin", 1%Q);
  ("amount_of_substance", "mole", 1%Q); ("luminous_intensity", "candela", 1%Q);
  ("length", "inch", dec 254 (-4)); ("length", "foot", dec 3048 (-4)); ("length", "yard", dec 9144 (-4));
  ("length", "mile", dec 1609344 (-3)); ("length", "nautical_mile", 1852%Q); ("length", "angstrom", dec 1 (-10));
  ("length", "kilometer", 1000%Q); ("length", "centimeter", dec 1 (-2)); ("length", "millimeter", dec 1 (-3));
  ("mass", "gram", dec 1 (-3)); ("mass", "ton", 1000%Q); ("mass", "carat", dec 2 (-4));
  ("time", "minute", 60%Q); ("time", "hour", 3600%Q); ("time", "day", 86400%Q); ("time", "year", 31536000%Q);
  ("time", "millisecond", dec 1 (-3));
  ("volume", "liter", dec 1 (-3)); ("area", "hectare", 10000%Q); ("area", "barn", dec 1 (-28));
  ("energy", "calorie", dec 4184 (-3)); ("energy", "calorie_it", dec 41868 (-4));
  ("energy", "electronvolt", dec 1602176634 (-28)); ("energy", "kilowatt_hour", 3600000%Q);
  ("energy", "erg", dec 1 (-7)); ("force", "dyne", dec 1 (-5)); ("force", "kilogram_force", dec 980665 (-5));
  ("acceleration", "standard_gravity", dec 980665 (-5));
  ("pressure", "atmosphere", 101325%Q); ("pressure", "bar", 100000%Q);
  ("electric_charge", "elementary_charge", dec 1602176634 (-28));
  ("temperature_interval", "kelvin", 1%Q); ("temperature_interval", "degree_celsius", 1%Q);
  ("temperature_interval", "degree_fahrenheit", (5 # 9)%Q);
  ("thermodynamic_temperature", "degree_celsius", 1%Q); ("thermodynamic_temperature", "degree_fahrenheit", (5 # 9)%Q);
  ("information", "byte", 1%Q); ("information", "bit", (1 # 8)%Q); ("information", "kibibyte", 1024%Q);
  ("information", "mebibyte", 1048576%Q);
  ("angle", "radian", 1%Q); ("angle", "revolution", dec 6283185307179586 (-15));
  ("ratio", "ratio", 1%Q); ("ratio", "percent", dec 1 (-2)); ("ratio", "part_per_million", dec 1 (-6));
  ("velocity", "speed_of_light_in_vacuum", 299792458%Q);
  ("frequency", "hertz", 1%Q); ("power", "watt", 1%Q); ("energy", "joule", 1%Q); ("force", "newton", 1%Q);
  ("pressure", "pascal", 1%Q);
  ("ratio", "part_per_hundred", dec 1 (-2)); ("ratio", "part_per_thousand", dec 1 (-3)); ("ratio", "per_mille", dec 1 (-3));
  ("ratio", "part_per_ten_thousand", dec 1 (-4)); ("ratio", "basis_point", dec 1 (-4)); ("ratio", "part_per_billion", dec 1 (-9));
  ("ratio", "part_per_trillion", dec 1 (-12)); ("ratio", "part_per_quadrillion", dec 1 (-15));
  ("solid_angle", "steradian", 1%Q)
].

(* fractions of a turn: pi to 21 digits; the tables carry 16-digit (mil: 7-digit) roundings, checked in the seven-digit class *)
Definition pi_q : Q := dec 314159265358979323846 (-20).
Definition turn_anchors : list (string * string * Q) := [
  ("angle", "revolution", 2 * pi_q); ("angle", "degree", pi_q / 180); ("angle", "gon", pi_q / 200); ("angle", "mil", pi_q / 3200);
  ("angle", "minute", pi_q / 10800); ("angle", "second", pi_q / 648000);
  ("solid_angle", "spat", 4 * pi_q); ("solid_angle", "square_degree", (pi_q / 180) * (pi_q / 180));
  ("solid_angle", "square_minute", (pi_q / 10800) * (pi_q / 10800)); ("solid_angle", "square_second", (pi_q / 648000) * (pi_q / 648000))
].

(* offsets of the two affine temperature scales *)
Definition offset_anchors : list (string * string * Q) := [
  ("thermodynamic_temperature", "degree_celsius", dec 27315 (-2));
  ("thermodynamic_temperature", "degree_fahrenheit", dec 45967 (-2))
].

(* defined values of which the tables carry a seven-significant-digit rounding: |rel| <= 5e-7 *)
Definition seven_digit_anchors : list (string * string * Q) := [
  ("mass", "pound", dec 45359237 (-8)); ("mass", "ounce", dec 28349523125 (-12));
  ("length", "astronomical_unit", 149597870700%Q); ("length", "light_year", 9460730472580800%Q);
  ("volume", "gallon", dec 3785411784 (-12)); ("volume", "cubic_inch", dec 16387064 (-12));
  ("force", "pound_force", dec 44482216152605 (-13)); ("mass", "grain", dec 6479891 (-11));
  ("length", "parsec", dec 30856775814913673 (0)); ("mass", "slug", dec 1459390294 (-8));
  ("pressure", "psi", dec 6894757293168 (-9)); ("energy", "btu_it", dec 105505585262 (-8))
].

(* prefixes: name, power of ten (decimal) or power of 1024 (binary) *)
Definition decimal_prefixes : list (string * Z) := [
  ("yotta", 24); ("zetta", 21); ("exa", 18); ("peta", 15); ("tera", 12); ("giga", 9); ("mega", 6); ("kilo", 3);
  ("hecto", 2); ("deca", 1); ("none", 0); ("deci", -1); ("centi", -2); ("milli", -3); ("micro", -6); ("nano", -9);
  ("pico", -12); ("femto", -15); ("atto", -18); ("zepto", -21); ("yocto", -24)]%Z.
(* prefixes a newer table may add (SI 2022): accepted when present, not required *)
Definition optional_decimal_prefixes : list (string * Z) := [("quetta", 30); ("ronna", 27); ("ronto", -27); ("quecto", -30)]%Z.
Definition binary_prefixes : list (string * Z) := [
  ("yobi", 8); ("zebi", 7); ("exbi", 6); ("pebi", 5); ("tebi", 4); ("gibi", 3); ("mebi", 2); ("kibi", 1)]%Z.
