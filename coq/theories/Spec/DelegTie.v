(* Every delegating method of the source calls the storage type's method of its own name on the stored value (rounding:
   on the value read in the unit, constructing in the unit again), with the expected argument and wrapper, and all
   of them are present.  Gen/DelegSrc.v is regenerated from the source on every run. *)
From Coq Require Import ZArith List Bool String.
From UomV Require Import Model.DelegSrc Gen.DelegSrc.
Import ListNotations.
Open Scope string_scope.

Theorem delegations_are_direct : forallb deleg_ok src_delegations = true.
Proof. vm_compute. reflexivity. Qed.
Theorem delegations_all_present :
  covers src_delegations "src/quantity.rs" (["new"; "get"] ++ rounding_fns)
  && covers src_delegations "src/si/angle.rs" ("atan2" :: angle_fns)
  && covers src_delegations "src/si/ratio.rs" (ratio_to_angle ++ ratio_to_ratio)
  && covers src_delegations "src/system.rs" (value_fns ++ predicate_fns ++ forwarded_fns) = true.
Proof. vm_compute. reflexivity. Qed.
