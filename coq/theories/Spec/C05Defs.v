(* C05: the boolean checkers the table theorems evaluate (kept apart from Props/C05.v so that, when a
   theorem no longer holds on the regenerated tables, the list-returning forms can still be evaluated
   to name the offending entry). *)
From Coq Require Import ZArith QArith Qabs List String Bool.
From UomV Require Import Model.Tables Spec.Names Spec.Anchors Gen.SiTables Gen.SiReadings Spec.RefAnchors.
Import ListNotations.
Open Scope string_scope.
Definition nist_rounded : list (string * string) := [
  ("volume", "acre_foot"); ("energy", "foot_poundal"); ("volume", "cubic_inch"); ("volume", "cubic_foot");
  ("volume", "cubic_yard"); ("energy", "foot_pound"); ("molar_energy", "foot_pound_force_per_mole");
  ("area", "square_yard"); ("area", "square_mile"); ("volume", "cubic_mile"); ("inverse_velocity", "minute_per_mile")].
Definition in_list (l : list (string * string)) (m n : string) : bool :=
  existsb (fun p => String.eqb (fst p) m && String.eqb (snd p) n) l.
Definition tol (m n : string) : Q := if in_list nist_rounded m n then (2 # 1000000)%Q else (1 # 1000000000000000)%Q.
Definition known : list (string * string) := [("thermal_conductance", "watt_per_meter_degree_celsius")].
Definition unit_vector (n i : nat) : list Z := map (fun k => if Nat.eqb k i then 1%Z else 0%Z) (seq 0 n).
Definition base_ok (i : nat) (b : base_decl) : bool :=
  match find_quantity si_quantities (b_quantity b) with
  | Some q => match find_unit q (b_unit b) with
              | Some u => Qeq_bool (coef_q u) 1 && match u_const u with None => true | Some _ => false end
                          && list_Z_eqb (q_dim q) (unit_vector (List.length si_base) i)
              | None => false end
  | None => false end.
Fixpoint forallb_i {A} (f : nat -> A -> bool) (i : nat) (l : list A) : bool :=
  match l with [] => true | x :: r => f i x && forallb_i f (S i) r end.
Definition has_coherent_unit (q : quantity_decl) : bool :=
  existsb (fun u => Qeq_bool (coef_q u) 1 && match u_const u with None => true | Some _ => false end) (q_units q).
Definition lookup_coef (m n : string) : option Q :=
  match find_quantity si_quantities m with
  | Some q => match find_unit q n with Some u => Some (coef_q u) | None => None end
  | None => None end.
Definition lookup_const (m n : string) : option Q :=
  match find_quantity si_quantities m with
  | Some q => match find_unit q n with Some u => Some (const_q u) | None => None end
  | None => None end.
Definition anchor_exact (a : string * string * Q) : bool :=
  match lookup_coef (fst (fst a)) (snd (fst a)) with Some c => Qeq_bool c (snd a) | None => false end.
Definition anchor_offset (a : string * string * Q) : bool :=
  match lookup_const (fst (fst a)) (snd (fst a)) with Some c => Qeq_bool c (snd a) | None => false end.
Definition anchor_seven (a : string * string * Q) : bool :=
  match lookup_coef (fst (fst a)) (snd (fst a)) with Some c => close_q (5 # 10000000) c (snd a) | None => false end.
Definition offset_units : list (string * string) :=
  flat_map (fun q => flat_map (fun u => match u_const u with Some _ => [(q_mod q, u_name u)] | None => [] end) (q_units q)) si_quantities.
Definition prefix_ok10 (p : string * Z) : bool :=
  match find (fun x => String.eqb (fst x) (fst p)) si_prefixes with
  | Some (_, e) => Qeq_bool (eval_q e) (dec 1 (snd p)) | None => false end.
Definition prefix_ok2 (p : string * Z) : bool :=
  match find (fun x => String.eqb (fst x) (fst p)) si_prefixes with
  | Some (_, e) => Qeq_bool (eval_q e) (inject_Z (1024 ^ snd p)) | None => false end.
(* every arm of the table is a prefix we know, with the value its name denotes *)
Definition prefix_known (x : string * cexpr) : bool :=
  existsb (fun p => String.eqb (fst p) (fst x) && Qeq_bool (eval_q (snd x)) (dec 1 (snd p))) (List.app decimal_prefixes optional_decimal_prefixes)
  || existsb (fun p => String.eqb (fst p) (fst x) && Qeq_bool (eval_q (snd x)) (inject_Z (1024 ^ snd p))) binary_prefixes.
Definition names_unique (q : quantity_decl) : bool :=
  (fix go (l : list unit_decl) := match l with [] => true | u :: r => negb (existsb (fun v => String.eqb (u_name v) (u_name u)) r) && go r end) (q_units q).

(* list-returning forms: the entries on which a table theorem fails *)
Definition failing_exact_anchors := map fst (filter (fun a => negb (anchor_exact a)) exact_anchors).
Definition failing_offset_anchors := map fst (filter (fun a => negb (anchor_offset a)) offset_anchors).
Definition failing_seven_digit_anchors := map fst (filter (fun a => negb (anchor_seven a)) seven_digit_anchors).
Definition failing_reference_values := map fst (filter (fun a => negb (anchor_exact a)) reference_values).
Definition failing_turn_anchors := map fst (filter (fun a => negb (anchor_seven a)) turn_anchors).
Definition failing_prefixes := List.app (List.app (map fst (filter (fun p => negb (prefix_ok10 p)) decimal_prefixes)) (map fst (filter (fun p => negb (prefix_ok2 p)) binary_prefixes)))
                                        (map fst (filter (fun x => negb (prefix_known x)) si_prefixes)).
Definition quantities_without_coherent_unit := map q_mod (filter (fun q => negb (has_coherent_unit q)) si_quantities).
Definition failing_base_units := map b_unit (filter (fun b => negb (existsb (fun i => base_ok i b) (seq 0 (List.length si_base)))) si_base).
