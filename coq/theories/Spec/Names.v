(* C05 specification: what a unit identifier SAYS the unit is.
   An identifier is a sequence of words joined by "_": other declared units' names (optionally with a
   glued SI/binary prefix), and the words per / square / cubic / squared / cubed / reciprocal.
   A reading is a certificate proposed by the translator; `check_reading` decides, from the tables
   alone, that it renders back to exactly the identifier and that the coefficient and the dimension
   it composes from the coefficients/dimensions of the units it names are those the unit declares. *)
From Coq Require Import ZArith QArith Qabs List String Bool.
From UomV Require Import Model.Tables.
Import ListNotations.
Open Scope string_scope.

Inductive item :=
| IUnit (pfx : option string) (written : string) (qmod : string) (declared : string)
| IPer | ISquare | ICubic | ISquared | ICubed | IReciprocal.
Definition reading := list item.

(* names that, inside a compound identifier, conventionally denote the force unit *)
Definition alias_ok (written declared : string) : bool :=
  String.eqb written declared
  || (String.eqb written "pound" && String.eqb declared "pound_force")
  || (String.eqb written "ounce" && String.eqb declared "ounce_force")
  || (String.eqb written "kilogram" && String.eqb declared "kilogram_force")
  || (String.eqb written "gram" && String.eqb declared "gram_force")
  || (String.eqb written "ton" && String.eqb declared "ton_force").

Definition item_word (i : item) : string :=
  match i with
  | IUnit (Some p) w _ _ => p ++ w
  | IUnit None w _ _ => w
  | IPer => "per" | ISquare => "square" | ICubic => "cubic"
  | ISquared => "squared" | ICubed => "cubed" | IReciprocal => "reciprocal"
  end.

Fixpoint render (r : reading) : string :=
  match r with
  | [] => ""
  | [i] => item_word i
  | i :: rest => item_word i ++ "_" ++ render rest
  end.

(* factors: (prefix, module, declared unit, signed power); None = ill-formed reading *)
Definition fac := (option string * string * string * Z)%type.

Fixpoint eval_items (r : reading) (first : bool) (sign pending : Z) (acc : list fac) : option (list fac) :=
  match r with
  | [] => if (pending =? 1)%Z then Some (rev acc) else None
  | IPer :: rest => if (pending =? 1)%Z then eval_items rest false (-1) 1 acc else None
  | IReciprocal :: rest => if first then eval_items rest false (-1) 1 acc else None
  | ISquare :: rest => if (pending =? 1)%Z then eval_items rest false sign 2 acc else None
  | ICubic :: rest => if (pending =? 1)%Z then eval_items rest false sign 3 acc else None
  | IUnit p w m d :: rest =>
      if alias_ok w d then eval_items rest false sign 1 ((p, m, d, (sign * pending)%Z) :: acc) else None
  | ISquared :: rest =>
      match acc with
      | (p, m, d, w) :: acc' => if (Z.abs w =? 1)%Z then eval_items rest false sign pending ((p, m, d, (w * 2)%Z) :: acc') else None
      | [] => None
      end
  | ICubed :: rest =>
      match acc with
      | (p, m, d, w) :: acc' => if (Z.abs w =? 1)%Z then eval_items rest false sign pending ((p, m, d, (w * 3)%Z) :: acc') else None
      | [] => None
      end
  end.

Definition factors (r : reading) : option (list fac) := eval_items r true 1 1 [].

(* a single un-prefixed unit word is the unit itself (or a bare alias), not a composition *)
Definition is_composition (r : reading) : bool :=
  match r with
  | [IUnit None _ _ _] => false
  | [] => false
  | _ => true
  end.

Section Tables.
Variable qs : list quantity_decl.
Variable prefixes : list (string * cexpr).

Definition prefix_q (p : option string) : option Q :=
  match p with
  | None => Some 1%Q
  | Some n => match find (fun x => String.eqb (fst x) n) prefixes with
              | Some (_, e) => Some (eval_q e)
              | None => None
              end
  end.

Definition qpow (a : Q) (e : Z) : Q := Qred (Qpower a e).

(* coefficient and dimension a list of factors composes to *)
Fixpoint compose (fs : list fac) (n : nat) : option (Q * list Z) :=
  match fs with
  | [] => Some (1%Q, repeat 0%Z n)
  | (p, m, d, w) :: rest =>
    match compose rest n, find_quantity qs m, prefix_q p with
    | Some (c, dim), Some q, Some pv =>
      match find_unit q d with
      | Some u =>
        match u_const u with
        | None =>
          Some (Qred (qpow (Qred (pv * coef_q u)) w * c),
                map (fun xy => (fst xy + snd xy * w)%Z) (combine dim (q_dim q)))
        | Some _ => None          (* a unit with an offset cannot be a factor *)
        end
      | None => None
      end
    | _, _, _ => None
    end
  end.

(* |a - b| <= tol * |b| *)
Definition close_q (tol a b : Q) : bool := Qle_bool (Qabs (a - b)) (tol * Qabs b).

Definition check_reading (tol : Q) (q : quantity_decl) (u : unit_decl) (r : reading) : bool :=
  is_composition r
  && String.eqb (render r) (u_name u)
  && match factors r with
     | Some fs =>
       negb (match fs with [(None, m, d, 1%Z)] => String.eqb m (q_mod q) && String.eqb d (u_name u) | _ => false end)
       && match compose fs (List.length (q_dim q)) with
          | Some (c, dim) => list_Z_eqb dim (q_dim q) && close_q tol c (coef_q u) && negb (match u_const u with Some _ => true | None => false end)
          | None => false
          end
     | None => false
     end.

Definition coherent (tol : Q) (q : quantity_decl) (u : unit_decl) (rs : list reading) : bool :=
  existsb (check_reading tol q u) rs.

(* the list-returning checker: which units with a proposed reading are NOT coherent *)
Definition incoherent (tol : string -> string -> Q) (known : string -> string -> bool)
    (cert : list (string * string * list reading)) : list (string * string) :=
  flat_map (fun row =>
    let '(m, n, rs) := row in
    match find_quantity qs m with
    | Some q => match find_unit q n with
                | Some u => if known m n || coherent (tol m n) q u rs then [] else [(m, n)]
                | None => [(m, n)]
                end
    | None => [(m, n)]
    end) cert.
End Tables.
