(* The operator layer of the source has the shape Model.Quantity gives it (Gen/OpsSrc.v is regenerated from
   src/system.rs and src/si/*.rs on every run): see Model/OpsSrc.v for the predicates. *)
From Coq Require Import ZArith List Bool String.
From UomV Require Import Model.OpsSrc Gen.OpsSrc.
Import ListNotations.

(* every re-basing function: under autoconvert each quantity argument is re-based from its own base units into
   Self's with its own dimension and nothing else is; its operator is the one the function name announces; the
   generic operator traits are bounded by their own marker *)
Theorem operator_sources_have_the_model_shape : forallb shape_ok src_ops = true.
Proof. vm_compute. reflexivity. Qed.

(* the not_autoconvert twin of each of them is the same expression on the bare stored values (C17) *)
Theorem operator_twins_differ_only_by_rebasing : twins_ok src_ops = true.
Proof. vm_compute. reflexivity. Qed.

Theorem impl_ops_invocations_coherent : forallb (fun i => invocation_ok (snd i)) src_impl_ops_invocations = true.
Proof. vm_compute. reflexivity. Qed.

(* the table is not empty: the binary operators, comparisons, hypot, mul_add, From and the temperature operators are all there *)
Theorem operator_table_covers :
  forallb (fun f => existsb (fun e => String.eqb (os_fn e) f) src_ops)
          ["$addsub_fun"; "$addsubassign_fun"; "$muldiv_fun"; "rem"; "rem_assign"; "eq"; "partial_cmp"; "lt"; "le"; "gt"; "ge"; "hypot"; "mul_add"; "from"; "add"]%string
  && (30 <=? List.length src_ops)%nat = true.
Proof. vm_compute. reflexivity. Qed.

(* the dimension algebra written in the result types of the source is the one Model.Typing implements *)
Theorem source_dimension_rules_are_the_model_rules :
  dim_rules_ok src_dim_rules = true
  /\ muldiv_aliases src_impl_ops_invocations = [("Mul", "Sum"); ("Div", "Diff")]%string.
Proof. split; vm_compute; reflexivity. Qed.
