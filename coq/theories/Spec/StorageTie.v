(* The per-storage-class plumbing of src/lib.rs that Model/Storages.v transcribes (StF: identity conversion, constants -0.0 / +0.0,
   Float::powi; StZ: T = Ratio<V>, value = to_integer (truncation), powi by recip + pow for the big integers; StQ: identity,
   recip + pow; StC: conversion = norm, value = (x, 0)) and of the unit! macro of src/unit.rs (how coefficient() / constant() are built from
   the table expressions for each storage class, the @coefficient / @constant arms with the -0.0 / +0.0 identity constants, what the
   public arm forwards), pinned as normalised token text.  Gen/StorageSrc.v is regenerated from
   src/lib.rs on every run; any edit of these bodies has to be reflected in Model/Storages.v and here. *)
From Coq Require Import List String.
From UomV Require Import Gen.StorageSrc.
Import ListNotations.
Open Scope string_scope.

Definition expected_storage : list (string * string * string * string) := [
  ("Float", "Conversion<Self>forV", "type T", "Self");
  ("Float", "Conversion<Self>forV", "fn constant(op:ConstantOp)->Self::T", "matchop{ConstantOp::Add=>-<Self::TasZero>::zero(),ConstantOp::Sub=><Self::TasZero>::zero(),}");
  ("Float", "Conversion<Self>forV", "fn conversion(&self)->Self::T", "*self");
  ("Float", "ConversionFactor<Self>forV", "fn powi(self,e:i32)->Self", "<SelfasFloat>::powi(self,e)");
  ("Float", "ConversionFactor<Self>forV", "fn value(self)->Self", "self");
  ("Float", "ConstZeroforV", "const ZERO", ":Self=0.0");
  ("PrimInt", "Conversion<V>forV", "type T", "Ratio<V>");
  ("PrimInt", "Conversion<V>forV", "fn conversion(&self)->Self::T", "(*self).into()");
  ("PrimInt", "ConversionFactor<V>forRatio<V>", "fn powi(self,e:i32)->Self", "self.pow(e)");
  ("PrimInt", "ConversionFactor<V>forRatio<V>", "fn value(self)->V", "self.to_integer()");
  ("PrimInt", "ConstZeroforV", "const ZERO", ":Self=0");
  ("BigInt,BigUint", "Conversion<V>forV", "type T", "Ratio<V>");
  ("BigInt,BigUint", "Conversion<V>forV", "fn conversion(&self)->Self::T", "self.clone().into()");
  ("BigInt,BigUint", "ConversionFactor<V>forRatio<V>", "fn powi(self,e:i32)->Self", "matche.cmp(&0){Equal=><SelfasOne>::one(),Less=>pow(self.recip(),(-e)asusize),Greater=>pow(self,easusize),}");
  ("BigInt,BigUint", "ConversionFactor<V>forRatio<V>", "fn value(self)->V", "self.to_integer()");
  ("Rational,Rational32,Rational64", "Conversion<V>forV", "type T", "V");
  ("Rational,Rational32,Rational64", "Conversion<V>forV", "fn conversion(&self)->Self::T", "*self");
  ("Rational,Rational32,Rational64", "ConversionFactor<V>forV", "fn powi(self,e:i32)->Self", "self.pow(e)");
  ("Rational,Rational32,Rational64", "ConversionFactor<V>forV", "fn value(self)->V", "self");
  ("BigRational", "Conversion<V>forV", "type T", "V");
  ("BigRational", "Conversion<V>forV", "fn conversion(&self)->Self::T", "self.clone()");
  ("BigRational", "ConversionFactor<V>forV", "fn powi(self,e:i32)->Self", "matche.cmp(&0){Equal=><SelfasOne>::one(),Less=>pow(self.recip(),(-e)asusize),Greater=>pow(self,easusize),}");
  ("BigRational", "ConversionFactor<V>forV", "fn value(self)->V", "self");
  ("Complex", "Conversion<V>forV", "type T", "VV");
  ("Complex", "Conversion<V>forV", "fn constant(op:ConstantOp)->Self::T", "matchop{ConstantOp::Add=>-<Self::TasZero>::zero(),ConstantOp::Sub=><Self::TasZero>::zero(),}");
  ("Complex", "Conversion<V>forV", "fn conversion(&self)->Self::T", "self.norm()");
  ("Complex", "ConversionFactor<V>forVV", "fn powi(self,e:i32)->Self", "self.powi(e)");
  ("Complex", "ConversionFactor<V>forVV", "fn value(self)->V", "V::new(self,0.0)");
  ("default", "traitConversion<V>", "fn coefficient", "<Self::TasOne>::one()");
  ("default", "traitConversion<V>", "fn constant", "<Self::TasZero>::zero()");
  ("default", "traitConversion<V>", "fn conversion", "Self::coefficient()");
  ("unit!:Float", "", "type T", "V");
  ("unit!:Float", "", "fn coefficient", "unit!(@coefficient$($conversion),+)");
  ("unit!:Float", "", "fn constant", "unit!(@constantop$($conversion),+)");
  ("unit!:PrimInt,BigInt", "", "type T", "Ratio<V>");
  ("unit!:PrimInt,BigInt", "", "fn from_f64", "<TasFromPrimitive>::from_f64(value).unwrap()");
  ("unit!:PrimInt,BigInt", "", "type T", "T");
  ("unit!:PrimInt,BigInt", "", "fn coefficient", "from_f64(unit!(@coefficient$($conversion),+))");
  ("unit!:PrimInt,BigInt", "", "fn constant", "from_f64(unit!(@constantop$($conversion),+))");
  ("unit!:BigUint", "", "type T", "Ratio<V>");
  ("unit!:BigUint", "", "fn from_f64", "useFromPrimitive;letc=Ratio::<BigInt>::from_f64(value).unwrap();T::new(c.numer().to_biguint().unwrap(),c.denom().to_biguint().unwrap())");
  ("unit!:BigUint", "", "type T", "T");
  ("unit!:BigUint", "", "fn coefficient", "from_f64(unit!(@coefficient$($conversion),+))");
  ("unit!:BigUint", "", "fn constant", "from_f64(unit!(@constantop$($conversion),+))");
  ("unit!:Ratio", "", "fn from_f64", "<VasFromPrimitive>::from_f64(value).unwrap()");
  ("unit!:Ratio", "", "type T", "V");
  ("unit!:Ratio", "", "fn coefficient", "from_f64(unit!(@coefficient$($conversion),+))");
  ("unit!:Ratio", "", "fn constant", "from_f64(unit!(@constantop$($conversion),+))");
  ("unit!:Complex", "", "type T", "VV");
  ("unit!:Complex", "", "fn coefficient", "unit!(@coefficient$($conversion),+)");
  ("unit!:Complex", "", "fn constant", "unit!(@constantop$($conversion),+)");
  ("unit!:public arm", "system:$system:path;quantity:$quantity:path;$($(#[$unit_attr:meta])*@$unit:ident:$($conversion:expr),+;$abbreviation:expr,$singular:expr,$plural:expr;)+", "=>", "use$systemas__system;use$quantityas__quantity;use__quantity::{Conversion,Unit};unit!(@units$($(#[$unit_attr])*@$unit:$($conversion),+;$abbreviation,$singular,$plural;)+);");
  ("unit!:arm", "@coefficient$factor:expr,$const:expr", "=>", "#[allow(clippy::eq_op)]{$factor}");
  ("unit!:arm", "@coefficient$factor:expr", "=>", "#[allow(clippy::eq_op)]{$factor}");
  ("unit!:arm", "@constant$op:ident$factor:expr,$const:expr", "=>", "$const");
  ("unit!:arm", "@constant$op:ident$factor:expr", "=>", "match$op{ConstantOp::Add=>-0.0,ConstantOp::Sub=>0.0,}")
].


Definition row_eqb (a b : string * string * string * string) : bool :=
  let '(a1, a2, a3, a4) := a in let '(b1, b2, b3, b4) := b in
  String.eqb a1 b1 && String.eqb a2 b2 && String.eqb a3 b3 && String.eqb a4 b4.
(* the same rows, in any order (moving an impl block or a macro arm is not a change) *)
Definition count_row (r : string * string * string * string) (l : list (string * string * string * string)) : nat :=
  List.length (filter (row_eqb r) l).
Definition rows_eqb (l l' : list (string * string * string * string)) : bool :=
  Nat.eqb (List.length l) (List.length l') && forallb (fun r => Nat.eqb (count_row r l) (count_row r l')) l.
(* the rows of one storage class *)
Definition class_rows (c : string) (l : list (string * string * string * string)) := filter (fun r => String.eqb (fst (fst (fst r))) c) l.
(* class by class for the classes the model knows (a further storage class added to the source is not the model's business) *)
Definition known_classes : list string :=
  ["Float"; "PrimInt"; "BigInt,BigUint"; "Rational,Rational32,Rational64"; "BigRational"; "Complex"; "default";
   "unit!:Float"; "unit!:PrimInt,BigInt"; "unit!:BigUint"; "unit!:Ratio"; "unit!:Complex"; "unit!:arm"; "unit!:public arm"].
Theorem storage_plumbing_is_what_the_model_transcribes :
  forallb (fun c => rows_eqb (class_rows c src_storage) (class_rows c expected_storage)) known_classes = true.
Proof. vm_compute. reflexivity. Qed.
