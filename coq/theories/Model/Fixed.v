(* Fixed-width exact storage (Rational32/64, Rational = Ratio<isize>, i8..i64, u8..u64, isize, usize;
   src/lib.rs:552-575 and 609-631): the conversion-factor type is num-rational's Ratio<iN>, whose
   arithmetic is carried out in the machine integer type and panics (debug build: arithmetic overflow,
   "denominator == 0", "division by zero") as soon as one intermediate leaves the type's range.

   This file transcribes, operation by operation, what num-rational 0.4 / num-integer 0.1 / core do
       Ratio::new + reduce, Mul, Div, Add, Sub (gcd / lcm pre-reduction), into_recip, Pow<i32>, Ord::cmp,
       From<T>, to_integer; Integer::gcd (Stein, |MIN| unrepresentable), Integer::lcm; iN::pow
   with every machine operation checked against the range [lo, hi]: `None` = the implementation
   panics.  The three conversion functions of Model.Conv run over it unchanged (CFw below), so
   "no intermediate overflows" (C08) is a computed fact about a case, not an estimate.
   Executable Gallina only.  The dependencies' algorithms are modelled (validated by the C08
   correspondence on edge values), not verified. *)
From Coq Require Import ZArith List Bool.
From UomV Require Import Model.Conv Model.Quantity.
Import ListNotations.
Open Scope Z_scope.

Definition obind {A B : Type} (x : option A) (f : A -> option B) : option B :=
  match x with Some a => f a | None => None end.
Notation "x <- a ;; b" := (obind a (fun x => b)) (at level 61, a at next level, right associativity).

Section W.
Variables lo hi : Z.           (* iN: lo = -2^(N-1), hi = 2^(N-1)-1;  uN: lo = 0, hi = 2^N-1 *)

(* a machine integer result: representable, or the operation panics *)
Definition ck (z : Z) : option Z := if (lo <=? z) && (z <=? hi) then Some z else None.

Definition iadd (a b : Z) : option Z := ck (a + b).
Definition isub (a b : Z) : option Z := ck (a - b).
Definition imul (a b : Z) : option Z := ck (a * b).
Definition idiv (a b : Z) : option Z := if b =? 0 then None else ck (Z.quot a b).   (* MIN / -1 overflows *)
Definition iabs (a : Z) : option Z := ck (Z.abs a).                                  (* MIN.abs() overflows *)
(* Integer::gcd (Stein's algorithm): the mathematical gcd; panics exactly when that is |MIN| *)
Definition igcd (a b : Z) : option Z := ck (Z.gcd a b).
(* Integer::lcm = gcd_lcm().1 = (self * (other / gcd)).abs(), 0 for (0, 0) *)
Definition ilcm (a b : Z) : option Z :=
  if (a =? 0) && (b =? 0) then Some 0 else
  g <- igcd a b ;; q <- idiv b g ;; p <- imul a q ;; iabs p.
(* iN::pow(self, u32): square-and-multiply whose partial products are powers with a smaller exponent,
   so it overflows exactly when the result does *)
Definition ipow (a : Z) (k : Z) : option Z := ck (a ^ k).

(* Ratio<iN> as (numer, denom) *)
Definition ratio : Type := (Z * Z)%type.

(* Ratio::new = new_raw + reduce *)
Definition rnew (n d : Z) : option ratio :=
  if d =? 0 then None else
  if n =? 0 then Some (0, 1) else
  if n =? d then Some (1, 1) else
  g <- igcd n d ;; n1 <- idiv n g ;; d1 <- idiv d g ;;
  if d1 <? 0 then n2 <- isub 0 n1 ;; d2 <- isub 0 d1 ;; Some (n2, d2) else Some (n1, d1).

(* a/b * c/d = (a/gcd_ad)*(c/gcd_bc) / ((b/gcd_bc)*(d/gcd_ad)) *)
Definition rmul (x y : ratio) : option ratio :=
  let '(a, b) := x in let '(c, d) := y in
  gad <- igcd a d ;; gbc <- igcd b c ;;
  a1 <- idiv a gad ;; c1 <- idiv c gbc ;; n <- imul a1 c1 ;;
  b1 <- idiv b gbc ;; d1 <- idiv d gad ;; m <- imul b1 d1 ;;
  rnew n m.

(* (a/b) / (c/d) = (a/gcd_ac)*(d/gcd_bd) / ((b/gcd_bd)*(c/gcd_ac)) *)
Definition rdiv (x y : ratio) : option ratio :=
  let '(a, b) := x in let '(c, d) := y in
  gac <- igcd a c ;; gbd <- igcd b d ;;
  a1 <- idiv a gac ;; d1 <- idiv d gbd ;; n <- imul a1 d1 ;;
  b1 <- idiv b gbd ;; c1 <- idiv c gac ;; m <- imul b1 c1 ;;
  rnew n m.

(* arith_impl!: equal denominators, else through the lcm of the denominators *)
Definition raddsub (op : Z -> Z -> option Z) (x y : ratio) : option ratio :=
  let '(a, b) := x in let '(c, d) := y in
  if b =? d then n <- op a c ;; rnew n d else
  l <- ilcm b d ;;
  q1 <- idiv l b ;; ln <- imul a q1 ;;
  q2 <- idiv l d ;; rn <- imul c q2 ;;
  n <- op ln rn ;; rnew n l.
Definition radd := raddsub iadd.
Definition rsub := raddsub isub.

(* into_recip *)
Definition rrecip (x : ratio) : option ratio :=
  let '(a, b) := x in
  match a ?= 0 with
  | Eq => None
  | Gt => Some (b, a)
  | Lt => b1 <- isub 0 b ;; a1 <- isub 0 a ;; Some (b1, a1)
  end.

(* Pow<i32> for Ratio<T>: 0 -> one; e < 0 -> pow(|e|) then into_recip; e > 0 -> new_raw(numer^e, denom^e) *)
Definition rpow (x : ratio) (e : Z) : option ratio :=
  let '(a, b) := x in
  match e with
  | Z0 => Some (1, 1)
  | Zpos _ => n <- ipow a e ;; m <- ipow b e ;; Some (n, m)
  | Zneg _ => n <- ipow a (- e) ;; m <- ipow b (- e) ;; rrecip (n, m)
  end.

(* Ord::cmp never overflows (integer parts, then reciprocals of the remainders): the exact order.
   Denominators are positive. *)
Definition rcmp (x y : ratio) : comparison := (fst x * snd y) ?= (fst y * snd x).

(* ---- the conversion-factor operations over Ratio<iN>; None is absorbing ---- *)
Definition wr : Type := option ratio.
Definition lift2 (f : ratio -> ratio -> option ratio) (x y : wr) : wr := a <- x ;; b <- y ;; f a b.
Definition wcmp (f : comparison -> bool) (x y : wr) : bool :=
  match x, y with Some a, Some b => f (rcmp a b) | _, _ => false end.

Definition CFw : CF wr :=
  mkCF wr (lift2 radd) (lift2 rsub) (lift2 rmul) (lift2 rdiv)
    (wcmp (fun c => match c with Lt => true | _ => false end))
    (wcmp (fun c => match c with Lt => false | _ => true end))
    (wcmp (fun c => match c with Eq => true | _ => false end))
    (fun x e => a <- x ;; rpow a e)
    (Some (1, 1)).

(* Rational32 / Rational64 / Rational: V = T = Ratio<iN>, conversion = value = identity *)
Definition StQw : Storage := mkStorage wr wr (fun v => v) (fun t => t) CFw.

(* iN / uN: V = iN, T = Ratio<iN>; conversion = From<T> = new_raw(t, 1); value = to_integer = numer / denom *)
Definition StZw : Storage :=
  mkStorage (option Z) wr (fun v => z <- v ;; Some (z, 1)) (fun t => p <- t ;; idiv (fst p) (snd p)) CFw.

End W.

(* ---- entry points for the runner: [0] = panics, [1; n; d] / [1; z] = the value ---- *)
Inductive wreq :=
| WNew (lo hi : Z) (int : bool) (U : list ratio) (d : list Z) (coef cons : ratio) (v : ratio)
| WGet (lo hi : Z) (int : bool) (U : list ratio) (d : list Z) (coef cons : ratio) (v : ratio)
| WRebase (lo hi : Z) (int : bool) (Ul Ur : list ratio) (d : list Z) (v : ratio)
(* one Ratio<iN> operation on its own (the tie of this file to num-rational):
   0 mul, 1 div, 2 add, 3 sub, 4 cmp, 5 pow (exponent = fst y), 6 to_integer, 7 Ratio::new(fst x, snd x) *)
| WPrim (lo hi : Z) (op : Z) (x y : ratio).

Definition wout_q (x : wr) : list Z := match x with Some (n, d) => [1; n; d] | None => [0] end.
Definition wout_z (x : option Z) : list Z := match x with Some z => [1; z] | None => [0] end.

Definition w_run (r : wreq) : list Z :=
  match r with
  | WNew lo hi false U d k c v => wout_q (q_new (StQw lo hi) (map Some U) d (Some k) (Some c) (Some v))
  | WNew lo hi true U d k c v => wout_z (q_new (StZw lo hi) (map Some U) d (Some k) (Some c) (Some (fst v)))
  | WGet lo hi false U d k c v => wout_q (q_get (StQw lo hi) (map Some U) d (Some k) (Some c) (Some v))
  | WGet lo hi true U d k c v => wout_z (q_get (StZw lo hi) (map Some U) d (Some k) (Some c) (Some (fst v)))
  | WRebase lo hi false Ul Ur d v => wout_q (rebase (StQw lo hi) true (map Some Ul) (map Some Ur) d (Some v))
  | WRebase lo hi true Ul Ur d v => wout_z (rebase (StZw lo hi) true (map Some Ul) (map Some Ur) d (Some (fst v)))
  | WPrim lo hi op x y =>
      match op with
      | 0 => wout_q (rmul lo hi x y) | 1 => wout_q (rdiv lo hi x y)
      | 2 => wout_q (radd lo hi x y) | 3 => wout_q (rsub lo hi x y)
      | 4 => [1; match rcmp x y with Lt => -1 | Eq => 0 | Gt => 1 end]
      | 5 => wout_q (rpow lo hi x (fst y))
      | 6 => wout_z (idiv lo hi (fst x) (snd x))
      | _ => wout_q (rnew lo hi (fst x) (snd x))
      end
  end.
