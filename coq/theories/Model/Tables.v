(* Data types of the declarative tables that the translator regenerates from /repo on every run
   (Gen/SiTables.v), and their exact-rational reading.  Executable Gallina only. *)
From Coq Require Import ZArith NArith QArith List String Bool.
Import ListNotations.
Open Scope Z_scope.

(* A conversion expression exactly as written in a `@unit: expr[, expr];` line:
   decimal literals are kept as mantissa * 10^exp10 (no rounding), prefix!(p) is kept with its
   name and the macro arm it expands to. *)
Inductive cexpr :=
| ELit (m : Z) (e10 : Z)
| EMul (a b : cexpr)
| EDiv (a b : cexpr)
| ENeg (a : cexpr)
| EPre (name : string) (body : cexpr).

Inductive marker :=
| MAdd | MAddAssign | MSub | MSubAssign | MMul | MMulAssign | MDiv | MDivAssign
| MNeg | MRem | MRemAssign | MSaturating.

Definition marker_eqb (a b : marker) : bool :=
  match a, b with
  | MAdd, MAdd | MAddAssign, MAddAssign | MSub, MSub | MSubAssign, MSubAssign
  | MMul, MMul | MMulAssign, MMulAssign | MDiv, MDiv | MDivAssign, MDivAssign
  | MNeg, MNeg | MRem, MRem | MRemAssign, MRemAssign | MSaturating, MSaturating => true
  | _, _ => false
  end.

Record base_decl := { b_quantity : string; b_unit : string; b_symbol : string }.
Record kind_decl := { k_name : string; k_markers : list marker; k_inherits : bool }.

Record unit_decl := {
  u_name : string;
  u_coef : cexpr;
  u_const : option cexpr;
  u_abbr : list N;   (* Unicode code points *)
  u_sing : list N;
  u_plur : list N }.

Record quantity_decl := {
  q_mod : string;
  q_alias : string;
  q_dim : list Z;
  q_kind : string;
  q_units : list unit_decl }.

(* ---- exact rational value of a conversion expression ---- *)

Definition pow10 (e : Z) : Q :=
  if 0 <=? e then inject_Z (10 ^ e) else Qinv (inject_Z (10 ^ (- e))).

Fixpoint eval_q (e : cexpr) : Q :=
  match e with
  | ELit m e10 => Qred (inject_Z m * pow10 e10)
  | EMul a b => Qred (eval_q a * eval_q b)
  | EDiv a b => Qred (eval_q a / eval_q b)
  | ENeg a => Qred (- eval_q a)
  | EPre _ b => eval_q b
  end.

Definition coef_q (u : unit_decl) : Q := eval_q (u_coef u).
Definition const_q (u : unit_decl) : Q :=
  match u_const u with Some c => eval_q c | None => 0%Q end.

(* number of arithmetic operations in an expression (for rounding bounds) *)
Fixpoint cexpr_ops (e : cexpr) : nat :=
  match e with
  | ELit _ _ => 0
  | EMul a b | EDiv a b => S (cexpr_ops a + cexpr_ops b)
  | ENeg a => cexpr_ops a
  | EPre _ b => cexpr_ops b
  end.

(* ---- lookups ---- *)

Definition find_quantity (qs : list quantity_decl) (m : string) : option quantity_decl :=
  find (fun q => String.eqb (q_mod q) m) qs.

Definition find_unit (q : quantity_decl) (n : string) : option unit_decl :=
  find (fun u => String.eqb (u_name u) n) (q_units q).

Definition find_kind (ks : list kind_decl) (n : string) : option kind_decl :=
  find (fun k => String.eqb (k_name k) n) ks.

Definition kind_has (ks : list kind_decl) (k : string) (m : marker) : bool :=
  match find_kind ks k with
  | Some d => existsb (marker_eqb m) (k_markers d)
  | None => false
  end.

Definition list_Z_eqb (a b : list Z) : bool :=
  (Nat.eqb (List.length a) (List.length b)) && forallb (fun p => Z.eqb (fst p) (snd p)) (combine a b).

Definition list_N_eqb (a b : list N) : bool :=
  (Nat.eqb (List.length a) (List.length b)) && forallb (fun p => N.eqb (fst p) (snd p)) (combine a b).

Lemma list_Z_eqb_eq a b : list_Z_eqb a b = true <-> a = b.
Proof.
  unfold list_Z_eqb. revert b. induction a as [|x a IH]; intros [|y b]; simpl; split; intro H;
    try reflexivity; try discriminate.
  - apply andb_true_iff in H. destruct H as [Hl H].
    apply andb_true_iff in H. destruct H as [Hx H]. apply Z.eqb_eq in Hx. subst y.
    f_equal. apply IH. simpl in Hl. rewrite Hl. exact H.
  - injection H as -> ->. destruct (IH b) as [_ IH']. specialize (IH' eq_refl).
    apply andb_true_iff in IH'. destruct IH' as [Hl H]. simpl. rewrite Hl, Z.eqb_refl, H. reflexivity.
Qed.

Lemma list_N_eqb_eq a b : list_N_eqb a b = true <-> a = b.
Proof.
  unfold list_N_eqb. revert b. induction a as [|x a IH]; intros [|y b]; simpl; split; intro H;
    try reflexivity; try discriminate.
  - apply andb_true_iff in H. destruct H as [Hl H].
    apply andb_true_iff in H. destruct H as [Hx H]. apply N.eqb_eq in Hx. subst y.
    f_equal. apply IH. simpl in Hl. rewrite Hl. exact H.
  - injection H as -> ->. destruct (IH b) as [_ IH']. specialize (IH' eq_refl).
    apply andb_true_iff in IH'. destruct IH' as [Hl H]. simpl. rewrite Hl, N.eqb_refl, H. reflexivity.
Qed.
