(* serde (src/system.rs serde!): Serialize forwards to value.serialize(serializer); Deserialize reads a V
   with the same deserializer and wraps it.  A quantity's run-time state is its stored value; the
   dimension and the base units are phantom.  The storage type's own serialization is a parameter. *)
From Coq Require Import List ZArith.

Record quantity (V : Type) := mkQ { q_dim : list Z; q_base : list nat; q_val : V }.
Arguments mkQ {V}. Arguments q_dim {V}. Arguments q_base {V}. Arguments q_val {V}.

Section S.
Context {V Doc : Type} (serV : V -> Doc) (deV : Doc -> option V).
Definition q_serialize (q : quantity V) : Doc := serV (q_val q).
Definition q_deserialize (d : list Z) (b : list nat) (x : Doc) : option (quantity V) :=
  match deV x with Some v => Some (mkQ d b v) | None => None end.
End S.
