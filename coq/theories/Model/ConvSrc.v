(* The SOURCE of uom's three conversion functions and of `struct Quantity`, as syntax trees that the
   translator (translator/convbody.py) regenerates from src/system.rs on every run, with evaluators over any
   conversion-factor record.  Spec/ConvTie.v proves the evaluated source equal to Model.Conv's functions, so
   every theorem about to_base / from_base / change_base is a theorem about what the source says now.
   Also: the layout rule of Rust's `repr` attributes for a struct of phantom fields and one storage field.
   Executable Gallina only. *)
From Coq Require Import ZArith List Bool String.
From UomV Require Import Model.Conv.
Import ListNotations.

(* arithmetic over the local names of the function bodies *)
Inductive cterm :=
| TV | TF | TCoef | TCons                  (* v, f, n_coef, n_cons          (to_base / from_base) *)
| TR | TL                                  (* r, l                           (change_base step)    *)
| TPowi (a : cterm)                        (* a.powi(D::$symbol::to_i32())                         *)
| TAdd (a b : cterm) | TSub (a b : cterm) | TMul (a b : cterm) | TDiv (a b : cterm).
Inductive ccond := CLt (a b : cterm) | CLe (a b : cterm) | CGt (a b : cterm) | CGe (a b : cterm) | CEq (a b : cterm) | CNe (a b : cterm).
Inductive cons_op := ConsAdd | ConsSub | ConsUnknown.
Inductive side := SideLeft | SideRight | SideUnknown.

Record conv_src := {
  cs_v_converted : bool;         (* let v = v.conversion();                                            *)
  cs_coef_is_unit : bool;        (* let n_coef = N::coefficient();                                     *)
  cs_f_is_base_product : bool;   (* let f = V::coefficient() $( times U::$name::coefficient().powi(D::$symbol::to_i32()))+; *)
  cs_lets_in_order : bool;
  cs_cons : cons_op;             (* N::constant(ConstantOp::Add | Sub)                                 *)
  cs_value_taken : bool;         (* both branches end in .value()                                      *)
  cs_cond : ccond; cs_then : cterm; cs_else : cterm;
  cs_attrs : list string }.
Record rebase_src := {
  rs_v_converted : bool; rs_r : side; rs_l : side; rs_value_taken : bool;
  rs_cond : ccond; rs_then : cterm; rs_else : cterm; rs_attrs : list string }.

Section Eval.
Context {T : Type} (F : CF T).
Record env := { e_v : T; e_f : T; e_coef : T; e_cons : T; e_r : T; e_l : T; e_exp : Z }.
Fixpoint eval_term (E : env) (t : cterm) : T :=
  match t with
  | TV => e_v E | TF => e_f E | TCoef => e_coef E | TCons => e_cons E | TR => e_r E | TL => e_l E
  | TPowi a => cpowi F (eval_term E a) (e_exp E)
  | TAdd a b => cadd F (eval_term E a) (eval_term E b)
  | TSub a b => csub F (eval_term E a) (eval_term E b)
  | TMul a b => cmul F (eval_term E a) (eval_term E b)
  | TDiv a b => cdiv F (eval_term E a) (eval_term E b)
  end.
(* only the comparisons the CF record provides are meaningful; the others evaluate through them as Rust's
   PartialOrd does for a total order on non-NaN coefficients: a <= b := not (b < a) is NOT assumed - an
   unexpected operator makes the tie theorem fail instead *)
Definition eval_cond (E : env) (c : ccond) : option bool :=
  match c with
  | CLt a b => Some (clt F (eval_term E a) (eval_term E b))
  | CGe a b => Some (cge F (eval_term E a) (eval_term E b))
  | CEq a b => Some (ceq F (eval_term E a) (eval_term E b))
  | _ => None
  end.

(* f is the base-unit product (guarded by cs_f_is_base_product), coef/cons the unit's coefficient and constant *)
Definition eval_conv (s : conv_src) (f coef cons v : T) : option T :=
  let E := {| e_v := v; e_f := f; e_coef := coef; e_cons := cons; e_r := v; e_l := v; e_exp := 0%Z |} in
  match eval_cond E (cs_cond s) with
  | Some true => Some (eval_term E (cs_then s))
  | Some false => Some (eval_term E (cs_else s))
  | None => None
  end.
Definition conv_shape_ok (s : conv_src) (expected : cons_op) : bool :=
  cs_v_converted s && cs_coef_is_unit s && cs_f_is_base_product s && cs_lets_in_order s && cs_value_taken s
  && match cs_cons s, expected with ConsAdd, ConsAdd | ConsSub, ConsSub => true | _, _ => false end.

(* one step of change_base for the base quantity with coefficients (ul, ur) and exponent e *)
Definition eval_rebase_step (s : rebase_src) (acc : T) (p : T * T * Z) : option T :=
  let ul := fst (fst p) in let ur := snd (fst p) in
  let pick sd := match sd with SideLeft => Some ul | SideRight => Some ur | SideUnknown => None end in
  match pick (rs_r s), pick (rs_l s) with
  | Some r, Some l =>
    let E := {| e_v := acc; e_f := acc; e_coef := acc; e_cons := acc; e_r := r; e_l := l; e_exp := snd p |} in
    match eval_cond E (rs_cond s) with
    | Some true => Some (eval_term E (rs_then s))
    | Some false => Some (eval_term E (rs_else s))
    | None => None
    end
  | _, _ => None
  end.
Definition rebase_shape_ok (s : rebase_src) : bool := rs_v_converted s && rs_value_taken s.
End Eval.

Definition has_attr (a : string) (l : list string) : bool := existsb (String.eqb a) l.

(* ---- struct layout under Rust's repr attributes (reference: "Type layout" chapter) ---- *)
Inductive fkind := FPhantom | FStorage | FOther.
Record struct_src := { ss_attrs : list string; ss_fields : list (string * fkind) }.
Inductive abi_class := AbiAsField        (* passed exactly as the single non-zero-sized field is *)
                     | AbiAggregate      (* a C aggregate *)
                     | AbiUnspecified.   (* repr(Rust): no guarantee *)
Record layout_verdict := { lv_size_align_of_field : bool; lv_abi : abi_class }.
Definition fkind_eqb (a b : fkind) : bool := match a, b with FPhantom, FPhantom | FStorage, FStorage | FOther, FOther => true | _, _ => false end.
Definition count_kind (k : fkind) (fs : list (string * fkind)) : nat := List.length (filter (fun f => fkind_eqb (snd f) k) fs).
Definition struct_layout (s : struct_src) : layout_verdict :=
  let one_field := Nat.eqb (count_kind FStorage (ss_fields s)) 1 && Nat.eqb (count_kind FOther (ss_fields s)) 0 in
  if has_attr "repr(transparent)" (ss_attrs s) then
    {| lv_size_align_of_field := one_field; lv_abi := if one_field then AbiAsField else AbiUnspecified |}
  else if has_attr "repr(C)" (ss_attrs s) then
    {| lv_size_align_of_field := one_field; lv_abi := AbiAggregate |}
  else {| lv_size_align_of_field := false; lv_abi := AbiUnspecified |}.
