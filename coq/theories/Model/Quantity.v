(* Quantity-level operations of src/system.rs, src/quantity.rs and src/si/mod.rs over an
   arbitrary storage class.  A quantity's only run-time state is its stored value (the
   dimension D and the base units U are phantom types: here, explicit arguments).
   `ac` = feature "autoconvert".  Executable Gallina only. *)
From Coq Require Import ZArith List Bool.
From UomV Require Import Model.Conv.
Import ListNotations.
Open Scope Z_scope.

(* trait Conversion<V> (type T, conversion()) + ConversionFactor<V> (value(), arithmetic) *)
Record Storage := mkStorage {
  sV : Type;                 (* storage type V            *)
  sT : Type;                 (* conversion factor type T  *)
  s_conv : sV -> sT;         (* Conversion::conversion    *)
  s_val : sT -> sV;          (* ConversionFactor::value   *)
  s_cf : CF sT }.

Section Q.
Context (S : Storage).
Notation V := (sV S).
Notation T := (sT S).
Notation F := (s_cf S).

(* Quantity::new::<N> / get::<N>   (src/quantity.rs:219-241 -> to_base / from_base) *)
Definition q_new (U : list T) (d : list Z) (coef cadd : T) (v : V) : V :=
  s_val S (to_base F U d coef cadd (s_conv S v)).
Definition q_get (U : list T) (d : list Z) (coef csub : T) (v : V) : V :=
  s_val S (from_base F U d coef csub (s_conv S v)).

(* the right operand as the operator body sees it: change_base::<Dr, Ul, Ur, V>(&rhs.value)
   under autoconvert!, rhs.value under not_autoconvert! (where Ur = Ul is forced by the types) *)
Definition rebase (ac : bool) (Ul Ur : list T) (d : list Z) (v : V) : V :=
  if ac then s_val S (change_base F Ul Ur d (s_conv S v)) else v.

(* every binary operator between two quantities whose impl mentions two base-unit parameters:
     + - % += -= %= (Dr = D) , * / (Dr = dimension of rhs) , == != < <= > >= partial_cmp , hypot,
     temperature point +/- interval, interval + point;  f = the storage type's own operation *)
Definition q_bin {R : Type} (f : V -> V -> R) (ac : bool) (Ul Ur : list T) (dr : list Z) (a b : V) : R :=
  f a (rebase ac Ul Ur dr b).

(* operators that only exist between identical types (Ord::max/min/cmp, float max/min, Saturating,
   Sum) and scalar * / : the stored values are combined as they are *)
Definition q_same {R : Type} (f : V -> V -> R) (a b : V) : R := f a b.

(* mul_add: self.value.mul_add(change_base::<Da,U,Ua>(a), change_base::<Sum<D,Da>,U,Ub>(b)) *)
Definition q_muladd (f : V -> V -> V -> V) (ac : bool) (U Ua Ub : list T) (da dsum : list Z) (x a b : V) : V :=
  f x (rebase ac U Ua da a) (rebase ac U Ub dsum b).

(* impl_from!: kind conversion re-expresses the value in the target's base units *)
Definition q_from (ac : bool) (Uto Ufrom : list T) (d : list Z) (v : V) : V := rebase ac Uto Ufrom d v.

(* floor/ceil/round/trunc/fract::<N>: Self::new::<N>(self.get::<N>().<rounding>()) *)
Definition q_round (r : V -> V) (U : list T) (d : list Z) (coef cadd csub : T) (v : V) : V :=
  q_new U d coef cadd (r (q_get U d coef csub v)).

(* ---- histories: a register subjected to a sequence of operations ---- *)
Inductive hop :=
| HBin (f : V -> V -> V) (Ur : list T) (b : V)    (* self = self op rhs, rhs in base units Ur *)
| HSame (f : V -> V -> V) (b : V)                 (* same-type operator / scalar operand       *)
| HUn (f : V -> V).                               (* neg abs signum recip ...                   *)

Definition step_q (ac : bool) (U : list T) (d : list Z) (acc : V) (o : hop) : V :=
  match o with
  | HBin f Ur b => q_bin f ac U Ur d acc b
  | HSame f b => q_same f acc b
  | HUn f => f acc
  end.
Definition step_raw (acc : V) (o : hop) : V :=
  match o with HBin f _ b => f acc b | HSame f b => f acc b | HUn f => f acc end.

Definition run_q (ac : bool) (U : list T) (d : list Z) (ops : list hop) (init : V) : V :=
  fold_left (step_q ac U d) ops init.
Definition run_raw (ops : list hop) (init : V) : V := fold_left step_raw ops init.

(* all observations along the way (the transcript), not only the final register *)
Fixpoint trace_q (ac : bool) (U : list T) (d : list Z) (ops : list hop) (acc : V) : list V :=
  match ops with
  | [] => []
  | o :: r => let acc' := step_q ac U d acc o in acc' :: trace_q ac U d r acc'
  end.
Fixpoint trace_raw (ops : list hop) (acc : V) : list V :=
  match ops with
  | [] => []
  | o :: r => let acc' := step_raw acc o in acc' :: trace_raw r acc'
  end.

Definition same_base (U : list T) (o : hop) : Prop :=
  match o with HBin _ Ur _ => Ur = U | _ => True end.

End Q.

Arguments HBin {S}. Arguments HSame {S}. Arguments HUn {S}.
