(* Text side of uom: Display/Debug composition (src/system.rs format_arguments!, Debug for
   Quantity) and FromStr (src/quantity.rs mod str), over lists of Unicode code points.
   The storage type's own formatting and parsing are parameters (oracles).  Executable only. *)
From Coq Require Import ZArith NArith QArith List Bool.
From UomV Require Import Model.Tables.
Import ListNotations.
Open Scope N_scope.

Definition text := list N.
Definition SP : N := 32.

Inductive style := Abbreviation | Description.

(* write!(f, " {}", match style { Abbreviation => abbr, Description => if value.is_one() { singular } else { plural } }) *)
Definition label (st : style) (u : unit_decl) (is_one : bool) : text :=
  match st with
  | Abbreviation => u_abbr u
  | Description => if is_one then u_sing u else u_plur u
  end.

(* value.fmt(f)?; then " " and the label.  `shown` = the storage type's formatting of the converted value *)
Definition fmt_quantity (st : style) (u : unit_decl) (shown : text) (is_one : bool) : text :=
  shown ++ [SP] ++ label st u is_one.

(* Debug for Quantity: value.fmt(f) then, for each base quantity in system order with exponent d <> 0, " {abbr}^{d}" *)
Definition dec_digit (n : N) : N := 48 + n.
Fixpoint dec_pos (fuel : nat) (n : N) (acc : text) : text :=
  match fuel with
  | O => acc
  | S k => let acc' := dec_digit (n mod 10) :: acc in
           if n / 10 =? 0 then acc' else dec_pos k (n / 10) acc'
  end.
Definition dec_Z (z : Z) : text :=
  match z with
  | Z0 => [48]
  | Zpos p => dec_pos 40 (Npos p) []
  | Zneg p => 45 :: dec_pos 40 (Npos p) []
  end.
Definition debug_suffix (base_abbr : list text) (d : list Z) : text :=
  flat_map (fun p => if Z.eqb (snd p) 0 then [] else [SP] ++ fst p ++ [94] ++ dec_Z (snd p)) (combine base_abbr d).
Definition debug_quantity (shown : text) (base_abbr : list text) (d : list Z) : text :=
  shown ++ debug_suffix base_abbr d.

(* ---- FromStr ---- *)
Inductive parse_error := NoSeparator | ValueParseError | UnknownUnit.

(* s.splitn(2, ' ') *)
Fixpoint split1 (s : text) (acc : text) : option (text * text) :=
  match s with
  | [] => None
  | c :: r => if c =? SP then Some (rev acc, r) else split1 r (c :: acc)
  end.

(* char::is_whitespace (Unicode White_Space) *)
Definition is_ws (c : N) : bool :=
  ((9 <=? c) && (c <=? 13)) || (c =? 32) || (c =? 133) || (c =? 160) || (c =? 5760)
  || ((8192 <=? c) && (c <=? 8202)) || (c =? 8232) || (c =? 8233) || (c =? 8239) || (c =? 8287) || (c =? 12288).
Fixpoint trim_start (s : text) : text :=
  match s with c :: r => if is_ws c then trim_start r else s | [] => [] end.
Definition trim (s : text) : text := rev (trim_start (rev (trim_start s))).

(* match unit.trim() { $($abbreviation | $singular | $plural => Ok(new::<$unit>(value)),)+ _ => Err(UnknownUnit) } *)
Definition unit_matches (l : text) (u : unit_decl) : bool :=
  list_N_eqb l (u_abbr u) || list_N_eqb l (u_sing u) || list_N_eqb l (u_plur u).
Definition first_unit (units : list unit_decl) (l : text) : option unit_decl := find (unit_matches l) units.

Section Parse.
Context {V : Type} (parseV : text -> option V).
Definition parse_quantity (units : list unit_decl) (s : text) : parse_error + (unit_decl * V) :=
  match split1 s [] with
  | None => inl NoSeparator
  | Some (a, b) =>
    match parseV a with
    | None => inl ValueParseError
    | Some v =>
      match first_unit units (trim b) with
      | None => inl UnknownUnit
      | Some u => inr (u, v)
      end
    end
  end.
End Parse.

(* ---- table checks (C12) ---- *)
Definition labels (u : unit_decl) : list text := [u_abbr u; u_sing u; u_plur u].
Definition share_label (u v : unit_decl) : bool :=
  existsb (fun a => existsb (list_N_eqb a) (labels v)) (labels u).
Definition same_conversion (u v : unit_decl) : bool :=
  Qeq_bool (coef_q u) (coef_q v) && Qeq_bool (const_q u) (const_q v).
Fixpoint ambiguous_pairs (us : list unit_decl) : list (unit_decl * unit_decl) :=
  match us with
  | [] => []
  | u :: r => map (fun v => (u, v)) (filter (fun v => share_label u v && negb (same_conversion u v)) r) ++ ambiguous_pairs r
  end.
Definition trim_invariant (l : text) : bool := list_N_eqb (trim l) l.
Definition untrimmed_labels (us : list unit_decl) : list unit_decl :=
  filter (fun u => negb (forallb trim_invariant (labels u))) us.
Definition has_space (l : text) : bool := existsb (fun c => c =? SP) l.
