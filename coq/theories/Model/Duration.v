(* src/si/time.rs: TryFrom<Time<U, V>> for core::time::Duration and back, float storage.
   num-traits ToPrimitive::to_u64/to_u32 for floats: Some(trunc x) iff -1 < x < 2^bits, else None.
   Duration::new(secs, nanos): carries nanos / 10^9 into secs and panics if that overflows u64.
   Executable Gallina only. *)
From Coq Require Import ZArith List Bool.
From Flocq Require Import Core BinarySingleNaN.
From UomV Require Import Model.Tables Model.Conv Model.FloatM Model.FloatOps Model.Quantity Model.Storages.
Import ListNotations.
Open Scope Z_scope.

Inductive dur_result :=
| DurOk (secs nanos : Z)
| DurNegative
| DurOverflow
| DurPanic.

(* Duration::new *)
Definition duration_new (secs nanos : Z) : dur_result :=
  let secs' := secs + nanos / 1000000000 in
  if secs' <? 2 ^ 64 then DurOk secs' (nanos mod 1000000000) else DurPanic.

Section D.
Variables prec emax : Z.
Context (Hprec : Prec_gt_0 prec) (Hmax : Prec_lt_emax prec emax).
Notation fl := (binary_float prec emax).
Notation St := (StF prec emax Hprec Hmax).

(* truncation toward zero of a finite float, as an integer *)
Definition ftrunc_Z (x : fl) : option Z :=
  match x with
  | B754_zero _ => Some 0
  | B754_finite s m e _ =>
    let a := if 0 <=? e then Zpos m * 2 ^ e else Zpos m / 2 ^ (- e) in
    Some (if s then - a else a)
  | _ => None
  end.

(* x > -1 iff trunc x >= 0 (values in (-1, 0) truncate to 0 and are accepted; -1 is not);
   x < 2^bits iff trunc x < 2^bits *)
Definition to_uint (bits : Z) (x : fl) : option Z :=
  match ftrunc_Z x with
  | Some z => if (0 <=? z) && (z <? 2 ^ bits) then Some z else None
  | None => None
  end.

(* U: base-unit coefficients (as values), dT: the dimension of time, ksec / knano: coefficients of
   second and nanosecond; v: the stored value of the Time quantity *)
Definition time_to_duration (lib : flib) (ac : bool) (U : list fl) (dT : list Z) (ksec knano : fl) (v : fl) : dur_result :=
  let pz := B754_zero false : fl in
  let nz := B754_zero true : fl in
  if q_bin (St lib) (flt prec emax) ac U U dT v pz then DurNegative else
  let time_s := q_get (St lib) U dT ksec pz v in
  let secs := to_uint 64 time_s in
  let frac := frem prec emax Hprec Hmax time_s (fone prec emax Hprec Hmax) in
  let nanos := to_uint 32 (q_get (St lib) U dT knano pz (q_new (St lib) U dT ksec nz frac)) in
  match secs, nanos with
  | Some s, Some n => duration_new s n
  | _, _ => DurOverflow
  end.

(* TryFrom<Duration> for Time: V::from_u64(secs), V::from_u32(nanos) (always Some for floats: `as` cast,
   round to nearest), then new::<second>(secs) + new::<nanosecond>(nanos) *)
Definition duration_to_time (lib : flib) (ac : bool) (U : list fl) (dT : list Z) (ksec knano : fl) (secs nanos : Z) : fl :=
  let nz := B754_zero true : fl in
  let a := q_new (St lib) U dT ksec nz (of_Z prec emax Hprec Hmax secs) in
  let b := q_new (St lib) U dT knano nz (of_Z prec emax Hprec Hmax nanos) in
  q_bin (St lib) (fadd prec emax Hprec Hmax) ac U U dT a b.
End D.
