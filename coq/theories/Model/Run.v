(* Entry points evaluated by the extracted runner (and by `Eval vm_compute` cross-checks):
   everything goes from primitive data (bit patterns as Z, rationals as Z pairs, conversion
   expressions as written in the source) to primitive data.  Executable Gallina only. *)
From Coq Require Import ZArith QArith List Bool.
From Flocq Require Import Core BinarySingleNaN.
From UomV Require Import Model.Tables Model.Conv Model.FloatM Model.Exact.
Import ListNotations.
Open Scope Z_scope.

Inductive fty := F32 | F64.

Section Float.
Variables prec emax ew : Z.
Context (Hprec : Prec_gt_0 prec) (Hmax : Prec_lt_emax prec emax).
Notation fl := (binary_float prec emax).
Notation ev := (eval_f prec emax Hprec Hmax).

Definition cons_add (c : option cexpr) : fl :=
  match c with Some c => ev c | None => B754_zero true end.   (* ConstantOp::Add => -0.0 *)
Definition cons_sub (c : option cexpr) : fl :=
  match c with Some c => ev c | None => B754_zero false end.  (* ConstantOp::Sub => 0.0 *)

Definition f_new (lib : flib) (U : list cexpr) (d : list Z) (coef : cexpr) (const : option cexpr)
    (v : fl) : fl :=
  to_base (CFfloat prec emax Hprec Hmax lib) (map ev U) d (ev coef) (cons_add const) v.

Definition f_get (lib : flib) (U : list cexpr) (d : list Z) (coef : cexpr) (const : option cexpr)
    (v : fl) : fl :=
  from_base (CFfloat prec emax Hprec Hmax lib) (map ev U) d (ev coef) (cons_sub const) v.

Definition f_rebase (lib : flib) (Ul Ur : list cexpr) (d : list Z) (v : fl) : fl :=
  change_base (CFfloat prec emax Hprec Hmax lib) (map ev Ul) (map ev Ur) d v.

Definition bits_new lib U d coef const (vb : Z) : Z :=
  to_bits prec emax ew (f_new lib U d coef const (of_bits prec emax Hprec Hmax ew vb)).
Definition bits_get lib U d coef const (vb : Z) : Z :=
  to_bits prec emax ew (f_get lib U d coef const (of_bits prec emax Hprec Hmax ew vb)).
Definition bits_rebase lib Ul Ur d (vb : Z) : Z :=
  to_bits prec emax ew (f_rebase lib Ul Ur d (of_bits prec emax Hprec Hmax ew vb)).
Definition bits_coef (e : cexpr) : Z := to_bits prec emax ew (ev e).

(* exact rational value of a float; None for NaN/infinities *)
Definition f_to_q (x : fl) : option Q :=
  match x with
  | B754_zero _ => Some 0%Q
  | B754_finite s m e _ =>
    let z := if s then Zneg m else Zpos m in
    Some (if 0 <=? e then inject_Z (z * 2 ^ e) else Qred (Qmake z (Z.to_pos (2 ^ (- e)))))
  | _ => None
  end.
End Float.

Definition new32 := bits_new 24 128 8 p32 m32.
Definition get32 := bits_get 24 128 8 p32 m32.
Definition rebase32 := bits_rebase 24 128 8 p32 m32.
Definition coef32 := bits_coef 24 128 8 p32 m32.
Definition new64 := bits_new 53 1024 11 p64 m64.
Definition get64 := bits_get 53 1024 11 p64 m64.
Definition rebase64 := bits_rebase 53 1024 11 p64 m64.
Definition coef64 := bits_coef 53 1024 11 p64 m64.

(* ---- exact classes: coefficients are from_f64 of the f64 evaluation of the expression ---- *)

Definition coef_exact (e : cexpr) : Q :=
  match f_to_q 53 1024 (eval_f 53 1024 p64 m64 e) with Some q => q | None => 0%Q end.
Definition cons_exact (c : option cexpr) : Q :=
  match c with Some c => coef_exact c | None => 0%Q end.

Definition q_new (U : list cexpr) (d : list Z) (coef : cexpr) (const : option cexpr) (v : Q) : Q :=
  to_base CFq (map coef_exact U) d (coef_exact coef) (cons_exact const) v.
Definition q_get (U : list cexpr) (d : list Z) (coef : cexpr) (const : option cexpr) (v : Q) : Q :=
  from_base CFq (map coef_exact U) d (coef_exact coef) (cons_exact const) v.
Definition q_rebase (Ul Ur : list cexpr) (d : list Z) (v : Q) : Q :=
  change_base CFq (map coef_exact Ul) (map coef_exact Ur) d v.

(* integer classes: conversion() = into Ratio, value() = to_integer *)
Definition z_new U d coef const (v : Z) : Z := q_to_integer (q_new U d coef const (inject_Z v)).
Definition z_get U d coef const (v : Z) : Z := q_to_integer (q_get U d coef const (inject_Z v)).
Definition z_rebase Ul Ur d (v : Z) : Z := q_to_integer (q_rebase Ul Ur d (inject_Z v)).
