(* Entry points evaluated by the extracted runner (and by `Eval vm_compute` cross-checks):
   everything goes from primitive data (bit patterns as Z, rationals as Z pairs, conversion
   expressions as written in the source) to primitive data, through the SAME definitions the
   theorems are about (Model.Conv, Model.Quantity at the instances of Model.Storages).
   Executable Gallina only. *)
From Coq Require Import ZArith QArith List Bool String.
From Flocq Require Import Core BinarySingleNaN.
From UomV Require Import Model.Tables Model.Conv Model.FloatM Model.FloatOps Model.Exact
  Model.Quantity Model.Storages Model.Duration Model.Text Model.Typing.
Import ListNotations.
Open Scope Z_scope.

(* one operation of a history, as the harness names it *)
Inductive hreq (val : Type) :=
| HRBin (o : binop) (Ur : list cexpr) (b : val)     (* acc = acc op rhs (rhs in base units Ur) *)
| HRSame (o : binop) (b : val)                      (* same-type operator, or scalar operand   *)
| HRUn (o : unop).
Arguments HRBin {val}. Arguments HRSame {val}. Arguments HRUn {val}.

(* a request: which uom operation, on which types (as table data), with which values *)
Inductive req (val : Type) :=
| RNew (U : list cexpr) (d : list Z) (coef : cexpr) (const : option cexpr) (v : val)
| RGet (U : list cexpr) (d : list Z) (coef : cexpr) (const : option cexpr) (v : val)
| RRebase (ac : bool) (Ul Ur : list cexpr) (d : list Z) (v : val)
| RBin (ac : bool) (o : binop) (Ul Ur : list cexpr) (dr : list Z) (a b : val)
| RCmp (ac : bool) (o : cmpop) (Ul Ur : list cexpr) (d : list Z) (a b : val)
| RPcmp (ac : bool) (Ul Ur : list cexpr) (d : list Z) (a b : val)
| RMulAdd (ac : bool) (U Ua Ub : list cexpr) (da ds : list Z) (x a b : val)
| RRoundTo (r : rnd) (U : list cexpr) (d : list Z) (coef : cexpr) (const : option cexpr) (v : val)
| RUn (o : unop) (a : val)
| RHist (ac : bool) (U : list cexpr) (d : list Z) (init : val) (ops : list (hreq val))
| RCoef (e : cexpr)
| RToDur (ac : bool) (U : list cexpr) (d : list Z) (ksec knano : cexpr) (v : val)
| RFromDur (ac : bool) (U : list cexpr) (d : list Z) (ksec knano : cexpr) (secs nanos : Z).
Arguments RNew {val}. Arguments RGet {val}. Arguments RRebase {val}. Arguments RBin {val}.
Arguments RCmp {val}. Arguments RPcmp {val}. Arguments RMulAdd {val}. Arguments RRoundTo {val}.
Arguments RUn {val}. Arguments RHist {val}. Arguments RCoef {val}. Arguments RToDur {val}. Arguments RFromDur {val}.

Definition zb (b : bool) : Z := if b then 1 else 0.

(* ------------------------------------------------------------------ floats *)
Section Float.
Variables prec emax ew : Z.
Context (Hprec : Prec_gt_0 prec) (Hmax : Prec_lt_emax prec emax).
Notation fl := (binary_float prec emax).
Notation ev := (eval_f prec emax Hprec Hmax).
Notation St := (StF prec emax Hprec Hmax).
Notation ofb := (of_bits prec emax Hprec Hmax ew).
Notation tob := (to_bits prec emax ew).

Definition cons_add (c : option cexpr) : fl :=
  match c with Some c => ev c | None => B754_zero true end.   (* ConstantOp::Add => -0.0 *)
Definition cons_sub (c : option cexpr) : fl :=
  match c with Some c => ev c | None => B754_zero false end.  (* ConstantOp::Sub => 0.0 *)

Definition f_new (lib : flib) (U : list cexpr) (d : list Z) (coef : cexpr) (const : option cexpr)
    (v : fl) : fl :=
  q_new (St lib) (map ev U) d (ev coef) (cons_add const) v.
Definition f_get (lib : flib) (U : list cexpr) (d : list Z) (coef : cexpr) (const : option cexpr)
    (v : fl) : fl :=
  q_get (St lib) (map ev U) d (ev coef) (cons_sub const) v.
Definition f_rebase (lib : flib) (ac : bool) (Ul Ur : list cexpr) (d : list Z) (v : fl) : fl :=
  rebase (St lib) ac (map ev Ul) (map ev Ur) d v.
Definition f_bin (lib : flib) (ac : bool) (o : binop) (Ul Ur : list cexpr) (dr : list Z) (a b : fl) : fl :=
  if two_base o then q_bin (St lib) (fbin_sem prec emax Hprec Hmax o) ac (map ev Ul) (map ev Ur) dr a b
  else q_same (St lib) (fbin_sem prec emax Hprec Hmax o) a b.
Definition f_cmp (lib : flib) (ac : bool) (o : cmpop) (Ul Ur : list cexpr) (d : list Z) (a b : fl) : bool :=
  q_bin (St lib) (fcmp_sem prec emax o) ac (map ev Ul) (map ev Ur) d a b.
Definition f_pcmp (lib : flib) (ac : bool) (Ul Ur : list cexpr) (d : list Z) (a b : fl) : option comparison :=
  q_bin (St lib) (fcmp prec emax) ac (map ev Ul) (map ev Ur) d a b.
Definition f_muladd (lib : flib) (ac : bool) (U Ua Ub : list cexpr) (da ds : list Z) (x a b : fl) : fl :=
  q_muladd (St lib) (ffma prec emax Hprec Hmax) ac (map ev U) (map ev Ua) (map ev Ub) da ds x a b.
Definition f_round (lib : flib) (r : rnd) (U : list cexpr) (d : list Z) (coef : cexpr) (const : option cexpr)
    (v : fl) : fl :=
  q_round (St lib) (fround_op prec emax Hprec Hmax lib r) (map ev U) d (ev coef) (cons_add const) (cons_sub const) v.

Definition f_hop (lib : flib) (h : hreq Z) : hop (St lib) :=
  match h with
  | HRBin o Ur b => HBin (S:=St lib) (fbin_sem prec emax Hprec Hmax o) (map ev Ur) (ofb b)
  | HRSame o b => HSame (S:=St lib) (fbin_sem prec emax Hprec Hmax o) (ofb b)
  | HRUn o => HUn (S:=St lib) (fun_sem prec emax Hprec Hmax o)
  end.
Definition f_hist (lib : flib) (ac : bool) (U : list cexpr) (d : list Z) (init : fl) (ops : list (hreq Z)) : list fl :=
  trace_q (St lib) ac (map ev U) d (map (f_hop lib) ops) init.

Definition f_run (lib : flib) (r : req Z) : list Z :=
  match r with
  | RNew U d coef const v => [tob (f_new lib U d coef const (ofb v))]
  | RGet U d coef const v => [tob (f_get lib U d coef const (ofb v))]
  | RRebase ac Ul Ur d v => [tob (f_rebase lib ac Ul Ur d (ofb v))]
  | RBin ac o Ul Ur dr a b => [tob (f_bin lib ac o Ul Ur dr (ofb a) (ofb b))]
  | RCmp ac o Ul Ur d a b => [zb (f_cmp lib ac o Ul Ur d (ofb a) (ofb b))]
  | RPcmp ac Ul Ur d a b => [cmp_code (f_pcmp lib ac Ul Ur d (ofb a) (ofb b))]
  | RMulAdd ac U Ua Ub da ds x a b => [tob (f_muladd lib ac U Ua Ub da ds (ofb x) (ofb a) (ofb b))]
  | RRoundTo r U d coef const v => [tob (f_round lib r U d coef const (ofb v))]
  | RUn o a => [tob (fun_sem prec emax Hprec Hmax o (ofb a))]
  | RHist ac U d init ops => map tob (f_hist lib ac U d (ofb init) ops)
  | RCoef e => [tob (ev e)]
  | RToDur ac U d ks kn v =>
      match time_to_duration prec emax Hprec Hmax lib ac (map ev U) d (ev ks) (ev kn) (ofb v) with
      | DurOk s n => [0; s; n] | DurNegative => [1] | DurOverflow => [2] | DurPanic => [3]
      end
  | RFromDur ac U d ks kn s n => [tob (duration_to_time prec emax Hprec Hmax lib ac (map ev U) d (ev ks) (ev kn) s n)]
  end.

(* exact rational value of a float; None for NaN/infinities *)
Definition f_to_q (x : fl) : option Q :=
  match x with
  | B754_zero _ => Some 0%Q
  | B754_finite s m e _ =>
    let z := if s then Zneg m else Zpos m in
    Some (if 0 <=? e then inject_Z (z * 2 ^ e) else Qred (Qmake z (Z.to_pos (2 ^ (- e)))))
  | _ => None
  end.
End Float.

Definition run32 := f_run 24 128 8 p32 m32.
Definition run64 := f_run 53 1024 11 p64 m64.

(* ------------------------------------------------------------------ exact classes *)
(* coefficients are from_f64 of the f64 evaluation of the expression (unit.rs:177-331) *)
Definition coef_exact (e : cexpr) : Q :=
  match f_to_q 53 1024 (eval_f 53 1024 p64 m64 e) with Some q => q | None => 0%Q end.
Definition cons_exact (c : option cexpr) : Q :=
  match c with Some c => coef_exact c | None => 0%Q end.
Notation evq := (map coef_exact).

(* BigRational-like: values are Q *)
Definition q_hop (h : hreq Q) : hop StQ :=
  match h with
  | HRBin o Ur b => HBin (S:=StQ) (qbin_sem o) (evq Ur) b
  | HRSame o b => HSame (S:=StQ) (qbin_sem o) b
  | HRUn o => HUn (S:=StQ) (qun_sem o)
  end.
Definition q_run (r : req Q) : list Q :=
  match r with
  | RNew U d coef const v => [q_new StQ (evq U) d (coef_exact coef) (cons_exact const) v]
  | RGet U d coef const v => [q_get StQ (evq U) d (coef_exact coef) (cons_exact const) v]
  | RRebase ac Ul Ur d v => [rebase StQ ac (evq Ul) (evq Ur) d v]
  | RBin ac o Ul Ur dr a b =>
      [if two_base o then q_bin StQ (qbin_sem o) ac (evq Ul) (evq Ur) dr a b else qbin_sem o a b]
  | RCmp ac o Ul Ur d a b => [inject_Z (zb (q_bin StQ (qcmp_sem o) ac (evq Ul) (evq Ur) d a b))]
  | RPcmp ac Ul Ur d a b =>
      [inject_Z (cmp_code (q_bin StQ (fun x y => Some (x ?= y)%Q) ac (evq Ul) (evq Ur) d a b))]
  | RMulAdd ac U Ua Ub da ds x a b =>
      [q_muladd StQ (fun x a b => qadd (qmul x a) b) ac (evq U) (evq Ua) (evq Ub) da ds x a b]
  | RRoundTo r U d coef const v => []
  | RUn o a => [qun_sem o a]
  | RHist ac U d init ops => trace_q StQ ac (evq U) d (map q_hop ops) init
  | RCoef e => [coef_exact e]
  | RToDur _ _ _ _ _ _ => []
  | RFromDur _ _ _ _ _ _ _ => []
  end.

(* integer classes: values are Z; conversion() = into Ratio, value() = to_integer *)
Definition z_hop (h : hreq Z) : hop StZ :=
  match h with
  | HRBin o Ur b => HBin (S:=StZ) (zbin_sem o) (evq Ur) b
  | HRSame o b => HSame (S:=StZ) (zbin_sem o) b
  | HRUn o => HUn (S:=StZ) (zun_sem o)
  end.
Definition z_run (r : req Z) : list Z :=
  match r with
  | RNew U d coef const v => [q_new StZ (evq U) d (coef_exact coef) (cons_exact const) v]
  | RGet U d coef const v => [q_get StZ (evq U) d (coef_exact coef) (cons_exact const) v]
  | RRebase ac Ul Ur d v => [rebase StZ ac (evq Ul) (evq Ur) d v]
  | RBin ac o Ul Ur dr a b =>
      [if two_base o then q_bin StZ (zbin_sem o) ac (evq Ul) (evq Ur) dr a b else zbin_sem o a b]
  | RCmp ac o Ul Ur d a b => [zb (q_bin StZ (zcmp_sem o) ac (evq Ul) (evq Ur) d a b)]
  | RPcmp ac Ul Ur d a b => [cmp_code (q_bin StZ (fun x y => Some (x ?= y)) ac (evq Ul) (evq Ur) d a b)]
  | RMulAdd ac U Ua Ub da ds x a b => []
  | RRoundTo r U d coef const v => []
  | RUn o a => [zun_sem o a]
  | RHist ac U d init ops => trace_q StZ ac (evq U) d (map z_hop ops) init
  | RCoef e => []
  | RToDur _ _ _ _ _ _ => []
  | RFromDur _ _ _ _ _ _ _ => []
  end.

(* ------------------------------------------------------------------ text (C11, C12) *)
Inductive treq :=
| TFmt (description : bool) (abbr sing plur shown : list Z) (is_one : bool)
| TDebug (shown : list Z) (abbrs : list (list Z)) (d : list Z)
| TParse (units : list (list Z * list Z * list Z)) (s : list Z) (value_ok : bool).

Definition tx (l : list Z) : text := map Z.to_N l.
Definition xt (l : text) : list Z := map Z.of_N l.
Definition mk_unit (l : list Z * list Z * list Z) : unit_decl :=
  {| u_name := EmptyString; u_coef := ELit 1 0; u_const := None;
     u_abbr := tx (fst (fst l)); u_sing := tx (snd (fst l)); u_plur := tx (snd l) |}.

Fixpoint index_of (f : unit_decl -> bool) (us : list unit_decl) (i : Z) : option Z :=
  match us with [] => None | u :: r => if f u then Some i else index_of f r (i + 1) end.

Definition text_run (r : treq) : list Z :=
  match r with
  | TFmt desc a sg pl shown one =>
      xt (fmt_quantity (if desc then Description else Abbreviation) (mk_unit (a, sg, pl)) (tx shown) one)
  | TDebug shown abbrs d => xt (debug_quantity (tx shown) (map tx abbrs) d)
  | TParse units s value_ok =>
      let us := map mk_unit units in
      match parse_quantity (fun _ : text => if value_ok then Some tt else None) us (tx s) with
      | inl NoSeparator => [0] | inl ValueParseError => [1] | inl UnknownUnit => [2]
      | inr (u, _) =>
          (* the matched unit is the first one matching the trimmed label *)
          match split1 (tx s) [] with
          | Some (_, b) => match index_of (unit_matches (trim b)) us 0 with Some i => [3; i] | None => [2] end
          | None => [0]
          end
      end
  end.

(* ------------------------------------------------------------------ typing (C01, C02, C15, C17, C04) *)
(* kinds and impl_from! pairs travel with the request (they come from the translated tables) *)
Record tyreq := mkTyreq {
  tr_kinds : list kind_decl; tr_from : list (string * string); tr_n : nat; tr_temp : list Z;
  tr_cfg : cfg; tr_prog : prog }.

Fixpoint kind_index (ks : list kind_decl) (k : string) (i : Z) : Z :=
  match ks with [] => -1 | d :: r => if String.eqb (k_name d) k then i else kind_index r k (i + 1) end.

(* [0] = does not compile; [1; base; kind index; exponents...] = compiles with this static type *)
Definition typing_run (r : tyreq) : list Z :=
  match ty (tr_kinds r) (tr_from r) (tr_n r) (tr_temp r) (tr_cfg r) (tr_prog r) with
  | None => [0]
  | Some t => 1 :: t_base t :: kind_index (tr_kinds r) (t_kind t) 0 :: t_dim t
  end.

(* ------------------------------------------------------------------ complex storage (C20) *)
(* the norm of each operand is supplied by the harness (libm hypot is an oracle) *)
Inductive creq :=
| CNew (U : list cexpr) (d : list Z) (coef : cexpr) (const : option cexpr) (re im nrm : Z)
| CGet (U : list cexpr) (d : list Z) (coef : cexpr) (const : option cexpr) (re im nrm : Z)
| CBin (ac : bool) (o : binop) (U : list cexpr) (d : list Z) (are aim bre bim bnrm : Z)
| CEqual (ac : bool) (U : list cexpr) (d : list Z) (are aim bre bim bnrm : Z).

Section Cx.
Variables prec emax ew : Z.
Context (Hprec : Prec_gt_0 prec) (Hmax : Prec_lt_emax prec emax).
Notation fl := (binary_float prec emax).
Notation ev := (eval_f prec emax Hprec Hmax).
Notation ofb := (of_bits prec emax Hprec Hmax ew).
Notation tob := (to_bits prec emax ew).
Definition c_run (lib : flib) (r : creq) : list Z :=
  match r with
  | CNew U d coef const re im nrm =>
      let S := StC prec emax Hprec Hmax (fun _ _ => ofb nrm) lib in
      let z := q_new S (map ev U) d (ev coef) (cons_add prec emax Hprec Hmax const) (ofb re, ofb im) in [tob (fst z); tob (snd z)]
  | CGet U d coef const re im nrm =>
      let S := StC prec emax Hprec Hmax (fun _ _ => ofb nrm) lib in
      let z := q_get S (map ev U) d (ev coef) (cons_sub prec emax Hprec Hmax const) (ofb re, ofb im) in [tob (fst z); tob (snd z)]
  | CBin ac o U d are aim bre bim bnrm =>
      let S := StC prec emax Hprec Hmax (fun _ _ => ofb bnrm) lib in
      let f := match o with BAdd => cxadd prec emax Hprec Hmax | BSub => csub_ prec emax Hprec Hmax | _ => cmul_ prec emax Hprec Hmax end in
      let z := q_bin S f ac (map ev U) (map ev U) d (ofb are, ofb aim) (ofb bre, ofb bim) in [tob (fst z); tob (snd z)]
  | CEqual ac U d are aim bre bim bnrm =>
      let S := StC prec emax Hprec Hmax (fun _ _ => ofb bnrm) lib in
      [zb (q_bin S (ceqb prec emax) ac (map ev U) (map ev U) d (ofb are, ofb aim) (ofb bre, ofb bim))]
  end.
End Cx.
Definition crun32 := c_run 24 128 8 p32 m32.
Definition crun64 := c_run 53 1024 11 p64 m64.
