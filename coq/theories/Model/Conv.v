(* One polymorphic transcription of uom's three conversion functions
     src/system.rs  from_base (305-326), to_base (336-357), change_base (369-382)
   over a record of conversion-factor operations (trait ConversionFactor, src/lib.rs:463-479).
   Association and branch structure are those of the Rust source.  Executable Gallina only. *)
From Coq Require Import ZArith List Bool.
Import ListNotations.
Open Scope Z_scope.

Record CF (T : Type) := mkCF {
  cadd : T -> T -> T;
  csub : T -> T -> T;
  cmul : T -> T -> T;
  cdiv : T -> T -> T;
  clt  : T -> T -> bool;      (* PartialOrd::lt  *)
  cge  : T -> T -> bool;      (* PartialOrd::ge  *)
  ceq  : T -> T -> bool;      (* PartialEq::eq   *)
  cpowi : T -> Z -> T;        (* ConversionFactor::powi *)
  cone : T                    (* V::coefficient() = One::one() *)
}.
Arguments cadd {T}. Arguments csub {T}. Arguments cmul {T}. Arguments cdiv {T}.
Arguments clt {T}. Arguments cge {T}. Arguments ceq {T}. Arguments cpowi {T}. Arguments cone {T}.

Section Conv.
Context {T : Type} (F : CF T).

(* `V::coefficient() times, for each base quantity, U::$name::coefficient().powi(D::$symbol::to_i32())`
   U : coefficients of the base units in use, d : exponents of the dimension (same order). *)
Definition base_factor (U : list T) (d : list Z) : T :=
  fold_left (fun acc p => cmul F acc (cpowi F (fst p) (snd p))) (combine U d) (cone F).

(* to_base: v already passed through `conversion()`, result before `value()`.
   coef = N::coefficient(), cons = N::constant(ConstantOp::Add). *)
Definition to_base (U : list T) (d : list Z) (coef cons v : T) : T :=
  let f := base_factor U d in
  if cge F coef f
  then cmul F (cadd F v cons) (cdiv F coef f)
  else cdiv F (cmul F (cadd F v cons) coef) f.

(* from_base: cons = N::constant(ConstantOp::Sub). *)
Definition from_base (U : list T) (d : list Z) (coef cons v : T) : T :=
  let f := base_factor U d in
  if clt F coef f
  then csub F (cmul F v (cdiv F f coef)) cons
  else csub F (cdiv F v (cdiv F coef f)) cons.

(* change_base::<D, Ul, Ur, V>: v.conversion(), then for each base quantity, left to right,
     let r = Ur::coefficient(); let l = Ul::coefficient();
     if r == l { v } else { v * r.powi(d) / l.powi(d) }                                    *)
Definition change_base_step (acc : T) (p : T * T * Z) : T :=
  let ul := fst (fst p) in let ur := snd (fst p) in let e := snd p in
  if ceq F ur ul then acc else cdiv F (cmul F acc (cpowi F ur e)) (cpowi F ul e).

Definition change_base (Ul Ur : list T) (d : list Z) (v : T) : T :=
  fold_left change_base_step (combine (combine Ul Ur) d) v.

End Conv.
