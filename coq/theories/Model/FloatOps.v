(* Further IEEE operations of the float storage types as uom reaches them through num-traits:
   remainder, min/max, signum, the five roundings in their std (IEEE) and no-std (num-traits
   FloatCore default) forms, classification.  All computed by Flocq, bit for bit; executable only. *)
From Coq Require Import ZArith List Bool.
From Flocq Require Import Core BinarySingleNaN.
From UomV Require Import Model.Tables Model.Conv Model.FloatM.
Open Scope Z_scope.

Section FO.
Variables prec emax : Z.
Context (Hprec : Prec_gt_0 prec) (Hmax : Prec_lt_emax prec emax).
Notation fl := (binary_float prec emax).
Notation fadd := (fadd prec emax Hprec Hmax).
Notation fsub := (fsub prec emax Hprec Hmax).
Notation fmul := (fmul prec emax Hprec Hmax).
Notation fdiv := (fdiv prec emax Hprec Hmax).
Notation fone := (fone prec emax Hprec Hmax).
Notation flt := (flt prec emax).
Notation fgt := (fgt prec emax).
Notation norm := (binary_normalize prec emax Hprec Hmax mode_NE).

(* `%` on f32/f64 (fmod): exact, sign of the dividend. *)
Definition frem (x y : fl) : fl :=
  match x, y with
  | B754_nan, _ => B754_nan
  | _, B754_nan => B754_nan
  | B754_infinity _, _ => B754_nan
  | _, B754_zero _ => B754_nan
  | _, B754_infinity _ => x
  | B754_zero _, _ => x
  | B754_finite sx mx ex _, B754_finite _ my ey _ =>
    let e := Z.min ex ey in
    let r := Z.rem (Zpos mx * 2 ^ (ex - e)) (Zpos my * 2 ^ (ey - e)) in
    if r =? 0 then B754_zero sx else norm (if sx then - r else r) e false
  end.

Definition fsign (x : fl) : bool :=
  match x with B754_zero s | B754_infinity s | B754_finite s _ _ _ => s | B754_nan => false end.
Definition fis_nan (x : fl) : bool := match x with B754_nan => true | _ => false end.
Definition fis_zero (x : fl) : bool := match x with B754_zero _ => true | _ => false end.

(* f64::max / f64::min: a NaN operand yields the other operand *)
Definition fmax (x y : fl) : fl :=
  if fis_nan x then y else if fis_nan y then x else if flt x y then y else x.
Definition fmin (x y : fl) : fl :=
  if fis_nan x then y else if fis_nan y then x else if flt y x then y else x.

(* f64::signum: NaN -> NaN, otherwise 1.0 with the sign of x *)
Definition fsignum (x : fl) : fl :=
  if fis_nan x then B754_nan else if fsign x then Bopp fone else fone.

Definition frecip (x : fl) : fl := fdiv fone x.

(* std: IEEE roundToIntegral *)
Definition ffloor_std (x : fl) : fl := Bnearbyint mode_DN x.
Definition fceil_std (x : fl) : fl := Bnearbyint mode_UP x.
Definition fround_std (x : fl) : fl := Bnearbyint mode_NA x.
Definition ftrunc_std (x : fl) : fl := Bnearbyint mode_ZR x.
Definition ffract_std (x : fl) : fl := fsub x (ftrunc_std x).

(* no std: num-traits FloatCore defaults (float.rs): fract = if is_zero {0} else {self % 1} ... *)
Definition pzero : fl := B754_zero false.
Definition fhalf : fl := fdiv fone (fadd fone fone).
Definition ffract_core (x : fl) : fl := if fis_zero x then pzero else frem x fone.
Definition ffloor_core (x : fl) : fl :=
  let f := ffract_core x in
  if fis_nan f || fis_zero f then x
  else if flt x pzero then fsub (fsub x f) fone else fsub x f.
Definition fceil_core (x : fl) : fl :=
  let f := ffract_core x in
  if fis_nan f || fis_zero f then x
  else if fgt x pzero then fadd (fsub x f) fone else fsub x f.
Definition fround_core (x : fl) : fl :=
  let f := ffract_core x in
  if fis_nan f || fis_zero f then x
  else if fgt x pzero then (if flt f fhalf then fsub x f else fadd (fsub x f) fone)
  else if flt (Bopp f) fhalf then fsub x f else fsub (fsub x f) fone.
Definition ftrunc_core (x : fl) : fl :=
  let f := ffract_core x in if fis_nan f then x else fsub x f.

Inductive rnd := RFloor | RCeil | RRound | RTrunc | RFract.
Definition fround_op (lib : flib) (r : rnd) : fl -> fl :=
  match lib, r with
  | LibStd, RFloor => ffloor_std | LibStd, RCeil => fceil_std | LibStd, RRound => fround_std
  | LibStd, RTrunc => ftrunc_std | LibStd, RFract => ffract_std
  | LibCore, RFloor => ffloor_core | LibCore, RCeil => fceil_core | LibCore, RRound => fround_core
  | LibCore, RTrunc => ftrunc_core | LibCore, RFract => ffract_core
  end.

(* FpCategory: 0 Nan, 1 Infinite, 2 Zero, 3 Subnormal, 4 Normal *)
Definition fclassify (x : fl) : Z :=
  match x with
  | B754_nan => 0 | B754_infinity _ => 1 | B754_zero _ => 2
  | B754_finite _ m _ _ => if Zpos m <? 2 ^ (prec - 1) then 3 else 4
  end.

End FO.
