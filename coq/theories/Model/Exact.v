(* Exact storage classes (src/lib.rs:552-662):
     BigRational                V = T = Q
     BigInt / BigUint / PrimInt V = Z, T = Ratio<V> = Q, conversion = inject, value = to_integer
   Q values are kept reduced (num-rational keeps ratios reduced, denominators positive).
   Fixed-width overflow is not represented here (see DESIGN §C08).  Executable Gallina only. *)
From Coq Require Import ZArith QArith Qround List Bool.
From UomV Require Import Model.Tables Model.Conv.
Import ListNotations.
Open Scope Z_scope.

Definition qadd (a b : Q) : Q := Qred (a + b).
Definition qsub (a b : Q) : Q := Qred (a - b).
Definition qmul (a b : Q) : Q := Qred (a * b).
Definition qdiv (a b : Q) : Q := Qred (a / b).
Definition qlt (a b : Q) : bool := match (a ?= b)%Q with Lt => true | _ => false end.
Definition qge (a b : Q) : bool := match (a ?= b)%Q with Lt => false | _ => true end.
Definition qeqb (a b : Q) : bool := Qeq_bool a b.

(* lib.rs:593-607 / 647-661: e = 0 -> one; e < 0 -> pow(recip, -e); e > 0 -> pow(self, e).
   (Ratio::pow of the fixed-width classes computes the same rational.) *)
Definition qpowi (a : Q) (e : Z) : Q :=
  match e with
  | Z0 => 1%Q
  | Zpos p => Qred (Qpower_positive a p)
  | Zneg p => Qred (Qpower_positive (Qinv a) p)
  end.

Definition CFq : CF Q := mkCF Q qadd qsub qmul qdiv qlt qge qeqb qpowi 1%Q.

(* Ratio::to_integer: truncation toward zero *)
Definition q_to_integer (a : Q) : Z := Z.quot (Qnum a) (Zpos (Qden a)).

Definition q_of_Z (z : Z) : Q := inject_Z z.
