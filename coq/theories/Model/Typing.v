(* The typing discipline of src/system.rs / src/quantity.rs / src/si/mod.rs: which programs of a
   fixed family compile, and with which static result type.  A quantity type is (exponent vector,
   kind, base-unit set); typenum integers are modelled as Z (modelled dependency).  Rules are read
   off the impl headers (which trait bounds gate the impl; how Output is computed).  Executable. *)
From Coq Require Import ZArith List Bool String.
From UomV Require Import Model.Tables.
Import ListNotations.
Open Scope Z_scope.
Open Scope string_scope.

Record qty := mkQty { t_dim : list Z; t_kind : string; t_base : Z }.

Definition qty_eqb (a b : qty) : bool :=
  list_Z_eqb (t_dim a) (t_dim b) && String.eqb (t_kind a) (t_kind b) && Z.eqb (t_base a) (t_base b).
Definition same_class (a b : qty) : bool :=      (* same `D`: dimension and kind *)
  list_Z_eqb (t_dim a) (t_dim b) && String.eqb (t_kind a) (t_kind b).

(* ---- dimension algebra: the Output types ---- *)
Definition zip_with (f : Z -> Z -> Z) (a b : list Z) : list Z := map (fun p => f (fst p) (snd p)) (combine a b).
Definition dmul (a b : list Z) : list Z := zip_with Z.add a b.      (* typenum::Sum  *)
Definition ddiv (a b : list Z) : list Z := zip_with Z.sub a b.      (* typenum::Diff *)
Definition drecip (a : list Z) : list Z := map Z.opp a.             (* typenum::Negate *)
Definition dpowi (a : list Z) (e : Z) : list Z := map (fun x => x * e) a.   (* typenum::Prod *)
Definition droot (k : Z) (a : list Z) : option (list Z) :=          (* typenum::PartialQuot: only if divisible *)
  if forallb (fun x => Z.eqb (x mod k) 0) a then Some (map (fun x => x / k) a) else None.

Inductive aop := AAdd | ASub | ARem | AAddAssign | ASubAssign | ARemAssign.
Definition aop_marker (o : aop) : marker :=
  match o with AAdd => MAdd | ASub => MSub | ARem => MRem | AAddAssign => MAddAssign | ASubAssign => MSubAssign | ARemAssign => MRemAssign end.

Inductive prog :=
| PAdditive (o : aop) (a b : qty)            (* a + b, a - b, a % b, a += b, ... *)
| PCompare (a b : qty)                       (* a == b, a < b, a.partial_cmp(&b) *)
| PMul (a b : qty) | PDiv (a b : qty)        (* quantity * / quantity *)
| PScalarRight (a : qty)                     (* a * 2.0, a / 2.0 *)
| PScalarLeftMul (a : qty) | PScalarLeftDiv (a : qty)     (* 2.0 * a, 2.0 / a *)
| PRecip (a : qty) | PPowi (a : qty) (e : Z) | PSqrt (a : qty) | PCbrt (a : qty)
| PMulAdd (x a b : qty)                      (* x.mul_add(a, b) *)
| PNeg (a : qty)
| PUnchanged (a : qty)                       (* abs signum floor ceil round trunc fract min max: same type *)
| PHypot (a b : qty) | PAtan2 (a b : qty) | PSameTypeOp (a b : qty)   (* Ord::max etc.: Self x Self *)
| PFrom (a b : qty)                          (* let y: B = B::from(a) / a.into() *)
| PFromNumber (b : qty) | PIntoNumber (a : qty)   (* B::from(1.0) / f64::from(a): only the default-kind dimensionless quantity *)
| PUnit (q_module unit_module : string)      (* Q::new::<N> / q.get::<N>: N declared in unit_module *)
| PLet (alias e : qty).                      (* let x: Alias = <expression of type e> *)

Record cfg := mkCfg { c_autoconvert : bool; c_std : bool }.

Section T.
Variable kinds : list kind_decl.
Variable impl_from : list (string * string).
Variable n : nat.                            (* number of base quantities *)
Variable temp_dim : list Z.                  (* dimension of temperature *)

Definition has (k : string) (m : marker) : bool := kind_has kinds k m.
Definition default_kind : string := "Kind".
Definition temperature_kind : string := "TemperatureKind".
Definition bases_ok (c : cfg) (a b : qty) : bool := c_autoconvert c || Z.eqb (t_base a) (t_base b).

Definition is_point (a : qty) : bool := String.eqb (t_kind a) temperature_kind && list_Z_eqb (t_dim a) temp_dim.
Definition is_interval (a : qty) : bool := String.eqb (t_kind a) default_kind && list_Z_eqb (t_dim a) temp_dim.

Definition ty (c : cfg) (p : prog) : option qty :=
  match p with
  | PAdditive o a b =>
      if same_class a b && has (t_kind a) (aop_marker o) && bases_ok c a b then Some a
      else (* explicit impls in si/thermodynamic_temperature.rs and si/temperature_interval.rs *)
        match o with
        | AAdd | ASub | AAddAssign | ASubAssign => if is_point a && is_interval b && bases_ok c a b then Some a else
            match o with AAdd => if is_interval a && is_point b && bases_ok c a b then Some (mkQty (t_dim b) (t_kind b) (t_base a)) else None | _ => None end
        | _ => None
        end
  | PCompare a b => if same_class a b && bases_ok c a b then Some a else None
  | PMul a b => if has (t_kind a) MMul && has (t_kind b) MMul && bases_ok c a b
                then Some (mkQty (dmul (t_dim a) (t_dim b)) default_kind (t_base a)) else None
  | PDiv a b => if has (t_kind a) MDiv && has (t_kind b) MDiv && bases_ok c a b
                then Some (mkQty (ddiv (t_dim a) (t_dim b)) default_kind (t_base a)) else None
  | PScalarRight a => if has (t_kind a) MMul && has (t_kind a) MDiv then Some a else None
  | PScalarLeftMul a => if has (t_kind a) MMul then Some (mkQty (dmul (repeat 0 n) (t_dim a)) (t_kind a) (t_base a)) else None
  | PScalarLeftDiv a => if has (t_kind a) MDiv then Some (mkQty (ddiv (repeat 0 n) (t_dim a)) (t_kind a) (t_base a)) else None
  | PRecip a => if has (t_kind a) MDiv then Some (mkQty (drecip (t_dim a)) default_kind (t_base a)) else None
  | PPowi a e => if has (t_kind a) MMul && c_std c then Some (mkQty (dpowi (t_dim a) e) default_kind (t_base a)) else None
  | PSqrt a => if has (t_kind a) MDiv && c_std c then
                 match droot 2 (t_dim a) with Some d => Some (mkQty d default_kind (t_base a)) | None => None end else None
  | PCbrt a => if has (t_kind a) MDiv && c_std c then
                 match droot 3 (t_dim a) with Some d => Some (mkQty d default_kind (t_base a)) | None => None end else None
  | PMulAdd x a b =>
      if has (t_kind x) MMul && has (t_kind a) MMul && c_std c && bases_ok c x a && bases_ok c x b
         && list_Z_eqb (t_dim b) (dmul (t_dim x) (t_dim a)) && String.eqb (t_kind b) default_kind
      then Some (mkQty (dmul (t_dim x) (t_dim a)) default_kind (t_base x)) else None
  | PNeg a => if has (t_kind a) MNeg then Some a else None
  | PUnchanged a => Some a
  | PHypot a b => if same_class a b && c_std c && bases_ok c a b then Some a else None
  | PAtan2 a b => if qty_eqb a b && c_std c then Some (mkQty (repeat 0 n) "AngleKind" (t_base a)) else None
  | PSameTypeOp a b => if qty_eqb a b then Some a else None
  | PFrom a b =>
      if qty_eqb a b then Some b                                   (* impl<T> From<T> for T *)
      else if list_Z_eqb (t_dim a) (t_dim b) && bases_ok c a b
              && existsb (fun p => String.eqb (fst p) (t_kind a) && String.eqb (snd p) (t_kind b)) impl_from
      then Some b else None
  | PFromNumber b => if forallb (Z.eqb 0) (t_dim b) && String.eqb (t_kind b) default_kind then Some b else None
  | PIntoNumber a => if forallb (Z.eqb 0) (t_dim a) && String.eqb (t_kind a) default_kind then Some a else None
  | PUnit qm um => if String.eqb qm um then Some (mkQty [] "" 0) else None
  | PLet alias e => if qty_eqb alias e then Some alias else None
  end.
End T.
