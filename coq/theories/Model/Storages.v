(* The storage classes of src/lib.rs:515-698 as instances of Model.Quantity.Storage, and the
   storage types' own operations that the quantity operators forward to.  Executable only. *)
From Coq Require Import ZArith QArith List Bool.
From Flocq Require Import Core BinarySingleNaN.
From UomV Require Import Model.Tables Model.Conv Model.FloatM Model.FloatOps Model.Exact Model.Quantity.
Import ListNotations.
Open Scope Z_scope.

(* value-returning binary operations and comparisons, by name (what the harness asks for) *)
Inductive binop := BAdd | BSub | BMul | BDiv | BRem | BMax | BMin.
Inductive cmpop := CEq | CNe | CLt | CLe | CGt | CGe.
Inductive unop := UNeg | UAbs | USignum | URecip | USqrt.

(* does the impl of this operator take the right operand in its own base units (and re-base it)? *)
Definition two_base (o : binop) : bool :=
  match o with BAdd | BSub | BMul | BDiv | BRem => true | BMax | BMin => false end.

Definition cmp_code (c : option comparison) : Z :=
  match c with Some Lt => -1 | Some Eq => 0 | Some Gt => 1 | None => 2 end.

(* ---- floats: V = T, conversion = value = identity (lib.rs:515-550) ---- *)
Section F.
Variables prec emax : Z.
Context (Hprec : Prec_gt_0 prec) (Hmax : Prec_lt_emax prec emax).
Notation fl := (binary_float prec emax).

Definition StF (lib : flib) : Storage :=
  mkStorage fl fl (fun v => v) (fun t => t) (CFfloat prec emax Hprec Hmax lib).

Definition fbin_sem (o : binop) : fl -> fl -> fl :=
  match o with
  | BAdd => fadd prec emax Hprec Hmax | BSub => fsub prec emax Hprec Hmax
  | BMul => fmul prec emax Hprec Hmax | BDiv => fdiv prec emax Hprec Hmax
  | BRem => frem prec emax Hprec Hmax
  | BMax => fmax prec emax | BMin => fmin prec emax
  end.
Definition fcmp_sem (o : cmpop) (x y : fl) : bool :=
  match o with
  | CEq => feq prec emax x y | CNe => negb (feq prec emax x y)
  | CLt => flt prec emax x y | CLe => fle prec emax x y
  | CGt => fgt prec emax x y | CGe => fge prec emax x y
  end.
Definition fun_sem (o : unop) : fl -> fl :=
  match o with
  | UNeg => fneg prec emax | UAbs => fabs prec emax | USignum => fsignum prec emax Hprec Hmax
  | URecip => frecip prec emax Hprec Hmax | USqrt => fsqrt prec emax Hprec Hmax
  end.
End F.

(* ---- BigRational / Rational64...: V = T = Ratio (lib.rs:609-662) ---- *)
Definition StQ : Storage := mkStorage Q Q (fun v => v) (fun t => t) CFq.

Definition qtrunc (a : Q) : Q := inject_Z (q_to_integer a).
Definition qrem (a b : Q) : Q := qsub a (qmul (qtrunc (qdiv a b)) b).
Definition qle (a b : Q) : bool := match (a ?= b)%Q with Gt => false | _ => true end.
Definition qbin_sem (o : binop) : Q -> Q -> Q :=
  match o with
  | BAdd => qadd | BSub => qsub | BMul => qmul | BDiv => qdiv | BRem => qrem
  | BMax => fun a b => if qlt a b then b else a      (* Ord::max: returns other when equal... values equal *)
  | BMin => fun a b => if qlt b a then b else a
  end.
Definition qcmp_sem (o : cmpop) (x y : Q) : bool :=
  match o with
  | CEq => qeqb x y | CNe => negb (qeqb x y)
  | CLt => qlt x y | CLe => qle x y | CGt => qlt y x | CGe => qle y x
  end.
Definition qun_sem (o : unop) : Q -> Q :=
  match o with
  | UNeg => fun a => Qred (- a) | UAbs => fun a => Qred (Qabs.Qabs a)
  | USignum => fun a => inject_Z (Z.sgn (Qnum a))
  | URecip => fun a => Qred (/ a) | USqrt => fun a => a
  end.

(* ---- BigInt / BigUint / primitive integers: V integer, T = Ratio<V> (lib.rs:552-607) ---- *)
Definition StZ : Storage := mkStorage Z Q inject_Z q_to_integer CFq.

Definition zbin_sem (o : binop) : Z -> Z -> Z :=
  match o with
  | BAdd => Z.add | BSub => Z.sub | BMul => Z.mul | BDiv => Z.quot | BRem => Z.rem
  | BMax => Z.max | BMin => Z.min
  end.
Definition zcmp_sem (o : cmpop) (x y : Z) : bool :=
  match o with
  | CEq => x =? y | CNe => negb (x =? y)
  | CLt => x <? y | CLe => x <=? y | CGt => y <? x | CGe => y <=? x
  end.
Definition zun_sem (o : unop) : Z -> Z :=
  match o with
  | UNeg => Z.opp | UAbs => Z.abs | USignum => Z.sgn | URecip => fun a => a | USqrt => fun a => a
  end.
Definition zsat (lo hi : Z) (x : Z) : Z := Z.max lo (Z.min hi x).

(* ---- Complex<f32|f64>: V = Complex, T = the real type (lib.rs:664-698) ----
   conversion() = self.norm() = re.hypot(im) (libm: a parameter), value() = Complex::new(x, 0.0).
   This is the code AS IT IS: every conversion path replaces the number by its modulus (finding F5). *)
Section C.
Variables prec emax : Z.
Context (Hprec : Prec_gt_0 prec) (Hmax : Prec_lt_emax prec emax).
Notation fl := (binary_float prec emax).
Variable hyp : fl -> fl -> fl.

Definition cplx : Type := (fl * fl)%type.
Definition StC (lib : flib) : Storage :=
  mkStorage cplx fl (fun z => hyp (fst z) (snd z)) (fun x => (x, B754_zero false)) (CFfloat prec emax Hprec Hmax lib).

Definition cxadd (a b : cplx) : cplx := (fadd prec emax Hprec Hmax (fst a) (fst b), fadd prec emax Hprec Hmax (snd a) (snd b)).
Definition csub_ (a b : cplx) : cplx := (fsub prec emax Hprec Hmax (fst a) (fst b), fsub prec emax Hprec Hmax (snd a) (snd b)).
Definition cmul_ (a b : cplx) : cplx :=
  (fsub prec emax Hprec Hmax (fmul prec emax Hprec Hmax (fst a) (fst b)) (fmul prec emax Hprec Hmax (snd a) (snd b)),
   fadd prec emax Hprec Hmax (fmul prec emax Hprec Hmax (fst a) (snd b)) (fmul prec emax Hprec Hmax (snd a) (fst b))).
Definition ceqb (a b : cplx) : bool := feq prec emax (fst a) (fst b) && feq prec emax (snd a) (snd b).
End C.
