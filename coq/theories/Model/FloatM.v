(* IEEE-754 binary floating point as uom uses it: Flocq BinarySingleNaN, round to nearest even.
   Everything IEEE-exact is computed here bit for bit (+ - * / sqrt fma neg abs compare powi ...);
   nothing in this file is an oracle.  Executable Gallina only (no proofs). *)
From Coq Require Import ZArith List Bool.
From Flocq Require Import Core BinarySingleNaN.
From UomV Require Import Model.Tables Model.Conv.
Import ListNotations.
Open Scope Z_scope.

Inductive flib := LibStd | LibCore.   (* num_traits::Float (std) vs FloatCore (no std) *)

(* The two integer-power algorithms, generic in the multiplication/division used (instantiated
   with the IEEE operations below and with instrumented operations in the proofs). *)
Section PowiGen.
Context {T : Type} (mul div : T -> T -> T) (one : T).

(* compiler-builtins `__powisf2/__powidf2` (what f32::powi / f64::powi call in a dev build):
     loop { if b & 1 != 0 { r *= a }  b /= 2;  if b == 0 { break }  a *= a }
     if negative { 1 / r } else { r }                                                     *)
Fixpoint powi_loop (fuel : nat) (a r : T) (b : Z) : T :=
  match fuel with
  | O => r
  | S k =>
    let r := if Z.odd b then mul r a else r in
    let b := Z.quot b 2 in
    if b =? 0 then r else powi_loop k (mul a a) r b
  end.
Definition powi_std_fuel (fuel : nat) (a : T) (b : Z) : T :=
  let r := powi_loop fuel a one (Z.abs b) in
  if b <? 0 then div one r else r.
Definition powi_std : T -> Z -> T := powi_std_fuel 40.

(* num-traits FloatCore::powi: `if exp < 0 { exp = exp.wrapping_neg(); self = self.recip(); }
   super::pow(self, (exp as u32).to_usize().unwrap())`, with num_traits::pow::pow:
     if exp == 0 { return one }
     while exp & 1 == 0 { base = base*base; exp >>= 1 }
     if exp == 1 { return base }
     acc = base; while exp > 1 { exp >>= 1; base = base*base; if exp & 1 == 1 { acc = acc*base } }  *)
Fixpoint pow_nt_loop2 (fuel : nat) (base acc : T) (e : Z) : T :=
  match fuel with
  | O => acc
  | S k =>
    if 1 <? e then
      let e := Z.shiftr e 1 in
      let base := mul base base in
      let acc := if Z.odd e then mul acc base else acc in
      pow_nt_loop2 k base acc e
    else acc
  end.
Fixpoint pow_nt_loop1 (fuel : nat) (base : T) (e : Z) : T * Z :=
  match fuel with
  | O => (base, e)
  | S k => if Z.odd e then (base, e) else pow_nt_loop1 k (mul base base) (Z.shiftr e 1)
  end.
Definition pow_nt_fuel (fuel : nat) (base : T) (e : Z) : T :=
  if e =? 0 then one else
  let be := pow_nt_loop1 fuel base e in
  if snd be =? 1 then fst be else pow_nt_loop2 fuel (fst be) (fst be) (snd be).
Definition powi_core_fuel (fuel : nat) (a : T) (b : Z) : T :=
  let a := if b <? 0 then div one a else a in
  pow_nt_fuel fuel a (Z.abs b).
Definition powi_core : T -> Z -> T := powi_core_fuel 40.
End PowiGen.

Section F.
Variables prec emax : Z.
Context (Hprec : Prec_gt_0 prec) (Hmax : Prec_lt_emax prec emax).
Notation fl := (binary_float prec emax).

Definition femin : Z := 3 - emax - prec.

Definition fadd : fl -> fl -> fl := Bplus mode_NE.
Definition fsub : fl -> fl -> fl := Bminus mode_NE.
Definition fmul : fl -> fl -> fl := Bmult mode_NE.
Definition fdiv : fl -> fl -> fl := Bdiv mode_NE.
Definition fsqrt : fl -> fl := Bsqrt mode_NE.
Definition ffma : fl -> fl -> fl -> fl := Bfma mode_NE.
Definition fneg : fl -> fl := Bopp.
Definition fabs : fl -> fl := Babs.
Definition fone : fl := Bone.
Definition fzero (s : bool) : fl := B754_zero s.
Definition fnan : fl := B754_nan.
Definition finf (s : bool) : fl := B754_infinity s.

Definition fcmp (x y : fl) : option comparison := Bcompare x y.
Definition flt (x y : fl) : bool := match fcmp x y with Some Lt => true | _ => false end.
Definition fle (x y : fl) : bool := match fcmp x y with Some Lt | Some Eq => true | _ => false end.
Definition fgt (x y : fl) : bool := match fcmp x y with Some Gt => true | _ => false end.
Definition fge (x y : fl) : bool := match fcmp x y with Some Gt | Some Eq => true | _ => false end.
Definition feq (x y : fl) : bool := match fcmp x y with Some Eq => true | _ => false end.

Definition of_Z (z : Z) : fl := binary_normalize prec emax Hprec Hmax mode_NE z 0 false.

(* correctly rounded p/q (q > 0): scale so that the quotient has >= prec+2 bits, fold the
   remainder into a sticky bit, normalise.  Used for decimal literals (rustc parses a float
   literal to the nearest representable value, ties to even). *)
Definition round_ratio (p : Z) (q : positive) : fl :=
  if p =? 0 then B754_zero false else
  let sh := Z.max 0 (prec + 2 + Z.log2 (Zpos q) + 1 - Z.log2 (Z.abs p)) in
  let n := Z.abs p * 2 ^ sh in
  let '(m, r) := Z.div_eucl n (Zpos q) in
  let m' := 2 * m + (if r =? 0 then 0 else 1) in
  binary_normalize prec emax Hprec Hmax mode_NE (if p <? 0 then - m' else m') (- sh - 1) false.

Definition of_lit (m e10 : Z) : fl :=
  if 0 <=? e10 then round_ratio (m * 10 ^ e10) 1
  else round_ratio m (Z.to_pos (10 ^ (- e10))).

Definition fpowi (lib : flib) : fl -> Z -> fl :=
  match lib with LibStd => powi_std fmul fdiv fone | LibCore => powi_core fmul fdiv fone end.

(* evaluation of a conversion expression in the storage type (literals are typed V) *)
Fixpoint eval_f (e : cexpr) : fl :=
  match e with
  | ELit m e10 => of_lit m e10
  | EMul a b => fmul (eval_f a) (eval_f b)
  | EDiv a b => fdiv (eval_f a) (eval_f b)
  | ENeg a => fneg (eval_f a)
  | EPre _ b => eval_f b
  end.

Definition CFfloat (lib : flib) : CF fl :=
  mkCF fl fadd fsub fmul fdiv flt fge feq (fpowi lib) fone.

(* ---- bit patterns (sign | exponent field of ew bits | prec-1 mantissa bits) ---- *)
Variable ew : Z.
Definition mw : Z := prec - 1.

Definition of_bits (z : Z) : fl :=
  let s := Z.testbit z (mw + ew) in
  let e := (z / 2 ^ mw) mod 2 ^ ew in
  let m := z mod 2 ^ mw in
  if e =? 0 then
    if m =? 0 then B754_zero s
    else binary_normalize prec emax Hprec Hmax mode_NE (if s then - m else m) femin false
  else if e =? 2 ^ ew - 1 then
    if m =? 0 then B754_infinity s else B754_nan
  else
    let mm := m + 2 ^ mw in
    binary_normalize prec emax Hprec Hmax mode_NE (if s then - mm else mm) (e - 1 + femin) false.

Definition sbit (s : bool) : Z := if s then 2 ^ (mw + ew) else 0.

(* NaN is printed as the canonical quiet NaN (payload/sign are not modelled: SingleNaN) *)
Definition to_bits (x : fl) : Z :=
  match x with
  | B754_zero s => sbit s
  | B754_infinity s => sbit s + (2 ^ ew - 1) * 2 ^ mw
  | B754_nan => (2 ^ ew - 1) * 2 ^ mw + 2 ^ (mw - 1)
  | B754_finite s m e _ =>
    if Zpos m <? 2 ^ mw then sbit s + Zpos m
    else sbit s + (e - femin + 1) * 2 ^ mw + (Zpos m - 2 ^ mw)
  end.

End F.

Definition p32 : Prec_gt_0 24 := eq_refl.
Definition m32 : Prec_lt_emax 24 128 := eq_refl.
Definition p64 : Prec_gt_0 53 := eq_refl.
Definition m64 : Prec_lt_emax 53 1024 := eq_refl.
