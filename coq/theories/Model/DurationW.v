(* src/si/time.rs at primitive-integer storage (i32, i64, u64, ...): TryFrom<Time<U, V>> for Duration and back, over the
   width-checked Ratio<iN> of Model.Fixed.  `DurPanic` = the implementation panics (an intermediate of the conversion
   arithmetic leaves the storage type's range; debug build).  The statements transcribed are those pinned in
   Spec/BodyTie.v (duration_from_time, time_from_duration).  Executable Gallina only. *)
From Coq Require Import ZArith List Bool.
From UomV Require Import Model.Conv Model.Quantity Model.Fixed Model.Duration.
Import ListNotations.
Open Scope Z_scope.

Section DW.
Variables lo hi : Z.
Notation St := (StZw lo hi).

(* num-traits ToPrimitive::to_u64 / to_u32 of an integer: Some iff representable *)
Definition int_to_uint (bits : Z) (z : Z) : option Z := if (0 <=? z) && (z <? 2 ^ bits) then Some z else None.
(* FromPrimitive::from_u64 / from_u32 into the storage type *)
Definition uint_to_int (z : Z) : option Z := if (lo <=? z) && (z <=? hi) then Some z else None.

(* U: the base units' coefficients, dT: the dimension of time, ksec / knano: the coefficients of second and
   nanosecond (all as published by the storage type's Ratio<iN>), v: the stored value *)
Definition time_to_duration_w (U : list ratio) (dT : list Z) (ksec knano : ratio) (v : Z) : dur_result :=
  let Us := map Some U in
  let z := Some (0, 1) in
  (* time < Time::zero(): the right operand re-based between identical base units *)
  match rebase St true Us Us dT (Some 0) with
  | None => DurPanic
  | Some zero =>
    if v <? zero then DurNegative else
    match q_get St Us dT (Some ksec) z (Some v) with
    | None => DurPanic
    | Some time_s =>
      let secs := int_to_uint 64 time_s in
      let frac := Z.rem time_s 1 in                                   (* time_s % V::one() *)
      match q_new St Us dT (Some ksec) z (Some frac) with
      | None => DurPanic
      | Some st =>
        match q_get St Us dT (Some knano) z (Some st) with
        | None => DurPanic
        | Some ns =>
          match secs, int_to_uint 32 ns with
          | Some s, Some n => duration_new s n
          | _, _ => DurOverflow
          end
        end
      end
    end
  end.

Inductive time_result := TimeOk (v : Z) | TimeOverflow | TimePanic.

Definition duration_to_time_w (U : list ratio) (dT : list Z) (ksec knano : ratio) (secs nanos : Z) : time_result :=
  let Us := map Some U in
  let z := Some (0, 1) in
  match uint_to_int secs, uint_to_int nanos with
  | Some s, Some n =>
    match q_new St Us dT (Some ksec) z (Some s), q_new St Us dT (Some knano) z (Some n) with
    | Some a, Some b =>
      match rebase St true Us Us dT (Some b) with
      | Some b' => match iadd lo hi a b' with Some r => TimeOk r | None => TimePanic end
      | None => TimePanic
      end
    | _, _ => TimePanic
    end
  | _, _ => TimeOverflow
  end.
End DW.

(* entry points for the runner: [0 s n] ok, [1] negative, [2] overflow, [3] panic / [0 v] ok, [2] overflow, [3] panic *)
Inductive dwreq :=
| DWTo (lo hi : Z) (U : list ratio) (dT : list Z) (ksec knano : ratio) (v : Z)
| DWFrom (lo hi : Z) (U : list ratio) (dT : list Z) (ksec knano : ratio) (secs nanos : Z).

Definition dw_run (r : dwreq) : list Z :=
  match r with
  | DWTo lo hi U dT ks kn v =>
      match time_to_duration_w lo hi U dT ks kn v with
      | DurOk s n => [0; s; n] | DurNegative => [1] | DurOverflow => [2] | DurPanic => [3]
      end
  | DWFrom lo hi U dT ks kn s n =>
      match duration_to_time_w lo hi U dT ks kn s n with
      | TimeOk v => [0; v] | TimeOverflow => [2] | TimePanic => [3]
      end
  end.
