(* Executable side of the accuracy theorems: for a construction / read-back / re-basing request of the correspondence
   stream, decide the Safe premise (SafeB.safe_q, proved sound) and return the operation count n of the theorem's bound
   H^n - 1.  Extracted next to Model.Run; the checks use it to count how many cases of a run the theorems cover and to test
   the implementation's answers against exactly the proved bound. *)
From Coq Require Import ZArith QArith List Bool.
From Flocq Require Import Core BinarySingleNaN.
From UomV Require Import Model.Tables Model.Conv Model.FloatM Model.Run Proofs.Tree Proofs.ErrBound Proofs.SafeB.
Import ListNotations.
Open Scope Z_scope.

Section A.
Variables prec emax ew : Z.
Context (Hprec : Prec_gt_0 prec) (Hmax : Prec_lt_emax prec emax).
Variables lo hi : Q.
Notation ev := (eval_f prec emax Hprec Hmax).
Notation ofb := (of_bits prec emax Hprec Hmax ew).

Definition acc_tree (lib : flib) (r : req Z) : option (expr prec emax) :=
  match r with
  | RNew U d coef None v => Some (to_base_tree prec emax Hprec Hmax lib (map ev U) d (ev coef) (ofb v))
  | RGet U d coef None v => Some (from_base_tree prec emax Hprec Hmax lib (map ev U) d (ev coef) (ofb v))
  | RRebase true Ul Ur d v => Some (change_base_tree prec emax Hprec Hmax lib (map ev Ul) (map ev Ur) d (ofb v))
  | _ => None
  end.
Definition acc_run (lib : flib) (r : req Z) : list Z :=
  match acc_tree lib r with
  | Some t => [if safe_q prec emax Hprec Hmax lo hi t then 1 else 0; Z.of_nat (ops prec emax t)]
  | None => []
  end.
End A.

Definition acc_run64 := acc_run 53 1024 11 p64 m64 lo64 hi64.
Definition acc_run32 := acc_run 24 128 8 p32 m32 lo32 hi32.

(* what a "1" answers: the Safe premise of c03_new_relative_error / c03_get_relative_error / c06_float_rebase_relative_error *)
Theorem acc_run64_sound lib r t n :
  acc_tree 53 1024 11 p64 m64 lib r = Some t -> acc_run64 lib r = [1; n] ->
  Safe 53 1024 p64 m64 t /\ n = Z.of_nat (ops 53 1024 t).
Proof.
  unfold acc_run64, acc_run. intros -> H.
  destruct (safe_q 53 1024 p64 m64 lo64 hi64 t) eqn:E; [|discriminate].
  split; [apply safe64_sound; exact E|]. injection H as <-. reflexivity.
Qed.
Theorem acc_run32_sound lib r t n :
  acc_tree 24 128 8 p32 m32 lib r = Some t -> acc_run32 lib r = [1; n] ->
  Safe 24 128 p32 m32 t /\ n = Z.of_nat (ops 24 128 t).
Proof.
  unfold acc_run32, acc_run. intros -> H.
  destruct (safe_q 24 128 p32 m32 lo32 hi32 t) eqn:E; [|discriminate].
  split; [apply safe32_sound; exact E|]. injection H as <-. reflexivity.
Qed.
