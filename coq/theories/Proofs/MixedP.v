(* Mixed-base operations at exact rational storage: the result is the same physical quantity as
   if the right operand had first been re-expressed in the left operand's base units (C06, C10,
   C15).  phys U d v = v * prod U_i^d_i is the magnitude in coherent SI units. Axiom-free. *)
From Coq Require Import ZArith QArith Qpower List Bool Lia Setoid.
From UomV Require Import Model.Tables Model.Conv Model.Exact Model.Quantity Model.Storages Proofs.ExactP.
Import ListNotations.
Open Scope Q_scope.

Definition phys (U : list Q) (d : list Z) (v : Q) : Q := v * pi (combine U d).

Lemma rebaseQ ac Ul Ur d v : rebase StQ ac Ul Ur d v = if ac then change_base CFq Ul Ur d v else v.
Proof. reflexivity. Qed.

Section M.
Variables Ul Ur : list Q.
Variable d : list Z.
Hypothesis Hlen : length Ul = length Ur.
Hypothesis HUl : nonzero (combine Ul d).

Lemma rebase_phys v : phys Ul d (rebase StQ true Ul Ur d v) == phys Ur d v.
Proof. unfold phys. rewrite rebaseQ. now apply change_base_exact. Qed.

Lemma add_phys a b : phys Ul d (q_bin StQ qadd true Ul Ur d a b) == phys Ul d a + phys Ur d b.
Proof.
  unfold q_bin. rewrite <- rebase_phys. unfold phys. rewrite qadd_eq. ring.
Qed.

Lemma sub_phys a b : phys Ul d (q_bin StQ qsub true Ul Ur d a b) == phys Ul d a - phys Ur d b.
Proof.
  unfold q_bin. rewrite <- rebase_phys. unfold phys. rewrite qsub_eq. ring.
Qed.

Lemma eq_phys a b : q_bin StQ qeqb true Ul Ur d a b = true <-> phys Ul d a == phys Ur d b.
Proof.
  unfold q_bin. rewrite qeqb_iff, <- rebase_phys. unfold phys.
  assert (Hp := pi_nonzero _ HUl). split; intros H.
  - now rewrite H.
  - apply Qmult_inj_r in H; assumption.
Qed.

Hypothesis HposL : positive (combine Ul d).

Lemma lt_phys a b : q_bin StQ qlt true Ul Ur d a b = true <-> phys Ul d a < phys Ur d b.
Proof.
  unfold q_bin. rewrite qlt_iff, <- rebase_phys. unfold phys.
  assert (Hp := pi_pos _ HposL). split; intros H.
  - apply Qmult_lt_r; assumption.
  - apply Qmult_lt_r in H; assumption.
Qed.

Lemma le_phys a b : q_bin StQ qle true Ul Ur d a b = true <-> phys Ul d a <= phys Ur d b.
Proof.
  unfold q_bin, qle. rewrite <- rebase_phys. unfold phys.
  assert (Hp := pi_pos _ HposL).
  destruct (Qcompare_spec a (rebase StQ true Ul Ur d b)) as [E|E|E]; split; intros H; try reflexivity; try discriminate.
  - rewrite E. apply Qle_refl.
  - apply Qlt_le_weak. apply Qmult_lt_r; assumption.
  - exfalso. apply (Qmult_lt_r _ _ _ Hp) in E. apply (Qlt_irrefl (a * pi (combine Ul d))).
    eapply Qle_lt_trans; eassumption.
Qed.
End M.

(* products and quotients: the dimension of the result is dl + dr / dl - dr *)
Lemma pi_app_add (U : list Q) (dl dr : list Z) :
  nonzero (combine U dl) -> length U = length dl -> length U = length dr ->
  pi (combine U (map (fun p => (fst p + snd p)%Z) (combine dl dr))) == pi (combine U dl) * pi (combine U dr).
Proof.
  revert dl dr. induction U as [|u U IH]; intros [|a dl] [|b dr] H Hl Hr; try discriminate; cbn [combine map pi fst snd].
  - ring.
  - assert (Hu : ~ u == 0) by exact (H (u, a) (or_introl eq_refl)).
    rewrite Qpower_plus by exact Hu. rewrite IH.
    + ring.
    + intros p Hp. apply H. right. exact Hp.
    + now injection Hl.
    + now injection Hr.
Qed.

Lemma mul_phys (Ul Ur : list Q) (dl dr : list Z) a b :
  length Ul = length Ur -> nonzero (combine Ul dr) ->
  q_bin StQ qmul true Ul Ur dr a b * pi (combine Ul dl) * pi (combine Ul dr)
  == phys Ul dl a * phys Ur dr b.
Proof.
  intros Hlen HU. unfold q_bin. rewrite <- (rebase_phys Ul Ur dr Hlen HU b). unfold phys. rewrite qmul_eq. ring.
Qed.

Lemma div_phys (Ul Ur : list Q) (dl dr : list Z) a b :
  length Ul = length Ur -> nonzero (combine Ul dr) ->
  q_bin StQ qdiv true Ul Ur dr a b * pi (combine Ul dl) * phys Ur dr b
  == phys Ul dl a * (rebase StQ true Ul Ur dr b) * pi (combine Ul dr) * / rebase StQ true Ul Ur dr b.
Proof.
  intros Hlen HU. unfold q_bin. rewrite <- (rebase_phys Ul Ur dr Hlen HU b). unfold phys. rewrite qdiv_eq.
  unfold Qdiv. ring.
Qed.

(* fused multiply-add with operands in three different base-unit sets (repaired by the second fix: commit) *)
Lemma muladd_phys (U Ua Ub : list Q) (da ds : list Z) x a b :
  length U = length Ua -> length U = length Ub -> nonzero (combine U da) -> nonzero (combine U ds) ->
  q_muladd StQ (fun x a b => qadd (qmul x a) b) true U Ua Ub da ds x a b * pi (combine U da) * pi (combine U ds)
  == x * phys Ua da a * pi (combine U ds) + phys Ub ds b * pi (combine U da).
Proof.
  intros H1 H2 N1 N2. unfold q_muladd.
  rewrite <- (rebase_phys U Ua da H1 N1 a), <- (rebase_phys U Ub ds H2 N2 b). unfold phys.
  rewrite qadd_eq, qmul_eq. ring.
Qed.
