(* Dimension algebra and the typing judgement (C01, C02, C15, C17). Axiom-free. *)
From Coq Require Import ZArith List Bool String Lia.
From UomV Require Import Model.Tables Model.Typing.
Import ListNotations.
Open Scope Z_scope.

(* ---- exponent arithmetic, position by position, for any number of base quantities ---- *)
Lemma zip_with_nth f a b i : List.length a = List.length b -> (i < List.length a)%nat ->
  nth i (zip_with f a b) 0 = f (nth i a 0) (nth i b 0).
Proof.
  revert b i. induction a as [|x a IH]; intros [|y b] i Hl Hi; cbn in *; try lia.
  destruct i; [reflexivity|]. apply IH; lia.
Qed.
Lemma zip_with_length f a b : List.length a = List.length b -> List.length (zip_with f a b) = List.length a.
Proof. intros H. unfold zip_with. rewrite map_length, combine_length. lia. Qed.

Lemma dmul_nth a b i : List.length a = List.length b -> (i < List.length a)%nat -> nth i (dmul a b) 0 = nth i a 0 + nth i b 0.
Proof. apply zip_with_nth. Qed.
Lemma ddiv_nth a b i : List.length a = List.length b -> (i < List.length a)%nat -> nth i (ddiv a b) 0 = nth i a 0 - nth i b 0.
Proof. apply zip_with_nth. Qed.
Lemma drecip_nth a i : nth i (drecip a) 0 = - nth i a 0.
Proof. unfold drecip. change 0 with (- 0) at 1. apply map_nth. Qed.
Lemma dpowi_nth a e i : nth i (dpowi a e) 0 = nth i a 0 * e.
Proof. unfold dpowi. change 0 with (0 * e) at 1. apply (map_nth (fun x => x * e)). Qed.

Lemma dmul_comm a b : dmul a b = dmul b a.
Proof.
  unfold dmul, zip_with. revert b. induction a as [|x a IH]; intros [|y b]; cbn; try reflexivity.
  f_equal; [lia|apply IH].
Qed.
Lemma dmul_assoc a b c : dmul (dmul a b) c = dmul a (dmul b c).
Proof.
  unfold dmul, zip_with. revert b c. induction a as [|x a IH]; intros [|y b] [|z c]; cbn; try reflexivity.
  f_equal; [lia|apply IH].
Qed.
Lemma dmul_zero a : dmul (repeat 0 (List.length a)) a = a.
Proof. unfold dmul, zip_with. induction a as [|x a IH]; cbn; [reflexivity|]. now rewrite IH. Qed.
Lemma dmul_drecip a : dmul a (drecip a) = repeat 0 (List.length a).
Proof. unfold dmul, zip_with, drecip. induction a as [|x a IH]; cbn; [reflexivity|]. rewrite IH. f_equal. lia. Qed.
Lemma ddiv_is_dmul_drecip a b : ddiv a b = dmul a (drecip b).
Proof.
  unfold ddiv, dmul, zip_with, drecip. revert b. induction a as [|x a IH]; intros [|y b]; cbn; try reflexivity.
  f_equal. apply IH.
Qed.
Lemma dpowi_one a : dpowi a 1 = a.
Proof. unfold dpowi. induction a as [|x a IH]; cbn; [reflexivity|]. rewrite IH. f_equal. lia. Qed.
Lemma dpowi_add a e f : dpowi a (e + f) = dmul (dpowi a e) (dpowi a f).
Proof. unfold dpowi, dmul, zip_with. induction a as [|x a IH]; cbn; [reflexivity|]. rewrite IH. f_equal. lia. Qed.
Lemma dpowi_mul a e f : dpowi (dpowi a e) f = dpowi a (e * f).
Proof. unfold dpowi. rewrite map_map. apply map_ext. intros x. lia. Qed.

(* roots: accepted exactly when every exponent is divisible; the result inverts the power *)
Lemma droot_spec k a r : k <> 0 -> (droot k a = Some r <-> a = dpowi r k).
Proof.
  intros Hk. unfold droot, dpowi. split.
  - destruct (forallb _ a) eqn:E; [|discriminate]. intros H. injection H as <-.
    rewrite map_map. rewrite forallb_forall in E.
    rewrite <- (map_id a) at 1. apply map_ext_in. intros x Hx. specialize (E x Hx). apply Z.eqb_eq in E.
    rewrite (Z.div_mod x k Hk) at 1. rewrite E. lia.
  - intros ->. assert (E : forallb (fun x => (x mod k =? 0)) (map (fun x => x * k) r) = true).
    { apply forallb_forall. intros x Hx. apply in_map_iff in Hx. destruct Hx as (y & <- & _). apply Z.eqb_eq. apply Z.mod_mul. exact Hk. }
    rewrite E. f_equal. rewrite map_map. rewrite <- (map_id r) at 2. apply map_ext. intros x. apply Z.div_mul. exact Hk.
Qed.

Section T.
Variable kinds : list kind_decl.
Variable impl_from : list (string * string).
Variable n : nat.
Variable temp_dim : list Z.
Notation ty := (ty kinds impl_from n temp_dim).

(* C01: result types of the multiplicative operators *)
Lemma ty_mul c a b t : ty c (PMul a b) = Some t ->
  t_dim t = dmul (t_dim a) (t_dim b) /\ t_kind t = default_kind /\ t_base t = t_base a.
Proof. cbn. destruct (_ && _ && _); [|discriminate]. intros H. injection H as <-. auto. Qed.
Lemma ty_div c a b t : ty c (PDiv a b) = Some t ->
  t_dim t = ddiv (t_dim a) (t_dim b) /\ t_kind t = default_kind /\ t_base t = t_base a.
Proof. cbn. destruct (_ && _ && _); [|discriminate]. intros H. injection H as <-. auto. Qed.
Lemma ty_recip c a t : ty c (PRecip a) = Some t -> t_dim t = drecip (t_dim a) /\ t_kind t = default_kind.
Proof. cbn. destruct (has _ _ _); [|discriminate]. intros H. injection H as <-. auto. Qed.
Lemma ty_powi c a e t : ty c (PPowi a e) = Some t -> t_dim t = dpowi (t_dim a) e /\ t_kind t = default_kind.
Proof. cbn. destruct (_ && _); [|discriminate]. intros H. injection H as <-. auto. Qed.
Lemma ty_sqrt c a t : ty c (PSqrt a) = Some t -> t_dim a = dpowi (t_dim t) 2 /\ t_kind t = default_kind.
Proof.
  cbn. destruct (_ && _); [|discriminate]. destruct (droot 2 (t_dim a)) as [d|] eqn:E; [|discriminate].
  intros H. injection H as <-. split; [|reflexivity]. apply droot_spec in E; [exact E|lia].
Qed.
Lemma ty_cbrt c a t : ty c (PCbrt a) = Some t -> t_dim a = dpowi (t_dim t) 3 /\ t_kind t = default_kind.
Proof.
  cbn. destruct (_ && _); [|discriminate]. destruct (droot 3 (t_dim a)) as [d|] eqn:E; [|discriminate].
  intros H. injection H as <-. split; [|reflexivity]. apply droot_spec in E; [exact E|lia].
Qed.
Lemma ty_muladd c x a b t : ty c (PMulAdd x a b) = Some t ->
  t_dim t = dmul (t_dim x) (t_dim a) /\ t_kind t = default_kind /\ t_dim b = t_dim t.
Proof.
  cbn. destruct (_ && _ && _ && _ && _ && _ && _) eqn:E; [|discriminate]. intros H. injection H as <-. cbn.
  repeat (apply andb_prop in E; destruct E as [E ?]). repeat split. now apply list_Z_eqb_eq.
Qed.
(* scalar on the left keeps the operand's kind; 2.0 / q negates the exponents *)
Lemma ty_scalar_left_mul c a t : ty c (PScalarLeftMul a) = Some t -> List.length (t_dim a) = n -> t = a.
Proof.
  cbn. destruct (has _ _ _); [|discriminate]. intros H Hn. injection H as <-. destruct a as [d k u]. cbn in *. f_equal.
  rewrite <- Hn. apply dmul_zero.
Qed.
Lemma ty_scalar_left_div c a t : ty c (PScalarLeftDiv a) = Some t -> List.length (t_dim a) = n ->
  t_dim t = drecip (t_dim a) /\ t_kind t = t_kind a.
Proof.
  cbn. destruct (has _ _ _); [|discriminate]. intros H Hn. injection H as <-. cbn. split; [|reflexivity].
  rewrite ddiv_is_dmul_drecip. rewrite <- Hn. replace (List.length (t_dim a)) with (List.length (drecip (t_dim a))) by apply map_length.
  apply dmul_zero.
Qed.
(* + - % unary- scalar*, abs signum floor.. min max return the type of their left operand *)
Lemma ty_left_operand c p a t :
  (exists o b, p = PAdditive o a b /\ same_class a b = true) \/ p = PScalarRight a \/ p = PNeg a \/ p = PUnchanged a
  \/ (exists b, p = PSameTypeOp a b) \/ (exists b, p = PHypot a b) ->
  ty c p = Some t -> t = a.
Proof.
  intros [(o & b & -> & Hs)|[->|[->|[->|[(b & ->)|(b & ->)]]]]]; cbn.
  - unfold same_class in Hs. apply andb_prop in Hs. destruct Hs as [Hd Hk]. apply list_Z_eqb_eq in Hd. apply String.eqb_eq in Hk.
    assert (Hb : mkQty (t_dim b) (t_kind b) (t_base a) = a) by (destruct a; cbn in *; subst; reflexivity).
    rewrite Hb. destruct o; repeat (match goal with |- context [if ?c then _ else _] => destruct c end); intros H; congruence.
  - destruct (_ && _); congruence.
  - destruct (has _ _ _); congruence.
  - congruence.
  - destruct (qty_eqb a b); congruence.
  - destruct (_ && _ && _); congruence.
Qed.
(* length / time IS velocity: a default-kind alias with the prescribed exponents accepts the product *)
Lemma ty_named_interchange c a b r q3 :
  ty c (PMul a b) = Some r -> t_dim q3 = dmul (t_dim a) (t_dim b) -> t_kind q3 = default_kind -> t_base q3 = t_base a ->
  ty c (PLet q3 r) = Some q3.
Proof.
  intros Hm Hd Hk Hb. destruct (ty_mul _ _ _ _ Hm) as (D & K & B). cbn. unfold qty_eqb.
  rewrite Hd, <- D, Hk, <- K, Hb, <- B.
  assert (E1 : list_Z_eqb (t_dim r) (t_dim r) = true) by (apply list_Z_eqb_eq; reflexivity).
  now rewrite E1, String.eqb_refl, Z.eqb_refl.
Qed.

(* C02: additive / comparison programs need the SAME dimension and kind — except point +/- interval *)
Lemma ty_additive_sound c o a b t : ty c (PAdditive o a b) = Some t ->
  (same_class a b = true /\ has kinds (t_kind a) (aop_marker o) = true)
  \/ (is_point temp_dim a = true /\ is_interval temp_dim b = true /\ (o = AAdd \/ o = ASub \/ o = AAddAssign \/ o = ASubAssign))
  \/ (is_interval temp_dim a = true /\ is_point temp_dim b = true /\ o = AAdd).
Proof.
  cbn. destruct (same_class a b && has kinds (t_kind a) (aop_marker o) && bases_ok c a b) eqn:E.
  - intros _. left. apply andb_prop in E. destruct E as [E _]. apply andb_prop in E. exact E.
  - destruct o; try discriminate;
    destruct (is_point temp_dim a && is_interval temp_dim b && bases_ok c a b) eqn:E1;
    try (intros _; right; left; apply andb_prop in E1; destruct E1 as [E1 _]; apply andb_prop in E1; destruct E1; auto 6);
    try discriminate.
    destruct (is_interval temp_dim a && is_point temp_dim b && bases_ok c a b) eqn:E2; [|discriminate].
    intros _. right. right. apply andb_prop in E2. destruct E2 as [E2 _]. apply andb_prop in E2. destruct E2; auto.
Qed.
Lemma ty_compare_sound c a b t : ty c (PCompare a b) = Some t -> same_class a b = true.
Proof. cbn. destruct (same_class a b); [reflexivity|discriminate]. Qed.
Lemma ty_let_sound c alias e t : ty c (PLet alias e) = Some t -> qty_eqb alias e = true.
Proof. cbn. destruct (qty_eqb alias e); [reflexivity|discriminate]. Qed.
Lemma ty_unit_sound c qm um t : ty c (PUnit qm um) = Some t -> qm = um.
Proof. cbn. destruct (String.eqb qm um) eqn:E; [|discriminate]. intros _. now apply String.eqb_eq. Qed.
Lemma ty_from_sound c a b t : ty c (PFrom a b) = Some t ->
  qty_eqb a b = true \/ (t_dim a = t_dim b /\ In (t_kind a, t_kind b) impl_from).
Proof.
  cbn. destruct (qty_eqb a b); [auto|]. destruct (_ && _ && existsb _ _) eqn:E; [|discriminate]. intros _. right.
  apply andb_prop in E. destruct E as [E Ex]. apply andb_prop in E. destruct E as [Ed _]. split; [now apply list_Z_eqb_eq|].
  apply existsb_exists in Ex. destruct Ex as ([x y] & Hin & H). apply andb_prop in H. cbn in H. destruct H as [H1 H2].
  apply String.eqb_eq in H1, H2. subst. exact Hin.
Qed.
Lemma ty_number_sound c b t : (ty c (PFromNumber b) = Some t \/ ty c (PIntoNumber b) = Some t) ->
  Forall (fun x => x = 0) (t_dim b) /\ t_kind b = default_kind.
Proof.
  cbn. intros H. assert (E : forallb (Z.eqb 0) (t_dim b) && String.eqb (t_kind b) default_kind = true).
  { destruct H as [H|H]; destruct (_ && _); try reflexivity; discriminate. }
  apply andb_prop in E. destruct E as [E1 E2]. split; [|now apply String.eqb_eq].
  apply Forall_forall. intros x Hx. rewrite forallb_forall in E1. specialize (E1 x Hx). apply Z.eqb_eq in E1. auto.
Qed.
(* C17: without autoconvert operands in different base-unit sets are rejected *)
Lemma ty_mixed_base_rejected a b :
  t_base a <> t_base b ->
  (forall o, ty (mkCfg false true) (PAdditive o a b) = None) /\ ty (mkCfg false true) (PCompare a b) = None
  /\ ty (mkCfg false true) (PMul a b) = None /\ ty (mkCfg false true) (PDiv a b) = None
  /\ ty (mkCfg false true) (PHypot a b) = None /\ (qty_eqb a b = false -> ty (mkCfg false true) (PFrom a b) = None).
Proof.
  intros H. assert (E : Z.eqb (t_base a) (t_base b) = false) by (apply Z.eqb_neq; exact H).
  repeat split.
  - intros o. cbn. unfold bases_ok. cbn. rewrite E. destruct o; rewrite ?andb_false_r; reflexivity.
  - cbn. unfold bases_ok. cbn. rewrite E, ?andb_false_r. reflexivity.
  - cbn. unfold bases_ok. cbn. rewrite E, ?andb_false_r. reflexivity.
  - cbn. unfold bases_ok. cbn. rewrite E, ?andb_false_r. reflexivity.
  - cbn. unfold bases_ok. cbn. rewrite E, ?andb_false_r. reflexivity.
  - intros Hq. cbn. unfold bases_ok. cbn. rewrite Hq, E, ?andb_false_r. reflexivity.
Qed.
(* the judgement does not depend on autoconvert when both operands share base units *)
Lemma ty_autoconvert_irrelevant p std :
  (forall a b, match p with PAdditive _ x y | PCompare x y | PMul x y | PDiv x y | PHypot x y | PFrom x y => a = x -> b = y -> t_base a = t_base b | PMulAdd x y z => a = x -> b = y -> t_base x = t_base y /\ t_base x = t_base z | _ => True end) ->
  ty (mkCfg true std) p = ty (mkCfg false std) p.
Proof.
  intros H. destruct p; cbn; unfold bases_ok; cbn; try reflexivity;
  try (rewrite (H a b eq_refl eq_refl), Z.eqb_refl; reflexivity).
  destruct (H x a eq_refl eq_refl) as [H1 H2]. rewrite H1, Z.eqb_refl. rewrite <- H1, H2, Z.eqb_refl. reflexivity.
Qed.
End T.
