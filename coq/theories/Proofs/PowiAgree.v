(* The two integer-power algorithms (compiler-builtins' __powi?f2 behind std's powi; num-traits' FloatCore::powi
   = recip-then-pow) perform, for a NON-NEGATIVE exponent, the same multiplications in the same order: the same
   chain of squarings, and the running product of the squares at the set bits taken from the low bit up.  Only the
   first step differs (std multiplies into 1, FloatCore starts from the first factor), which is invisible as soon as
   1 * x = x.  So the std and no-std builds can differ through powi only for negative exponents
   (1 / x^n against (1/x)^n) -- the exact extent of the known class nostd-powi.  (C17) *)
From Coq Require Import ZArith Reals Lia Bool.
From Flocq Require Import Core BinarySingleNaN.
From Coq Require Import List.
From UomV Require Import Model.Tables Model.Conv Model.FloatM Model.Quantity Model.Storages Proofs.FloatLemmas.
Import ListNotations.
Open Scope Z_scope.

Section Gen.
Context {T : Type} (mul div : T -> T -> T) (one : T).
Hypothesis mul_1_l : forall x, mul one x = x.

(* running product over the bits of p, low to high; a = current square, r = product so far *)
Fixpoint spec (a r : T) (p : positive) : T :=
  match p with
  | xH => mul r a
  | xO q => spec (mul a a) r q
  | xI q => spec (mul a a) (mul r a) q
  end.

Lemma quot2_xO q : Z.quot (Zpos q~0) 2 = Zpos q.
Proof. rewrite Z.quot_div_nonneg by lia. change (Zpos q~0) with (2 * Zpos q). rewrite Z.mul_comm. apply Z.div_mul. lia. Qed.
Lemma quot2_xI q : Z.quot (Zpos q~1) 2 = Zpos q.
Proof.
  rewrite Z.quot_div_nonneg by lia. change (Zpos q~1) with (2 * Zpos q + 1).
  rewrite Z.mul_comm, Z.div_add_l by lia. change (1 / 2) with 0. lia.
Qed.

Lemma std_loop_spec p : forall fuel a r, (Pos.size_nat p <= fuel)%nat ->
  powi_loop mul fuel a r (Zpos p) = spec a r p.
Proof.
  induction p as [q IH|q IH|]; intros fuel a r Hf; (destruct fuel as [|k]; [cbn in Hf; lia|]); cbn [powi_loop spec].
  - change (Z.odd (Zpos q~1)) with true. cbn iota. rewrite quot2_xI. change (Zpos q =? 0) with false. cbn iota.
    apply IH. cbn in Hf. lia.
  - change (Z.odd (Zpos q~0)) with false. cbn iota. rewrite quot2_xO. change (Zpos q =? 0) with false. cbn iota.
    apply IH. cbn in Hf. lia.
  - change (Z.odd 1) with true. cbn iota. change (Z.quot 1 2 =? 0) with true. reflexivity.
Qed.

(* num-traits: strip the trailing zero bits by squaring ... *)
Fixpoint strip (a : T) (p : positive) : T * positive :=
  match p with xO q => strip (mul a a) q | _ => (a, p) end.

Lemma loop1_spec p : forall fuel a, (Pos.size_nat p <= fuel)%nat ->
  pow_nt_loop1 mul fuel a (Zpos p) = (fst (strip a p), Zpos (snd (strip a p))).
Proof.
  induction p as [q IH|q IH|]; intros fuel a Hf; (destruct fuel as [|k]; [cbn in Hf; lia|]); cbn [pow_nt_loop1 strip fst snd].
  - change (Z.odd (Zpos q~1)) with true. reflexivity.
  - change (Z.odd (Zpos q~0)) with false. cbn iota. change (Z.shiftr (Zpos q~0) 1) with (Zpos q). apply IH. cbn in Hf. lia.
  - change (Z.odd 1) with true. reflexivity.
Qed.

(* ... then the same running product, started from the first factor *)
Lemma loop2_spec p : forall fuel base acc, (Pos.size_nat p <= fuel)%nat ->
  pow_nt_loop2 mul fuel base acc (Zpos p~1) = spec (mul base base) acc p
  /\ pow_nt_loop2 mul fuel base acc (Zpos p~0) = spec (mul base base) acc p.
Proof.
  induction p as [q IH|q IH|]; intros fuel base acc Hf; (destruct fuel as [|k]; [cbn in Hf; lia|]).
  - assert (Hk : (Pos.size_nat q <= k)%nat) by (cbn in Hf; lia).
    split; cbn [pow_nt_loop2 spec].
    + change (1 <? Zpos q~1~1) with true. cbn iota. change (Z.shiftr (Zpos q~1~1) 1) with (Zpos q~1).
      change (Z.odd (Zpos q~1)) with true. cbn iota. apply (IH k). exact Hk.
    + change (1 <? Zpos q~1~0) with true. cbn iota. change (Z.shiftr (Zpos q~1~0) 1) with (Zpos q~1).
      change (Z.odd (Zpos q~1)) with true. cbn iota. apply (IH k). exact Hk.
  - assert (Hk : (Pos.size_nat q <= k)%nat) by (cbn in Hf; lia).
    split; cbn [pow_nt_loop2 spec].
    + change (1 <? Zpos q~0~1) with true. cbn iota. change (Z.shiftr (Zpos q~0~1) 1) with (Zpos q~0).
      change (Z.odd (Zpos q~0)) with false. cbn iota. apply (IH k). exact Hk.
    + change (1 <? Zpos q~0~0) with true. cbn iota. change (Z.shiftr (Zpos q~0~0) 1) with (Zpos q~0).
      change (Z.odd (Zpos q~0)) with false. cbn iota. apply (IH k). exact Hk.
  - split; cbn [pow_nt_loop2 spec].
    + change (1 <? 3) with true. cbn iota. change (Z.shiftr 3 1) with 1. change (Z.odd 1) with true. cbn iota.
      destruct k; reflexivity.
    + change (1 <? 2) with true. cbn iota. change (Z.shiftr 2 1) with 1. change (Z.odd 1) with true. cbn iota.
      destruct k; reflexivity.
Qed.

Lemma spec_strip p : forall a, spec a one p =
  match snd (strip a p) with
  | xH => fst (strip a p)
  | xI q => spec (mul (fst (strip a p)) (fst (strip a p))) (fst (strip a p)) q
  | xO _ => one
  end.
Proof.
  induction p as [q IH|q IH|]; intros a; cbn [spec strip fst snd].
  - rewrite mul_1_l. reflexivity.
  - apply IH.
  - apply mul_1_l.
Qed.

Lemma strip_odd p a : match snd (strip a p) with xO _ => False | _ => True end.
Proof. revert a. induction p as [q IH|q IH|]; intros a; cbn [strip snd]; [exact I|apply IH|exact I]. Qed.

Lemma strip_size p a : (Pos.size_nat (snd (strip a p)) <= Pos.size_nat p)%nat.
Proof. revert a. induction p as [q IH|q IH|]; intros a; cbn [strip snd Pos.size_nat]; [lia| |lia]. specialize (IH (mul a a)). lia. Qed.

Theorem powi_nonneg_agree fuel a e :
  0 <= e -> e < 2 ^ Z.of_nat fuel ->
  powi_std_fuel mul div one fuel a e = powi_core_fuel mul div one fuel a e.
Proof.
  intros H0 Hlt. unfold powi_std_fuel, powi_core_fuel.
  destruct (Z.ltb_spec e 0) as [Hn|_]; [lia|]. rewrite Z.abs_eq by exact H0.
  destruct e as [|p|p]; [|clear H0|lia].
  - (* e = 0 *) unfold pow_nt_fuel. cbn. destruct fuel; reflexivity.
  - assert (Hsz : (Pos.size_nat p <= fuel)%nat).
    { destruct (Nat.le_gt_cases (Pos.size_nat p) fuel) as [L|G]; [exact L|exfalso].
      assert (2 ^ Z.of_nat fuel <= Zpos p); [|lia].
      transitivity (2 ^ (Z.of_nat (Pos.size_nat p) - 1)).
      - apply Z.pow_le_mono_r; lia.
      - clear. induction p as [q IH|q IH|]; cbn [Pos.size_nat]; rewrite ?Nat2Z.inj_succ.
        + replace (Z.succ (Z.of_nat (Pos.size_nat q)) - 1) with (Z.succ (Z.of_nat (Pos.size_nat q) - 1)) by lia.
          assert (0 < Z.of_nat (Pos.size_nat q)) by (destruct q; cbn; lia).
          rewrite Z.pow_succ_r by lia. lia.
        + replace (Z.succ (Z.of_nat (Pos.size_nat q)) - 1) with (Z.succ (Z.of_nat (Pos.size_nat q) - 1)) by lia.
          assert (0 < Z.of_nat (Pos.size_nat q)) by (destruct q; cbn; lia).
          rewrite Z.pow_succ_r by lia. lia.
        + cbn. lia. }
    rewrite (std_loop_spec p fuel a one Hsz). rewrite spec_strip.
    unfold pow_nt_fuel. change (Zpos p =? 0) with false. cbn iota.
    rewrite (loop1_spec p fuel a Hsz). cbn [fst snd].
    generalize (strip_odd p a) (strip_size p a).
    destruct (snd (strip a p)) as [q|q|]; intros Hodd Hs; [|contradiction|].
    + change (Zpos q~1 =? 1) with false. cbn iota.
      symmetry. apply loop2_spec. cbn [Pos.size_nat] in Hs. lia.
    + reflexivity.
Qed.
End Gen.

Section F.
Variables prec emax : Z.
Context (Hprec : Prec_gt_0 prec) (Hmax : Prec_lt_emax prec emax).
Notation fl := (binary_float prec emax).
Notation fone := (@fone prec emax Hprec Hmax).
Notation fmul := (@fmul prec emax Hprec Hmax).

Lemma fmul_1_l (x : fl) : fmul fone x = x.
Proof.
  unfold FloatM.fmul, FloatM.fone.
  destruct x as [s|s| |s m e H].
  - destruct (Bone_shape prec emax Hprec Hmax) as (m1 & e1 & H1 & ->). simpl. try (destruct s; reflexivity); reflexivity.
  - destruct (Bone_shape prec emax Hprec Hmax) as (m1 & e1 & H1 & ->). simpl. try (destruct s; reflexivity); reflexivity.
  - destruct (Bone_shape prec emax Hprec Hmax) as (m1 & e1 & H1 & ->). simpl. try (destruct s; reflexivity); reflexivity.
  - generalize (Bmult_correct prec emax Hprec Hmax mode_NE Bone (B754_finite s m e H)).
    rewrite Bone_correct, Rmult_1_l.
    rewrite (round_generic radix2 (SpecFloat.fexp prec emax) (round_mode mode_NE) _ (generic_format_B2R prec emax _)).
    rewrite Rlt_bool_true by apply abs_B2R_lt_emax.
    intros (HR & HF & HS).
    rewrite is_finite_Bone in HF.
    apply B2R_Bsign_inj.
    + rewrite HF. reflexivity.
    + reflexivity.
    + exact HR.
    + rewrite HS.
      * rewrite Bsign_Bone. simpl. destruct s; reflexivity.
      * destruct (Bmult mode_NE Bone (B754_finite s m e H)); try reflexivity. discriminate.
Qed.

Theorem fpowi_std_core_agree_nonneg (x : fl) e :
  0 <= e < 2 ^ 31 -> fpowi prec emax Hprec Hmax LibStd x e = fpowi prec emax Hprec Hmax LibCore x e.
Proof.
  intros [H0 H1]. unfold fpowi, powi_std, powi_core.
  apply powi_nonneg_agree; [exact fmul_1_l|exact H0|]. change (Z.of_nat 40) with 40. lia.
Qed.

(* ---- consequences for conversions: with no negative exponent in the dimension, std and no-std builds compute the same
   base-unit factor, hence the same construction, read-back and re-basing, bit for bit ---- *)
Notation CFs := (CFfloat prec emax Hprec Hmax LibStd).
Notation CFc := (CFfloat prec emax Hprec Hmax LibCore).
Definition small_nonneg (d : list Z) : Prop := Forall (fun e => 0 <= e < 2 ^ 31) d.

Lemma base_factor_fold_agree (U : list fl) : forall d acc, small_nonneg d ->
  fold_left (fun a p => cmul CFs a (cpowi CFs (fst p) (snd p))) (combine U d) acc
  = fold_left (fun a p => cmul CFc a (cpowi CFc (fst p) (snd p))) (combine U d) acc.
Proof.
  induction U as [|u U IH]; intros d acc Hd; [reflexivity|].
  destruct d as [|e d]; [reflexivity|]. inversion Hd as [|e' d' He Hd']; subst.
  cbn [combine fold_left fst snd cmul cpowi CFfloat]. rewrite (fpowi_std_core_agree_nonneg u e He).
  apply IH. exact Hd'.
Qed.

Theorem base_factor_std_core_agree U d : small_nonneg d -> base_factor CFs U d = base_factor CFc U d.
Proof. intros Hd. unfold base_factor. apply base_factor_fold_agree. exact Hd. Qed.

Theorem to_base_std_core_agree U d k c v : small_nonneg d -> to_base CFs U d k c v = to_base CFc U d k c v.
Proof. intros Hd. unfold to_base. rewrite (base_factor_std_core_agree U d Hd). reflexivity. Qed.

Theorem from_base_std_core_agree U d k c v : small_nonneg d -> from_base CFs U d k c v = from_base CFc U d k c v.
Proof. intros Hd. unfold from_base. rewrite (base_factor_std_core_agree U d Hd). reflexivity. Qed.

Theorem change_base_std_core_agree Ul Ur d v : small_nonneg d -> change_base CFs Ul Ur d v = change_base CFc Ul Ur d v.
Proof.
  intros Hd. unfold change_base. generalize (combine Ul Ur). intros l. revert d Hd v.
  induction l as [|[ul ur] l IH]; intros d Hd v; [reflexivity|].
  destruct d as [|e d]; [reflexivity|]. inversion Hd as [|e' d' He Hd']; subst.
  cbn [combine fold_left]. unfold change_base_step at 2 4. cbn [fst snd ceq cmul cdiv cpowi CFfloat].
  rewrite (fpowi_std_core_agree_nonneg ur e He), (fpowi_std_core_agree_nonneg ul e He).
  apply IH. exact Hd'.
Qed.
End F.
