(* A computable sufficient condition for Tree.Safe (no overflow/underflow in any intermediate),
   evaluated in exact rational arithmetic on the float values, with its soundness proof.
   Used for the non-vacuity Examples of the accuracy theorems. *)
From Coq Require Import ZArith QArith Qreals Reals Lia Lra Psatz Bool List.
From Flocq Require Import Core BinarySingleNaN.
From UomV Require Import Model.Tables Model.Conv Model.FloatM Proofs.FloatLemmas Proofs.Tree.
Import ListNotations.

Section SB.
Variables prec emax : Z.
Context (Hprec : Prec_gt_0 prec) (Hmax : Prec_lt_emax prec emax).
Notation fl := (binary_float prec emax).
Notation expr := (expr prec emax).
Notation evalF := (evalF prec emax Hprec Hmax).
Notation emin := (3 - emax - prec)%Z.

Lemma normal_suff (x : R) :
  (bpow radix2 (emin + prec - 1) <= Rabs x)%R -> (Rabs x <= bpow radix2 (emax - 1))%R -> normal prec emax x.
Proof.
  intros Hlo Hhi. split; [exact Hlo|].
  apply Rle_lt_trans with (bpow radix2 (emax - 1)); [|apply bpow_lt; lia].
  apply abs_round_le_generic; [apply FLT_exp_valid; exact Hprec|apply valid_rnd_round_mode| |exact Hhi].
  apply generic_format_bpow. unfold FLT_exp. unfold Prec_gt_0, Prec_lt_emax in *. lia.
Qed.

(* exact rational value of a finite float *)
Definition fq (x : fl) : Q :=
  match x with
  | B754_finite s m e _ =>
    let z := if s then Zneg m else Zpos m in
    if (0 <=? e)%Z then inject_Z (z * 2 ^ e) else Qmake z (Z.to_pos (2 ^ (- e)))
  | _ => 0%Q
  end.

Lemma fq_B2R (x : fl) : is_finite x = true -> Q2R (fq x) = B2R x.
Proof.
  destruct x as [s|s| |s m e Hb]; try discriminate; intros _.
  - unfold fq, Q2R. cbn. lra.
  - unfold fq, B2R, F2R. cbn [Fnum Fexp]. set (z := if s then Z.neg m else Z.pos m).
    assert (Hz : cond_Zopp s (Z.pos m) = z) by (destruct s; reflexivity). rewrite Hz.
    destruct (0 <=? e)%Z eqn:E.
    + apply Z.leb_le in E. unfold Q2R, inject_Z. cbn [Qnum Qden]. rewrite <- (IZR_Zpower radix2 e E).
      change (radix2 ^ e)%Z with (2 ^ e)%Z. rewrite mult_IZR. simpl (IZR 1). field.
    + apply Z.leb_gt in E. unfold Q2R. cbn [Qnum Qden].
      assert (Hp : (0 < 2 ^ (- e))%Z) by (apply Z.pow_pos_nonneg; lia).
      rewrite Z2Pos.id by exact Hp.
      replace (bpow radix2 e) with (/ bpow radix2 (- e))%R by (rewrite <- bpow_opp; f_equal; lia).
      rewrite <- (IZR_Zpower radix2 (- e)) by lia. reflexivity.
Qed.

Variables lo hi : Q.
Definition in_range (q : Q) : bool :=
  (Qle_bool lo q && Qle_bool q hi) || (Qle_bool lo (- q) && Qle_bool (- q) hi).

Fixpoint safe_q (t : expr) : bool :=
  match t with
  | Leaf _ _ x => is_finite_strict x
  | Mul _ _ a b => safe_q a && safe_q b && in_range (fq (evalF a) * fq (evalF b))
  | Div _ _ a b => safe_q a && safe_q b && in_range (fq (evalF a) / fq (evalF b))
  end.

Hypothesis Hlo : (bpow radix2 (emin + prec - 1) <= Q2R lo)%R.
Hypothesis Hhi : (Q2R hi <= bpow radix2 (emax - 1))%R.

Lemma in_range_normal (q : Q) (x : R) : Q2R q = x -> in_range q = true -> normal prec emax x.
Proof.
  intros <- H. apply normal_suff; unfold in_range in H; apply orb_prop in H; destruct H as [H|H];
  apply andb_prop in H; destruct H as [H1 H2]; apply Qle_bool_iff, Qle_Rle in H1; apply Qle_bool_iff, Qle_Rle in H2;
  rewrite ?Q2R_opp in *.
  - rewrite Rabs_pos_eq; [lra|]. assert (0 < bpow radix2 (emin + prec - 1))%R by apply bpow_gt_0. lra.
  - rewrite Rabs_left1; [lra|]. assert (0 < bpow radix2 (emin + prec - 1))%R by apply bpow_gt_0. lra.
  - rewrite Rabs_pos_eq; [lra|]. assert (0 < bpow radix2 (emin + prec - 1))%R by apply bpow_gt_0. lra.
  - rewrite Rabs_left1; [lra|]. assert (0 < bpow radix2 (emin + prec - 1))%R by apply bpow_gt_0. lra.
Qed.

Theorem safe_q_sound (t : expr) : safe_q t = true -> Safe prec emax Hprec Hmax t.
Proof.
  induction t as [x|a IHa b IHb|a IHa b IHb]; cbn [safe_q Safe]; intros Hs.
  - split; [destruct x; try discriminate Hs; reflexivity|]. apply (finite_nz_B2R prec emax). exact Hs.
  - apply andb_prop in Hs. destruct Hs as [Hs Hr]. apply andb_prop in Hs. destruct Hs as [Ha Hb].
    specialize (IHa Ha). specialize (IHb Hb).
    destruct (eval_err prec emax Hprec Hmax a IHa) as (Fa & _). destruct (eval_err prec emax Hprec Hmax b IHb) as (Fb & _).
    split; [exact IHa|split; [exact IHb|]]. apply (in_range_normal (fq (evalF a) * fq (evalF b))); [|exact Hr].
    now rewrite Q2R_mult, !fq_B2R.
  - apply andb_prop in Hs. destruct Hs as [Hs Hr]. apply andb_prop in Hs. destruct Hs as [Ha Hb].
    specialize (IHa Ha). specialize (IHb Hb).
    destruct (eval_err prec emax Hprec Hmax a IHa) as (Fa & _).
    destruct (eval_err prec emax Hprec Hmax b IHb) as (Fb & Zb & rho & Cb & Eb).
    assert (Nb : B2R (evalF b) <> 0%R).
    { rewrite Eb. assert (P := close_pos prec Hprec _ rho Cb). apply Rmult_integral_contrapositive. split; [exact Zb|lra]. }
    split; [exact IHa|split; [exact IHb|]]. apply (in_range_normal (fq (evalF a) / fq (evalF b))); [|exact Hr].
    assert (Nq : ~ (fq (evalF b) == 0)%Q).
    { intros E. apply Nb. rewrite <- (fq_B2R _ Fb). rewrite (Qeq_eqR _ _ E). unfold Q2R. cbn. lra. }
    unfold Qdiv. rewrite Q2R_mult, Q2R_inv by exact Nq. now rewrite !fq_B2R.
Qed.
End SB.

(* binary64 and binary32 instances of the range: [1e-300, 1e300] and [1e-37, 1e37] *)
Lemma lo_ok (k : Z) (p : positive) : (0 < k)%Z -> (Zpos p <= 2 ^ k)%Z -> (bpow radix2 (- k) <= Q2R (1 # p))%R.
Proof.
  intros Hk Hp. rewrite bpow_opp, <- (IZR_Zpower radix2 k) by lia. change (radix2 ^ k)%Z with (2 ^ k)%Z.
  unfold Q2R. cbn [Qnum Qden]. rewrite Rmult_1_l.
  apply Rinv_le_contravar; [apply IZR_lt; lia|apply IZR_le; exact Hp].
Qed.
Lemma hi_ok (k : Z) (z : Z) : (0 <= k)%Z -> (z <= 2 ^ k)%Z -> (Q2R (inject_Z z) <= bpow radix2 k)%R.
Proof.
  intros Hk Hz. rewrite <- (IZR_Zpower radix2 k) by lia. change (radix2 ^ k)%Z with (2 ^ k)%Z.
  unfold Q2R, inject_Z. cbn [Qnum Qden]. rewrite Rinv_1, Rmult_1_r. apply IZR_le. exact Hz.
Qed.

Definition lo64 : Q := 1 # (10 ^ 300).
Definition hi64 : Q := inject_Z (10 ^ 300).
Lemma lo64_ok : (bpow radix2 (3 - 1024 - 53 + 53 - 1) <= Q2R lo64)%R.
Proof. change (3 - 1024 - 53 + 53 - 1)%Z with (- (1022))%Z. unfold lo64. apply (lo_ok 1022); [lia|]. apply Z.leb_le. vm_compute. reflexivity. Qed.
Lemma hi64_ok : (Q2R hi64 <= bpow radix2 (1024 - 1))%R.
Proof. change (1024 - 1)%Z with 1023%Z. unfold hi64. apply (hi_ok 1023); [lia|]. apply Z.leb_le. vm_compute. reflexivity. Qed.
Definition lo32 : Q := 1 # (10 ^ 37).
Definition hi32 : Q := inject_Z (10 ^ 37).
Lemma lo32_ok : (bpow radix2 (3 - 128 - 24 + 24 - 1) <= Q2R lo32)%R.
Proof. change (3 - 128 - 24 + 24 - 1)%Z with (- (126))%Z. unfold lo32. apply (lo_ok 126); [lia|]. apply Z.leb_le. vm_compute. reflexivity. Qed.
Lemma hi32_ok : (Q2R hi32 <= bpow radix2 (128 - 1))%R.
Proof. change (128 - 1)%Z with 127%Z. unfold hi32. apply (hi_ok 127); [lia|]. apply Z.leb_le. vm_compute. reflexivity. Qed.

Theorem safe64_sound (t : expr 53 1024) : safe_q 53 1024 p64 m64 lo64 hi64 t = true -> Safe 53 1024 p64 m64 t.
Proof. apply safe_q_sound; [exact lo64_ok|exact hi64_ok]. Qed.
Theorem safe32_sound (t : expr 24 128) : safe_q 24 128 p32 m32 lo32 hi32 t = true -> Safe 24 128 p32 m32 t.
Proof. apply safe_q_sound; [exact lo32_ok|exact hi32_ok]. Qed.

(* the normal-range premise of one addition / subtraction, decided by exact rational arithmetic (binary64) *)
Lemma normal64_add (x y : binary_float 53 1024) : is_finite x = true -> is_finite y = true ->
  in_range lo64 hi64 (fq 53 1024 x + fq 53 1024 y) = true -> normal 53 1024 (B2R x + B2R y).
Proof.
  intros Fx Fy H. apply (in_range_normal 53 1024 p64 m64 lo64 hi64 lo64_ok hi64_ok (fq 53 1024 x + fq 53 1024 y)); [|exact H].
  rewrite Q2R_plus, !fq_B2R by assumption. reflexivity.
Qed.
Lemma normal64_sub (x y : binary_float 53 1024) : is_finite x = true -> is_finite y = true ->
  in_range lo64 hi64 (fq 53 1024 x - fq 53 1024 y) = true -> normal 53 1024 (B2R x - B2R y).
Proof.
  intros Fx Fy H. apply (in_range_normal 53 1024 p64 m64 lo64 hi64 lo64_ok hi64_ok (fq 53 1024 x - fq 53 1024 y)); [|exact H].
  rewrite Q2R_minus, !fq_B2R by assumption. reflexivity.
Qed.
