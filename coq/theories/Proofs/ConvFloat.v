(* Bit-exact theorems about to_base / from_base / change_base at float storage (C03, C04a, C07). *)
From Coq Require Import ZArith Reals Lia Lra Bool List.
From Flocq Require Import Core BinarySingleNaN.
From UomV Require Import Model.Tables Model.Conv Model.FloatM Proofs.FloatLemmas.
Import ListNotations.
Open Scope Z_scope.

Section C.
Variables prec emax : Z.
Context (Hprec : Prec_gt_0 prec) (Hmax : Prec_lt_emax prec emax).
Variable lib : flib.
Notation fl := (binary_float prec emax).
Notation F := (CFfloat prec emax Hprec Hmax lib).
Notation fone := (@fone prec emax Hprec Hmax).
Notation fmul := (@fmul prec emax Hprec Hmax).
Notation fdiv := (@fdiv prec emax Hprec Hmax).
Notation fadd := (@fadd prec emax Hprec Hmax).
Notation fsub := (@fsub prec emax Hprec Hmax).
Notation flt := (@flt prec emax).
Notation nzero := (B754_zero true : fl).
Notation pzero := (B754_zero false : fl).

(* every base unit that the dimension actually uses has coefficient exactly 1 *)
Definition unit_bases (U : list fl) (d : list Z) : Prop :=
  forall p, In p (combine U d) -> fst p = fone \/ snd p = 0.

Lemma base_factor_fold_one (l : list (fl * Z)) :
  (forall p, In p l -> fst p = fone \/ snd p = 0) ->
  fold_left (fun acc p => cmul F acc (cpowi F (fst p) (snd p))) l fone = fone.
Proof.
  induction l as [|[u e] l IH]; intros H; [reflexivity|].
  cbn [fold_left]. cbn [cmul cpowi CFfloat fst snd].
  assert (Hp : fpowi prec emax Hprec Hmax lib u e = fone).
  { destruct (H (u, e) (or_introl eq_refl)) as [Hu|He]; cbn [fst snd] in *.
    - subst u. apply fpowi_one.
    - subst e. apply fpowi_zero. }
  rewrite Hp, fmul_1_1. apply IH. intros p Hin. apply H. right. exact Hin.
Qed.

Lemma base_factor_one U d : unit_bases U d -> base_factor F U d = fone.
Proof. intros H. unfold base_factor. cbn [cone CFfloat]. now apply base_factor_fold_one. Qed.

(* --- identity: coherent base unit of the default base --- *)
Lemma to_base_id U d v : base_factor F U d = fone -> to_base F U d fone nzero v = v.
Proof.
  intros Hf. unfold to_base. rewrite Hf. cbn [cge cmul cadd cdiv CFfloat].
  rewrite fge_refl by apply fone_not_nan.
  now rewrite fadd_nzero_r, fdiv_1_1, fmul_1_r.
Qed.

Lemma from_base_id U d v : base_factor F U d = fone -> from_base F U d fone pzero v = v.
Proof.
  intros Hf. unfold from_base. rewrite Hf. cbn [clt cmul csub cdiv CFfloat].
  rewrite flt_irrefl.
  now rewrite fsub_pzero_r, fdiv_1_1, fdiv_1_r.
Qed.

(* --- identity: the unit IS the base-unit combination in use (e.g. kilometer in a km base) --- *)
Lemma to_base_base_unit U d k v :
  finite_nz prec emax k = true -> base_factor F U d = k -> to_base F U d k nzero v = v.
Proof.
  intros Hk Hf. unfold to_base. rewrite Hf. cbn [cge cmul cadd cdiv CFfloat].
  rewrite fge_refl by (destruct k; try discriminate; reflexivity).
  now rewrite fadd_nzero_r, fdiv_self, fmul_1_r.
Qed.

Lemma from_base_base_unit U d k v :
  finite_nz prec emax k = true -> base_factor F U d = k -> from_base F U d k pzero v = v.
Proof.
  intros Hk Hf. unfold from_base. rewrite Hf. cbn [clt cmul csub cdiv CFfloat].
  rewrite flt_irrefl.
  now rewrite fsub_pzero_r, fdiv_self, fdiv_1_r.
Qed.

(* --- default base (factor 1): construction is one correctly rounded product, in BOTH branches --- *)
Lemma to_base_default U d coef cons v :
  base_factor F U d = fone -> to_base F U d coef cons v = fmul (fadd v cons) coef.
Proof.
  intros Hf. unfold to_base. rewrite Hf. cbn [cge cmul cadd cdiv CFfloat].
  destruct (fge prec emax coef fone); now rewrite fdiv_1_r.
Qed.

Lemma from_base_default U d coef cons v :
  base_factor F U d = fone ->
  from_base F U d coef cons v =
    if flt coef fone then fsub (fmul v (fdiv fone coef)) cons else fsub (fdiv v coef) cons.
Proof.
  intros Hf. unfold from_base. rewrite Hf. cbn [clt cmul csub cdiv CFfloat].
  destruct (flt coef fone); [reflexivity|]. now rewrite fdiv_1_r.
Qed.

(* --- the offset is applied exactly once, before (to_base) / after (from_base) the scaling --- *)
Lemma to_base_offset_split U d coef cons v :
  to_base F U d coef cons v = to_base F U d coef nzero (fadd v cons).
Proof. unfold to_base. cbn [cge cmul cadd cdiv CFfloat]. now rewrite fadd_nzero_r. Qed.

Lemma from_base_offset_split U d coef cons v :
  from_base F U d coef cons v = fsub (from_base F U d coef pzero v) cons.
Proof.
  unfold from_base. cbn [clt cmul csub cdiv CFfloat].
  destruct (flt coef _); now rewrite fsub_pzero_r.
Qed.

(* --- change_base is the identity when, wherever the dimension is non-zero, both sides use the
       same (non-NaN) base unit: the case of every same-base operation, in ANY base-unit set --- *)
Definition agree_bases (Ul Ur : list fl) (d : list Z) : Prop :=
  forall p, In p (combine (combine Ul Ur) d) ->
    (fst (fst p) = snd (fst p) /\ is_nan (fst (fst p)) = false) \/ snd p = 0.

Lemma change_base_id Ul Ur d v : agree_bases Ul Ur d -> change_base F Ul Ur d v = v.
Proof.
  unfold change_base, agree_bases. revert v.
  induction (combine (combine Ul Ur) d) as [|[[ul ur] e] l IH]; intros v H; [reflexivity|].
  cbn [fold_left]. unfold change_base_step at 2. cbn [fst snd ceq cmul cdiv cpowi CFfloat].
  assert (Hs : (if feq prec emax ur ul then v
                else fdiv (fmul v (fpowi prec emax Hprec Hmax lib ur e)) (fpowi prec emax Hprec Hmax lib ul e)) = v).
  { destruct (H ((ul, ur), e) (or_introl eq_refl)) as [[H1 H2]|He]; cbn [fst snd] in *.
    - subst ur. now rewrite feq_refl.
    - subst e. rewrite !fpowi_zero, fmul_1_r, fdiv_1_r. now destruct (feq prec emax ur ul). }
  rewrite Hs. apply IH. intros p Hin. apply H. right. exact Hin.
Qed.

End C.
