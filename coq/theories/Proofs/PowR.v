(* The compiler-builtins powi loop over the reals computes the integer power (closed form of powi_R, std). *)
From Coq Require Import ZArith Reals Lia Lra Psatz Bool.
From UomV Require Import Model.FloatM.
Open Scope Z_scope.

Lemma powi_loop_R (fuel : nat) (a r : R) (b : Z) :
  0 <= b < 2 ^ Z.of_nat fuel -> powi_loop Rmult fuel a r b = (r * a ^ Z.to_nat b)%R.
Proof.
  revert a r b. induction fuel as [|k IH]; intros a r b Hb.
  - assert (b = 0) by (cbn in Hb; lia). subst. cbn [powi_loop]. change (Z.to_nat 0) with 0%nat. simpl pow. ring.
  - cbn [powi_loop].
    assert (Hq : Z.quot b 2 = b / 2) by (apply Z.quot_div_nonneg; lia). rewrite Hq.
    assert (Hdm := Z.div_mod b 2 ltac:(lia)). assert (Hm := Z.mod_pos_bound b 2 ltac:(lia)).
    assert (Hodd : Z.odd b = (b mod 2 =? 1)).
    { rewrite Zmod_odd. destruct (Z.odd b); reflexivity. }
    destruct (b / 2 =? 0) eqn:E0.
    + apply Z.eqb_eq in E0. rewrite Hodd. destruct (b mod 2 =? 1) eqn:E1.
      * apply Z.eqb_eq in E1. assert (b = 1) by lia. subst. change (Z.to_nat 1) with 1%nat. simpl pow. ring.
      * apply Z.eqb_neq in E1. assert (b = 0) by lia. subst. change (Z.to_nat 0) with 0%nat. simpl pow. ring.
    + apply Z.eqb_neq in E0.
      assert (Hb2 : 0 <= b / 2 < 2 ^ Z.of_nat k).
      { split; [apply Z.div_pos; lia|]. apply Z.div_lt_upper_bound; [lia|]. rewrite Nat2Z.inj_succ, Z.pow_succ_r in Hb by lia. lia. }
      rewrite IH by exact Hb2.
      assert (Hp : ((a * a) ^ Z.to_nat (b / 2) = a ^ (2 * Z.to_nat (b / 2)))%R).
      { rewrite pow_mult. f_equal. ring. }
      rewrite Hp, Hodd. destruct (b mod 2 =? 1) eqn:E1.
      * apply Z.eqb_eq in E1. replace (Z.to_nat b) with (S (2 * Z.to_nat (b / 2)))%nat by lia. cbn [pow]. ring.
      * apply Z.eqb_neq in E1. replace (Z.to_nat b) with (2 * Z.to_nat (b / 2))%nat by lia. ring.
Qed.

(* f64::powi / f32::powi (dev profile): x^e for e >= 0, 1 / x^|e| for e < 0 *)
Theorem powi_std_R (a : R) (e : Z) : Z.abs e < 2 ^ 40 ->
  powi_std Rmult Rdiv 1%R a e = (if e <? 0 then 1 / a ^ Z.to_nat (- e) else a ^ Z.to_nat e)%R.
Proof.
  intros He. unfold powi_std, powi_std_fuel.
  rewrite powi_loop_R by (change (Z.of_nat 40) with 40; lia).
  destruct (e <? 0) eqn:E.
  - apply Z.ltb_lt in E. rewrite Z.abs_neq by lia. f_equal. ring.
  - apply Z.ltb_ge in E. rewrite Z.abs_eq by lia. ring.
Qed.
