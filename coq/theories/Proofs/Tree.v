
From Coq Require Import ZArith Reals Lia Lra Psatz Bool.
From Flocq Require Import Core BinarySingleNaN Relative.
Open Scope R_scope.

Section T.
Variables prec emax : Z.
Context (Hprec : Prec_gt_0 prec) (Hmax : Prec_lt_emax prec emax).
Notation fl := (binary_float prec emax).
Notation emin := (3 - emax - prec)%Z.
Notation fexp := (FLT_exp emin prec).
Notation rnd := (round radix2 fexp (round_mode mode_NE)).
Notation B2R := (@B2R prec emax).

Definition u : R := / 2 * bpow radix2 (- prec + 1).
Definition H : R := / (1 - u).

Lemma u_pos : 0 < u.
Proof. unfold u. apply Rmult_lt_0_compat; [lra|apply bpow_gt_0]. Qed.
Lemma u_le_half : u <= / 2.
Proof.
  unfold u. rewrite <- (Rmult_1_r (/2)) at 2. apply Rmult_le_compat_l; [lra|].
  change 1 with (bpow radix2 0). apply bpow_le. unfold Prec_gt_0 in Hprec. lia.
Qed.
Lemma H_ge_1 : 1 <= H.
Proof.
  unfold H. generalize u_pos u_le_half; intros.
  rewrite <- Rinv_1 at 1. apply Rinv_le_contravar; lra.
Qed.
Lemma H_pos : 0 < H. Proof. generalize H_ge_1; lra. Qed.

(* a ratio rho is n-close to 1 *)
Definition close (n : nat) (rho : R) : Prop := / H ^ n <= rho <= H ^ n.

Lemma Hn_pos n : 0 < H ^ n. Proof. apply pow_lt, H_pos. Qed.
Lemma Hn_ge1 n : 1 <= H ^ n. Proof. apply pow_R1_Rle, H_ge_1. Qed.

Lemma close_pos n r : close n r -> 0 < r.
Proof. intros [Hl _]. eapply Rlt_le_trans; [|exact Hl]. apply Rinv_0_lt_compat, Hn_pos. Qed.

Lemma close_mul n m a b : close n a -> close m b -> close (n + m) (a * b).
Proof.
  intros Ha Hb. assert (Pa := close_pos _ _ Ha). assert (Pb := close_pos _ _ Hb).
  destruct Ha as [Ha1 Ha2], Hb as [Hb1 Hb2]. unfold close.
  rewrite pow_add. assert (Pn := Hn_pos n). assert (Pm := Hn_pos m).
  rewrite Rinv_mult.
  assert (0 < / H ^ n) by (apply Rinv_0_lt_compat; lra).
  assert (0 < / H ^ m) by (apply Rinv_0_lt_compat; lra).
  split; apply Rmult_le_compat; lra.
Qed.

Lemma close_inv n a : close n a -> close n (/ a).
Proof.
  intros Ha. assert (Pa := close_pos _ _ Ha). destruct Ha as [Ha1 Ha2]. unfold close.
  assert (Pn := Hn_pos n). split.
  - apply Rinv_le_contravar; lra.
  - rewrite <- (Rinv_inv (H ^ n)). apply Rinv_le_contravar; [apply Rinv_0_lt_compat; lra|lra].
Qed.

Lemma close_round eps : Rabs eps <= u -> close 1 (1 + eps).
Proof.
  intros He. apply Rabs_le_inv in He. generalize u_pos u_le_half; intros.
  unfold close. simpl. rewrite Rmult_1_r. unfold H. rewrite Rinv_inv.
  split; [lra|].
  apply Rmult_le_reg_r with (1 - u); [lra|]. rewrite Rinv_l by lra. nra.
Qed.

Lemma close_err n r : close n r -> Rabs (r - 1) <= H ^ n - 1.
Proof.
  intros [H1 H2]. assert (Pn := Hn_pos n). assert (Gn := Hn_ge1 n).
  apply Rabs_le. split; [|lra].
  assert (/ H ^ n >= 2 - H ^ n).
  { apply Rle_ge. apply Rmult_le_reg_r with (H ^ n); [lra|]. rewrite Rinv_l by lra. nra. }
  lra.
Qed.

(* expression trees over floats *)
Inductive expr := Leaf (x : fl) | Mul (a b : expr) | Div (a b : expr).
Fixpoint evalF (e : expr) : fl := match e with
  | Leaf x => x | Mul a b => Bmult mode_NE (evalF a) (evalF b) | Div a b => Bdiv mode_NE (evalF a) (evalF b) end.
Fixpoint evalR (e : expr) : R := match e with
  | Leaf x => B2R x | Mul a b => evalR a * evalR b | Div a b => evalR a / evalR b end.
Fixpoint ops (e : expr) : nat := match e with Leaf _ => O | Mul a b | Div a b => S (ops a + ops b) end.

Definition normal (x : R) : Prop := bpow radix2 (emin + prec - 1) <= Rabs x /\ Rabs (rnd x) < bpow radix2 emax.
Fixpoint Safe (e : expr) : Prop := match e with
  | Leaf x => is_finite x = true /\ B2R x <> 0
  | Mul a b => Safe a /\ Safe b /\ normal (B2R (evalF a) * B2R (evalF b))
  | Div a b => Safe a /\ Safe b /\ normal (B2R (evalF a) / B2R (evalF b)) end.

Lemma normal_nz x : normal x -> x <> 0.
Proof. intros [Hl _] ->. rewrite Rabs_R0 in Hl. generalize (bpow_gt_0 radix2 (emin + prec - 1)). lra. Qed.

Theorem eval_err e : Safe e ->
  is_finite (evalF e) = true /\ evalR e <> 0 /\ exists rho, close (ops e) rho /\ B2R (evalF e) = evalR e * rho.
Proof.
  induction e as [x|a IHa b IHb|a IHa b IHb]; simpl.
  - intros [Fx Nx]. split; [exact Fx|]. split; [exact Nx|]. exists 1. split; [|ring].
    unfold close. simpl. rewrite Rinv_1. lra.
  - intros (Sa & Sb & Nab). destruct (IHa Sa) as (Fa & Za & ra & Ca & Ea). destruct (IHb Sb) as (Fb & Zb & rb & Cb & Eb).
    destruct Nab as [Hlo Hhi].
    generalize (Bmult_correct prec emax Hprec Hmax mode_NE (evalF a) (evalF b)).
    rewrite Rlt_bool_true by exact Hhi. intros (HR & HF & _). rewrite Fa, Fb in HF.
    split; [exact HF|]. split; [nra|].
    destruct (relative_error_N_FLT_ex radix2 emin prec Hprec (fun x => negb (Z.even x)) _ Hlo) as (eps & He & Hr).
    exists (ra * rb * (1 + eps)). split.
    + replace (S (ops a + ops b)) with ((ops a + ops b) + 1)%nat by lia.
      apply close_mul; [apply close_mul; assumption|apply close_round; exact He].
    + rewrite HR. transitivity (B2R (evalF a) * B2R (evalF b) * (1 + eps)); [exact Hr|]. rewrite Ea, Eb. ring.
  - intros (Sa & Sb & Nab). destruct (IHa Sa) as (Fa & Za & ra & Ca & Ea). destruct (IHb Sb) as (Fb & Zb & rb & Cb & Eb).
    destruct Nab as [Hlo Hhi].
    assert (Pb := close_pos _ _ Cb).
    assert (Nb : B2R (evalF b) <> 0) by (rewrite Eb; nra).
    generalize (Bdiv_correct prec emax Hprec Hmax mode_NE (evalF a) (evalF b) Nb).
    rewrite Rlt_bool_true by exact Hhi. intros (HR & HF & _). rewrite Fa in HF.
    split; [exact HF|]. split; [unfold Rdiv; apply Rmult_integral_contrapositive; split; [exact Za|apply Rinv_neq_0_compat; exact Zb]|].
    destruct (relative_error_N_FLT_ex radix2 emin prec Hprec (fun x => negb (Z.even x)) _ Hlo) as (eps & He & Hr).
    exists (ra * / rb * (1 + eps)). split.
    + replace (S (ops a + ops b)) with ((ops a + ops b) + 1)%nat by lia.
      apply close_mul; [apply close_mul; [assumption|apply close_inv; assumption]|apply close_round; exact He].
    + rewrite HR. transitivity (B2R (evalF a) / B2R (evalF b) * (1 + eps)); [exact Hr|]. rewrite Ea, Eb. field. split; lra.
Qed.

Corollary eval_relerr e : Safe e -> Rabs (B2R (evalF e) - evalR e) <= (H ^ ops e - 1) * Rabs (evalR e).
Proof.
  intros S. destruct (eval_err e S) as (_ & _ & rho & C & E). rewrite E.
  replace (evalR e * rho - evalR e) with (evalR e * (rho - 1)) by ring.
  rewrite Rabs_mult, Rmult_comm. apply Rmult_le_compat_r; [apply Rabs_pos|]. apply close_err, C.
Qed.
End T.
Print Assumptions eval_relerr.
