(* Floating-point error of to_base / from_base / change_base (offset-free), for EVERY precision:
   the Rust expression is reflected as a mul/div expression tree whose float evaluation IS the
   model function (so the theorem is about the very function the runner executes) and whose real
   evaluation is the exact conversion formula; Tree.eval_relerr bounds the distance. *)
From Coq Require Import ZArith Reals Lia Lra Psatz Bool List.
From Flocq Require Import Core BinarySingleNaN Relative.
From UomV Require Import Model.Tables Model.Conv Model.FloatM Proofs.FloatLemmas Proofs.CmpP Proofs.Tree.
Import ListNotations.
Open Scope Z_scope.

(* ---- the two powi algorithms commute with any homomorphism of (mul, div, one) ---- *)
Section Hom.
Context {A B : Type} (mulA divA : A -> A -> A) (oneA : A) (mulB divB : B -> B -> B) (oneB : B) (h : A -> B).
Hypothesis hmul : forall x y, h (mulA x y) = mulB (h x) (h y).
Hypothesis hdiv : forall x y, h (divA x y) = divB (h x) (h y).
Hypothesis hone : h oneA = oneB.

Lemma powi_loop_hom fuel a r b : h (powi_loop mulA fuel a r b) = powi_loop mulB fuel (h a) (h r) b.
Proof.
  revert a r b. induction fuel as [|k IH]; intros a r b; cbn [powi_loop]; [reflexivity|].
  destruct (Z.odd b); destruct (Z.quot b 2 =? 0); rewrite ?IH, ?hmul; reflexivity.
Qed.
Lemma powi_std_hom a e : h (powi_std mulA divA oneA a e) = powi_std mulB divB oneB (h a) e.
Proof.
  unfold powi_std, powi_std_fuel. destruct (e <? 0); rewrite ?hdiv, powi_loop_hom, hone; reflexivity.
Qed.
Lemma pow_nt_loop1_hom fuel a e :
  h (fst (pow_nt_loop1 mulA fuel a e)) = fst (pow_nt_loop1 mulB fuel (h a) e)
  /\ snd (pow_nt_loop1 mulA fuel a e) = snd (pow_nt_loop1 mulB fuel (h a) e).
Proof.
  revert a e. induction fuel as [|k IH]; intros a e; cbn [pow_nt_loop1]; [auto|].
  destruct (Z.odd e); [auto|]. rewrite <- hmul. apply IH.
Qed.
Lemma pow_nt_loop2_hom fuel a acc e : h (pow_nt_loop2 mulA fuel a acc e) = pow_nt_loop2 mulB fuel (h a) (h acc) e.
Proof.
  revert a acc e. induction fuel as [|k IH]; intros a acc e; cbn [pow_nt_loop2]; [reflexivity|].
  destruct (1 <? e); [|reflexivity]. destruct (Z.odd (Z.shiftr e 1)); rewrite IH, ?hmul; reflexivity.
Qed.
Lemma powi_core_hom a e : h (powi_core mulA divA oneA a e) = powi_core mulB divB oneB (h a) e.
Proof.
  unfold powi_core, powi_core_fuel, pow_nt_fuel.
  assert (Ha : h (if e <? 0 then divA oneA a else a) = (if e <? 0 then divB oneB (h a) else h a))
    by (destruct (e <? 0); rewrite ?hdiv, ?hone; reflexivity).
  set (a' := if e <? 0 then divA oneA a else a) in *. rewrite <- Ha.
  destruct (Z.abs e =? 0); [exact hone|].
  destruct (pow_nt_loop1_hom 40 a' (Z.abs e)) as [H1 H2]. rewrite <- H2.
  destruct (snd (pow_nt_loop1 mulA 40 a' (Z.abs e)) =? 1); [exact H1|].
  rewrite pow_nt_loop2_hom, H1. reflexivity.
Qed.
End Hom.

Section E.
Variables prec emax : Z.
Context (Hprec : Prec_gt_0 prec) (Hmax : Prec_lt_emax prec emax).
Variable lib : flib.
Notation fl := (binary_float prec emax).
Notation expr := (expr prec emax).
Notation evalF := (evalF prec emax Hprec Hmax).
Notation evalR := (evalR prec emax).
Notation F := (CFfloat prec emax Hprec Hmax lib).
Notation one := (fone prec emax Hprec Hmax).

Definition oneE : expr := Leaf prec emax one.
Definition powi_tree (x : expr) (e : Z) : expr :=
  match lib with
  | LibStd => powi_std (Mul prec emax) (Div prec emax) oneE x e
  | LibCore => powi_core (Mul prec emax) (Div prec emax) oneE x e
  end.

Lemma powi_tree_evalF x e : evalF (powi_tree x e) = fpowi prec emax Hprec Hmax lib (evalF x) e.
Proof.
  unfold powi_tree, fpowi. destruct lib.
  - apply (powi_std_hom (Mul prec emax) (Div prec emax) oneE _ _ _ evalF); reflexivity.
  - apply (powi_core_hom (Mul prec emax) (Div prec emax) oneE _ _ _ evalF); reflexivity.
Qed.

(* the same algorithm over the reals: what the tree denotes exactly *)
Definition powi_R (x : R) (e : Z) : R :=
  match lib with
  | LibStd => powi_std Rmult Rdiv 1%R x e
  | LibCore => powi_core Rmult Rdiv 1%R x e
  end.
Lemma powi_tree_evalR x e : evalR (powi_tree x e) = powi_R (evalR x) e.
Proof.
  assert (H1 : evalR oneE = 1%R) by (apply Bone_correct).
  unfold powi_tree, powi_R. destruct lib.
  - apply (powi_std_hom (Mul prec emax) (Div prec emax) oneE _ _ _ evalR); try reflexivity; exact H1.
  - apply (powi_core_hom (Mul prec emax) (Div prec emax) oneE _ _ _ evalR); try reflexivity; exact H1.
Qed.

(* base factor, to_base, from_base, change_base as trees *)
Definition factor_tree (U : list fl) (d : list Z) : expr :=
  fold_left (fun acc p => Mul prec emax acc (powi_tree (Leaf prec emax (fst p)) (snd p))) (combine U d) oneE.

Lemma factor_tree_evalF U d : evalF (factor_tree U d) = base_factor F U d.
Proof.
  unfold factor_tree, base_factor. cbn [cone CFfloat].
  assert (G : forall l acc, evalF (fold_left (fun acc p => Mul prec emax acc (powi_tree (Leaf prec emax (fst p)) (snd p))) l acc)
                            = fold_left (fun acc p => cmul F acc (cpowi F (fst p) (snd p))) l (evalF acc)).
  { induction l as [|[u e] l IH]; intros acc; cbn [fold_left]; [reflexivity|].
    rewrite IH. cbn [evalF cmul cpowi CFfloat fst snd]. rewrite powi_tree_evalF. reflexivity. }
  rewrite G. reflexivity.
Qed.

Definition to_base_tree (U : list fl) (d : list Z) (k v : fl) : expr :=
  let f := factor_tree U d in
  if fge prec emax k (evalF f)
  then Mul prec emax (Leaf prec emax v) (Div prec emax (Leaf prec emax k) f)
  else Div prec emax (Mul prec emax (Leaf prec emax v) (Leaf prec emax k)) f.

Definition from_base_tree (U : list fl) (d : list Z) (k v : fl) : expr :=
  let f := factor_tree U d in
  if flt prec emax k (evalF f)
  then Mul prec emax (Leaf prec emax v) (Div prec emax f (Leaf prec emax k))
  else Div prec emax (Leaf prec emax v) (Div prec emax (Leaf prec emax k) f).

(* the float evaluation of the tree IS the model function (offset-free unit: constants -0.0 / +0.0) *)
Lemma to_base_tree_evalF U d k v : evalF (to_base_tree U d k v) = to_base F U d k (B754_zero true) v.
Proof.
  unfold to_base_tree, to_base. rewrite <- factor_tree_evalF. cbn [cge cmul cadd cdiv CFfloat].
  rewrite fadd_nzero_r. destruct (fge prec emax k (evalF (factor_tree U d))); reflexivity.
Qed.
Lemma from_base_tree_evalF U d k v : evalF (from_base_tree U d k v) = from_base F U d k (B754_zero false) v.
Proof.
  unfold from_base_tree, from_base. rewrite <- factor_tree_evalF. cbn [clt cmul csub cdiv CFfloat].
  destruct (flt prec emax k (evalF (factor_tree U d))); rewrite fsub_pzero_r; reflexivity.
Qed.

(* the real evaluation is the conversion formula over the exact base factor *)
Definition factor_R (U : list fl) (d : list Z) : R :=
  fold_left (fun acc p => (acc * powi_R (B2R (fst p)) (snd p))%R) (combine U d) 1%R.
Lemma factor_tree_evalR U d : evalR (factor_tree U d) = factor_R U d.
Proof.
  unfold factor_tree, factor_R. assert (H1 : evalR oneE = 1%R) by (apply Bone_correct).
  assert (G : forall l acc, evalR (fold_left (fun acc p => Mul prec emax acc (powi_tree (Leaf prec emax (fst p)) (snd p))) l acc)
                            = fold_left (fun acc p => (acc * powi_R (B2R (fst p)) (snd p))%R) l (evalR acc)).
  { induction l as [|[u e] l IH]; intros acc; cbn [fold_left]; [reflexivity|].
    rewrite IH. cbn [evalR fst snd]. rewrite powi_tree_evalR. reflexivity. }
  rewrite G, H1. reflexivity.
Qed.
Lemma to_base_tree_evalR U d k v : factor_R U d <> 0%R ->
  evalR (to_base_tree U d k v) = (B2R v * B2R k / factor_R U d)%R.
Proof.
  intros Hf. unfold to_base_tree. destruct (fge _ _ _); cbn [evalR]; rewrite factor_tree_evalR; field; exact Hf.
Qed.
Lemma from_base_tree_evalR U d k v : factor_R U d <> 0%R -> B2R k <> 0%R ->
  evalR (from_base_tree U d k v) = (B2R v * factor_R U d / B2R k)%R.
Proof.
  intros Hf Hk. unfold from_base_tree. destruct (flt _ _ _); cbn [evalR]; rewrite factor_tree_evalR; field; auto.
Qed.

(* ---- the error theorems: offset-free unit, no overflow/underflow in any intermediate (Safe) ---- *)
Theorem to_base_relerr U d k v :
  let t := to_base_tree U d k v in
  Safe prec emax Hprec Hmax t ->
  to_base F U d k (B754_zero true) v = evalF t
  /\ is_finite (evalF t) = true
  /\ (Rabs (B2R (evalF t) - B2R v * B2R k / factor_R U d) <= (H prec ^ ops prec emax t - 1) * Rabs (B2R v * B2R k / factor_R U d))%R.
Proof.
  intros t St. split; [symmetry; apply to_base_tree_evalF|].
  destruct (eval_err prec emax Hprec Hmax t St) as (Fin & Nz & _). split; [exact Fin|].
  assert (Hf : factor_R U d <> 0%R).
  { intro E. apply Nz. unfold t, to_base_tree. destruct (fge _ _ _); cbn [evalR]; rewrite factor_tree_evalR, E; unfold Rdiv; rewrite ?Rinv_0; ring. }
  rewrite <- (to_base_tree_evalR U d k v Hf). apply eval_relerr. exact St.
Qed.

Theorem from_base_relerr U d k v :
  let t := from_base_tree U d k v in
  Safe prec emax Hprec Hmax t ->
  from_base F U d k (B754_zero false) v = evalF t
  /\ is_finite (evalF t) = true
  /\ (Rabs (B2R (evalF t) - B2R v * factor_R U d / B2R k) <= (H prec ^ ops prec emax t - 1) * Rabs (B2R v * factor_R U d / B2R k))%R.
Proof.
  intros t St. split; [symmetry; apply from_base_tree_evalF|].
  destruct (eval_err prec emax Hprec Hmax t St) as (Fin & Nz & _). split; [exact Fin|].
  assert (Hk : B2R k <> 0%R /\ factor_R U d <> 0%R).
  { unfold t, from_base_tree in Nz. destruct (flt _ _ _); cbn [evalR] in Nz; rewrite factor_tree_evalR in Nz; split; intro E; apply Nz; rewrite E; unfold Rdiv; rewrite ?Rinv_0, ?Rmult_0_l, ?Rmult_0_r, ?Rinv_0; try ring. }
  destruct Hk as [Hk Hf]. rewrite <- (from_base_tree_evalR U d k v Hf Hk). apply eval_relerr. exact St.
Qed.
End E.

(* ---- change_base as a tree; separation theorem for mixed-base comparisons ---- *)
Section CB.
Variables prec emax : Z.
Context (Hprec : Prec_gt_0 prec) (Hmax : Prec_lt_emax prec emax).
Variable lib : flib.
Notation fl := (binary_float prec emax).
Notation expr := (expr prec emax).
Notation evalF := (evalF prec emax Hprec Hmax).
Notation evalR := (evalR prec emax).
Notation F := (CFfloat prec emax Hprec Hmax lib).
Notation ptree := (powi_tree prec emax Hprec Hmax lib).

Definition cb_step_tree (acc : expr) (p : fl * fl * Z) : expr :=
  let ul := fst (fst p) in let ur := snd (fst p) in let e := snd p in
  if feq prec emax ur ul then acc
  else Div prec emax (Mul prec emax acc (ptree (Leaf prec emax ur) e)) (ptree (Leaf prec emax ul) e).
Definition change_base_tree (Ul Ur : list fl) (d : list Z) (v : fl) : expr :=
  fold_left cb_step_tree (combine (combine Ul Ur) d) (Leaf prec emax v).

Lemma change_base_tree_evalF Ul Ur d v : evalF (change_base_tree Ul Ur d v) = change_base F Ul Ur d v.
Proof.
  unfold change_base_tree, change_base. change v with (evalF (Leaf prec emax v)) at 2.
  generalize (Leaf prec emax v). induction (combine (combine Ul Ur) d) as [|[[ul ur] e] l IH]; intros acc; cbn [fold_left]; [reflexivity|].
  rewrite IH. f_equal. unfold cb_step_tree, change_base_step. cbn [fst snd ceq cmul cdiv cpowi CFfloat].
  destruct (feq prec emax ur ul); [reflexivity|]. cbn [Tree.evalF]. rewrite !powi_tree_evalF. reflexivity.
Qed.

(* the exact (real-arithmetic) re-basing of v: the same expression evaluated without rounding *)
Definition rebase_R (Ul Ur : list fl) (d : list Z) (v : fl) : R := evalR (change_base_tree Ul Ur d v).

Theorem change_base_relerr Ul Ur d v :
  let t := change_base_tree Ul Ur d v in
  Safe prec emax Hprec Hmax t ->
  is_finite (change_base F Ul Ur d v) = true
  /\ (Rabs (B2R (change_base F Ul Ur d v) - rebase_R Ul Ur d v) <= (H prec ^ ops prec emax t - 1) * Rabs (rebase_R Ul Ur d v))%R.
Proof.
  intros t St. rewrite <- change_base_tree_evalF. destruct (eval_err prec emax Hprec Hmax t St) as (Fin & _ & _).
  split; [exact Fin|]. apply eval_relerr. exact St.
Qed.

(* C10: once the magnitudes are separated by more than the rounding bound of the re-basing, `<` between
   operands in different base units decides the true order (a is the left operand's stored value) *)
Theorem mixed_lt_separated Ul Ur d (a b : fl) :
  let t := change_base_tree Ul Ur d b in
  let E := (H prec ^ ops prec emax t - 1)%R in
  Safe prec emax Hprec Hmax t -> is_finite a = true ->
  ((B2R a < rebase_R Ul Ur d b - E * Rabs (rebase_R Ul Ur d b))%R -> flt prec emax a (change_base F Ul Ur d b) = true)
  /\ ((rebase_R Ul Ur d b + E * Rabs (rebase_R Ul Ur d b) < B2R a)%R -> flt prec emax (change_base F Ul Ur d b) a = true).
Proof.
  intros t E St Fa. destruct (change_base_relerr Ul Ur d b St) as [Fin Herr]. fold t E in Herr.
  apply Rabs_le_inv in Herr.
  split; intros Hs; apply (flt_B2R prec emax); try assumption; lra.
Qed.
End CB.
