(* Coherence of the float comparison operators, all derived from one Bcompare (C10). *)
From Coq Require Import ZArith Reals Bool List Lra.
From Flocq Require Import Core BinarySingleNaN.
From UomV Require Import Model.Tables Model.Conv Model.FloatM Model.FloatOps Model.Storages Proofs.FloatLemmas.
Open Scope Z_scope.

Section C.
Variables prec emax : Z.
Context (Hprec : Prec_gt_0 prec) (Hmax : Prec_lt_emax prec emax).
Notation fl := (binary_float prec emax).
Notation cmp := (fcmp_sem prec emax).
Notation fcmp := (@fcmp prec emax).

Lemma fcmp_swap (x y : fl) : fcmp y x = match fcmp x y with Some c => Some (CompOpp c) | None => None end.
Proof. unfold FloatM.fcmp. rewrite (Bcompare_swap _ _ x y). reflexivity. Qed.

Lemma cmp_ne x y : cmp CNe x y = negb (cmp CEq x y). Proof. reflexivity. Qed.
Lemma cmp_le x y : cmp CLe x y = cmp CLt x y || cmp CEq x y.
Proof. cbn. unfold fle, flt, feq. destruct (fcmp x y) as [[| |]|]; reflexivity. Qed.
Lemma cmp_ge x y : cmp CGe x y = cmp CGt x y || cmp CEq x y.
Proof. cbn. unfold fge, fgt, feq. destruct (fcmp x y) as [[| |]|]; reflexivity. Qed.
Lemma cmp_gt_swap x y : cmp CGt x y = cmp CLt y x.
Proof. cbn. unfold fgt, flt. rewrite (fcmp_swap x y). destruct (fcmp x y) as [[| |]|]; reflexivity. Qed.
Lemma cmp_ge_swap x y : cmp CGe x y = cmp CLe y x.
Proof. cbn. unfold fge, fle. rewrite (fcmp_swap x y). destruct (fcmp x y) as [[| |]|]; reflexivity. Qed.
Lemma cmp_eq_sym x y : cmp CEq x y = cmp CEq y x.
Proof. cbn. unfold feq. rewrite (fcmp_swap x y). destruct (fcmp x y) as [[| |]|]; reflexivity. Qed.
Lemma cmp_trichotomy x y :
  match fcmp x y with
  | Some Lt => cmp CLt x y = true /\ cmp CEq x y = false /\ cmp CGt x y = false
  | Some Eq => cmp CLt x y = false /\ cmp CEq x y = true /\ cmp CGt x y = false
  | Some Gt => cmp CLt x y = false /\ cmp CEq x y = false /\ cmp CGt x y = true
  | None => cmp CLt x y = false /\ cmp CEq x y = false /\ cmp CGt x y = false
  end.
Proof. cbn. unfold flt, feq, fgt. destruct (fcmp x y) as [[| |]|]; auto. Qed.

Lemma cmp_refl x : is_nan x = false -> cmp CEq x x = true /\ cmp CLt x x = false /\ cmp CGt x x = false.
Proof. intros H. cbn. unfold feq, flt, fgt. rewrite (fcmp_refl prec emax x H). auto. Qed.

Lemma fcmp_nan_l x y : is_nan x = true -> fcmp x y = None.
Proof. destruct x; try discriminate. reflexivity. Qed.
Lemma fcmp_nan_r x y : is_nan y = true -> fcmp x y = None.
Proof. destruct y; try discriminate. destruct x; reflexivity. Qed.

Lemma cmp_nan x y o : is_nan x = true \/ is_nan y = true -> cmp o x y = match o with CNe => true | _ => false end.
Proof.
  intros H. assert (E : fcmp x y = None) by (destruct H; [apply fcmp_nan_l|apply fcmp_nan_r]; assumption).
  destruct o; cbn; unfold feq, flt, fle, fgt, fge; rewrite E; reflexivity.
Qed.

(* the comparison is the comparison of the real values (finite operands) *)
Lemma flt_B2R (x y : fl) : is_finite x = true -> is_finite y = true ->
  (flt prec emax x y = true <-> (B2R x < B2R y)%R).
Proof.
  intros Fx Fy. unfold flt, FloatM.fcmp. rewrite (Bcompare_correct _ _ x y Fx Fy).
  destruct (Rcompare_spec (B2R x) (B2R y)); split; intros; try discriminate; try reflexivity; lra.
Qed.
Lemma feq_B2R (x y : fl) : is_finite x = true -> is_finite y = true ->
  (feq prec emax x y = true <-> B2R x = B2R y).
Proof.
  intros Fx Fy. unfold feq, FloatM.fcmp. rewrite (Bcompare_correct _ _ x y Fx Fy).
  destruct (Rcompare_spec (B2R x) (B2R y)); split; intros; try discriminate; try reflexivity; lra.
Qed.
End C.
