(* The hypotheses of Proofs.QuantityP discharged for the concrete storage classes. *)
From Coq Require Import ZArith QArith List Bool.
From Flocq Require Import Core BinarySingleNaN.
From UomV Require Import Model.Tables Model.Conv Model.FloatM Model.FloatOps Model.Exact Model.Quantity
  Model.Storages Proofs.QuantityP Proofs.FloatLemmas Proofs.ExactP.
Import ListNotations.

Section F.
Variables prec emax : Z.
Context (Hprec : Prec_gt_0 prec) (Hmax : Prec_lt_emax prec emax).
Variable lib : flib.
Notation fl := (binary_float prec emax).
Notation St := (StF prec emax Hprec Hmax lib).

Lemma StF_retract : conv_retract St.
Proof. intros v. reflexivity. Qed.

Lemma StF_refl (U : list fl) : Forall (fun u => is_nan u = false) U -> refl_coefs St U.
Proof.
  intros H u Hu. rewrite Forall_forall in H. cbn [ceq s_cf StF CFfloat].
  apply feq_refl, H, Hu.
Qed.
End F.

Lemma StQ_retract : conv_retract StQ.
Proof. intros v. reflexivity. Qed.
Lemma StQ_refl (U : list Q) : refl_coefs StQ U.
Proof. intros u _. cbn. apply Qeq_bool_iff. reflexivity. Qed.

Lemma StZ_retract : conv_retract StZ.
Proof. intros v. apply q_to_integer_inject. Qed.
Lemma StZ_refl (U : list Q) : refl_coefs StZ U.
Proof. intros u _. cbn. apply Qeq_bool_iff. reflexivity. Qed.
