(* Storage-generic theorems about the quantity operations (C06, C07, C10, C15, C17 cores). *)
From Coq Require Import ZArith List Bool.
From UomV Require Import Model.Conv Model.Quantity.
Import ListNotations.
Open Scope Z_scope.

Section P.
Context (S : Storage).
Notation V := (sV S).
Notation T := (sT S).
Notation F := (s_cf S).

(* every base-unit coefficient equals itself (false only for a NaN coefficient) *)
Definition refl_coefs (U : list T) : Prop := forall u, In u U -> ceq F u u = true.
(* conversion() then value() gives the stored value back (all storage classes except complex) *)
Definition conv_retract : Prop := forall v : V, s_val S (s_conv S v) = v.

Lemma in_combine_same (U : list T) (d : list Z) p :
  In p (combine (combine U U) d) -> fst (fst p) = snd (fst p) /\ In (fst (fst p)) U.
Proof.
  revert d. induction U as [|u U IH]; intros [|e d] H; simpl in H; try contradiction.
  destruct H as [<-|H]; [simpl; auto|].
  destruct (IH d H) as [E I]. split; [exact E|right; exact I].
Qed.

Lemma change_base_same (U : list T) (d : list Z) (x : T) :
  refl_coefs U -> change_base F U U d x = x.
Proof.
  intros HU. unfold change_base.
  assert (H : forall p, In p (combine (combine U U) d) -> ceq F (snd (fst p)) (fst (fst p)) = true).
  { intros p Hp. destruct (in_combine_same U d p Hp) as [E I]. rewrite <- E. apply HU, I. }
  revert x H. induction (combine (combine U U) d) as [|p l IH]; intros x H; [reflexivity|].
  cbn [fold_left]. unfold change_base_step at 2. rewrite (H p (or_introl eq_refl)).
  apply IH. intros q Hq. apply H. right. exact Hq.
Qed.

Lemma rebase_same ac (U : list T) (d : list Z) (v : V) :
  refl_coefs U -> conv_retract -> rebase S ac U U d v = v.
Proof.
  intros HU HR. unfold rebase. destruct ac; [|reflexivity].
  rewrite change_base_same by exact HU. apply HR.
Qed.

(* C07 step: with shared base units every two-base operator is the storage type's operator *)
Theorem q_bin_same_base {R} (f : V -> V -> R) ac U d a b :
  refl_coefs U -> conv_retract -> q_bin S f ac U U d a b = f a b.
Proof. intros HU HR. unfold q_bin. now rewrite rebase_same. Qed.

Theorem q_muladd_same_base f ac U da ds x a b :
  refl_coefs U -> conv_retract -> q_muladd S f ac U U U da ds x a b = f x a b.
Proof. intros HU HR. unfold q_muladd. now rewrite !rebase_same. Qed.

Theorem q_from_same_base ac U d v :
  refl_coefs U -> conv_retract -> q_from S ac U U d v = v.
Proof. intros HU HR. now apply rebase_same. Qed.

(* C17: without autoconvert the operator is the storage operator by definition, so the two
   feature settings agree on every program in which both compile (operands share base units) *)
Theorem q_bin_ac_agree {R} (f : V -> V -> R) U d a b :
  refl_coefs U -> conv_retract -> q_bin S f true U U d a b = q_bin S f false U U d a b.
Proof. intros HU HR. now rewrite !q_bin_same_base. Qed.

(* C07 history: a quantity register and a bare register subjected to the same sequence of
   operations hold the same value after every step, for any length of history *)
Theorem step_q_raw ac U d acc o :
  refl_coefs U -> conv_retract -> same_base S U o -> step_q S ac U d acc o = step_raw S acc o.
Proof.
  intros HU HR Ho. destruct o as [f Ur b|f b|f]; cbn in *; try reflexivity.
  subst Ur. now apply q_bin_same_base.
Qed.

Theorem run_q_raw ac U d ops init :
  refl_coefs U -> conv_retract -> Forall (same_base S U) ops ->
  run_q S ac U d ops init = run_raw S ops init.
Proof.
  intros HU HR. unfold run_q, run_raw. revert init.
  induction ops as [|o ops IH]; intros init Hall; [reflexivity|].
  inversion Hall as [|? ? Ho Hr]; subst. cbn [fold_left].
  rewrite step_q_raw by assumption. now apply IH.
Qed.

Theorem trace_q_raw ac U d ops init :
  refl_coefs U -> conv_retract -> Forall (same_base S U) ops ->
  trace_q S ac U d ops init = trace_raw S ops init.
Proof.
  intros HU HR. revert init.
  induction ops as [|o ops IH]; intros init Hall; [reflexivity|].
  inversion Hall as [|? ? Ho Hr]; subst. cbn [trace_q trace_raw].
  rewrite step_q_raw by assumption. f_equal. now apply IH.
Qed.

End P.
