(* Fixed-width exact storage (Model.Fixed): whenever the width-checked evaluation of a conversion
   returns a value (no intermediate leaves [lo, hi], no division by zero), that value is the exact
   rational result of the conversion formula -- for every width, every unit, every base-unit set.
   Axiom-free. *)
From Coq Require Import ZArith QArith Qpower Qround List Bool Lia Setoid Morphisms.
From UomV Require Import Model.Tables Model.Conv Model.Exact Model.Quantity Model.Fixed Proofs.ExactP.
Import ListNotations.
Open Scope Z_scope.

Section W.
Variables lo hi : Z.
Notation ck := (ck lo hi).

Lemma ck_some z r : ck z = Some r -> r = z /\ lo <= z <= hi.
Proof. unfold Fixed.ck. destruct (lo <=? z) eqn:A, (z <=? hi) eqn:B; cbn; intros H; try discriminate. injection H as <-. lia. Qed.

Lemma obind_some {A B} (x : option A) (f : A -> option B) r :
  obind x f = Some r -> exists a, x = Some a /\ f a = Some r.
Proof. destruct x as [a|]; cbn; intros H; [exists a; auto|discriminate]. Qed.

Lemma idiv_some a b r : idiv lo hi a b = Some r -> b <> 0 /\ r = Z.quot a b.
Proof. unfold idiv. destruct (Z.eqb_spec b 0); [discriminate|]. intros H. apply ck_some in H. split; [assumption|apply H]. Qed.

Lemma idiv_exact k g r : idiv lo hi (k * g) g = Some r -> g <> 0 /\ r = k.
Proof. intros H. apply idiv_some in H. destruct H as [Hg ->]. split; [assumption|]. now apply Z.quot_mul. Qed.

Lemma igcd_some a b g : igcd lo hi a b = Some g ->
  g = Z.gcd a b /\ 0 <= g /\ exists x y, a = x * g /\ b = y * g.
Proof.
  intros H. apply ck_some in H. destruct H as [-> _]. split; [reflexivity|]. split; [apply Z.gcd_nonneg|].
  destruct (Z.gcd_divide_l a b) as [x Hx], (Z.gcd_divide_r a b) as [y Hy]. exists x, y. split; assumption.
Qed.

(* ---- the rational value of a (numer, denom) pair ---- *)
Definition wf (p : ratio) : Prop := 0 < snd p.
Definition zq (n d : Z) : Q := (inject_Z n / inject_Z d)%Q.
Definition qv (p : ratio) : Q := zq (fst p) (snd p).

Lemma inj_nz d : d <> 0 -> ~ (inject_Z d == 0)%Q.
Proof. intros H E. apply H. unfold Qeq in E. cbn in E. lia. Qed.

Lemma zq_scale n d g : g <> 0 -> d <> 0 -> (zq (n * g) (d * g) == zq n d)%Q.
Proof. intros Hg Hd. unfold zq. rewrite !inject_Z_mult. field. split; apply inj_nz; assumption. Qed.

Lemma zq_opp n d : d <> 0 -> (zq (0 - n) (0 - d) == zq n d)%Q.
Proof.
  intros Hd. unfold zq. replace (0 - n) with (- n) by lia. replace (0 - d) with (- d) by lia.
  rewrite !inject_Z_opp. field. apply inj_nz; assumption.
Qed.

Lemma qv_Qmake p : wf p -> (qv p == fst p # Z.to_pos (snd p))%Q.
Proof.
  destruct p as [n d]. unfold wf, qv, zq. cbn [fst snd]. intros H.
  rewrite (Qmake_Qdiv n (Z.to_pos d)). rewrite Z2Pos.id by assumption. reflexivity.
Qed.

Lemma zq_zero n d : d <> 0 -> (zq n d == 0)%Q -> n = 0.
Proof.
  intros Hd E. assert (H : (inject_Z n == zq n d * inject_Z d)%Q) by (unfold zq; field; apply inj_nz; assumption).
  rewrite E in H. unfold Qeq in H. cbn in H. lia.
Qed.

(* Ratio::new *)
Lemma rnew_ok n d p : rnew lo hi n d = Some p -> d <> 0 /\ wf p /\ (qv p == zq n d)%Q.
Proof.
  unfold rnew. destruct (Z.eqb_spec d 0) as [|Hd]; [discriminate|].
  destruct (Z.eqb_spec n 0) as [->|Hn].
  { intros H. injection H as <-. split; [assumption|]. split; [unfold wf; cbn; lia|].
    unfold qv, zq. cbn [fst snd]. field. apply inj_nz; assumption. }
  destruct (Z.eqb_spec n d) as [->|Hnd].
  { intros H. injection H as <-. split; [assumption|]. split; [unfold wf; cbn; lia|].
    unfold qv, zq. cbn [fst snd]. field. apply inj_nz; assumption. }
  intros H. apply obind_some in H. destruct H as [g [Hg H]].
  apply igcd_some in Hg. destruct Hg as [Hgv [Hg0 [x [y [Hx Hy]]]]].
  apply obind_some in H. destruct H as [n1 [Hn1 H]]. apply obind_some in H. destruct H as [d1 [Hd1 H]].
  rewrite Hx in Hn1. rewrite Hy in Hd1. apply idiv_exact in Hn1. apply idiv_exact in Hd1.
  destruct Hn1 as [Hgnz ->], Hd1 as [_ ->].
  assert (Hy0 : y <> 0) by (intros ->; apply Hd; lia).
  split; [assumption|].
  destruct (Z.ltb_spec y 0) as [Hneg|Hpos].
  - apply obind_some in H. destruct H as [n2 [Hn2 H]]. apply obind_some in H. destruct H as [d2 [Hd2 H]].
    injection H as <-. apply ck_some in Hn2. apply ck_some in Hd2. destruct Hn2 as [-> _], Hd2 as [-> _].
    split; [unfold wf; cbn; lia|]. unfold qv. cbn [fst snd]. rewrite zq_opp by assumption.
    rewrite Hx, Hy. symmetry. apply zq_scale; assumption.
  - injection H as <-. split; [unfold wf; cbn; lia|]. unfold qv. cbn [fst snd].
    rewrite Hx, Hy. symmetry. apply zq_scale; assumption.
Qed.

Ltac bind H x Hx := apply obind_some in H; destruct H as [x [Hx H]].

(* Mul *)
Lemma rmul_ok x y p : rmul lo hi x y = Some p -> wf x -> wf y -> wf p /\ (qv p == qv x * qv y)%Q.
Proof.
  destruct x as [a b], y as [c d]. unfold wf, rmul. cbn [fst snd]. intros H Hb Hd.
  bind H gad Hgad. bind H gbc Hgbc. bind H a1 Ha1. bind H c1 Hc1. bind H n Hn.
  bind H b1 Hb1. bind H d1 Hd1. bind H m Hm.
  apply igcd_some in Hgad. destruct Hgad as [_ [_ [xa [xd [Ea Ed]]]]].
  apply igcd_some in Hgbc. destruct Hgbc as [_ [_ [xb [xc [Eb Ec]]]]].
  rewrite Ea in Ha1. rewrite Ec in Hc1. rewrite Eb in Hb1. rewrite Ed in Hd1.
  apply idiv_exact in Ha1, Hc1, Hb1, Hd1.
  destruct Ha1 as [G1 ->], Hc1 as [G2 ->], Hb1 as [_ ->], Hd1 as [_ ->].
  apply ck_some in Hn. apply ck_some in Hm. destruct Hn as [-> _], Hm as [-> _].
  apply rnew_ok in H. destruct H as [Hm0 [Hwf Hv]]. split; [exact Hwf|].
  rewrite Hv. unfold qv, zq. cbn [fst snd]. rewrite Ea, Eb, Ec, Ed. rewrite !inject_Z_mult.
  assert (xb <> 0) by (intros ->; lia). assert (xd <> 0) by (intros ->; lia).
  field. repeat split; apply inj_nz; assumption.
Qed.

(* Div *)
Lemma rdiv_ok x y p : rdiv lo hi x y = Some p -> wf x -> wf y ->
  fst y <> 0 /\ wf p /\ (qv p == qv x / qv y)%Q.
Proof.
  destruct x as [a b], y as [c d]. unfold wf, rdiv. cbn [fst snd]. intros H Hb Hd.
  bind H gac Hgac. bind H gbd Hgbd. bind H a1 Ha1. bind H d1 Hd1. bind H n Hn.
  bind H b1 Hb1. bind H c1 Hc1. bind H m Hm.
  apply igcd_some in Hgac. destruct Hgac as [_ [_ [xa [xc [Ea Ec]]]]].
  apply igcd_some in Hgbd. destruct Hgbd as [_ [_ [xb [xd [Eb Ed]]]]].
  rewrite Ea in Ha1. rewrite Ec in Hc1. rewrite Eb in Hb1. rewrite Ed in Hd1.
  apply idiv_exact in Ha1, Hc1, Hb1, Hd1.
  destruct Ha1 as [G1 ->], Hc1 as [_ ->], Hb1 as [G2 ->], Hd1 as [_ ->].
  apply ck_some in Hn. apply ck_some in Hm. destruct Hn as [-> _], Hm as [-> _].
  apply rnew_ok in H. destruct H as [Hm0 [Hwf Hv]].
  assert (xb <> 0) by (intros ->; lia). assert (xd <> 0) by (intros ->; lia).
  assert (xc <> 0) by (intros ->; lia).
  split; [rewrite Ec; intros E; apply Zmult_integral in E; destruct E; contradiction|].
  split; [exact Hwf|].
  rewrite Hv. unfold qv, zq. cbn [fst snd]. rewrite Ea, Eb, Ec, Ed. rewrite !inject_Z_mult.
  field. repeat split; apply inj_nz; assumption.
Qed.

(* lcm of two positive denominators *)
Lemma ilcm_some b d l : ilcm lo hi b d = Some l -> 0 < b -> 0 < d ->
  exists g x y, 0 < g /\ 0 < x /\ 0 < y /\ b = x * g /\ d = y * g /\ l = x * g * y.
Proof.
  unfold ilcm. intros H Hb Hd. destruct (Z.eqb_spec b 0); [lia|]. cbn [andb] in H.
  bind H g Hg. bind H q Hq. bind H p Hp.
  apply igcd_some in Hg. destruct Hg as [_ [Hg0 [x [y [Ex Ey]]]]].
  rewrite Ey in Hq. apply idiv_exact in Hq. destruct Hq as [Hgnz ->].
  apply ck_some in Hp. destruct Hp as [-> _]. apply ck_some in H. destruct H as [-> _].
  assert (0 < g) by lia. assert (0 < x) by nia. assert (0 < y) by nia.
  exists g, x, y. repeat split; try assumption. rewrite Ex. rewrite Z.abs_eq by nia. reflexivity.
Qed.

Lemma raddsub_ok (op : Z -> Z -> option Z) (s : Z) x y p :
  (forall a b r, op a b = Some r -> r = a + s * b) ->
  raddsub lo hi op x y = Some p -> wf x -> wf y -> wf p /\ (qv p == qv x + inject_Z s * qv y)%Q.
Proof.
  intros Hop. destruct x as [a b], y as [c d]. unfold wf, raddsub, qv. cbn [fst snd]. intros H Hb Hd.
  destruct (Z.eqb_spec b d) as [->|Hbd].
  - bind H n Hn. apply Hop in Hn. subst n. apply rnew_ok in H. destruct H as [_ [Hwf Hv]].
    split; [exact Hwf|]. unfold qv in Hv. rewrite Hv. unfold zq. rewrite inject_Z_plus, inject_Z_mult.
    field. apply inj_nz. lia.
  - bind H l Hl. bind H q1 Hq1. bind H ln Hln. bind H q2 Hq2. bind H rn Hrn. bind H n Hn.
    apply ilcm_some in Hl; [|assumption|assumption].
    destruct Hl as [g [x [y [Hg [Hx [Hy [Eb [Ed El]]]]]]]].
    replace l with (y * b) in Hq1 by (rewrite El, Eb; ring).
    replace l with (x * d) in Hq2 by (rewrite El, Ed; ring).
    apply idiv_exact in Hq1, Hq2. destruct Hq1 as [_ ->], Hq2 as [_ ->].
    apply ck_some in Hln. apply ck_some in Hrn. destruct Hln as [-> _], Hrn as [-> _].
    apply Hop in Hn. subst n. apply rnew_ok in H. destruct H as [_ [Hwf Hv]].
    split; [exact Hwf|]. unfold qv in Hv. rewrite Hv. unfold zq. rewrite El, Eb, Ed.
    rewrite !inject_Z_plus, !inject_Z_mult. field. repeat split; apply inj_nz; lia.
Qed.

Lemma radd_ok x y p : radd lo hi x y = Some p -> wf x -> wf y -> wf p /\ (qv p == qv x + qv y)%Q.
Proof.
  intros H Hx Hy.
  assert (Hop : forall a b r, iadd lo hi a b = Some r -> r = a + 1 * b).
  { intros a b r E. apply ck_some in E. destruct E as [-> _]. ring. }
  destruct (raddsub_ok _ 1 x y p Hop H Hx Hy) as [Hw Hv]. split; [exact Hw|].
  rewrite Hv. change (inject_Z 1) with 1%Q. ring.
Qed.

Lemma rsub_ok x y p : rsub lo hi x y = Some p -> wf x -> wf y -> wf p /\ (qv p == qv x - qv y)%Q.
Proof.
  intros H Hx Hy.
  assert (Hop : forall a b r, isub lo hi a b = Some r -> r = a + (-1) * b).
  { intros a b r E. apply ck_some in E. destruct E as [-> _]. ring. }
  destruct (raddsub_ok _ (-1) x y p Hop H Hx Hy) as [Hw Hv]. split; [exact Hw|].
  rewrite Hv. change (inject_Z (-1)) with (-(1))%Q. ring.
Qed.

(* into_recip *)
Lemma rrecip_ok x p : rrecip lo hi x = Some p -> wf x -> fst x <> 0 /\ wf p /\ (qv p == / qv x)%Q.
Proof.
  destruct x as [a b]. unfold wf, rrecip, qv. cbn [fst snd]. intros H Hb.
  destruct (Z.compare_spec a 0) as [E|E|E]; [discriminate| |].
  - bind H b1 Hb1. bind H a1 Ha1. injection H as <-. apply ck_some in Hb1. apply ck_some in Ha1.
    destruct Hb1 as [-> _], Ha1 as [-> _]. split; [lia|]. split; [cbn; lia|]. cbn [fst snd].
    rewrite zq_opp by lia. unfold zq. field. split; apply inj_nz; lia.
  - injection H as <-. split; [lia|]. split; [cbn; lia|]. cbn [fst snd]. unfold zq. field. split; apply inj_nz; lia.
Qed.

Lemma inject_Z_pow a (k : BinNums.positive) : (inject_Z (a ^ Zpos k) == Qpower_positive (inject_Z a) k)%Q.
Proof.
  induction k using Pos.peano_ind.
  - rewrite Z.pow_1_r. reflexivity.
  - rewrite Pos2Z.inj_succ, Z.pow_succ_r by lia. rewrite inject_Z_mult, IHk.
    rewrite <- Pos.add_1_l. rewrite Qpower_plus_positive. reflexivity.
Qed.

(* Pow<i32> *)
Lemma rpow_ok x e p : rpow lo hi x e = Some p -> wf x -> wf p /\ (qv p == qv x ^ e)%Q.
Proof.
  destruct x as [a b]. unfold wf, rpow. cbn [fst snd]. intros H Hb.
  destruct e as [|k|k].
  - injection H as <-. split; [cbn; lia|]. reflexivity.
  - bind H n Hn. bind H m Hm. injection H as <-. apply ck_some in Hn. apply ck_some in Hm.
    destruct Hn as [-> _], Hm as [-> _]. split; [cbn [snd]; apply Z.pow_pos_nonneg; lia|].
    unfold qv, zq. cbn [fst snd Qpower]. rewrite !inject_Z_pow. unfold Qdiv.
    rewrite Qmult_power_positive, Qinv_power_positive. reflexivity.
  - bind H n Hn. bind H m Hm. apply ck_some in Hn. apply ck_some in Hm. destruct Hn as [-> _], Hm as [-> _].
    apply rrecip_ok in H; [|cbn [snd]; apply Z.pow_pos_nonneg; lia]. destruct H as [_ [Hw Hv]]. split; [exact Hw|].
    rewrite Hv. unfold qv, zq. cbn [fst snd Qpower]. rewrite Pos2Z.opp_neg. rewrite !inject_Z_pow. unfold Qdiv.
    rewrite Qmult_power_positive, Qinv_power_positive. reflexivity.
Qed.

(* Ord::cmp is the order of the values *)
Lemma rcmp_ok x y : wf x -> wf y -> rcmp x y = (qv x ?= qv y)%Q.
Proof.
  intros Hx Hy. rewrite (Qcompare_comp _ _ (qv_Qmake x Hx) _ _ (qv_Qmake y Hy)).
  unfold rcmp, Qcompare. cbn [Qnum Qden]. rewrite !Z2Pos.id by assumption. reflexivity.
Qed.


(* ---- CFw: None is absorbing, Some results are the field operations on the values ---- *)
Notation F := (CFw lo hi).

Lemma lift2_some f (x y : wr) r : lift2 f x y = Some r -> exists a b, x = Some a /\ y = Some b /\ f a b = Some r.
Proof. unfold lift2. intros H. bind H a Ha. bind H b Hb. exists a, b. auto. Qed.

Definition wfs (U : list ratio) : Prop := Forall wf U.

Lemma base_factor_fold_w U : forall d acc r,
  fold_left (fun a p => cmul F a (cpowi F (fst p) (snd p))) (combine (map Some U) d) acc = Some r ->
  wfs U -> exists a, acc = Some a /\ (wf a -> wf r /\ (qv r == qv a * pi (combine (map qv U) d))%Q).
Proof.
  induction U as [|u U IH]; intros d acc r H HU.
  - cbn in H. exists r. split; [assumption|]. intros Hr. split; [assumption|]. cbn. ring.
  - destruct d as [|e d].
    { cbn in H. exists r. split; [assumption|]. intros Hr. split; [assumption|]. cbn. ring. }
    cbn [map combine fold_left fst snd] in H. inversion HU as [|u' U' Hu HU']; subst.
    apply IH in H; [|assumption]. destruct H as [a' [Ha' K]].
    cbn [cmul cpowi CFw] in Ha'. apply lift2_some in Ha'. destruct Ha' as [a [pw [-> [Hpw Hm]]]].
    cbn [obind] in Hpw. exists a. split; [reflexivity|]. intros Hwa.
    apply rpow_ok in Hpw; [|assumption]. destruct Hpw as [Wpw Vpw].
    apply rmul_ok in Hm; [|assumption|assumption]. destruct Hm as [Wa' Va'].
    destruct (K Wa') as [Wr Vr]. split; [assumption|].
    rewrite Vr, Va', Vpw. cbn [map combine pi]. ring.
Qed.

Lemma base_factor_w U d r : base_factor F (map Some U) d = Some r -> wfs U ->
  wf r /\ (qv r == pi (combine (map qv U) d))%Q.
Proof.
  unfold base_factor. intros H HU. apply base_factor_fold_w in H; [|assumption].
  destruct H as [a [Ha K]]. cbn [cone CFw] in Ha. injection Ha as <-.
  destruct K as [Wr Vr]; [unfold wf; cbn; lia|]. split; [assumption|]. rewrite Vr.
  unfold qv, zq. cbn [fst snd]. field.
Qed.

(* to_base: a returned value is the conversion formula, in both branches *)
Theorem to_base_w U d k c v p :
  to_base F (map Some U) d (Some k) (Some c) (Some v) = Some p ->
  wfs U -> wf k -> wf c -> wf v ->
  wf p /\ (qv p == (qv v + qv c) * qv k / pi (combine (map qv U) d))%Q.
Proof.
  unfold to_base. intros H HU Hk Hc Hv.
  destruct (base_factor F (map Some U) d) as [f|] eqn:Ef.
  2:{ exfalso. destruct (cge F (Some k) None); cbn in H.
      - destruct (radd lo hi v c); cbn in H; discriminate.
      - destruct (radd lo hi v c) as [s|]; cbn in H; [destruct (rmul lo hi s k); cbn in H|]; discriminate. }
  apply base_factor_w in Ef; [|assumption]. destruct Ef as [Wf Vf].
  destruct (cge F (Some k) (Some f)).
  - cbn [cmul cadd cdiv CFw] in H. apply lift2_some in H. destruct H as [s [q [Hs [Hq Hm]]]].
    apply lift2_some in Hs. destruct Hs as [v' [c' [Ev [Ec Hs]]]]. injection Ev as <-. injection Ec as <-.
    apply lift2_some in Hq. destruct Hq as [k' [f' [Ek [Ef Hq]]]]. injection Ek as <-. injection Ef as <-.
    apply radd_ok in Hs; [|assumption|assumption]. destruct Hs as [Ws Vs].
    apply rdiv_ok in Hq; [|assumption|assumption]. destruct Hq as [_ [Wq Vq]].
    apply rmul_ok in Hm; [|assumption|assumption]. destruct Hm as [Wp Vp].
    split; [assumption|]. rewrite Vp, Vs, Vq, Vf. unfold Qdiv. ring.
  - cbn [cmul cadd cdiv CFw] in H. apply lift2_some in H. destruct H as [m [f' [Hm [Ef Hq]]]]. injection Ef as <-.
    apply lift2_some in Hm. destruct Hm as [s [k' [Hs [Ek Hm]]]]. injection Ek as <-.
    apply lift2_some in Hs. destruct Hs as [v' [c' [Ev [Ec Hs]]]]. injection Ev as <-. injection Ec as <-.
    apply radd_ok in Hs; [|assumption|assumption]. destruct Hs as [Ws Vs].
    apply rmul_ok in Hm; [|assumption|assumption]. destruct Hm as [Wm Vm].
    apply rdiv_ok in Hq; [|assumption|assumption]. destruct Hq as [_ [Wp Vp]].
    split; [assumption|]. rewrite Vp, Vm, Vs, Vf. reflexivity.
Qed.

Theorem from_base_w U d k c v p :
  from_base F (map Some U) d (Some k) (Some c) (Some v) = Some p ->
  wfs U -> wf k -> wf c -> wf v ->
  wf p /\ (qv p == qv v * pi (combine (map qv U) d) / qv k - qv c)%Q.
Proof.
  unfold from_base. intros H HU Hk Hc Hv.
  destruct (base_factor F (map Some U) d) as [f|] eqn:Ef.
  2:{ exfalso. destruct (clt F (Some k) None); cbn in H; discriminate. }
  apply base_factor_w in Ef; [|assumption]. destruct Ef as [Wf Vf].
  destruct (clt F (Some k) (Some f)).
  - cbn [cmul csub cdiv CFw] in H. apply lift2_some in H. destruct H as [m [c' [Hm [Ec Hs]]]]. injection Ec as <-.
    apply lift2_some in Hm. destruct Hm as [v' [q [Ev [Hq Hm]]]]. injection Ev as <-.
    apply lift2_some in Hq. destruct Hq as [f' [k' [Ef [Ek Hq]]]]. injection Ek as <-. injection Ef as <-.
    apply rdiv_ok in Hq; [|assumption|assumption]. destruct Hq as [_ [Wq Vq]].
    apply rmul_ok in Hm; [|assumption|assumption]. destruct Hm as [Wm Vm].
    apply rsub_ok in Hs; [|assumption|assumption]. destruct Hs as [Wp Vp].
    split; [assumption|]. rewrite Vp, Vm, Vq, Vf. unfold Qdiv. ring.
  - cbn [cmul csub cdiv CFw] in H. apply lift2_some in H. destruct H as [m [c' [Hm [Ec Hs]]]]. injection Ec as <-.
    apply lift2_some in Hm. destruct Hm as [v' [q [Ev [Hq Hm]]]]. injection Ev as <-.
    apply lift2_some in Hq. destruct Hq as [k' [f' [Ek [Ef Hq]]]]. injection Ek as <-. injection Ef as <-.
    apply rdiv_ok in Hq; [|assumption|assumption]. destruct Hq as [Hf0 [Wq Vq]].
    apply rdiv_ok in Hm; [|assumption|assumption]. destruct Hm as [Hq0 [Wm Vm]].
    apply rsub_ok in Hs; [|assumption|assumption]. destruct Hs as [Wp Vp].
    split; [assumption|]. rewrite Vp, Vm, Vq, Vf.
    (* v / (k / f) = v f / k: the quotient k / f is non-zero because the division by it succeeded *)
    assert (Nq : ~ (qv q == 0)%Q).
    { intros E. apply Hq0. apply (zq_zero _ (snd q)); [unfold wf in Wq; lia|exact E]. }
    rewrite Vq, Vf in Nq.
    assert (Nk : ~ (qv k == 0)%Q) by (intros E; apply Nq; rewrite E; unfold Qdiv; ring).
    assert (Nf : ~ (pi (combine (map qv U) d) == 0)%Q).
    { intros E. apply Nq. rewrite E. unfold Qdiv. change (/ 0)%Q with 0%Q. ring. }
    field. split; assumption.
Qed.

(* change_base: the physical magnitude is preserved (no premise on the coefficients: a division by a
   zero factor does not return) *)
Lemma change_base_fold_w (l : list (ratio * ratio * Z)) : forall acc p,
  fold_left (change_base_step F) (map (fun t => (Some (fst (fst t)), Some (snd (fst t)), snd t)) l) acc = Some p ->
  Forall (fun t => wf (fst (fst t)) /\ wf (snd (fst t))) l ->
  exists a, acc = Some a /\ (wf a -> wf p /\
    (qv p * pi (map (fun t => (qv (fst (fst t)), snd t)) l) == qv a * pi (map (fun t => (qv (snd (fst t)), snd t)) l))%Q).
Proof.
  induction l as [|[[ul ur] e] l IH]; intros acc p H HW.
  - cbn in H. exists p. split; [assumption|]. intros Wp. split; [assumption|]. reflexivity.
  - cbn [map fold_left fst snd] in H. inversion HW as [|t l' [Wl Wr] HW']; subst. cbn [fst snd] in Wl, Wr.
    apply IH in H; [|assumption]. destruct H as [a' [Ha' K]].
    unfold change_base_step in Ha'. cbn [fst snd ceq CFw wcmp] in Ha'.
    rewrite (rcmp_ok ur ul Wr Wl) in Ha'.
    destruct (Qcompare_spec (qv ur) (qv ul)) as [E|E|E].
    + (* shortcut: identical base units *)
      exists a'. split; [assumption|]. intros Wa. destruct (K Wa) as [Wp Vp]. split; [assumption|].
      cbn [map pi fst snd]. rewrite <- E.
      transitivity (qv ur ^ e * (qv p * pi (map (fun t => (qv (fst (fst t)), snd t)) l)))%Q; [ring|].
      rewrite Vp. ring.
    + cbn [cmul cdiv cpowi CFw] in Ha'. apply lift2_some in Ha'. destruct Ha' as [m [pl [Hm [Hpl Hq]]]].
      apply lift2_some in Hm. destruct Hm as [a [pr [-> [Hpr Hm]]]]. cbn [obind] in Hpl, Hpr.
      exists a. split; [reflexivity|]. intros Wa.
      apply rpow_ok in Hpl; [|assumption]. apply rpow_ok in Hpr; [|assumption].
      destruct Hpl as [Wpl Vpl], Hpr as [Wpr Vpr].
      apply rmul_ok in Hm; [|assumption|assumption]. destruct Hm as [Wm Vm].
      apply rdiv_ok in Hq; [|assumption|assumption]. destruct Hq as [Npl [Wa' Va']].
      destruct (K Wa') as [Wp Vp]. split; [assumption|]. cbn [map pi fst snd].
      assert (N : ~ (qv ul ^ e == 0)%Q).
      { rewrite <- Vpl. intros Z0. apply Npl. apply (zq_zero _ (snd pl)); [unfold wf in Wpl; lia|exact Z0]. }
      transitivity (qv ul ^ e * (qv p * pi (map (fun t => (qv (fst (fst t)), snd t)) l)))%Q; [ring|].
      rewrite Vp, Va', Vm, Vpl, Vpr. field. exact N.
    + cbn [cmul cdiv cpowi CFw] in Ha'. apply lift2_some in Ha'. destruct Ha' as [m [pl [Hm [Hpl Hq]]]].
      apply lift2_some in Hm. destruct Hm as [a [pr [-> [Hpr Hm]]]]. cbn [obind] in Hpl, Hpr.
      exists a. split; [reflexivity|]. intros Wa.
      apply rpow_ok in Hpl; [|assumption]. apply rpow_ok in Hpr; [|assumption].
      destruct Hpl as [Wpl Vpl], Hpr as [Wpr Vpr].
      apply rmul_ok in Hm; [|assumption|assumption]. destruct Hm as [Wm Vm].
      apply rdiv_ok in Hq; [|assumption|assumption]. destruct Hq as [Npl [Wa' Va']].
      destruct (K Wa') as [Wp Vp]. split; [assumption|]. cbn [map pi fst snd].
      assert (N : ~ (qv ul ^ e == 0)%Q).
      { rewrite <- Vpl. intros Z0. apply Npl. apply (zq_zero _ (snd pl)); [unfold wf in Wpl; lia|exact Z0]. }
      transitivity (qv ul ^ e * (qv p * pi (map (fun t => (qv (fst (fst t)), snd t)) l)))%Q; [ring|].
      rewrite Vp, Va', Vm, Vpl, Vpr. field. exact N.
Qed.

Lemma combine3_map (Ul Ur : list ratio) (d : list Z) :
  combine (combine (map Some Ul) (map Some Ur)) d
  = map (fun t => (Some (fst (fst t)), Some (snd (fst t)), snd t)) (combine (combine Ul Ur) d).
Proof.
  revert Ur d. induction Ul as [|a Ul IH]; intros [|b Ur] [|e d]; try reflexivity. cbn. f_equal. apply IH.
Qed.

Lemma combine3_wf (Ul Ur : list ratio) (d : list Z) : wfs Ul -> wfs Ur ->
  Forall (fun t => wf (fst (fst t)) /\ wf (snd (fst t))) (combine (combine Ul Ur) d).
Proof.
  intros HL. revert Ur d. induction HL as [|a Ul Ha HL IH]; intros Ur d HR; [constructor|].
  destruct HR as [|b Ur Hb HR]; [constructor|]. destruct d as [|e d]; [constructor|].
  cbn. constructor; [split; assumption|]. apply IH. assumption.
Qed.

Lemma combine3_piL (Ul Ur : list ratio) (d : list Z) : length Ul = length Ur ->
  map (fun t => (qv (fst (fst t)), snd t)) (combine (combine Ul Ur) d) = combine (map qv Ul) d.
Proof.
  revert Ur d. induction Ul as [|a Ul IH]; intros [|b Ur] [|e d] H; try discriminate; try reflexivity.
  cbn. f_equal. apply IH. now injection H.
Qed.
Lemma combine3_piR (Ul Ur : list ratio) (d : list Z) : length Ul = length Ur ->
  map (fun t => (qv (snd (fst t)), snd t)) (combine (combine Ul Ur) d) = combine (map qv Ur) d.
Proof.
  revert Ur d. induction Ul as [|a Ul IH]; intros [|b Ur] [|e d] H; try discriminate; try reflexivity.
  cbn. f_equal. apply IH. now injection H.
Qed.

Theorem change_base_w Ul Ur d v p :
  change_base F (map Some Ul) (map Some Ur) d (Some v) = Some p ->
  length Ul = length Ur -> wfs Ul -> wfs Ur -> wf v ->
  wf p /\ (qv p * pi (combine (map qv Ul) d) == qv v * pi (combine (map qv Ur) d))%Q.
Proof.
  unfold change_base. intros H HL WL WR Wv. rewrite combine3_map in H.
  apply change_base_fold_w in H; [|apply combine3_wf; assumption].
  destruct H as [a [Ea K]]. injection Ea as <-. destruct (K Wv) as [Wp Vp]. split; [assumption|].
  rewrite combine3_piL, combine3_piR in Vp by assumption. exact Vp.
Qed.

(* ---- integer storage: conversion() = From<T>, value() = to_integer ---- *)
Lemma s_val_w (t : wr) z : s_val (StZw lo hi) t = Some z ->
  exists p, t = Some p /\ (wf p -> z = q_to_integer (fst p # Z.to_pos (snd p)) /\ lo <= z <= hi).
Proof.
  cbn [s_val StZw]. intros H. bind H p Hp. exists p. split; [assumption|]. intros Wp.
  unfold idiv in H. destruct (Z.eqb_spec (snd p) 0); [discriminate|]. apply ck_some in H. destruct H as [-> R].
  unfold q_to_integer. cbn [Qnum Qden]. rewrite Z2Pos.id by exact Wp. split; [reflexivity|exact R].
Qed.

Lemma qv_int z : (qv (z, 1%Z) == inject_Z z)%Q.
Proof. unfold qv, zq. cbn [fst snd]. field. Qed.

Theorem new_int_w U d k c (z r : Z) :
  q_new (StZw lo hi) (map Some U) d (Some k) (Some c) (Some z) = Some r ->
  wfs U -> wf k -> wf c ->
  r = q_to_integer ((inject_Z z + qv c) * qv k / pi (combine (map qv U) d)) /\ lo <= r <= hi.
Proof.
  unfold q_new. intros H HU Hk Hc. apply s_val_w in H. destruct H as [p [Hp K]].
  cbn [s_conv StZw obind s_cf] in Hp. apply to_base_w in Hp; try assumption; [|unfold wf; cbn; lia].
  destruct Hp as [Wp Vp]. destruct (K Wp) as [-> R]. split; [|exact R].
  apply q_to_integer_comp. rewrite <- (qv_Qmake p Wp), Vp, qv_int. reflexivity.
Qed.

Theorem get_int_w U d k c (z r : Z) :
  q_get (StZw lo hi) (map Some U) d (Some k) (Some c) (Some z) = Some r ->
  wfs U -> wf k -> wf c ->
  r = q_to_integer (inject_Z z * pi (combine (map qv U) d) / qv k - qv c) /\ lo <= r <= hi.
Proof.
  unfold q_get. intros H HU Hk Hc. apply s_val_w in H. destruct H as [p [Hp K]].
  cbn [s_conv StZw obind s_cf] in Hp. apply from_base_w in Hp; try assumption; [|unfold wf; cbn; lia].
  destruct Hp as [Wp Vp]. destruct (K Wp) as [-> R]. split; [|exact R].
  apply q_to_integer_comp. rewrite <- (qv_Qmake p Wp), Vp, qv_int. reflexivity.
Qed.

Theorem rebase_int_w Ul Ur d (z r : Z) :
  rebase (StZw lo hi) true (map Some Ul) (map Some Ur) d (Some z) = Some r ->
  length Ul = length Ur -> wfs Ul -> wfs Ur -> nonzero (combine (map qv Ul) d) ->
  r = q_to_integer (inject_Z z * pi (combine (map qv Ur) d) / pi (combine (map qv Ul) d)) /\ lo <= r <= hi.
Proof.
  unfold rebase. intros H HL WL WR NZ. apply s_val_w in H. destruct H as [p [Hp K]].
  cbn [s_conv StZw obind s_cf] in Hp. apply change_base_w in Hp; try assumption; [|unfold wf; cbn; lia].
  destruct Hp as [Wp Vp]. destruct (K Wp) as [-> R]. split; [|exact R].
  apply q_to_integer_comp. rewrite <- (qv_Qmake p Wp). rewrite qv_int in Vp.
  apply pi_nonzero in NZ. rewrite <- Vp. field. exact NZ.
Qed.

(* rational storage: V = T, conversion = value = identity *)
Theorem new_rat_w U d k c v p :
  q_new (StQw lo hi) (map Some U) d (Some k) (Some c) (Some v) = Some p ->
  wfs U -> wf k -> wf c -> wf v ->
  wf p /\ (qv p == (qv v + qv c) * qv k / pi (combine (map qv U) d))%Q.
Proof. exact (to_base_w U d k c v p). Qed.

Theorem get_rat_w U d k c v p :
  q_get (StQw lo hi) (map Some U) d (Some k) (Some c) (Some v) = Some p ->
  wfs U -> wf k -> wf c -> wf v ->
  wf p /\ (qv p == qv v * pi (combine (map qv U) d) / qv k - qv c)%Q.
Proof. exact (from_base_w U d k c v p). Qed.

(* construct-then-read in one unit is the identity whenever both conversions return *)
Theorem roundtrip_rat_w U d k c v s p :
  q_new (StQw lo hi) (map Some U) d (Some k) (Some c) (Some v) = Some s ->
  q_get (StQw lo hi) (map Some U) d (Some k) (Some c) (Some s) = Some p ->
  wfs U -> wf k -> wf c -> wf v -> nonzero (combine (map qv U) d) -> ~ (qv k == 0)%Q ->
  (qv p == qv v)%Q.
Proof.
  intros Hn Hg HU Hk Hc Hv NZ Nk. apply new_rat_w in Hn; try assumption. destruct Hn as [Ws Vs].
  apply get_rat_w in Hg; try assumption. destruct Hg as [_ Vp]. rewrite Vp, Vs.
  apply pi_nonzero in NZ. field. split; assumption.
Qed.

End W.
