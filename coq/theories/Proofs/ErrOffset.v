(* Accuracy of conversions that involve the unit's offset (one addition / subtraction), and of
   construct-then-read in one unit: completes C03's accuracy statement (any precision). *)
From Coq Require Import ZArith Reals Lia Lra Psatz Bool List.
From Flocq Require Import Core BinarySingleNaN Relative.
From UomV Require Import Model.Tables Model.Conv Model.FloatM Proofs.FloatLemmas Proofs.ConvFloat Proofs.Tree Proofs.ErrBound.
Import ListNotations.
Open Scope R_scope.

Section O.
Variables prec emax : Z.
Context (Hprec : Prec_gt_0 prec) (Hmax : Prec_lt_emax prec emax).
Variable lib : flib.
Notation fl := (binary_float prec emax).
Notation F := (CFfloat prec emax Hprec Hmax lib).
Notation evalF := (evalF prec emax Hprec Hmax).
Notation evalR := (evalR prec emax).
Notation emin := (3 - emax - prec)%Z.
Notation rnd := (round radix2 (FLT_exp emin prec) (round_mode mode_NE)).
Notation u := (u prec).
Notation Hc := (H prec).

(* one correctly rounded addition / subtraction of finite floats whose exact result is in the normal range *)
Lemma fadd_rel (x y : fl) : is_finite x = true -> is_finite y = true -> normal prec emax (B2R x + B2R y) ->
  is_finite (fadd prec emax Hprec Hmax x y) = true
  /\ exists eps, Rabs eps <= u /\ B2R (fadd prec emax Hprec Hmax x y) = (B2R x + B2R y) * (1 + eps).
Proof.
  intros Fx Fy [Hlo Hhi]. unfold FloatM.fadd.
  generalize (Bplus_correct prec emax Hprec Hmax mode_NE x y Fx Fy). rewrite Rlt_bool_true by exact Hhi.
  intros (HR & HF & _). split; [exact HF|].
  destruct (relative_error_N_FLT_ex radix2 emin prec Hprec (fun x => negb (Z.even x)) _ Hlo) as (eps & He & Hr).
  exists eps. split; [exact He|]. rewrite HR. exact Hr.
Qed.
Lemma fsub_rel (x y : fl) : is_finite x = true -> is_finite y = true -> normal prec emax (B2R x - B2R y) ->
  is_finite (fsub prec emax Hprec Hmax x y) = true
  /\ exists eps, Rabs eps <= u /\ B2R (fsub prec emax Hprec Hmax x y) = (B2R x - B2R y) * (1 + eps).
Proof.
  intros Fx Fy [Hlo Hhi]. unfold FloatM.fsub.
  generalize (Bminus_correct prec emax Hprec Hmax mode_NE x y Fx Fy). rewrite Rlt_bool_true by exact Hhi.
  intros (HR & HF & _). split; [exact HF|].
  destruct (relative_error_N_FLT_ex radix2 emin prec Hprec (fun x => negb (Z.even x)) _ Hlo) as (eps & He & Hr).
  exists eps. split; [exact He|]. rewrite HR. exact Hr.
Qed.

(* construction with an offset: (v + c) k / f within H^(n+1) - 1 relative, n = operations of the scaling *)
Theorem to_base_offset_relerr U d k c v :
  let s := fadd prec emax Hprec Hmax v c in
  let t := to_base_tree prec emax Hprec Hmax lib U d k s in
  is_finite v = true -> is_finite c = true -> normal prec emax (B2R v + B2R c) ->
  Safe prec emax Hprec Hmax t ->
  is_finite (to_base F U d k c v) = true
  /\ Rabs (B2R (to_base F U d k c v) - (B2R v + B2R c) * B2R k / factor_R prec emax lib U d)
     <= (Hc ^ S (ops prec emax t) - 1) * Rabs ((B2R v + B2R c) * B2R k / factor_R prec emax lib U d).
Proof.
  intros s t Fv Fc Nvc St.
  rewrite (to_base_offset_split prec emax Hprec Hmax lib U d k c v). fold s.
  rewrite <- (to_base_tree_evalF prec emax Hprec Hmax lib U d k s). fold t.
  destruct (eval_err prec emax Hprec Hmax t St) as (Fin & Nz & rho & Cr & Er). split; [exact Fin|].
  destruct (fadd_rel v c Fv Fc Nvc) as (_ & eps & He & Es). fold s in Es.
  assert (Hf : factor_R prec emax lib U d <> 0).
  { intro E. apply Nz. unfold t, to_base_tree. destruct (fge _ _ _); cbn [Tree.evalR]; rewrite factor_tree_evalR, E; unfold Rdiv; rewrite ?Rinv_0; ring. }
  assert (Ev : evalR t = B2R s * B2R k / factor_R prec emax lib U d) by (apply to_base_tree_evalR; exact Hf).
  rewrite Er, Ev, Es.
  set (X := (B2R v + B2R c) * B2R k / factor_R prec emax lib U d).
  replace ((B2R v + B2R c) * (1 + eps) * B2R k / factor_R prec emax lib U d * rho - X) with (X * ((1 + eps) * rho - 1)) by (unfold X; field; exact Hf).
  rewrite Rabs_mult, Rmult_comm. apply Rmult_le_compat_r; [apply Rabs_pos|].
  apply close_err; [exact Hprec|]. replace (S (ops prec emax t)) with (1 + ops prec emax t)%nat by lia.
  apply close_mul; [exact Hprec|apply close_round; [exact Hprec|exact He]|exact Cr].
Qed.

(* read-back with an offset: ulps at the larger of the result and the offset term:
   |res - (X - c)| <= u |X - c| + (1 + u) (H^n - 1) |X|,  X = v f / k exactly *)
Theorem from_base_offset_abserr U d k c v :
  let t := from_base_tree prec emax Hprec Hmax lib U d k v in
  let X := B2R v * factor_R prec emax lib U d / B2R k in
  is_finite c = true -> Safe prec emax Hprec Hmax t ->
  normal prec emax (B2R (evalF t) - B2R c) ->
  is_finite (from_base F U d k c v) = true
  /\ Rabs (B2R (from_base F U d k c v) - (X - B2R c))
     <= u * Rabs (X - B2R c) + (1 + u) * (Hc ^ ops prec emax t - 1) * Rabs X.
Proof.
  intros t X Fc St Nsub.
  rewrite (from_base_offset_split prec emax Hprec Hmax lib U d k c v).
  rewrite <- (from_base_tree_evalF prec emax Hprec Hmax lib U d k v). fold t.
  destruct (from_base_relerr prec emax Hprec Hmax lib U d k v St) as (_ & Fin & Herr). fold t X in Herr.
  destruct (fsub_rel (evalF t) c Fin Fc Nsub) as (Fr & eps & He & Es). split; [exact Fr|].
  rewrite Es. set (Y := B2R (evalF t)) in *. set (E := (Hc ^ ops prec emax t - 1)) in *.
  assert (HE : 0 <= E) by (unfold E; assert (G := Hn_ge1 prec Hprec (ops prec emax t)); lra).
  assert (Hu : 0 < u) by (apply u_pos).
  replace ((Y - B2R c) * (1 + eps) - (X - B2R c)) with ((Y - X) * (1 + eps) + (X - B2R c) * eps) by ring.
  eapply Rle_trans; [apply Rabs_triang|]. rewrite !Rabs_mult.
  assert (H1 : Rabs (1 + eps) <= 1 + u). { eapply Rle_trans; [apply Rabs_triang|]. rewrite Rabs_R1. lra. }
  assert (P1 := Rabs_pos (Y - X)). assert (P2 := Rabs_pos (X - B2R c)). assert (P3 := Rabs_pos X). assert (P4 := Rabs_pos eps).
  assert (A : Rabs (Y - X) * Rabs (1 + eps) <= (1 + u) * E * Rabs X).
  { apply Rle_trans with (E * Rabs X * (1 + u)); [apply Rmult_le_compat; try lra; apply Rabs_pos|lra]. }
  assert (B : Rabs (X - B2R c) * Rabs eps <= u * Rabs (X - B2R c)) by nra.
  lra.
Qed.

(* construct-then-read in one (offset-free) unit returns the input within H^(n1+n2) - 1 relative *)
Theorem roundtrip_relerr U d k v :
  let t1 := to_base_tree prec emax Hprec Hmax lib U d k v in
  let t2 := from_base_tree prec emax Hprec Hmax lib U d k (evalF t1) in
  Safe prec emax Hprec Hmax t1 -> Safe prec emax Hprec Hmax t2 ->
  from_base F U d k (B754_zero false) (to_base F U d k (B754_zero true) v) = evalF t2
  /\ Rabs (B2R (evalF t2) - B2R v) <= (Hc ^ (ops prec emax t1 + ops prec emax t2) - 1) * Rabs (B2R v).
Proof.
  intros t1 t2 S1 S2. split.
  - rewrite <- (to_base_tree_evalF prec emax Hprec Hmax lib U d k v). fold t1.
    symmetry. apply from_base_tree_evalF.
  - destruct (eval_err prec emax Hprec Hmax t1 S1) as (F1 & N1 & r1 & C1 & E1).
    destruct (eval_err prec emax Hprec Hmax t2 S2) as (F2 & N2 & r2 & C2 & E2).
    assert (Hf : factor_R prec emax lib U d <> 0).
    { intro E. apply N1. unfold t1, to_base_tree. destruct (fge _ _ _); cbn [Tree.evalR]; rewrite factor_tree_evalR, E; unfold Rdiv; rewrite ?Rinv_0; ring. }
    assert (Hk : B2R k <> 0).
    { intro E. apply N1. unfold t1, to_base_tree. destruct (fge _ _ _); cbn [Tree.evalR]; rewrite E; unfold Rdiv; ring. }
    assert (Ev2 : evalR t2 = B2R (evalF t1) * factor_R prec emax lib U d / B2R k) by (apply from_base_tree_evalR; assumption).
    assert (Ev1 : evalR t1 = B2R v * B2R k / factor_R prec emax lib U d) by (apply to_base_tree_evalR; exact Hf).
    rewrite E2, Ev2, E1, Ev1.
    replace (B2R v * B2R k / factor_R prec emax lib U d * r1 * factor_R prec emax lib U d / B2R k * r2 - B2R v) with (B2R v * (r1 * r2 - 1)) by (field; split; assumption).
    rewrite Rabs_mult, Rmult_comm. apply Rmult_le_compat_r; [apply Rabs_pos|].
    apply close_err; [exact Hprec|]. apply close_mul; [exact Hprec|exact C1|exact C2].
Qed.
End O.
