(* Accuracy of the Time <-> core::time::Duration conversions (C14), float storage, any base unit:
   exactness of the pieces (truncation, fmod by 1), zero propagation, and the two end-to-end bounds. *)
From Coq Require Import ZArith Reals Lia Lra Psatz Bool List.
From Coq Require Import SpecFloat.
From Flocq Require Import Core BinarySingleNaN Relative.
From UomV Require Import Model.Tables Model.Conv Model.FloatM Model.FloatOps Model.Quantity Model.Storages
  Model.Duration Proofs.QuantityP Proofs.StoragesP Proofs.FloatLemmas Proofs.DurationP Proofs.ConvFloat Proofs.Tree Proofs.ErrBound Proofs.ErrOffset.
Import ListNotations.

Section A1.
Variables prec emax : Z.
Context (Hprec : Prec_gt_0 prec) (Hmax : Prec_lt_emax prec emax).
Notation fl := (binary_float prec emax).
Notation emin := (3 - emax - prec)%Z.
Open Scope R_scope.

Lemma B2R_finite s m e (H : SpecFloat.bounded prec emax m e = true) :
  B2R (B754_finite s m e H : fl) = IZR (if s then - Zpos m else Zpos m) * bpow radix2 e.
Proof. cbn [B2R]. unfold F2R. cbn [Fnum Fexp cond_Zopp]. destruct s; reflexivity. Qed.

Lemma Ztrunc_scaled (a : Z) (e : Z) : (0 <= a)%Z ->
  Ztrunc (IZR a * bpow radix2 e) = if (0 <=? e)%Z then (a * 2 ^ e)%Z else (a / 2 ^ (- e))%Z.
Proof.
  intros Ha. destruct (Z.leb_spec 0 e) as [He|He].
  - rewrite <- IZR_Zpower by exact He. rewrite <- mult_IZR. apply Ztrunc_IZR.
  - rewrite Ztrunc_floor.
    + replace e with (- (- e))%Z at 1 by lia. rewrite bpow_opp. rewrite <- IZR_Zpower by lia.
      change (IZR a * / IZR (radix2 ^ (- e))) with (IZR a / IZR (radix2 ^ (- e))).
      apply Zfloor_div. change (radix_val radix2) with 2%Z. apply Z.pow_nonzero; lia.
    + apply Rmult_le_pos; [apply IZR_le; exact Ha|apply bpow_ge_0].
Qed.

Lemma ftrunc_Z_Ztrunc (x : fl) : is_finite x = true -> ftrunc_Z prec emax x = Some (Ztrunc (B2R x)).
Proof.
  destruct x as [s|s| |s m e H]; try discriminate; intros _.
  - cbn. rewrite Ztrunc_IZR. reflexivity.
  - rewrite ftrunc_finite, B2R_finite. f_equal. cbv zeta.
    destruct s.
    + rewrite opp_IZR, Ropp_mult_distr_l_reverse, Ztrunc_opp, Ztrunc_scaled by lia. reflexivity.
    + rewrite Ztrunc_scaled by lia. reflexivity.
Qed.
End A1.

Section A2.
Variables prec emax : Z.
Context (Hprec : Prec_gt_0 prec) (Hmax : Prec_lt_emax prec emax).
Notation fl := (binary_float prec emax).
Notation emin := (3 - emax - prec)%Z.
Notation fexp := (FLT_exp emin prec).
Open Scope R_scope.

Lemma bounded_emin (m : positive) e : SpecFloat.bounded prec emax m e = true -> (emin <= e)%Z.
Proof.
  intros H. apply andb_prop in H. destruct H as [H _]. apply Zeq_bool_eq in H.
  unfold SpecFloat.fexp, SpecFloat.emin in H. lia.
Qed.

(* a * 2^e0 * 2^e = a * 2^(e0+e) over R *)
Lemma scale_split (a : Z) (k e : Z) : (0 <= k)%Z -> IZR (a * 2 ^ k) * bpow radix2 e = IZR a * bpow radix2 (k + e).
Proof. intros Hk. rewrite mult_IZR, bpow_plus, (IZR_Zpower radix2) by exact Hk. ring. Qed.

Lemma frem_exact (x y : fl) : is_finite x = true -> is_finite_strict y = true ->
  is_finite (frem prec emax Hprec Hmax x y) = true /\
  B2R (frem prec emax Hprec Hmax x y) = B2R x - IZR (Ztrunc (B2R x / Rabs (B2R y))) * Rabs (B2R y).
Proof.
  destruct y as [sy|sy| |sy my ey Hy]; try discriminate.
  destruct x as [sx|sx| |sx mx ex Hx]; try discriminate; intros _ _.
  - cbn [frem is_finite B2R]. split; [reflexivity|]. unfold Rdiv. rewrite Rmult_0_l, Ztrunc_IZR. ring.
  - cbn [frem].
    set (e := Z.min ex ey). set (a := (Zpos mx * 2 ^ (ex - e))%Z). set (b := (Zpos my * 2 ^ (ey - e))%Z).
    assert (Hex : (0 <= ex - e)%Z) by lia. assert (Hey : (0 <= ey - e)%Z) by lia.
    assert (Pa : (0 < a)%Z) by (apply Z.mul_pos_pos; [lia|apply Z.pow_pos_nonneg; lia]).
    assert (Pb : (0 < b)%Z) by (apply Z.mul_pos_pos; [lia|apply Z.pow_pos_nonneg; lia]).
    assert (Er : Z.rem a b = (a mod b)%Z) by (apply Z.rem_mod_nonneg; lia).
    assert (Hr := Z.mod_pos_bound a b Pb). assert (Hdm := Z.div_mod a b ltac:(lia)).
    assert (Hq : (0 <= a / b)%Z) by (apply Z.div_pos; lia).
    set (r := (a mod b)%Z) in *. set (q := (a / b)%Z) in *.
    (* the real values *)
    assert (Xa : Rabs (B2R (B754_finite sx mx ex Hx : fl)) = IZR a * bpow radix2 e).
    { rewrite B2R_finite, Rabs_mult, (Rabs_pos_eq (bpow _ _)) by apply bpow_ge_0.
      replace (Rabs (IZR (if sx then (- Z.pos mx)%Z else Z.pos mx))) with (IZR (Zpos mx)) by (destruct sx; rewrite <- abs_IZR; reflexivity).
      unfold a. rewrite scale_split by exact Hex. f_equal. f_equal. lia. }
    assert (Yb : Rabs (B2R (B754_finite sy my ey Hy : fl)) = IZR b * bpow radix2 e).
    { rewrite B2R_finite, Rabs_mult, (Rabs_pos_eq (bpow _ _)) by apply bpow_ge_0.
      replace (Rabs (IZR (if sy then (- Z.pos my)%Z else Z.pos my))) with (IZR (Zpos my)) by (destruct sy; rewrite <- abs_IZR; reflexivity).
      unfold b. rewrite scale_split by exact Hey. f_equal. f_equal. lia. }
    assert (Xs : B2R (B754_finite sx mx ex Hx : fl) = (if sx then -1 else 1) * (IZR a * bpow radix2 e)).
    { rewrite <- Xa, B2R_finite. destruct sx.
      - rewrite opp_IZR, Ropp_mult_distr_l_reverse, Rabs_Ropp, Rabs_pos_eq; [ring|].
        apply Rmult_le_pos; [apply IZR_le; lia|apply bpow_ge_0].
      - rewrite Rabs_pos_eq; [ring|]. apply Rmult_le_pos; [apply IZR_le; lia|apply bpow_ge_0]. }
    assert (Pe : 0 < bpow radix2 e) by apply bpow_gt_0.
    assert (Pbr : 0 < IZR b) by (apply IZR_lt; exact Pb).
    assert (Tq : Ztrunc (B2R (B754_finite sx mx ex Hx : fl) / Rabs (B2R (B754_finite sy my ey Hy : fl))) = (if sx then - q else q)%Z).
    { rewrite Xs, Yb.
      replace ((if sx then -1 else 1) * (IZR a * bpow radix2 e) / (IZR b * bpow radix2 e)) with ((if sx then -1 else 1) * (IZR a / IZR b)) by (field; lra).
      assert (Tf : Ztrunc (IZR a / IZR b) = q).
      { rewrite Ztrunc_floor. apply Zfloor_div. lia. apply Rmult_le_pos; [apply IZR_le; lia|apply Rlt_le, Rinv_0_lt_compat; lra]. }
      destruct sx.
      - replace (-1 * (IZR a / IZR b)) with (- (IZR a / IZR b)) by ring. rewrite Ztrunc_opp, Tf. reflexivity.
      - rewrite Rmult_1_l. exact Tf. }
    rewrite Tq, Yb, Xs. rewrite Er. fold r.
    assert (Ea : IZR a = IZR b * IZR q + IZR r) by (rewrite <- mult_IZR, <- plus_IZR; f_equal; exact Hdm).
    destruct (Z.eqb_spec r 0) as [Ez|Nz].
    + cbn [is_finite B2R]. split; [reflexivity|]. rewrite Ea, Ez. destruct sx; rewrite ?opp_IZR; ring.
    + (* exact normalisation *)
      set (z := (if sx then - r else r)%Z).
      assert (Rr : (r <= a)%Z) by (destruct (Z_lt_le_dec a b); [unfold r; rewrite Z.mod_small; lia|lia]).
      assert (Mx := mantissa_bound prec emax mx ex Hx). assert (My := mantissa_bound prec emax my ey Hy).
      assert (Zp : (Z.abs z < 2 ^ prec)%Z).
      { replace (Z.abs z) with r by (unfold z; destruct sx; lia).
        destruct (Z.min_spec ex ey) as [[_ Em]|[_ Em]]; fold e in Em.
        - assert (a = Zpos mx) by (unfold a; rewrite Em, Z.sub_diag; cbn; lia). lia.
        - assert (b = Zpos my) by (unfold b; rewrite Em, Z.sub_diag; cbn; lia). lia. }
      assert (Ee : (emin <= e)%Z) by (generalize (bounded_emin mx ex Hx) (bounded_emin my ey Hy); lia).
      assert (Gf : generic_format radix2 fexp (F2R (Float radix2 z e))).
      { apply generic_format_FLT. exists (Float radix2 z e); [reflexivity|exact Zp|exact Ee]. }
      assert (Fz : F2R (Float radix2 z e) = (if sx then -1 else 1) * (IZR r * bpow radix2 e)).
      { unfold F2R, z. cbn [Fnum Fexp]. destruct sx; rewrite ?opp_IZR; ring. }
      pose proof (binary_normalize_correct prec emax Hprec Hmax mode_NE z e false) as Hn.
      cbv zeta in Hn. rewrite round_generic in Hn by (try apply valid_rnd_round_mode; exact Gf).
      assert (Hlt : Rabs (F2R (Float radix2 z e)) < bpow radix2 emax).
      { eapply Rle_lt_trans; [|apply (abs_B2R_lt_emax prec emax (B754_finite sx mx ex Hx))].
        rewrite Xa, Fz, Rabs_mult. replace (Rabs (if sx then -1 else 1)) with 1 by (destruct sx; unfold Rabs; destruct (Rcase_abs _); lra).
        rewrite Rmult_1_l, Rabs_pos_eq by (apply Rmult_le_pos; [apply IZR_le; lia|lra]).
        apply Rmult_le_compat_r; [lra|apply IZR_le; exact Rr]. }
      rewrite (Rlt_bool_true _ _ Hlt) in Hn. fold z. destruct Hn as (HR & HF & _). split; [exact HF|].
      rewrite HR, Fz, Ea. destruct sx; rewrite ?opp_IZR; ring.
Qed.

Lemma frem_one (x : fl) : is_finite x = true ->
  is_finite (frem prec emax Hprec Hmax x (fone prec emax Hprec Hmax)) = true /\
  B2R (frem prec emax Hprec Hmax x (fone prec emax Hprec Hmax)) = B2R x - IZR (Ztrunc (B2R x)).
Proof.
  intros Fx. destruct (frem_exact x (fone prec emax Hprec Hmax) Fx (fone_finite_nz prec emax Hprec Hmax)) as [F E].
  split; [exact F|]. rewrite E. unfold fone. rewrite Bone_correct, Rabs_R1. unfold Rdiv. rewrite Rinv_1, !Rmult_1_r. reflexivity.
Qed.
End A2.

Section A3.
Variables prec emax : Z.
Context (Hprec : Prec_gt_0 prec) (Hmax : Prec_lt_emax prec emax).
Variable lib : flib.
Notation fl := (binary_float prec emax).
Notation F := (CFfloat prec emax Hprec Hmax lib).
Notation St := (StF prec emax Hprec Hmax lib).
Notation evalF := (evalF prec emax Hprec Hmax).
Notation evalR := (evalR prec emax).
Notation Safe := (Safe prec emax Hprec Hmax).
Notation tb := (to_base_tree prec emax Hprec Hmax lib).
Notation fb := (from_base_tree prec emax Hprec Hmax lib).
Notation ftree := (factor_tree prec emax Hprec Hmax lib).
Notation one := (fone prec emax Hprec Hmax).
Notation Hc := (H prec).
Open Scope R_scope.

Definition fzeroish (z : fl) : Prop := is_finite z = true /\ B2R z = 0.

Lemma round0 : round radix2 (FLT_exp (3 - emax - prec) prec) (round_mode mode_NE) 0 = 0.
Proof. apply round_0. apply valid_rnd_round_mode. Qed.

Lemma Bmult_zeroish (a b : fl) : fzeroish a -> is_finite b = true -> fzeroish (Bmult mode_NE a b).
Proof.
  intros [Fa Za] Fb. generalize (Bmult_correct prec emax Hprec Hmax mode_NE a b).
  rewrite Za, Rmult_0_l, round_0 by apply valid_rnd_round_mode. rewrite Rabs_R0, Rlt_bool_true by apply bpow_gt_0.
  intros (HR & HF & _). split; [rewrite HF, Fa, Fb; reflexivity|exact HR].
Qed.
Lemma Bdiv_zeroish (a b : fl) : fzeroish a -> B2R b <> 0 -> fzeroish (Bdiv mode_NE a b).
Proof.
  intros [Fa Za] Nb. generalize (Bdiv_correct prec emax Hprec Hmax mode_NE a b Nb).
  unfold Rdiv. rewrite Za, Rmult_0_l, round_0 by apply valid_rnd_round_mode. rewrite Rabs_R0, Rlt_bool_true by apply bpow_gt_0.
  intros (HR & HF & _). split; [rewrite HF; exact Fa|exact HR].
Qed.

Lemma Safe_value_nz t : Safe t -> is_finite (evalF t) = true /\ B2R (evalF t) <> 0.
Proof.
  intros S. destruct (eval_err prec emax Hprec Hmax t S) as (Fin & Nz & rho & C & E). split; [exact Fin|].
  rewrite E. assert (P := close_pos prec Hprec _ _ C). nra.
Qed.

(* the conversion of a zero is a zero as soon as the conversion of 1 is safe *)
Lemma to_base_zeroish U d k z : Safe (tb U d k one) -> fzeroish z -> fzeroish (evalF (tb U d k z)).
Proof.
  unfold to_base_tree. destruct (fge prec emax k _); cbn [Tree.Safe Tree.evalF].
  - intros (_ & (Sk & Sf & N) & _) Hz. apply Bmult_zeroish; [exact Hz|].
    apply (Safe_value_nz (Div prec emax (Leaf prec emax k) (ftree U d))). cbn [Tree.Safe Tree.evalF]. tauto.
  - intros ((_ & (Fk & _) & _) & Sf & _) Hz. apply Bdiv_zeroish; [apply Bmult_zeroish; assumption|].
    apply Safe_value_nz. exact Sf.
Qed.
Lemma from_base_zeroish U d k z : Safe (fb U d k one) -> fzeroish z -> fzeroish (evalF (fb U d k z)).
Proof.
  unfold from_base_tree. destruct (flt prec emax k _); cbn [Tree.Safe Tree.evalF].
  - intros (_ & (Sf & Sk & N) & _) Hz. apply Bmult_zeroish; [exact Hz|].
    apply (Safe_value_nz (Div prec emax (ftree U d) (Leaf prec emax k))). cbn [Tree.Safe Tree.evalF]. tauto.
  - intros (_ & (Sk & Sf & N) & _) Hz. apply Bdiv_zeroish; [exact Hz|].
    apply (Safe_value_nz (Div prec emax (Leaf prec emax k) (ftree U d))). cbn [Tree.Safe Tree.evalF]. tauto.
Qed.

Lemma Ztrunc_err (x : R) : Rabs (IZR (Ztrunc x) - x) < 1.
Proof.
  unfold Ztrunc. destruct (Rlt_bool_spec x 0) as [Hx|Hx].
  - generalize (Zceil_ub x) (Zceil_lb x). intros A B. apply Rabs_lt. lra.
  - generalize (Zfloor_lb x) (Zfloor_ub x). intros A B. apply Rabs_lt. lra.
Qed.

Theorem to_duration_accuracy ac (U : list fl) dT (ksec knano v : fl) s n :
  Forall (fun u => is_nan u = false) U ->
  time_to_duration prec emax Hprec Hmax lib ac U dT ksec knano v = DurOk s n ->
  let t1 := fb U dT ksec v in
  let frac := frem prec emax Hprec Hmax (evalF t1) one in
  let t2 := tb U dT ksec frac in
  let t3 := fb U dT knano (evalF t2) in
  let T := B2R v * factor_R prec emax lib U dT / B2R ksec in
  let G := B2R ksec / B2R knano in
  Safe t1 -> Safe (tb U dT ksec one) -> Safe (fb U dT knano one) ->
  (B2R frac <> 0 -> Safe t2 /\ Safe t3) ->
  0 < B2R ksec -> 0 < B2R knano ->
  Rabs (IZR (s * 1000000000 + n) - T * 1000000000)
    <= 1000000000 * (Hc ^ ops prec emax t1 - 1) * Rabs T + 1 + G * (Hc ^ (ops prec emax t2 + ops prec emax t3) - 1) + Rabs (G - 1000000000).
Proof.
  intros HU Hok t1 frac t2 t3 T G S1 Su2 Su3 Snz Pk Pn.
  unfold time_to_duration in Hok.
  destruct (q_bin _ _ _ _ _ _ _ _); [discriminate|].
  unfold q_get, q_new in Hok. cbn [s_val s_conv StF s_cf] in Hok.
  rewrite <- !(from_base_tree_evalF prec emax Hprec Hmax lib) in Hok.
  rewrite <- !(to_base_tree_evalF prec emax Hprec Hmax lib) in Hok.
  fold t1 in Hok. fold frac in Hok. fold t2 in Hok. fold t3 in Hok.
  destruct (to_uint prec emax 64 (evalF t1)) as [s0|] eqn:Es; [|discriminate].
  destruct (to_uint prec emax 32 (evalF t3)) as [n0|] eqn:En; [|discriminate].
  apply to_uint_spec in Es. destruct Es as [Es Hs]. apply to_uint_spec in En. destruct En as [En Hn].
  (* total nanoseconds are preserved by Duration::new's carry *)
  assert (HN : (s * 1000000000 + n = s0 * 1000000000 + n0)%Z).
  { unfold duration_new in Hok. destruct (_ <? 2 ^ 64)%Z; [|discriminate]. injection Hok as <- <-.
    generalize (Z.div_mod n0 1000000000 ltac:(lia)). lia. }
  rewrite HN. clear HN Hok.
  destruct (from_base_relerr prec emax Hprec Hmax lib U dT ksec v S1) as (_ & F1 & E1). fold t1 T in E1, F1.
  rewrite (ftrunc_Z_Ztrunc prec emax (evalF t1) F1) in Es. injection Es as Es.
  destruct (frem_one prec emax Hprec Hmax (evalF t1) F1) as [Ff Ef]. fold frac in Ff, Ef. rewrite Es in Ef.
  set (tau := B2R (evalF t1)) in *.
  assert (Hfr : Rabs (B2R frac) < 1).
  { rewrite Ef, <- Es. rewrite <- Rabs_Ropp. replace (- (tau - IZR (Ztrunc tau))) with (IZR (Ztrunc tau) - tau) by ring. apply Ztrunc_err. }
  assert (PG : 0 < G) by (unfold G; apply Rdiv_lt_0_compat; assumption).
  set (E23 := Hc ^ (ops prec emax t2 + ops prec emax t3) - 1).
  assert (HE23 : 0 <= E23) by (unfold E23; generalize (Hn_ge1 prec Hprec (ops prec emax t2 + ops prec emax t3)); lra).
  (* the sub-second part *)
  assert (Hy : is_finite (evalF t3) = true /\ Rabs (B2R (evalF t3) - B2R frac * G) <= G * E23).
  { destruct (Req_dec (B2R frac) 0) as [Z|NZ].
    - assert (Z2 : fzeroish (evalF t2)) by (apply to_base_zeroish; [exact Su2|split; assumption]).
      assert (Z3 : fzeroish (evalF t3)) by (apply from_base_zeroish; [exact Su3|exact Z2]).
      destruct Z3 as [F3 Z3]. split; [exact F3|]. rewrite Z3, Z, Rmult_0_l, Rminus_0_r, Rabs_R0. nra.
    - destruct (Snz NZ) as [S2 S3].
      destruct (eval_err prec emax Hprec Hmax t2 S2) as (F2 & N2 & r2 & C2 & E2).
      destruct (eval_err prec emax Hprec Hmax t3 S3) as (F3 & N3 & r3 & C3 & E3). split; [exact F3|].
      assert (Hf : factor_R prec emax lib U dT <> 0).
      { intro E. apply N2. unfold t2, to_base_tree. destruct (fge _ _ _); cbn [Tree.evalR]; rewrite factor_tree_evalR, E; unfold Rdiv; rewrite ?Rinv_0; ring. }
      assert (Ev2 : evalR t2 = B2R frac * B2R ksec / factor_R prec emax lib U dT) by (apply to_base_tree_evalR; exact Hf).
      assert (Ev3 : evalR t3 = B2R (evalF t2) * factor_R prec emax lib U dT / B2R knano) by (apply from_base_tree_evalR; [exact Hf|lra]).
      rewrite E3, Ev3, E2, Ev2.
      replace (B2R frac * B2R ksec / factor_R prec emax lib U dT * r2 * factor_R prec emax lib U dT / B2R knano * r3 - B2R frac * G)
        with (B2R frac * G * (r2 * r3 - 1)) by (unfold G; field; split; [lra|exact Hf]).
      rewrite !Rabs_mult, (Rabs_pos_eq G) by lra.
      assert (Hc23 : Rabs (r2 * r3 - 1) <= E23) by (apply close_err; [exact Hprec|apply close_mul; assumption]).
      assert (P1 := Rabs_pos (B2R frac)). assert (P2 := Rabs_pos (r2 * r3 - 1)).
      apply Rle_trans with (G * Rabs (r2 * r3 - 1)); [apply Rmult_le_compat_r; [exact P2|nra]|apply Rmult_le_compat_l; lra]. }
  destruct Hy as [F3 Hy].
  rewrite (ftrunc_Z_Ztrunc prec emax (evalF t3) F3) in En. injection En as En.
  set (y := B2R (evalF t3)) in *.
  assert (Hty := Ztrunc_err y). rewrite En in Hty.
  rewrite plus_IZR, mult_IZR.
  replace (IZR s0 * 1000000000 + IZR n0 - T * 1000000000)
    with ((tau - T) * 1000000000 + (IZR n0 - y) + (y - B2R frac * G) + B2R frac * (G - 1000000000)) by (rewrite Ef; ring).
  eapply Rle_trans; [apply Rabs_triang|]. eapply Rle_trans; [apply Rplus_le_compat_r, Rabs_triang|].
  eapply Rle_trans; [apply Rplus_le_compat_r, Rplus_le_compat_r, Rabs_triang|].
  rewrite !Rabs_mult. rewrite (Rabs_pos_eq 1000000000) by lra.
  assert (P3 := Rabs_pos (G - 1000000000)). assert (P4 := Rabs_pos (B2R frac)).
  assert (A1 : Rabs (tau - T) * 1000000000 <= 1000000000 * (Hc ^ ops prec emax t1 - 1) * Rabs T) by lra.
  assert (A4 : Rabs (B2R frac) * Rabs (G - 1000000000) <= Rabs (G - 1000000000)) by nra.
  lra.
Qed.
End A3.

Section A4.
Variables prec emax : Z.
Context (Hprec : Prec_gt_0 prec) (Hmax : Prec_lt_emax prec emax).
Hypothesis Hemax : (64 < emax)%Z.
Variable lib : flib.
Notation fl := (binary_float prec emax).
Notation F := (CFfloat prec emax Hprec Hmax lib).
Notation St := (StF prec emax Hprec Hmax lib).
Notation evalF := (evalF prec emax Hprec Hmax).
Notation evalR := (evalR prec emax).
Notation Safe := (Safe prec emax Hprec Hmax).
Notation tb := (to_base_tree prec emax Hprec Hmax lib).
Notation one := (fone prec emax Hprec Hmax).
Notation Hc := (H prec).
Notation u := (u prec).
Notation emin := (3 - emax - prec)%Z.
Notation rnd := (round radix2 (FLT_exp emin prec) (round_mode mode_NE)).
Notation ofZ := (of_Z prec emax Hprec Hmax).
Open Scope R_scope.

Lemma close_mono n m r : (n <= m)%nat -> close prec n r -> close prec m r.
Proof.
  intros Hnm [L Hh]. assert (Hle : Hc ^ n <= Hc ^ m) by (apply Rle_pow; [apply H_ge_1; exact Hprec|exact Hnm]).
  assert (Pn := Hn_pos prec Hprec n). split; [|lra].
  eapply Rle_trans; [|exact L]. apply Rinv_le_contravar; lra.
Qed.

Lemma close_convex m A B ra rb : 0 <= A -> 0 <= B -> close prec m ra -> close prec m rb ->
  exists r, close prec m r /\ A * ra + B * rb = (A + B) * r.
Proof.
  intros PA PB [La Ha] [Lb Hb]. destruct (Req_dec (A + B) 0) as [Z|NZ].
  - exists 1. split; [|assert (A = 0) by lra; assert (B = 0) by lra; subst; ring].
    assert (G := Hn_ge1 prec Hprec m). assert (P := Hn_pos prec Hprec m). split; [|lra].
    rewrite <- Rinv_1. apply Rinv_le_contravar; lra.
  - assert (P : 0 < A + B) by lra. exists ((A * ra + B * rb) / (A + B)). split; [|field; exact NZ].
    split.
    + apply Rmult_le_reg_r with (A + B); [exact P|]. unfold Rdiv. rewrite Rmult_assoc, Rinv_l, Rmult_1_r by exact NZ. nra.
    + apply Rmult_le_reg_r with (A + B); [exact P|]. unfold Rdiv. rewrite Rmult_assoc, Rinv_l, Rmult_1_r by exact NZ. nra.
Qed.

Lemma of_Z_zero : ofZ 0 = B754_zero false.
Proof. reflexivity. Qed.

Lemma of_Z_rel (z : Z) : (0 < z < 2 ^ 64)%Z ->
  is_finite (ofZ z) = true /\ exists eps, Rabs eps <= u /\ B2R (ofZ z) = IZR z * (1 + eps).
Proof.
  intros Hz. unfold FloatM.of_Z.
  pose proof (binary_normalize_correct prec emax Hprec Hmax mode_NE z 0 false) as Hn. cbv zeta in Hn.
  assert (Ez : F2R (Float radix2 z 0) = IZR z) by (unfold F2R; cbn [Fnum Fexp bpow]; ring).
  rewrite Ez in Hn.
  assert (P1 : 1 <= IZR z) by (apply IZR_le; lia).
  assert (Hlo : bpow radix2 (emin + prec - 1) <= Rabs (IZR z)).
  { rewrite Rabs_pos_eq by lra. eapply Rle_trans; [|exact P1]. change 1 with (bpow radix2 0). apply bpow_le. unfold Prec_gt_0 in Hprec. lia. }
  assert (Hhi : Rabs (rnd (IZR z)) < bpow radix2 emax).
  { apply Rle_lt_trans with (bpow radix2 64); [|apply bpow_lt; exact Hemax].
    assert (G64 : generic_format radix2 (FLT_exp emin prec) (bpow radix2 64)).
    { apply generic_format_bpow. unfold FLT_exp. unfold Prec_gt_0 in Hprec. lia. }
    rewrite Rabs_pos_eq.
    - rewrite <- (round_generic radix2 (FLT_exp emin prec) (round_mode mode_NE) _ G64).
      apply round_le; [apply FLT_exp_valid; exact Hprec|apply valid_rnd_round_mode|].
      rewrite <- (IZR_Zpower radix2) by lia. apply IZR_le. change (radix_val radix2) with 2%Z. lia.
    - rewrite <- (round_0 radix2 (FLT_exp emin prec) (round_mode mode_NE)).
      apply round_le; [apply FLT_exp_valid; exact Hprec|apply valid_rnd_round_mode|lra]. }
  match type of Hn with (if Rlt_bool ?a ?b then _ else _) => change (Rlt_bool a b) with (Rlt_bool (Rabs (rnd (IZR z))) (bpow radix2 emax)) in Hn end.
  rewrite (Rlt_bool_true _ _ Hhi) in Hn. destruct Hn as (HR & HF & _). split; [exact HF|].
  destruct (relative_error_N_FLT_ex radix2 emin prec Hprec (fun x => negb (Z.even x)) _ Hlo) as (eps & He & Hr).
  exists eps. split; [exact He|]. rewrite HR. exact Hr.
Qed.

(* a converted count: value A * rho with rho close to 1 (rho = 1 for a zero count) *)
Lemma count_to_base U d k z : (0 <= z < 2 ^ 64)%Z ->
  Safe (tb U d k one) -> (z <> 0%Z -> Safe (tb U d k (ofZ z))) ->
  let t := tb U d k (ofZ z) in
  is_finite (evalF t) = true /\ exists rho, close prec (S (ops prec emax t)) rho /\
    B2R (evalF t) = IZR z * B2R k / factor_R prec emax lib U d * rho.
Proof.
  intros Hz Su Sz t. destruct (Z.eq_dec z 0) as [Z0|NZ].
  - subst z. assert (Zi : fzeroish prec emax (evalF t)).
    { apply to_base_zeroish; [exact Su|]. rewrite of_Z_zero. split; reflexivity. }
    destruct Zi as [Fi Zi]. split; [exact Fi|]. exists 1. split.
    + assert (G := Hn_ge1 prec Hprec (S (ops prec emax t))). assert (P := Hn_pos prec Hprec (S (ops prec emax t))).
      split; [|lra]. rewrite <- Rinv_1. apply Rinv_le_contravar; lra.
    + rewrite Zi. unfold Rdiv. ring.
  - specialize (Sz NZ). fold t in Sz.
    destruct (eval_err prec emax Hprec Hmax t Sz) as (Fin & Nz & rho & Cr & Er). split; [exact Fin|].
    destruct (of_Z_rel z ltac:(lia)) as (_ & eps & He & Ez).
    assert (Hf : factor_R prec emax lib U d <> 0).
    { intro E. apply Nz. unfold t, to_base_tree. destruct (fge _ _ _); cbn [Tree.evalR]; rewrite factor_tree_evalR, E; unfold Rdiv; rewrite ?Rinv_0; ring. }
    assert (Ev : evalR t = B2R (ofZ z) * B2R k / factor_R prec emax lib U d) by (apply to_base_tree_evalR; exact Hf).
    exists ((1 + eps) * rho). split.
    + replace (S (ops prec emax t)) with (1 + ops prec emax t)%nat by lia.
      apply close_mul; [exact Hprec|apply close_round; [exact Hprec|exact He]|exact Cr].
    + rewrite Er, Ev, Ez. field. exact Hf.
Qed.

Theorem from_duration_accuracy ac (U : list fl) dT (ksec knano : fl) secs nanos :
  Forall (fun u => is_nan u = false) U ->
  (0 <= secs < 2 ^ 64)%Z -> (0 <= nanos < 2 ^ 32)%Z ->
  let ta := tb U dT ksec (ofZ secs) in
  let tn := tb U dT knano (ofZ nanos) in
  let X := (IZR secs * B2R ksec + IZR nanos * B2R knano) / factor_R prec emax lib U dT in
  let r := duration_to_time prec emax Hprec Hmax lib ac U dT ksec knano secs nanos in
  Safe (tb U dT ksec one) -> Safe (tb U dT knano one) ->
  (secs <> 0%Z -> Safe ta) -> (nanos <> 0%Z -> Safe tn) ->
  (X <> 0 -> normal prec emax (B2R (evalF ta) + B2R (evalF tn))) ->
  0 < B2R ksec -> 0 < B2R knano -> 0 < factor_R prec emax lib U dT ->
  is_finite r = true /\
  Rabs (B2R r - X) <= (Hc ^ (S (S (Nat.max (ops prec emax ta) (ops prec emax tn)))) - 1) * Rabs X.
Proof.
  intros HU Hs Hn ta tn X r Sus Sun Ss Sn Nrm Pk Pn Pf.
  assert (Er : r = fadd prec emax Hprec Hmax (evalF ta) (evalF tn)).
  { unfold r, duration_to_time.
    rewrite (q_bin_same_base (StF prec emax Hprec Hmax lib)) by (try apply StF_refl; try apply StF_retract; exact HU).
    unfold q_new. cbn [s_val s_conv StF s_cf].
    rewrite <- !(to_base_tree_evalF prec emax Hprec Hmax lib). reflexivity. }
  destruct (count_to_base U dT ksec secs Hs Sus Ss) as (Fa & ra & Ca & Ea). fold ta in Fa, Ca, Ea.
  destruct (count_to_base U dT knano nanos ltac:(lia) Sun Sn) as (Fb & rb & Cb & Eb). fold tn in Fb, Cb, Eb.
  set (m := S (Nat.max (ops prec emax ta) (ops prec emax tn))).
  apply (close_mono _ m) in Ca; [|unfold m; lia]. apply (close_mono _ m) in Cb; [|unfold m; lia].
  set (A := IZR secs * B2R ksec / factor_R prec emax lib U dT) in *.
  set (B := IZR nanos * B2R knano / factor_R prec emax lib U dT) in *.
  assert (PA : 0 <= A).
  { unfold A. apply Rmult_le_pos; [apply Rmult_le_pos; [apply IZR_le; lia|lra]|apply Rlt_le, Rinv_0_lt_compat; exact Pf]. }
  assert (PB : 0 <= B).
  { unfold B. apply Rmult_le_pos; [apply Rmult_le_pos; [apply IZR_le; lia|lra]|apply Rlt_le, Rinv_0_lt_compat; exact Pf]. }
  assert (EX : X = A + B) by (unfold X, A, B; field; lra).
  destruct (close_convex m A B ra rb PA PB Ca Cb) as (rho & Cr & Esum).
  rewrite Er. destruct (Req_dec X 0) as [ZX|NX].
  - (* both parts are zero: the sum of two zeros *)
    assert (ZA : A = 0) by lra. assert (ZB : B = 0) by lra.
    assert (Za : B2R (evalF ta) = 0) by (rewrite Ea, ZA; ring). assert (Zb : B2R (evalF tn) = 0) by (rewrite Eb, ZB; ring).
    generalize (Bplus_correct prec emax Hprec Hmax mode_NE (evalF ta) (evalF tn) Fa Fb).
    rewrite Za, Zb, Rplus_0_l, round_0 by apply valid_rnd_round_mode. rewrite Rabs_R0, Rlt_bool_true by apply bpow_gt_0.
    intros (HR & HF & _). unfold FloatM.fadd. split; [exact HF|]. rewrite HR, ZX, Rminus_0_r, Rabs_R0. lra.
  - destruct (fadd_rel prec emax Hprec Hmax (evalF ta) (evalF tn) Fa Fb (Nrm NX)) as (Ff & eps & He & Es).
    split; [exact Ff|]. rewrite Es, Ea, Eb, Esum, <- EX.
    replace (X * rho * (1 + eps) - X) with (X * (rho * (1 + eps) - 1)) by ring.
    rewrite Rabs_mult, Rmult_comm. apply Rmult_le_compat_r; [apply Rabs_pos|].
    apply close_err; [exact Hprec|]. replace (S m) with (m + 1)%nat by lia.
    apply close_mul; [exact Hprec|exact Cr|apply close_round; [exact Hprec|exact He]].
Qed.
End A4.

