(* Proofs about Model.Text: parsing accepts exactly `<number> <label>`, error precedence,
   formatting then parsing returns the same conversion (C11, C12). Axiom-free. *)
From Coq Require Import ZArith NArith QArith List Bool Lia.
From UomV Require Import Model.Tables Model.Text.
Import ListNotations.
Open Scope N_scope.

Lemma split1_acc s acc a b : split1 s acc = Some (a, b) ->
  exists a', a = rev acc ++ a' /\ s = a' ++ SP :: b /\ forallb (fun c => negb (c =? SP)) a' = true.
Proof.
  revert acc. induction s as [|c r IH]; intros acc H; [discriminate|].
  cbn [split1] in H. destruct (c =? SP) eqn:E.
  - injection H as <- <-. apply N.eqb_eq in E. subst c. exists []. rewrite app_nil_r. auto.
  - destruct (IH _ H) as (a' & Ha & Hs & Hn). exists (c :: a'). split; [|split].
    + rewrite Ha. cbn [rev]. rewrite <- app_assoc. reflexivity.
    + rewrite Hs. reflexivity.
    + cbn [forallb]. rewrite E. exact Hn.
Qed.

Lemma split1_none s acc : split1 s acc = None <-> forallb (fun c => negb (c =? SP)) s = true.
Proof.
  revert acc. induction s as [|c r IH]; intros acc; cbn [split1 forallb]; [tauto|].
  destruct (c =? SP); cbn; [split; discriminate|apply IH].
Qed.

Lemma split1_app a b acc : forallb (fun c => negb (c =? SP)) a = true -> split1 (a ++ SP :: b) acc = Some (rev acc ++ a, b).
Proof.
  revert acc. induction a as [|c a IH]; intros acc H; cbn [app split1].
  - rewrite N.eqb_refl, app_nil_r. reflexivity.
  - cbn [forallb] in H. apply andb_prop in H. destruct H as [Hc Ha]. apply negb_true_iff in Hc. rewrite Hc.
    rewrite IH by exact Ha. cbn [rev]. rewrite <- app_assoc. reflexivity.
Qed.

Section P.
Context {V : Type} (parseV : text -> option V).

(* no separator <=> the text contains no space; reported before anything else *)
Lemma parse_no_separator units s :
  parse_quantity parseV units s = inl NoSeparator <-> forallb (fun c => negb (c =? SP)) s = true.
Proof.
  unfold parse_quantity. rewrite <- (split1_none s []).
  destruct (split1 s []) as [[a b]|]; [|tauto].
  split; [|discriminate]. destruct (parseV a); [destruct (first_unit units (trim b))|]; discriminate.
Qed.

(* success <=> number, ONE space splitting at the first blank, and a registered label around
   which blanks are ignored; the result is the first registered unit carrying that label *)
Lemma parse_ok_iff units s u v :
  parse_quantity parseV units s = inr (u, v) <->
  exists a b, s = a ++ SP :: b /\ forallb (fun c => negb (c =? SP)) a = true
              /\ parseV a = Some v /\ first_unit units (trim b) = Some u.
Proof.
  unfold parse_quantity. split.
  - destruct (split1 s []) as [[a b]|] eqn:E; [|discriminate].
    destruct (split1_acc _ _ _ _ E) as (a' & Ha & Hs & Hn). cbn in Ha. subst a'.
    destruct (parseV a) as [v'|] eqn:Ev; [|discriminate].
    destruct (first_unit units (trim b)) as [u'|] eqn:Eu; [|discriminate].
    intros H. injection H as <- <-. exists a, b. auto.
  - intros (a & b & -> & Hn & Hv & Hu). rewrite (split1_app a b [] Hn). cbn [rev app]. now rewrite Hv, Hu.
Qed.

Lemma parse_value_error units a b :
  forallb (fun c => negb (c =? SP)) a = true -> parseV a = None ->
  parse_quantity parseV units (a ++ SP :: b) = inl ValueParseError.
Proof. intros Hn Hv. unfold parse_quantity. rewrite (split1_app a b [] Hn). cbn [rev app]. now rewrite Hv. Qed.

Lemma parse_unknown_unit units a b v :
  forallb (fun c => negb (c =? SP)) a = true -> parseV a = Some v -> first_unit units (trim b) = None ->
  parse_quantity parseV units (a ++ SP :: b) = inl UnknownUnit.
Proof. intros Hn Hv Hu. unfold parse_quantity. rewrite (split1_app a b [] Hn). cbn [rev app]. now rewrite Hv, Hu. Qed.
End P.

(* ---- label conflicts over a whole unit list ---- *)
Definition conflicts (us : list unit_decl) : list (unit_decl * unit_decl) :=
  filter (fun p => share_label (fst p) (snd p) && negb (same_conversion (fst p) (snd p))) (list_prod us us).

Lemma conflicts_nil us : conflicts us = [] ->
  forall u v, In u us -> In v us -> share_label u v = true -> same_conversion u v = true.
Proof.
  intros H u v Hu Hv Hs. unfold conflicts in H.
  assert (Hin : In (u, v) (list_prod us us)) by (apply in_prod; assumption).
  destruct (same_conversion u v) eqn:E; [reflexivity|exfalso].
  assert (Hf : In (u, v) (filter (fun p => share_label (fst p) (snd p) && negb (same_conversion (fst p) (snd p))) (list_prod us us))).
  { apply filter_In. split; [exact Hin|]. cbn [fst snd]. now rewrite Hs, E. }
  rewrite H in Hf. exact Hf.
Qed.

Lemma list_N_eqb_refl l : list_N_eqb l l = true.
Proof. apply list_N_eqb_eq. reflexivity. Qed.

Lemma label_matches st u one : unit_matches (label st u one) u = true.
Proof. unfold unit_matches, label. destruct st; [|destruct one]; rewrite list_N_eqb_refl; cbn; rewrite ?orb_true_r; reflexivity. Qed.

Lemma matches_share l u v : unit_matches l u = true -> unit_matches l v = true -> share_label u v = true.
Proof.
  unfold unit_matches. intros Hu Hv.
  assert (Lu : In l (labels u)).
  { apply orb_prop in Hu. destruct Hu as [Hu|Hu]; [apply orb_prop in Hu; destruct Hu as [Hu|Hu]|];
    apply list_N_eqb_eq in Hu; subst l; cbn; auto. }
  assert (Lv : In l (labels v)).
  { apply orb_prop in Hv. destruct Hv as [Hv|Hv]; [apply orb_prop in Hv; destruct Hv as [Hv|Hv]|];
    apply list_N_eqb_eq in Hv; subst l; cbn; auto. }
  unfold share_label. apply existsb_exists. exists l. split; [exact Lu|].
  apply existsb_exists. exists l. split; [exact Lv|apply list_N_eqb_refl].
Qed.

(* format in unit u (either style), parse the text back: the parser selects a unit with the SAME
   conversion as u, and hands it the number the formatter printed *)
Theorem fmt_parse_roundtrip {V} (parseV : text -> option V) units st u shown one v :
  In u units -> conflicts units = [] ->
  forallb trim_invariant (labels u) = true ->
  forallb (fun c => negb (c =? SP)) shown = true -> parseV shown = Some v ->
  exists u', parse_quantity parseV units (fmt_quantity st u shown one) = inr (u', v)
             /\ In u' units /\ same_conversion u' u = true.
Proof.
  intros Hu Hc Ht Hn Hv. unfold fmt_quantity.
  assert (Htl : trim (label st u one) = label st u one).
  { cbn [labels forallb] in Ht. apply andb_prop in Ht. destruct Ht as [Ha Ht]. apply andb_prop in Ht. destruct Ht as [Hs Ht].
    apply andb_prop in Ht. destruct Ht as [Hp _]. unfold trim_invariant in *. apply list_N_eqb_eq.
    destruct st; [exact Ha|destruct one; [exact Hs|exact Hp]]. }
  destruct (find (unit_matches (label st u one)) units) as [u'|] eqn:Ef.
  - exists u'. split; [|split].
    + apply parse_ok_iff. exists shown, (label st u one). repeat split; try assumption.
      unfold first_unit. rewrite Htl. exact Ef.
    + apply find_some in Ef. tauto.
    + apply find_some in Ef. destruct Ef as [Hin Hm].
      apply (conflicts_nil units Hc u' u Hin Hu). eapply matches_share; [exact Hm|apply label_matches].
  - exfalso. assert (Hf := find_none _ _ Ef u Hu). rewrite label_matches in Hf. discriminate.
Qed.

(* Debug suffix: exactly the non-zero exponents, in system order *)
Lemma debug_suffix_cons a abbrs e d :
  debug_suffix (a :: abbrs) (e :: d) = (if Z.eqb e 0 then [] else [SP] ++ a ++ [94] ++ dec_Z e) ++ debug_suffix abbrs d.
Proof. reflexivity. Qed.
Lemma debug_suffix_all_zero abbrs d : Forall (fun e => e = 0%Z) d -> debug_suffix abbrs d = [].
Proof.
  revert abbrs. induction d as [|e d IH]; intros [|a abbrs] H; try reflexivity.
  inversion H; subst. rewrite debug_suffix_cons. cbn. now apply IH.
Qed.
