(* Rounding to a unit (C16): exact-storage laws for ANY rounding function, and the IEEE roundings
   of the std build are the mathematical floor / ceil / trunc / round-half-away. *)
From Coq Require Import ZArith QArith Reals List Bool Lra Morphisms.
From Flocq Require Import Core BinarySingleNaN.
From UomV Require Import Model.Tables Model.Conv Model.FloatM Model.FloatOps Model.Exact Model.Quantity
  Model.Storages Proofs.ExactP.
Import ListNotations.

(* ---- exact storage ---- *)
Section Q.
Open Scope Q_scope.
Variable r : Q -> Q.
Context (r_proper : Proper (Qeq ==> Qeq) r).

(* floor::<N>() etc. = new::<N>(r(get::<N>())): read back in N, the result IS r of the original value in N *)
Lemma round_readback (U : list Q) d (k c v : Q) :
  ~ k == 0 -> nonzero (combine U d) ->
  q_get StQ U d k c (q_round StQ r U d k c c v) == r (q_get StQ U d k c v).
Proof.
  intros Hk HU. unfold q_round, q_get, q_new. cbn [s_val s_conv StQ s_cf].
  apply roundtrip_exact; assumption.
Qed.

(* the result does not depend on the base units in use: two stored values of the same physical
   quantity give results of the same physical quantity *)
Lemma round_base_independent (U U' : list Q) d (k c v v' : Q) :
  ~ k == 0 -> nonzero (combine U d) -> nonzero (combine U' d) ->
  v * pi (combine U d) == v' * pi (combine U' d) ->
  q_round StQ r U d k c c v * pi (combine U d) == q_round StQ r U' d k c c v' * pi (combine U' d).
Proof.
  intros Hk HU HU' Hp. unfold q_round, q_new, q_get. cbn [s_val s_conv StQ s_cf sT sV].
  rewrite !to_base_exact.
  assert (Hg : from_base CFq U d k c v == from_base CFq U' d k c v').
  { rewrite !from_base_exact, Hp. reflexivity. }
  assert (Hr : r (from_base CFq U d k c v) == r (from_base CFq U' d k c v')) by (apply r_proper; exact Hg).
  assert (P1 := pi_nonzero _ HU). assert (P2 := pi_nonzero _ HU').
  set (X := r (from_base CFq U d k c v)) in *. set (Y := r (from_base CFq U' d k c v')) in *.
  transitivity ((X + c) * k); [field; exact P1|]. rewrite Hr. field. exact P2.
Qed.

(* offset-free units: trunc::<N>() + fract::<N>() restores the original whenever trunc + fract = id *)
Lemma trunc_fract_restore (tr fr : Q -> Q) (U : list Q) d (k v : Q) :
  (forall x, tr x + fr x == x) -> ~ k == 0 -> nonzero (combine U d) ->
  q_round StQ tr U d k 0 0 v + q_round StQ fr U d k 0 0 v == v.
Proof.
  intros Hs Hk HU. unfold q_round, q_new, q_get. cbn [s_val s_conv StQ s_cf sT sV].
  rewrite !to_base_exact.
  set (g := from_base CFq U d k 0 v).
  set (A := tr g). set (B := fr g). assert (HAB : A + B == g) by apply Hs.
  assert (Hg : g == v * pi (combine U d) / k - 0) by apply from_base_exact.
  assert (P := pi_nonzero _ HU).
  transitivity ((A + B) * k / pi (combine U d)); [field; exact P|].
  rewrite HAB, Hg. field. split; assumption.
Qed.
End Q.

(* ---- floats, std build: Bnearbyint is the mathematical rounding to an integer ---- *)
Section F.
Variables prec emax : Z.
Context (Hprec : Prec_gt_0 prec) (Hmax : Prec_lt_emax prec emax).
Notation fl := (binary_float prec emax).
Open Scope R_scope.

Lemma round_FIX0 (rnd : R -> Z) x : round radix2 (FIX_exp 0) rnd x = IZR (rnd x).
Proof.
  unfold round, scaled_mantissa, cexp, FIX_exp, F2R. cbn [Fnum Fexp Z.opp bpow].
  rewrite !Rmult_1_r. reflexivity.
Qed.

Lemma ffloor_std_correct (x : fl) : B2R (ffloor_std prec emax Hmax x) = IZR (Zfloor (B2R x)).
Proof. unfold ffloor_std. destruct (Bnearbyint_correct prec emax Hmax mode_DN x) as [H _]. rewrite H. apply round_FIX0. Qed.
Lemma fceil_std_correct (x : fl) : B2R (fceil_std prec emax Hmax x) = IZR (Zceil (B2R x)).
Proof. unfold fceil_std. destruct (Bnearbyint_correct prec emax Hmax mode_UP x) as [H _]. rewrite H. apply round_FIX0. Qed.
Lemma ftrunc_std_correct (x : fl) : B2R (ftrunc_std prec emax Hmax x) = IZR (Ztrunc (B2R x)).
Proof. unfold ftrunc_std. destruct (Bnearbyint_correct prec emax Hmax mode_ZR x) as [H _]. rewrite H. apply round_FIX0. Qed.
Lemma fround_std_correct (x : fl) : B2R (fround_std prec emax Hmax x) = IZR (ZnearestA (B2R x)).
Proof. unfold fround_std. destruct (Bnearbyint_correct prec emax Hmax mode_NA x) as [H _]. rewrite H. apply round_FIX0. Qed.

Lemma froundings_finite (md : mode) (x : fl) : is_finite (Bnearbyint md x) = is_finite x.
Proof. destruct (Bnearbyint_correct prec emax Hmax md x) as [_ [H _]]. exact H. Qed.

Lemma floor_ceil_bracket (x : fl) :
  B2R (ffloor_std prec emax Hmax x) <= B2R x <= B2R (fceil_std prec emax Hmax x).
Proof. rewrite ffloor_std_correct, fceil_std_correct. split; [apply Zfloor_lb|apply Zceil_ub]. Qed.
End F.
