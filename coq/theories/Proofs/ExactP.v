(* Exact-arithmetic theorems about to_base / from_base / change_base at rational storage
   (BigRational: V = T = Q) and integer storage (BigInt/BigUint/PrimInt: V = Z, T = Ratio = Q,
   value() = to_integer).  Axiom-free.  (C06 exact, C08, C09 exact, C15 exact.) *)
From Coq Require Import ZArith QArith Qpower Qround List Bool Lia Setoid Morphisms.
From UomV Require Import Model.Tables Model.Conv Model.Exact Model.Quantity.
Import ListNotations.
Open Scope Q_scope.

(* ---- the operations of CFq are the field operations up to Qeq ---- *)
Lemma qadd_eq a b : qadd a b == a + b. Proof. apply Qred_correct. Qed.
Lemma qsub_eq a b : qsub a b == a - b. Proof. apply Qred_correct. Qed.
Lemma qmul_eq a b : qmul a b == a * b. Proof. apply Qred_correct. Qed.
Lemma qdiv_eq a b : qdiv a b == a / b. Proof. apply Qred_correct. Qed.

Lemma qpowi_eq a e : qpowi a e == a ^ e.
Proof.
  destruct e as [|p|p]; simpl; [reflexivity|apply Qred_correct|].
  rewrite Qred_correct. apply Qinv_power_positive.
Qed.

Global Instance qpowi_comp : Proper (Qeq ==> eq ==> Qeq) qpowi.
Proof. intros a b H e e' <-. now rewrite !qpowi_eq, H. Qed.

Lemma qlt_iff a b : qlt a b = true <-> a < b.
Proof. unfold qlt. rewrite Qlt_alt. destruct (a ?= b); split; congruence. Qed.
Lemma qge_iff a b : qge a b = true <-> b <= a.
Proof.
  unfold qge. destruct (Qcompare_spec a b) as [H|H|H]; split; intros; try discriminate; try reflexivity.
  - rewrite H. apply Qle_refl.
  - exfalso. apply (Qlt_irrefl a). eapply Qlt_le_trans; eauto.
  - apply Qlt_le_weak, H.
Qed.
Lemma qeqb_iff a b : qeqb a b = true <-> a == b.
Proof. apply Qeq_bool_iff. Qed.

(* ---- the base-unit factor: product of U_i ^ d_i ---- *)
Fixpoint pi (l : list (Q * Z)) : Q :=
  match l with [] => 1 | (u, e) :: r => u ^ e * pi r end.

Lemma base_factor_fold l acc :
  fold_left (fun a p => cmul CFq a (cpowi CFq (fst p) (snd p))) l acc == acc * pi l.
Proof.
  revert acc. induction l as [|[u e] l IH]; intros acc; cbn [fold_left pi].
  - ring.
  - rewrite IH. cbn [cmul cpowi CFq fst snd]. rewrite qmul_eq, qpowi_eq. ring.
Qed.

Lemma base_factor_eq U d : base_factor CFq U d == pi (combine U d).
Proof. unfold base_factor. rewrite base_factor_fold. cbn [cone CFq]. ring. Qed.

Definition nonzero (l : list (Q * Z)) : Prop := forall p, In p l -> ~ fst p == 0.
Definition positive (l : list (Q * Z)) : Prop := forall p, In p l -> 0 < fst p.

Lemma pi_nonzero l : nonzero l -> ~ pi l == 0.
Proof.
  induction l as [|[u e] l IH]; intros H; cbn [pi].
  - discriminate.
  - intro E. apply Qmult_integral in E. destruct E as [E|E].
    + revert E. apply Qpower_not_0. exact (H (u, e) (or_introl eq_refl)).
    + revert E. apply IH. intros p Hp. apply H. right. exact Hp.
Qed.

Lemma pi_pos l : positive l -> 0 < pi l.
Proof.
  induction l as [|[u e] l IH]; intros H; cbn [pi]; [reflexivity|].
  apply Qmult_lt_0_compat.
  - apply Qpower_0_lt. exact (H (u, e) (or_introl eq_refl)).
  - apply IH. intros p Hp. apply H. right. exact Hp.
Qed.

(* ---- to_base / from_base equal the conversion formula, in BOTH branches, with no side condition ---- *)
Theorem to_base_exact U d k c v :
  to_base CFq U d k c v == (v + c) * k / pi (combine U d).
Proof.
  unfold to_base. set (f := base_factor CFq U d).
  assert (Hf : f == pi (combine U d)) by apply base_factor_eq.
  cbn [cge cmul cadd cdiv CFq]. destruct (qge k f).
  - rewrite qmul_eq, qadd_eq, qdiv_eq, Hf. unfold Qdiv. ring.
  - rewrite qdiv_eq, qmul_eq, qadd_eq, Hf. reflexivity.
Qed.

Theorem from_base_exact U d k c v :
  from_base CFq U d k c v == v * pi (combine U d) / k - c.
Proof.
  unfold from_base. set (f := base_factor CFq U d).
  assert (Hf : f == pi (combine U d)) by apply base_factor_eq.
  cbn [clt cmul csub cdiv CFq]. destruct (qlt k f).
  - rewrite qsub_eq, qmul_eq, qdiv_eq, Hf. unfold Qdiv. ring.
  - rewrite qsub_eq, !qdiv_eq, Hf. unfold Qdiv. rewrite Qinv_mult_distr, Qinv_involutive. ring.
Qed.

(* construct-then-read in one unit is the identity *)
Theorem roundtrip_exact U d k c v :
  ~ k == 0 -> nonzero (combine U d) ->
  from_base CFq U d k c (to_base CFq U d k c v) == v.
Proof.
  intros Hk HU. rewrite from_base_exact, to_base_exact.
  assert (Hp := pi_nonzero _ HU). field. split; assumption.
Qed.

(* read-back in two offset-free units differs exactly by the ratio of their coefficients *)
Theorem two_units_ratio U d k1 k2 v :
  ~ k1 == 0 -> ~ k2 == 0 ->
  from_base CFq U d k1 0 v * k1 == from_base CFq U d k2 0 v * k2.
Proof. intros H1 H2. rewrite !from_base_exact. field. split; assumption. Qed.

(* ---- change_base: the physical magnitude is preserved ---- *)
Definition piL (l : list (Q * Q * Z)) : list (Q * Z) := map (fun p => (fst (fst p), snd p)) l.
Definition piR (l : list (Q * Q * Z)) : list (Q * Z) := map (fun p => (snd (fst p), snd p)) l.

Lemma change_base_fold l v :
  nonzero (piL l) ->
  fold_left (change_base_step CFq) l v * pi (piL l) == v * pi (piR l).
Proof.
  revert v. induction l as [|[[ul ur] e] l IH]; intros v H.
  - cbn. reflexivity.
  - change (piL ((ul, ur, e) :: l)) with ((ul, e) :: piL l) in *.
    change (piR ((ul, ur, e) :: l)) with ((ur, e) :: piR l).
    cbn [fold_left pi].
    assert (Hl : nonzero (piL l)) by (intros p Hp; apply H; right; exact Hp).
    assert (Hul : ~ ul == 0) by exact (H (ul, e) (or_introl eq_refl)).
    assert (Hule : ~ ul ^ e == 0) by (apply Qpower_not_0; exact Hul).
    transitivity (ul ^ e * (fold_left (change_base_step CFq) l (change_base_step CFq v (ul, ur, e)) * pi (piL l))); [ring|].
    rewrite (IH _ Hl). unfold change_base_step. cbn [fst snd ceq cmul cdiv cpowi CFq].
    destruct (qeqb ur ul) eqn:E.
    + apply qeqb_iff in E. rewrite E. ring.
    + rewrite qdiv_eq, qmul_eq, !qpowi_eq. field. exact Hule.
Qed.

Lemma piL_combine Ul Ur d : length Ul = length Ur -> piL (combine (combine Ul Ur) d) = combine Ul d.
Proof.
  revert Ur d. induction Ul as [|a Ul IH]; intros [|b Ur] [|e d] H; try discriminate; try reflexivity.
  cbn. f_equal. apply IH. now injection H.
Qed.
Lemma piR_combine Ul Ur d : length Ul = length Ur -> piR (combine (combine Ul Ur) d) = combine Ur d.
Proof.
  revert Ur d. induction Ul as [|a Ul IH]; intros [|b Ur] [|e d] H; try discriminate; try reflexivity.
  cbn. f_equal. apply IH. now injection H.
Qed.

Theorem change_base_exact Ul Ur d v :
  length Ul = length Ur -> nonzero (combine Ul d) ->
  change_base CFq Ul Ur d v * pi (combine Ul d) == v * pi (combine Ur d).
Proof.
  intros HL H. unfold change_base.
  rewrite <- (piL_combine Ul Ur d HL) at 1. rewrite <- (piR_combine Ul Ur d HL).
  apply change_base_fold. now rewrite piL_combine.
Qed.

(* ---- integer storage: value() = Ratio::to_integer truncates toward zero ---- *)
Lemma q_to_integer_comp a b : a == b -> q_to_integer a = q_to_integer b.
Proof.
  unfold Qeq, q_to_integer. destruct a as [n1 d1], b as [n2 d2]; cbn [Qnum Qden]. intros H.
  rewrite <- (Z.quot_mul_cancel_r n1 (Zpos d1) (Zpos d2)) by lia.
  rewrite <- (Z.quot_mul_cancel_r n2 (Zpos d2) (Zpos d1)) by lia.
  rewrite H. f_equal. lia.
Qed.

Lemma q_to_integer_inject z : q_to_integer (inject_Z z) = z.
Proof. unfold q_to_integer, inject_Z. cbn. apply Z.quot_1_r. Qed.

(* specification of truncation toward zero *)
Lemma q_to_integer_nonneg x : 0 <= x -> inject_Z (q_to_integer x) <= x /\ x < inject_Z (q_to_integer x) + 1.
Proof.
  destruct x as [n d]. unfold Qle, Qlt, q_to_integer, inject_Z, Qplus. cbn. intros H.
  assert (Hn : (0 <= n)%Z) by lia.
  assert (Hq := Z.quot_rem' n (Zpos d)). assert (Hr := Z.rem_bound_pos n (Zpos d) Hn ltac:(lia)).
  split; nia.
Qed.
Lemma q_to_integer_nonpos x : x <= 0 -> inject_Z (q_to_integer x) - 1 < x /\ x <= inject_Z (q_to_integer x).
Proof.
  destruct x as [n d]. unfold Qle, Qlt, q_to_integer, inject_Z, Qminus, Qplus, Qopp. cbn. intros H.
  assert (Hn : (n <= 0)%Z) by lia.
  assert (Hq := Z.quot_rem' n (Zpos d)). assert (Hr := Z.rem_bound_pos_neg n (Zpos d) ltac:(lia) Hn).
  split; nia.
Qed.
