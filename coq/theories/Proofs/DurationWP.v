(* Time <-> Duration at primitive-integer storage (Model.DurationW over the width-checked Ratio<iN>): what a returned
   result is, for every width, base unit and value; and the known finding as a theorem.  Axiom-free. *)
From Coq Require Import ZArith QArith Qround List Bool Lia.
From UomV Require Import Model.Tables Model.Conv Model.Exact Model.Quantity Model.Fixed Model.Duration Model.DurationW
  Proofs.ExactP Proofs.FixedP.
Import ListNotations.
Open Scope Z_scope.

Section W.
Variables lo hi : Z.
Hypothesis Hlo : lo <= 0.
Hypothesis Hhi : 0 <= hi.

(* re-basing between identical base units is the identity (the shortcut r == l of change_base) *)
Lemma change_base_same_w (U : list ratio) : forall d (x : wr), wfs U ->
  change_base (CFw lo hi) (map Some U) (map Some U) d x = x.
Proof.
  unfold change_base. induction U as [|u U IH]; intros d x HU; [reflexivity|].
  destruct d as [|e d]; [reflexivity|]. inversion HU as [|u' U' Hu HU']; subst.
  cbn [map combine fold_left]. unfold change_base_step at 2. cbn [fst snd ceq CFw wcmp].
  unfold rcmp. rewrite Z.compare_refl. apply IH. exact HU'.
Qed.

Lemma rebase_same_w U d z : wfs U -> lo <= z <= hi -> rebase (StZw lo hi) true (map Some U) (map Some U) d (Some z) = Some z.
Proof.
  intros HU Hz. unfold rebase. cbn [s_conv s_val s_cf StZw obind]. rewrite change_base_same_w by exact HU.
  cbn [obind fst snd]. unfold idiv. cbn. rewrite Z.quot_1_r. unfold ck.
  destruct (Z.leb_spec lo z), (Z.leb_spec z hi); try lia. reflexivity.
Qed.

(* a strictly negative stored value is reported as such, whatever the base unit *)
Theorem to_duration_w_negative U dT ks kn v :
  wfs U -> v < 0 -> time_to_duration_w lo hi U dT ks kn v = DurNegative.
Proof.
  intros HU Hv. unfold time_to_duration_w. rewrite rebase_same_w by (try exact HU; lia).
  destruct (Z.ltb_spec v 0); [reflexivity|lia].
Qed.

Lemma duration_new_ok s n r1 r2 : duration_new s n = DurOk r1 r2 -> 0 <= n < 1000000000 -> r1 = s /\ r2 = n /\ s < 2 ^ 64.
Proof.
  unfold duration_new. intros H Hn. rewrite (Z.div_small n 1000000000) in H by lia. rewrite Z.add_0_r in H.
  destruct (Z.ltb_spec s (2 ^ 64)); [|discriminate]. injection H as <- <-. rewrite Z.mod_small by lia. auto.
Qed.

(* an Ok result is the exact time in seconds, truncated; the sub-second part of an integer is zero *)
Theorem to_duration_w_ok U dT ks kn v s n :
  wfs U -> wf ks -> wf kn ->
  time_to_duration_w lo hi U dT ks kn v = DurOk s n ->
  0 <= v /\ n = 0
  /\ s = q_to_integer (inject_Z v * pi (combine (map qv U) dT) / qv ks) /\ 0 <= s < 2 ^ 64.
Proof.
  intros HU Hks Hkn. unfold time_to_duration_w. rewrite rebase_same_w by (try exact HU; lia).
  destruct (Z.ltb_spec v 0) as [|Hv]; [discriminate|].
  destruct (q_get (StZw lo hi) (map Some U) dT (Some ks) (Some (0, 1)) (Some v)) as [ts|] eqn:Ets; [|discriminate].
  apply get_int_w in Ets; try assumption; [|unfold wf; cbn; lia]. destruct Ets as [Ets _].
  rewrite Z.rem_1_r.
  destruct (q_new (StZw lo hi) (map Some U) dT (Some ks) (Some (0, 1)) (Some 0)) as [st|] eqn:Est; [|discriminate].
  apply new_int_w in Est; try assumption; [|unfold wf; cbn; lia]. destruct Est as [Est _].
  assert (Hst : st = 0).
  { rewrite Est. transitivity (q_to_integer (inject_Z 0)); [|apply q_to_integer_inject]. apply q_to_integer_comp.
    rewrite qv_int. change (inject_Z 0) with 0%Q. unfold Qdiv. ring. }
  clear Est. subst st.
  destruct (q_get (StZw lo hi) (map Some U) dT (Some kn) (Some (0, 1)) (Some 0)) as [ns|] eqn:Ens; [|discriminate].
  apply get_int_w in Ens; try assumption; [|unfold wf; cbn; lia]. destruct Ens as [Ens _].
  assert (Hns : ns = 0).
  { rewrite Ens. transitivity (q_to_integer (inject_Z 0)); [|apply q_to_integer_inject]. apply q_to_integer_comp.
    rewrite qv_int. change (inject_Z 0) with 0%Q. unfold Qdiv. ring. }
  clear Ens. subst ns. unfold int_to_uint at 2. cbn [Z.leb Z.ltb Z.compare andb Z.pow Z.pow_pos Pos.iter Z.mul Pos.mul].
  unfold int_to_uint. destruct (Z.leb_spec 0 ts), (Z.ltb_spec ts (2 ^ 64)); cbn [andb]; try discriminate.
  intros HD. apply duration_new_ok in HD; [|lia]. destruct HD as [-> [-> Hs]].
  split; [exact Hv|]. split; [reflexivity|]. split; [|lia].
  rewrite Ets. apply q_to_integer_comp. rewrite qv_int. change (inject_Z 0) with 0%Q. unfold Qdiv. ring.
Qed.
End W.

(* ---- the known finding i32-long-base-unit as a theorem: with i32 storage and the hour as the time base unit the conversion
   panics for EVERY non-negative value, 0 included: the read-back in nanoseconds needs the factor 3600 / 10^-9 in Ratio<i32>,
   whatever the value it is to be multiplied with ---- *)
Definition i32_lo := - 2 ^ 31.
Definition i32_hi := 2 ^ 31 - 1.
Definition hour_base : list ratio := [(1, 1); (1, 1); (3600, 1); (1, 1); (1, 1); (1, 1); (1, 1)].
Definition dim_time : list Z := [0; 0; 1; 0; 0; 0; 0].

Lemma from_base_factor_none lo hi U d k c (v : wr) f :
  base_factor (CFw lo hi) U d = f -> clt (CFw lo hi) k f = true -> cdiv (CFw lo hi) f k = None ->
  from_base (CFw lo hi) U d k c v = None.
Proof.
  intros Hf Hc Hd. unfold from_base. cbv zeta. rewrite Hf, Hc, Hd. cbn [cmul csub CFw]. unfold lift2.
  destruct v as [p|]; reflexivity.
Qed.

Lemma nanos_factor_overflows (z : option Z) :
  q_get (StZw i32_lo i32_hi) (map Some hour_base) dim_time (Some (1, 1000000000)) (Some (0, 1)) z = None.
Proof.
  unfold q_get. cbn [s_cf StZw s_val].
  rewrite (from_base_factor_none i32_lo i32_hi _ _ _ _ _ (Some (3600, 1))); [reflexivity| | |]; vm_compute; reflexivity.
Qed.

Theorem i32_hour_base_always_panics v : 0 <= v ->
  time_to_duration_w i32_lo i32_hi hour_base dim_time (1, 1) (1, 1000000000) v = DurPanic.
Proof.
  intros Hv. unfold time_to_duration_w.
  assert (Hz : rebase (StZw i32_lo i32_hi) true (map Some hour_base) (map Some hour_base) dim_time (Some 0) = Some 0) by (vm_compute; reflexivity).
  rewrite Hz. destruct (Z.ltb_spec v 0); [lia|].
  match goal with |- match ?X with Some _ => _ | None => DurPanic end = _ => destruct X as [ts|]; [|reflexivity] end.
  match goal with |- match ?X with Some _ => _ | None => DurPanic end = _ => destruct X as [st|]; [|reflexivity] end.
  match goal with |- match ?X with Some _ => _ | None => DurPanic end = _ =>
    assert (E : X = None) by apply nanos_factor_overflows; rewrite E end.
  reflexivity.
Qed.
