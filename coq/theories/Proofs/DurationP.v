(* Proofs about Model.Duration (C14). *)
From Coq Require Import ZArith List Bool Lia.
From Coq Require Import SpecFloat.
From Flocq Require Import Core BinarySingleNaN.
From UomV Require Import Model.Tables Model.Conv Model.FloatM Model.FloatOps Model.Quantity Model.Storages
  Model.Duration Proofs.QuantityP Proofs.StoragesP Proofs.FloatLemmas.
Import ListNotations.
Open Scope Z_scope.

Section P.
Variables prec emax : Z.
Context (Hprec : Prec_gt_0 prec) (Hmax : Prec_lt_emax prec emax).
Hypothesis Hp60 : prec <= 60.
Notation fl := (binary_float prec emax).

Lemma to_uint_spec bits (x : fl) z :
  to_uint prec emax bits x = Some z -> ftrunc_Z prec emax x = Some z /\ 0 <= z < 2 ^ bits.
Proof.
  unfold to_uint. destruct (ftrunc_Z prec emax x) as [t|]; [|discriminate].
  destruct (0 <=? t) eqn:E1; destruct (t <? 2 ^ bits) eqn:E2; cbn; try discriminate.
  intros H. injection H as <-. split; [reflexivity|]. split; [apply Z.leb_le|apply Z.ltb_lt]; assumption.
Qed.

(* the integer part of a float below 2^64 leaves room for Duration::new's carry (at most 4) *)
Lemma mantissa_bound (m : positive) e : SpecFloat.bounded prec emax m e = true -> Zpos m < 2 ^ prec.
Proof.
  intros H. apply andb_prop in H. destruct H as [H _]. apply Zeq_bool_eq in H.
  unfold SpecFloat.fexp in H.
  assert (Hd : Zpos (SpecFloat.digits2_pos m) <= prec) by lia.
  rewrite Digits.Zpos_digits2_pos in Hd.
  apply (Digits.Zpower_gt_Zdigits radix2 prec (Zpos m)) in Hd.
  rewrite Z.abs_eq in Hd by lia. exact Hd.
Qed.

Lemma ftrunc_finite s m e H :
  ftrunc_Z prec emax (B754_finite s m e H : fl)
  = Some (let a := if 0 <=? e then Z.mul (Zpos m) (2 ^ e) else Z.div (Zpos m) (2 ^ (- e)) in if s then Z.opp a else a).
Proof. reflexivity. Qed.

Lemma trunc_abs_room (m : positive) e :
  Zpos m < 2 ^ prec ->
  let a := if 0 <=? e then Z.mul (Zpos m) (2 ^ e) else Z.div (Zpos m) (2 ^ (- e)) in
  0 <= a /\ (a < 18446744073709551616 -> a <= 18446744073709551616 - 16).
Proof.
  intros Hm.
  assert (P60 : 2 ^ prec <= 1152921504606846976) by (change 1152921504606846976 with (2 ^ 60); apply Z.pow_le_mono_r; lia).
  destruct (0 <=? e) eqn:Ee; cbv zeta.
  - apply Z.leb_le in Ee. assert (Hp : 0 < 2 ^ e) by (apply Z.pow_pos_nonneg; lia). split; [nia|].
    destruct (Z_lt_le_dec e 4) as [He|He].
    + assert (H8 : 2 ^ e <= 8) by (change 8 with (2 ^ 3); apply Z.pow_le_mono_r; lia). nia.
    + replace e with (4 + (e - 4)) by lia. rewrite Z.pow_add_r by lia. change (2 ^ 4) with 16.
      assert (0 < 2 ^ (e - 4)) by (apply Z.pow_pos_nonneg; lia).
      set (k := 2 ^ (e - 4)) in *. intros Hlt.
      assert (Z.pos m * k <= 1152921504606846975) by nia. nia.
  - apply Z.leb_gt in Ee.
    assert (Hp : 0 < 2 ^ (- e)) by (apply Z.pow_pos_nonneg; lia).
    assert (0 <= Zpos m / 2 ^ (- e)) by (apply Z.div_pos; lia).
    assert (Zpos m / 2 ^ (- e) <= Zpos m) by (apply Z.div_le_upper_bound; [exact Hp|nia]).
    lia.
Qed.

Lemma trunc_room (x : fl) z : ftrunc_Z prec emax x = Some z -> 0 <= z < 2 ^ 64 -> z <= 2 ^ 64 - 16.
Proof.
  change (2 ^ 64) with 18446744073709551616.
  destruct x as [s|s| |s m e H]; try discriminate.
  - unfold ftrunc_Z. intros E _. assert (z = 0) by congruence. lia.
  - rewrite ftrunc_finite. destruct (trunc_abs_room m e (mantissa_bound m e H)) as [Ha Hr]. revert Ha Hr. cbv zeta.
    set (a := if 0 <=? e then Z.mul (Zpos m) (2 ^ e) else Z.div (Zpos m) (2 ^ (- e))).
    intros Ha Hr E Hz. assert (Ez : (if s then - a else a) = z) by congruence.
    destruct s; lia.
Qed.

Lemma duration_new_no_panic s n : 0 <= s <= 2 ^ 64 - 16 -> 0 <= n < 2 ^ 32 -> duration_new s n <> DurPanic.
Proof.
  intros Hs Hn. unfold duration_new.
  assert (n / 1000000000 <= 4).
  { apply Z.lt_succ_r. apply Z.div_lt_upper_bound; [lia|]. change (2 ^ 32) with 4294967296 in Hn. lia. }
  assert (0 <= n / 1000000000) by (apply Z.div_pos; lia).
  destruct (Z.ltb_spec (s + n / 1000000000) (2 ^ 64)) as [E|E]; [intro D; discriminate D|].
  exfalso. change (2 ^ 64) with 18446744073709551616 in *. lia.
Qed.

Lemma time_to_duration_no_panic lib ac (U : list fl) dT (ksec knano v : fl) :
  time_to_duration prec emax Hprec Hmax lib ac U dT ksec knano v <> DurPanic.
Proof.
  unfold time_to_duration. destruct (q_bin _ _ _ _ _ _ _ _); [discriminate|].
  destruct (to_uint prec emax 64 _) as [s|] eqn:Es; [|discriminate].
  destruct (to_uint prec emax 32 _) as [n|] eqn:En; [|discriminate].
  apply to_uint_spec in Es. destruct Es as [Et Hs]. apply to_uint_spec in En. destruct En as [_ Hn].
  apply duration_new_no_panic; [|exact Hn]. split; [lia|]. eapply trunc_room; eassumption.
Qed.

Lemma time_to_duration_ok_wf lib ac (U : list fl) dT (ksec knano v : fl) s n :
  time_to_duration prec emax Hprec Hmax lib ac U dT ksec knano v = DurOk s n ->
  0 <= s < 2 ^ 64 /\ 0 <= n < 1000000000.
Proof.
  unfold time_to_duration. destruct (q_bin _ _ _ _ _ _ _ _); [discriminate|].
  destruct (to_uint prec emax 64 _) as [s0|] eqn:Es; [|discriminate].
  destruct (to_uint prec emax 32 _) as [n0|] eqn:En; [|discriminate].
  apply to_uint_spec in Es. destruct Es as [_ Hs]. apply to_uint_spec in En. destruct En as [_ Hn].
  unfold duration_new. destruct (_ <? 2 ^ 64) eqn:E; [|discriminate].
  intros H. injection H as <- <-. apply Z.ltb_lt in E.
  assert (0 <= n0 / 1000000000) by (apply Z.div_pos; lia).
  split; [lia|]. apply Z.mod_pos_bound. lia.
Qed.

Lemma time_to_duration_negative lib ac (U : list fl) dT (ksec knano v : fl) :
  Forall (fun u => is_nan u = false) U ->
  flt prec emax v (B754_zero false) = true ->
  time_to_duration prec emax Hprec Hmax lib ac U dT ksec knano v = DurNegative.
Proof.
  intros HU Hv. unfold time_to_duration.
  rewrite (q_bin_same_base (StF prec emax Hprec Hmax lib)) by (try apply StF_refl; try apply StF_retract; exact HU).
  now rewrite Hv.
Qed.

Lemma time_to_duration_nan lib ac (U : list fl) dT (ksec knano : fl) :
  Forall (fun u => is_nan u = false) U ->
  time_to_duration prec emax Hprec Hmax lib ac U dT ksec knano B754_nan = DurOverflow.
Proof.
  intros HU. unfold time_to_duration.
  rewrite (q_bin_same_base (StF prec emax Hprec Hmax lib)) by (try apply StF_refl; try apply StF_retract; exact HU).
  cbn [flt fcmp Bcompare].
  assert (Hg : q_get (StF prec emax Hprec Hmax lib) U dT ksec (B754_zero false) B754_nan = B754_nan).
  { unfold q_get, from_base. cbn [s_val s_conv StF s_cf clt cmul cdiv csub CFfloat].
    destruct (flt prec emax ksec _); unfold FloatM.fsub, FloatM.fmul, FloatM.fdiv; cbn;
      repeat match goal with |- context [match ?x with _ => _ end] => destruct x end; reflexivity. }
  rewrite Hg. reflexivity.
Qed.
End P.
