(* Bit-exact identities of IEEE arithmetic in generic precision (DESIGN A.2). *)
From Coq Require Import ZArith Reals Lia Lra Bool.
From Flocq Require Import Core BinarySingleNaN.
From UomV Require Import Model.Tables Model.Conv Model.FloatM.
Open Scope Z_scope.

Section L.
Variables prec emax : Z.
Context (Hprec : Prec_gt_0 prec) (Hmax : Prec_lt_emax prec emax).
Notation fl := (binary_float prec emax).
Notation B2R := (@B2R prec emax).
Notation fone := (@fone prec emax Hprec Hmax).
Notation fmul := (@fmul prec emax Hprec Hmax).
Notation fdiv := (@fdiv prec emax Hprec Hmax).
Notation fadd := (@fadd prec emax Hprec Hmax).
Notation fsub := (@fsub prec emax Hprec Hmax).
Notation fcmp := (@fcmp prec emax).
Notation fge := (@fge prec emax).
Notation flt := (@flt prec emax).
Notation feq := (@feq prec emax).

Lemma Bone_shape : exists m e H, (Bone : fl) = B754_finite false m e H.
Proof.
  generalize (@is_finite_strict_Bone prec emax Hprec Hmax) (@Bsign_Bone prec emax Hprec Hmax).
  destruct (Bone : fl) as [s|s| |s m e H]; simpl; try discriminate.
  intros _ Hs. subst s. now exists m, e, H.
Qed.

Lemma round_B2R (x : fl) :
  round radix2 (FLT_exp (3 - emax - prec) prec) (round_mode mode_NE) (B2R x) = B2R x.
Proof. apply round_generic; [apply valid_rnd_round_mode|apply generic_format_B2R]. Qed.

Lemma fmul_1_r (x : fl) : fmul x fone = x.
Proof.
  unfold FloatM.fmul, FloatM.fone.
  destruct x as [s|s| |s m e H].
  - destruct Bone_shape as (m1 & e1 & H1 & ->). simpl. now rewrite xorb_false_r.
  - destruct Bone_shape as (m1 & e1 & H1 & ->). simpl. now rewrite xorb_false_r.
  - reflexivity.
  - generalize (Bmult_correct prec emax Hprec Hmax mode_NE (B754_finite s m e H) Bone).
    rewrite Bone_correct, Rmult_1_r, round_B2R.
    rewrite Rlt_bool_true by apply abs_B2R_lt_emax.
    intros (HR & HF & HS).
    rewrite is_finite_Bone in HF.
    apply B2R_Bsign_inj.
    + rewrite HF. reflexivity.
    + reflexivity.
    + exact HR.
    + rewrite HS.
      * rewrite Bsign_Bone. apply xorb_false_r.
      * destruct (Bmult mode_NE (B754_finite s m e H) Bone); try reflexivity. discriminate.
Qed.

Lemma fdiv_1_r (x : fl) : fdiv x fone = x.
Proof.
  unfold FloatM.fdiv, FloatM.fone.
  destruct x as [s|s| |s m e H].
  - destruct Bone_shape as (m1 & e1 & H1 & ->). simpl. now rewrite xorb_false_r.
  - destruct Bone_shape as (m1 & e1 & H1 & ->). simpl. now rewrite xorb_false_r.
  - reflexivity.
  - assert (N1 : B2R Bone <> 0%R) by (rewrite Bone_correct; lra).
    generalize (Bdiv_correct prec emax Hprec Hmax mode_NE (B754_finite s m e H) Bone N1).
    rewrite Bone_correct. unfold Rdiv. rewrite Rinv_1, Rmult_1_r, round_B2R.
    rewrite Rlt_bool_true by apply abs_B2R_lt_emax.
    intros (HR & HF & HS).
    apply B2R_Bsign_inj.
    + rewrite HF. reflexivity.
    + reflexivity.
    + exact HR.
    + rewrite HS.
      * rewrite Bsign_Bone. apply xorb_false_r.
      * destruct (Bdiv mode_NE (B754_finite s m e H) Bone); try reflexivity. discriminate.
Qed.

(* x + (-0.0) = x and x - (+0.0) = x for EVERY x (signed zeros, infinities, NaN included):
   the reason ConstantOp::Add selects -0.0 and ConstantOp::Sub selects +0.0. *)
Lemma fadd_nzero_r (x : fl) : fadd x (B754_zero true) = x.
Proof. destruct x as [s|s| |s m e H]; try reflexivity. destruct s; reflexivity. Qed.

Lemma fsub_pzero_r (x : fl) : fsub x (B754_zero false) = x.
Proof. destruct x as [s|s| |s m e H]; try reflexivity. destruct s; reflexivity. Qed.

(* ... and the identity fails at a signed zero when the two constants are exchanged. *)
Lemma fadd_pzero_r_refuted : fadd (B754_zero true) (B754_zero false) <> B754_zero true.
Proof. discriminate. Qed.
Lemma fsub_nzero_r_refuted : fsub (B754_zero true) (B754_zero true) <> B754_zero true.
Proof. discriminate. Qed.

Definition finite_nz (x : fl) : bool := is_finite_strict x.

Lemma finite_nz_B2R (x : fl) : finite_nz x = true -> B2R x <> 0%R.
Proof.
  destruct x as [s|s| |s m e H]; try discriminate. intros _.
  unfold BinarySingleNaN.B2R. destruct s.
  - apply Rlt_not_eq. now apply F2R_lt_0.
  - apply Rgt_not_eq. now apply F2R_gt_0.
Qed.

Lemma fdiv_self (k : fl) : finite_nz k = true -> fdiv k k = fone.
Proof.
  intros Hk. assert (Nk := finite_nz_B2R k Hk).
  unfold FloatM.fdiv, FloatM.fone.
  generalize (Bdiv_correct prec emax Hprec Hmax mode_NE k k Nk).
  unfold Rdiv. rewrite Rinv_r by exact Nk.
  rewrite <- (Bone_correct prec emax Hprec Hmax), round_B2R.
  rewrite Rlt_bool_true by apply abs_B2R_lt_emax.
  intros (HR & HF & HS).
  assert (Fk : is_finite k = true) by (destruct k; try discriminate; reflexivity).
  apply B2R_Bsign_inj.
  - rewrite HF. exact Fk.
  - apply is_finite_Bone.
  - exact HR.
  - rewrite HS.
    + rewrite Bsign_Bone. apply xorb_nilpotent.
    + destruct (Bdiv mode_NE k k); try reflexivity. rewrite Fk in HF. discriminate.
Qed.

Lemma fcmp_refl (k : fl) : is_nan k = false -> fcmp k k = Some Eq.
Proof.
  unfold FloatM.fcmp, Bcompare. destruct k as [s|[|]| |[|] m e H]; try reflexivity; try discriminate; intros _; simpl.
  - rewrite Z.compare_refl. rewrite Pos.compare_cont_refl. reflexivity.
  - rewrite Z.compare_refl. rewrite Pos.compare_cont_refl. reflexivity.
Qed.

Lemma fge_refl (k : fl) : is_nan k = false -> fge k k = true.
Proof. intros H. unfold FloatM.fge. now rewrite fcmp_refl. Qed.
Lemma flt_irrefl (k : fl) : flt k k = false.
Proof.
  unfold FloatM.flt. destruct (is_nan k) eqn:E.
  - destruct k; try discriminate. reflexivity.
  - now rewrite fcmp_refl.
Qed.
Lemma feq_refl (k : fl) : is_nan k = false -> feq k k = true.
Proof. intros H. unfold FloatM.feq. now rewrite fcmp_refl. Qed.

Lemma fone_not_nan : is_nan fone = false.
Proof. apply is_nan_Bone. Qed.
Lemma fone_finite_nz : finite_nz fone = true.
Proof. apply is_finite_strict_Bone. Qed.

Lemma fmul_1_1 : fmul fone fone = fone.
Proof. apply fmul_1_r. Qed.
Lemma fdiv_1_1 : fdiv fone fone = fone.
Proof. apply fdiv_1_r. Qed.

(* ---- integer powers of one, and power zero ---- *)

Lemma powi_loop_one fuel b : powi_loop fmul fuel fone fone b = fone.
Proof.
  revert b. induction fuel as [|k IH]; intros b; simpl; [reflexivity|].
  rewrite fmul_1_1. destruct (Z.odd b); destruct (Z.quot b 2 =? 0); auto.
Qed.

Lemma powi_std_fuel_one fuel e : powi_std_fuel fmul fdiv fone fuel fone e = fone.
Proof. unfold powi_std_fuel. rewrite powi_loop_one. destruct (e <? 0); [apply fdiv_1_1|reflexivity]. Qed.

Lemma pow_nt_loop1_one fuel e : fst (pow_nt_loop1 fmul fuel fone e) = fone.
Proof.
  revert e. induction fuel as [|k IH]; intros e; simpl; [reflexivity|].
  destruct (Z.odd e); [reflexivity|]. rewrite fmul_1_1. apply IH.
Qed.
Lemma pow_nt_loop2_one fuel e : pow_nt_loop2 fmul fuel fone fone e = fone.
Proof.
  revert e. induction fuel as [|k IH]; intros e; simpl; [reflexivity|].
  destruct (1 <? e); [|reflexivity]. rewrite fmul_1_1. destruct (Z.odd (Z.shiftr e 1)); rewrite ?fmul_1_1; apply IH.
Qed.
Lemma pow_nt_fuel_one fuel e : pow_nt_fuel fmul fone fuel fone e = fone.
Proof.
  unfold pow_nt_fuel. destruct (e =? 0); [reflexivity|].
  rewrite pow_nt_loop1_one. destruct (_ =? 1); [reflexivity|apply pow_nt_loop2_one].
Qed.
Lemma powi_core_fuel_one fuel e : powi_core_fuel fmul fdiv fone fuel fone e = fone.
Proof. unfold powi_core_fuel. destruct (e <? 0); rewrite ?fdiv_1_1; apply pow_nt_fuel_one. Qed.

Lemma fpowi_one lib e : fpowi prec emax Hprec Hmax lib fone e = fone.
Proof. destruct lib; [apply powi_std_fuel_one|apply powi_core_fuel_one]. Qed.

(* x.powi(0) = 1 for every x (NaN included), both algorithms *)
Lemma powi_std_fuel_zero fuel (x : fl) : powi_std_fuel fmul fdiv fone (S fuel) x 0 = fone.
Proof. reflexivity. Qed.
Lemma powi_core_fuel_zero fuel (x : fl) : powi_core_fuel fmul fdiv fone fuel x 0 = fone.
Proof. reflexivity. Qed.
Lemma fpowi_zero lib (x : fl) : fpowi prec emax Hprec Hmax lib x 0 = fone.
Proof. destruct lib; [apply (powi_std_fuel_zero 39)|apply powi_core_fuel_zero]. Qed.

End L.
