(* Value accuracy of arithmetic between float quantities stored in different base-unit sets (C06):
   + and - (absolute bound: cancellation), * and / (relative bound). *)
From Coq Require Import ZArith Reals Lia Lra Psatz Bool List.
From Flocq Require Import Core BinarySingleNaN Relative.
From UomV Require Import Model.Tables Model.Conv Model.FloatM Model.Quantity Model.Storages
  Proofs.FloatLemmas Proofs.ConvFloat Proofs.Tree Proofs.ErrBound Proofs.ErrOffset.
Import ListNotations.
Open Scope R_scope.

Section M.
Variables prec emax : Z.
Context (Hprec : Prec_gt_0 prec) (Hmax : Prec_lt_emax prec emax).
Variable lib : flib.
Notation fl := (binary_float prec emax).
Notation F := (CFfloat prec emax Hprec Hmax lib).
Notation St := (StF prec emax Hprec Hmax lib).
Notation evalF := (evalF prec emax Hprec Hmax).
Notation cbt := (change_base_tree prec emax Hprec Hmax lib).
Notation rebR := (rebase_R prec emax Hprec Hmax lib).
Notation u := (u prec).
Notation Hc := (H prec).

Lemma q_bin_float {R} (f : fl -> fl -> R) Ul Ur d a b :
  q_bin St f true Ul Ur d a b = f a (change_base F Ul Ur d b).
Proof. reflexivity. Qed.

Theorem mixed_addsub_abserr (sub : bool) Ul Ur d (a b : fl) :
  let t := cbt Ul Ur d b in
  let E := Hc ^ ops prec emax t - 1 in
  let B := rebR Ul Ur d b in
  let b' := change_base F Ul Ur d b in
  let X := if sub then B2R a - B else B2R a + B in
  let res := q_bin St (if sub then fsub prec emax Hprec Hmax else fadd prec emax Hprec Hmax) true Ul Ur d a b in
  Safe prec emax Hprec Hmax t -> is_finite a = true ->
  normal prec emax (if sub then B2R a - B2R b' else B2R a + B2R b') ->
  is_finite res = true /\ Rabs (B2R res - X) <= u * Rabs X + (1 + u) * E * Rabs B.
Proof.
  intros t E B b' X res St Fa Nrm.
  destruct (change_base_relerr prec emax Hprec Hmax lib Ul Ur d b St) as [Fb Herr]. fold t E B b' in Herr, Fb.
  assert (HE : 0 <= E) by (unfold E; generalize (Hn_ge1 prec Hprec (ops prec emax t)); lra).
  assert (Hu : 0 < u) by apply u_pos.
  unfold res. rewrite q_bin_float. fold b'. destruct sub.
  - destruct (fsub_rel prec emax Hprec Hmax a b' Fa Fb Nrm) as (Fr & eps & He & Es). split; [exact Fr|].
    rewrite Es. unfold X.
    replace ((B2R a - B2R b') * (1 + eps) - (B2R a - B)) with ((B2R a - B) * eps - (B2R b' - B) * (1 + eps)) by ring.
    eapply Rle_trans; [apply Rabs_triang|]. rewrite Rabs_Ropp, !Rabs_mult.
    assert (H1 : Rabs (1 + eps) <= 1 + u). { eapply Rle_trans; [apply Rabs_triang|]. rewrite Rabs_R1. lra. }
    assert (P1 := Rabs_pos (B2R a - B)). assert (P2 := Rabs_pos (B2R b' - B)). assert (P3 := Rabs_pos B). assert (P4 := Rabs_pos eps).
    assert (A : Rabs (B2R b' - B) * Rabs (1 + eps) <= (1 + u) * E * Rabs B).
    { apply Rle_trans with (E * Rabs B * (1 + u)); [apply Rmult_le_compat; try lra; apply Rabs_pos|lra]. }
    assert (A2 : Rabs (B2R a - B) * Rabs eps <= u * Rabs (B2R a - B)) by nra. lra.
  - destruct (fadd_rel prec emax Hprec Hmax a b' Fa Fb Nrm) as (Fr & eps & He & Es). split; [exact Fr|].
    rewrite Es. unfold X.
    replace ((B2R a + B2R b') * (1 + eps) - (B2R a + B)) with ((B2R a + B) * eps + (B2R b' - B) * (1 + eps)) by ring.
    eapply Rle_trans; [apply Rabs_triang|]. rewrite !Rabs_mult.
    assert (H1 : Rabs (1 + eps) <= 1 + u). { eapply Rle_trans; [apply Rabs_triang|]. rewrite Rabs_R1. lra. }
    assert (P1 := Rabs_pos (B2R a + B)). assert (P2 := Rabs_pos (B2R b' - B)). assert (P3 := Rabs_pos B). assert (P4 := Rabs_pos eps).
    assert (A : Rabs (B2R b' - B) * Rabs (1 + eps) <= (1 + u) * E * Rabs B).
    { apply Rle_trans with (E * Rabs B * (1 + u)); [apply Rmult_le_compat; try lra; apply Rabs_pos|lra]. }
    assert (A2 : Rabs (B2R a + B) * Rabs eps <= u * Rabs (B2R a + B)) by nra. lra.
Qed.

(* * and / : the re-based operand is one more leaf of a product tree *)
Theorem mixed_muldiv_relerr (dv : bool) Ul Ur d (a b : fl) :
  let t := cbt Ul Ur d b in
  let t' := if dv then Div prec emax (Leaf prec emax a) t else Mul prec emax (Leaf prec emax a) t in
  let B := rebR Ul Ur d b in
  let X := if dv then B2R a / B else B2R a * B in
  let res := q_bin St (if dv then fdiv prec emax Hprec Hmax else fmul prec emax Hprec Hmax) true Ul Ur d a b in
  Safe prec emax Hprec Hmax t' ->
  is_finite res = true /\ Rabs (B2R res - X) <= (Hc ^ S (ops prec emax t) - 1) * Rabs X.
Proof.
  intros t t' B X res St.
  assert (Er : res = evalF t').
  { unfold res, t'. rewrite q_bin_float, <- (change_base_tree_evalF prec emax Hprec Hmax lib). destruct dv; reflexivity. }
  rewrite Er. destruct (eval_err prec emax Hprec Hmax t' St) as (Fin & _ & _). split; [exact Fin|].
  assert (EX : X = Tree.evalR prec emax t') by (unfold X, t', B, rebase_R; destruct dv; reflexivity).
  assert (Eo : S (ops prec emax t) = ops prec emax t') by (unfold t'; destruct dv; reflexivity).
  rewrite EX, Eo. apply eval_relerr. exact St.
Qed.
End M.
