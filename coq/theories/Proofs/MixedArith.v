(* Value accuracy of arithmetic between float quantities stored in different base-unit sets (C06):
   + and - (absolute bound: cancellation), * and / (relative bound). *)
From Coq Require Import ZArith Reals Lia Lra Psatz Bool List.
From Flocq Require Import Core BinarySingleNaN Relative.
From UomV Require Import Model.Tables Model.Conv Model.FloatM Model.Quantity Model.Storages
  Proofs.FloatLemmas Proofs.ConvFloat Proofs.Tree Proofs.ErrBound Proofs.ErrOffset.
Import ListNotations.
Open Scope R_scope.

Section M.
Variables prec emax : Z.
Context (Hprec : Prec_gt_0 prec) (Hmax : Prec_lt_emax prec emax).
Variable lib : flib.
Notation fl := (binary_float prec emax).
Notation F := (CFfloat prec emax Hprec Hmax lib).
Notation St := (StF prec emax Hprec Hmax lib).
Notation evalF := (evalF prec emax Hprec Hmax).
Notation cbt := (change_base_tree prec emax Hprec Hmax lib).
Notation rebR := (rebase_R prec emax Hprec Hmax lib).
Notation u := (u prec).
Notation Hc := (H prec).
Notation emin := (3 - emax - prec)%Z.

Lemma q_bin_float {R} (f : fl -> fl -> R) Ul Ur d a b :
  q_bin St f true Ul Ur d a b = f a (change_base F Ul Ur d b).
Proof. reflexivity. Qed.

Theorem mixed_addsub_abserr (sub : bool) Ul Ur d (a b : fl) :
  let t := cbt Ul Ur d b in
  let E := Hc ^ ops prec emax t - 1 in
  let B := rebR Ul Ur d b in
  let b' := change_base F Ul Ur d b in
  let X := if sub then B2R a - B else B2R a + B in
  let res := q_bin St (if sub then fsub prec emax Hprec Hmax else fadd prec emax Hprec Hmax) true Ul Ur d a b in
  Safe prec emax Hprec Hmax t -> is_finite a = true ->
  normal prec emax (if sub then B2R a - B2R b' else B2R a + B2R b') ->
  is_finite res = true /\ Rabs (B2R res - X) <= u * Rabs X + (1 + u) * E * Rabs B.
Proof.
  intros t E B b' X res St Fa Nrm.
  destruct (change_base_relerr prec emax Hprec Hmax lib Ul Ur d b St) as [Fb Herr]. fold t E B b' in Herr, Fb.
  assert (HE : 0 <= E) by (unfold E; generalize (Hn_ge1 prec Hprec (ops prec emax t)); lra).
  assert (Hu : 0 < u) by apply u_pos.
  unfold res. rewrite q_bin_float. fold b'. destruct sub.
  - destruct (fsub_rel prec emax Hprec Hmax a b' Fa Fb Nrm) as (Fr & eps & He & Es). split; [exact Fr|].
    rewrite Es. unfold X.
    replace ((B2R a - B2R b') * (1 + eps) - (B2R a - B)) with ((B2R a - B) * eps - (B2R b' - B) * (1 + eps)) by ring.
    eapply Rle_trans; [apply Rabs_triang|]. rewrite Rabs_Ropp, !Rabs_mult.
    assert (H1 : Rabs (1 + eps) <= 1 + u). { eapply Rle_trans; [apply Rabs_triang|]. rewrite Rabs_R1. lra. }
    assert (P1 := Rabs_pos (B2R a - B)). assert (P2 := Rabs_pos (B2R b' - B)). assert (P3 := Rabs_pos B). assert (P4 := Rabs_pos eps).
    assert (A : Rabs (B2R b' - B) * Rabs (1 + eps) <= (1 + u) * E * Rabs B).
    { apply Rle_trans with (E * Rabs B * (1 + u)); [apply Rmult_le_compat; try lra; apply Rabs_pos|lra]. }
    assert (A2 : Rabs (B2R a - B) * Rabs eps <= u * Rabs (B2R a - B)) by nra. lra.
  - destruct (fadd_rel prec emax Hprec Hmax a b' Fa Fb Nrm) as (Fr & eps & He & Es). split; [exact Fr|].
    rewrite Es. unfold X.
    replace ((B2R a + B2R b') * (1 + eps) - (B2R a + B)) with ((B2R a + B) * eps + (B2R b' - B) * (1 + eps)) by ring.
    eapply Rle_trans; [apply Rabs_triang|]. rewrite !Rabs_mult.
    assert (H1 : Rabs (1 + eps) <= 1 + u). { eapply Rle_trans; [apply Rabs_triang|]. rewrite Rabs_R1. lra. }
    assert (P1 := Rabs_pos (B2R a + B)). assert (P2 := Rabs_pos (B2R b' - B)). assert (P3 := Rabs_pos B). assert (P4 := Rabs_pos eps).
    assert (A : Rabs (B2R b' - B) * Rabs (1 + eps) <= (1 + u) * E * Rabs B).
    { apply Rle_trans with (E * Rabs B * (1 + u)); [apply Rmult_le_compat; try lra; apply Rabs_pos|lra]. }
    assert (A2 : Rabs (B2R a + B) * Rabs eps <= u * Rabs (B2R a + B)) by nra. lra.
Qed.

(* * and / : the re-based operand is one more leaf of a product tree *)
Theorem mixed_muldiv_relerr (dv : bool) Ul Ur d (a b : fl) :
  let t := cbt Ul Ur d b in
  let t' := if dv then Div prec emax (Leaf prec emax a) t else Mul prec emax (Leaf prec emax a) t in
  let B := rebR Ul Ur d b in
  let X := if dv then B2R a / B else B2R a * B in
  let res := q_bin St (if dv then fdiv prec emax Hprec Hmax else fmul prec emax Hprec Hmax) true Ul Ur d a b in
  Safe prec emax Hprec Hmax t' ->
  is_finite res = true /\ Rabs (B2R res - X) <= (Hc ^ S (ops prec emax t) - 1) * Rabs X.
Proof.
  intros t t' B X res St.
  assert (Er : res = evalF t').
  { unfold res, t'. rewrite q_bin_float, <- (change_base_tree_evalF prec emax Hprec Hmax lib). destruct dv; reflexivity. }
  rewrite Er. destruct (eval_err prec emax Hprec Hmax t' St) as (Fin & _ & _). split; [exact Fin|].
  assert (EX : X = Tree.evalR prec emax t') by (unfold X, t', B, rebase_R; destruct dv; reflexivity).
  assert (Eo : S (ops prec emax t) = ops prec emax t') by (unfold t'; destruct dv; reflexivity).
  rewrite EX, Eo. apply eval_relerr. exact St.
Qed.
(* one fused multiply-add of finite floats whose exact result is in the normal range *)
Lemma ffma_rel (x y z : fl) : is_finite x = true -> is_finite y = true -> is_finite z = true ->
  normal prec emax (B2R x * B2R y + B2R z) ->
  is_finite (ffma prec emax Hprec Hmax x y z) = true
  /\ exists eps, Rabs eps <= u /\ B2R (ffma prec emax Hprec Hmax x y z) = (B2R x * B2R y + B2R z) * (1 + eps).
Proof.
  intros Fx Fy Fz [Hlo Hhi]. unfold FloatM.ffma.
  generalize (Bfma_correct prec emax Hprec Hmax mode_NE x y z Fx Fy Fz). cbv zeta. rewrite Rlt_bool_true by exact Hhi.
  intros (HR & HF & _). split; [exact HF|].
  destruct (relative_error_N_FLT_ex radix2 emin prec Hprec (fun x => negb (Z.even x)) _ Hlo) as (eps & He & Hr).
  exists eps. split; [exact He|]. rewrite HR. exact Hr.
Qed.

(* x.mul_add(a, b) with a and b stored in other base units: one rounding of x * a' + b', a' and b' the re-based operands.
   |result - (x A + B)| <= u |x A + B| + (1 + u) (Ea |x A| + Eb |B|)   (A, B the exact re-basings) *)
Theorem mixed_muladd_abserr U Ua Ub da ds (x a b : fl) :
  let ta := cbt U Ua da a in let tb := cbt U Ub ds b in
  let Ea := Hc ^ ops prec emax ta - 1 in let Eb := Hc ^ ops prec emax tb - 1 in
  let A := rebR U Ua da a in let B := rebR U Ub ds b in
  let a' := change_base F U Ua da a in let b' := change_base F U Ub ds b in
  let X := B2R x * A + B in
  let res := q_muladd St (ffma prec emax Hprec Hmax) true U Ua Ub da ds x a b in
  Safe prec emax Hprec Hmax ta -> Safe prec emax Hprec Hmax tb -> is_finite x = true ->
  normal prec emax (B2R x * B2R a' + B2R b') ->
  is_finite res = true /\ Rabs (B2R res - X) <= u * Rabs X + (1 + u) * (Ea * Rabs (B2R x * A) + Eb * Rabs B).
Proof.
  intros ta tb Ea Eb A B a' b' X res Sa Sb Fx Nrm.
  destruct (change_base_relerr prec emax Hprec Hmax lib U Ua da a Sa) as [Fa Ha]. fold ta Ea A a' in Ha, Fa.
  destruct (change_base_relerr prec emax Hprec Hmax lib U Ub ds b Sb) as [Fb Hb]. fold tb Eb B b' in Hb, Fb.
  assert (HEa : 0 <= Ea) by (unfold Ea; generalize (Hn_ge1 prec Hprec (ops prec emax ta)); lra).
  assert (HEb : 0 <= Eb) by (unfold Eb; generalize (Hn_ge1 prec Hprec (ops prec emax tb)); lra).
  assert (Hu : 0 < u) by apply u_pos.
  assert (Er : res = ffma prec emax Hprec Hmax x a' b') by reflexivity.
  rewrite Er. destruct (ffma_rel x a' b' Fx Fa Fb Nrm) as (Fr & eps & He & Es). split; [exact Fr|].
  rewrite Es. unfold X. set (XA := B2R x * A) in *. set (da' := B2R a' - A) in *. set (db' := B2R b' - B) in *.
  replace ((B2R x * B2R a' + B2R b') * (1 + eps) - (XA + B))
    with ((XA + B) * eps + (B2R x * da' + db') * (1 + eps)) by (unfold XA, da', db'; ring).
  assert (H1 : Rabs (1 + eps) <= 1 + u). { eapply Rle_trans; [apply Rabs_triang|]. rewrite Rabs_R1. lra. }
  assert (D : Rabs (B2R x * da' + db') <= Ea * Rabs XA + Eb * Rabs B).
  { eapply Rle_trans; [apply Rabs_triang|]. unfold XA. rewrite !Rabs_mult.
    assert (Px := Rabs_pos (B2R x)). assert (Pa := Rabs_pos A).
    assert (Rabs (B2R x) * Rabs da' <= Ea * (Rabs (B2R x) * Rabs A)) by nra. lra. }
  eapply Rle_trans; [apply Rabs_triang|]. rewrite (Rabs_mult (XA + B)), (Rabs_mult (B2R x * da' + db')).
  assert (P1 := Rabs_pos (XA + B)). assert (P4 := Rabs_pos eps). assert (P5 := Rabs_pos (B2R x * da' + db')).
  assert (P6 : 0 <= Ea * Rabs XA + Eb * Rabs B).
  { assert (Q1 := Rabs_pos XA). assert (Q2 := Rabs_pos B). nra. }
  assert (A1 : Rabs (XA + B) * Rabs eps <= u * Rabs (XA + B)) by nra.
  assert (A2 : Rabs (B2R x * da' + db') * Rabs (1 + eps) <= (1 + u) * (Ea * Rabs XA + Eb * Rabs B)).
  { apply Rle_trans with ((Ea * Rabs XA + Eb * Rabs B) * (1 + u)); [apply Rmult_le_compat; try lra; apply Rabs_pos|lra]. }
  lra.
Qed.
End M.
