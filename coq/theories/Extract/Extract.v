(* Extraction of the executable model for the correspondence runner.
   Only the directives of the installed ExtrOcamlBasic are used (bool, option, unit, list, prod,
   sumbool, sumor -> OCaml natives; andb/orb inlined).  Z, positive, N, Q, string, ascii, nat stay
   the extracted inductives: no Extract Constant / Extract Inductive of our own. *)
Require Import ExtrOcamlBasic.
From UomV Require Import Model.Tables Model.Conv Model.FloatM Model.Exact Model.Run.
Extraction Language OCaml.
Extraction "model.ml"
  new32 get32 rebase32 coef32 new64 get64 rebase64 coef64
  q_new q_get q_rebase z_new z_get z_rebase coef_exact cons_exact.
