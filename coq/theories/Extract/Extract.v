(* Extraction of the executable model for the correspondence runner.
   Only the directives of the installed ExtrOcamlBasic are used (bool, option, unit, list, prod,
   sumbool, sumor -> OCaml natives; andb/orb inlined).  Z, positive, N, Q, string, ascii, nat stay
   the extracted inductives: no Extract Constant / Extract Inductive of our own. *)
Require Import ExtrOcamlBasic.
From UomV Require Import Model.Tables Model.Conv Model.FloatM Model.FloatOps Model.Exact
  Model.Quantity Model.Storages Model.Duration Model.Text Model.Typing Model.Fixed Model.DurationW Model.Run Proofs.AccRun.
Extraction Language OCaml.
Extraction "model.ml" run32 run64 q_run z_run text_run typing_run crun32 crun64 acc_run32 acc_run64 w_run dw_run.
