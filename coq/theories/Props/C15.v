(* C15 — Kind conversions keep magnitude and dimension; only to/from the default kind.
   Property theorems only; axiom-free. *)
From Coq Require Import ZArith QArith List Bool String.
From UomV Require Import Model.Tables Model.Conv Model.Exact Model.Quantity Model.Storages Model.Typing
  Proofs.ExactP Proofs.MixedP Proofs.QuantityP Proofs.StoragesP Proofs.TypingP Gen.SiTables Props.C02.
Import ListNotations.

(* a conversion never changes an exponent, and only exists as identity or through an impl_from! pair *)
Theorem c15_from_keeps_exponents :
  forall kinds impl_from n temp c a b t,
    ty kinds impl_from n temp c (PFrom a b) = Some t -> t = b /\ t_dim a = t_dim b.
Proof.
  intros kinds impl_from n temp c a b t H.
  assert (Hs := ty_from_sound kinds impl_from n temp c a b t H).
  cbn in H. destruct (qty_eqb a b) eqn:E.
  - injection H as <-. split; [reflexivity|]. unfold qty_eqb in E. apply andb_prop in E. destruct E as [E _]. apply andb_prop in E. destruct E as [E _].
    now apply list_Z_eqb_eq.
  - destruct (_ && _ && existsb _ _); [|discriminate]. injection H as <-. split; [reflexivity|]. destruct Hs as [Hs|[Hs _]]; [discriminate|exact Hs].
Qed.

(* SI: every conversion between different types has the default kind on exactly one side *)
Theorem c15_only_to_from_default_kind :
  forall c a b t, si_ty c (PFrom a b) = Some t -> qty_eqb a b = true \/ t_kind a = "Kind"%string \/ t_kind b = "Kind"%string.
Proof. exact c02_no_special_to_special. Qed.

(* a bare number converts only to and from the default-kind dimensionless quantity (ratio) *)
Theorem c15_number_only_ratio :
  forall kinds impl_from n temp c b t,
    (ty kinds impl_from n temp c (PFromNumber b) = Some t \/ ty kinds impl_from n temp c (PIntoNumber b) = Some t) ->
    Forall (fun x => x = 0%Z) (t_dim b) /\ t_kind b = default_kind.
Proof. intros kinds impl_from n temp c b t H. exact (ty_number_sound kinds impl_from n temp c b t H). Qed.

(* the value: re-expressed in the target's base units, the physical magnitude is preserved exactly (exact storage) *)
Theorem c15_from_preserves_magnitude :
  forall (Uto Ufrom : list Q) (d : list Z) (v : Q),
    List.length Uto = List.length Ufrom -> nonzero (combine Uto d) ->
    (phys Uto d (q_from StQ true Uto Ufrom d v) == phys Ufrom d v)%Q.
Proof. intros Uto Ufrom d v H1 H2. exact (rebase_phys Uto Ufrom d H1 H2 v). Qed.

(* same base units (and always without autoconvert): the stored value is copied unchanged, for every storage class with conversion/value retraction *)
Theorem c15_from_same_base_identity :
  forall (S : Storage) ac (U : list (sT S)) d (v : sV S),
    refl_coefs S U -> conv_retract S -> q_from S ac U U d v = v.
Proof. intros S ac U d v H1 H2. exact (q_from_same_base S ac U d v H1 H2). Qed.

Theorem c15_from_without_autoconvert_identity :
  forall (S : Storage) (U U' : list (sT S)) d (v : sV S), q_from S false U U' d v = v.
Proof. reflexivity. Qed.
