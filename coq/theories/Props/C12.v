(* C12 — Parsing accepts exactly `<number> <unit label>` and inverts formatting.
   Property theorems only.  `parseV` is the storage type's own FromStr (any function). *)
From Coq Require Import ZArith NArith QArith List Bool.
From UomV Require Import Model.Tables Model.Text Proofs.TextP Gen.SiTables.
Import ListNotations.
Open Scope N_scope.

(* parsing is a total function of the text (no unwrap can fail): it is a Gallina function; its
   three failure classes and their precedence: *)
Theorem c12_no_separator_first :
  forall (V : Type) (parseV : text -> option V) units s,
    parse_quantity parseV units s = inl NoSeparator <-> forallb (fun c => negb (c =? SP)) s = true.
Proof. intros V parseV units s. exact (parse_no_separator parseV units s). Qed.

Theorem c12_bad_number_second :
  forall (V : Type) (parseV : text -> option V) units a b,
    forallb (fun c => negb (c =? SP)) a = true -> parseV a = None ->
    parse_quantity parseV units (a ++ SP :: b) = inl ValueParseError.
Proof. intros V parseV units a b H1 H2. exact (parse_value_error parseV units a b H1 H2). Qed.

Theorem c12_unknown_unit_last :
  forall (V : Type) (parseV : text -> option V) units a b v,
    forallb (fun c => negb (c =? SP)) a = true -> parseV a = Some v -> first_unit units (trim b) = None ->
    parse_quantity parseV units (a ++ SP :: b) = inl UnknownUnit.
Proof. intros V parseV units a b v H1 H2 H3. exact (parse_unknown_unit parseV units a b v H1 H2 H3). Qed.

(* success exactly for: a number the storage type parses, one space (the first), and — blanks
   around it ignored — a label of a registered unit; the value is handed to that unit's `new` *)
Theorem c12_success_iff :
  forall (V : Type) (parseV : text -> option V) units s u v,
    parse_quantity parseV units s = inr (u, v) <->
    exists a b, s = a ++ SP :: b /\ forallb (fun c => negb (c =? SP)) a = true
                /\ parseV a = Some v /\ first_unit units (trim b) = Some u.
Proof. intros V parseV units s u v. exact (parse_ok_iff parseV units s u v). Qed.

(* within one quantity a label never denotes two different conversions — exhaustive over the
   regenerated tables (this is what the fourth fix: commit restored for psi) *)
Theorem c12_labels_unambiguous :
  forallb (fun q => match conflicts (q_units q) with [] => true | _ => false end) si_quantities = true.
Proof. vm_compute. reflexivity. Qed.

(* no label has leading/trailing blanks, so the trimmed text can match it (fifth fix: commit) *)
Theorem c12_labels_trim_invariant :
  forallb (fun q => match untrimmed_labels (q_units q) with [] => true | _ => false end) si_quantities = true.
Proof. vm_compute. reflexivity. Qed.

(* formatting in any registered unit and either style, then parsing, selects a unit with the same
   conversion and hands it the printed number (hypotheses on the storage type: its output has no
   space and parses back) *)
Theorem c12_format_parse_roundtrip :
  forall (V : Type) (parseV : text -> option V) units st u shown one v,
    In u units -> conflicts units = [] -> forallb trim_invariant (labels u) = true ->
    forallb (fun c => negb (c =? SP)) shown = true -> parseV shown = Some v ->
    exists u', parse_quantity parseV units (fmt_quantity st u shown one) = inr (u', v)
               /\ In u' units /\ same_conversion u' u = true.
Proof. intros V parseV units st u shown one v H1 H2 H3 H4 H5. exact (fmt_parse_roundtrip parseV units st u shown one v H1 H2 H3 H4 H5). Qed.

(* the roundtrip's table hypotheses hold for every unit of every SI quantity *)
Theorem c12_roundtrip_premises_hold :
  forall q, In q si_quantities -> conflicts (q_units q) = [] /\ forall u, In u (q_units q) -> forallb trim_invariant (labels u) = true.
Proof.
  intros q Hq. split.
  - assert (H := c12_labels_unambiguous). rewrite forallb_forall in H. specialize (H q Hq).
    destruct (conflicts (q_units q)); [reflexivity|discriminate].
  - intros u Hu. assert (H := c12_labels_trim_invariant). rewrite forallb_forall in H. specialize (H q Hq).
    unfold untrimmed_labels in H.
    destruct (forallb trim_invariant (labels u)) eqn:E; [reflexivity|exfalso].
    assert (Hin : In u (filter (fun u => negb (forallb trim_invariant (labels u))) (q_units q))) by (apply filter_In; split; [exact Hu|now rewrite E]).
    destruct (filter _ (q_units q)); [exact Hin|discriminate].
Qed.

(* ---- the source the parsing model transcribes: from_str of the quantity! macro (splitn(2, ' '), NoSeparator, the number, trim,
   abbreviation | singular | plural of every unit in declaration order, UnknownUnit); Gen/BodySrc.v is regenerated on every run ---- *)
From Coq Require Import String.
From UomV Require Import Gen.BodySrc Spec.BodyTie.
Theorem c12_from_str_source_is_what_the_model_transcribes : body_pinned "from_str"%string = true.
Proof. vm_compute. reflexivity. Qed.
