(* C10 — Equality, ordering and hashing of quantities are mutually coherent.  Property theorems only. *)
From Coq Require Import ZArith QArith Reals List Bool.
From Flocq Require Import Core BinarySingleNaN.
From UomV Require Import Model.Tables Model.Conv Model.FloatM Model.FloatOps Model.Exact Model.Quantity
  Model.Storages Proofs.QuantityP Proofs.StoragesP Proofs.CmpP Proofs.ExactP Proofs.MixedP.
Import ListNotations.
Open Scope Z_scope.

Section Float.
Variables prec emax : Z.
Context (Hprec : Prec_gt_0 prec) (Hmax : Prec_lt_emax prec emax).
Notation fl := (binary_float prec emax).
Notation St := (StF prec emax Hprec Hmax).
Notation cmp := (fcmp_sem prec emax).

(* same base units (ANY base-unit set): each of == != < <= > >= and partial_cmp on quantities is
   that operator on the stored values *)
Theorem c10_same_base_operators :
  forall lib ac (o : cmpop) (U : list fl) (d : list Z) (a b : fl),
    Forall (fun u => is_nan u = false) U ->
    q_bin (St lib) (cmp o) ac U U d a b = cmp o a b
    /\ q_bin (St lib) (fcmp prec emax) ac U U d a b = fcmp prec emax a b.
Proof.
  intros lib ac o U d a b HU. split;
  apply (q_bin_same_base (St lib)); try apply StF_refl; try apply StF_retract; exact HU.
Qed.

(* the six operators are mutually coherent and coherent with partial_cmp: all are read off ONE
   three-way comparison; swapping the operands mirrors the answer *)
Theorem c10_operators_coherent :
  forall (x y : fl),
    cmp CNe x y = negb (cmp CEq x y)
    /\ cmp CLe x y = (cmp CLt x y || cmp CEq x y)
    /\ cmp CGe x y = (cmp CGt x y || cmp CEq x y)
    /\ cmp CGt x y = cmp CLt y x
    /\ cmp CGe x y = cmp CLe y x
    /\ cmp CEq x y = cmp CEq y x
    /\ match fcmp prec emax x y with
       | Some Lt => cmp CLt x y = true /\ cmp CEq x y = false /\ cmp CGt x y = false
       | Some Eq => cmp CLt x y = false /\ cmp CEq x y = true /\ cmp CGt x y = false
       | Some Gt => cmp CLt x y = false /\ cmp CEq x y = false /\ cmp CGt x y = true
       | None => cmp CLt x y = false /\ cmp CEq x y = false /\ cmp CGt x y = false
       end.
Proof.
  intros x y.
  exact (conj (cmp_ne prec emax x y) (conj (cmp_le prec emax x y) (conj (cmp_ge prec emax x y)
        (conj (cmp_gt_swap prec emax x y) (conj (cmp_ge_swap prec emax x y) (conj (cmp_eq_sym prec emax x y)
        (cmp_trichotomy prec emax x y))))))).
Qed.

(* every non-NaN quantity equals itself — in any base-unit set (this is what the first fix: commit restored) *)
Theorem c10_reflexive :
  forall lib ac (U : list fl) (d : list Z) (a : fl),
    Forall (fun u => is_nan u = false) U -> is_nan a = false ->
    q_bin (St lib) (cmp CEq) ac U U d a a = true
    /\ q_bin (St lib) (cmp CLt) ac U U d a a = false
    /\ q_bin (St lib) (cmp CGt) ac U U d a a = false.
Proof.
  intros lib ac U d a HU Ha.
  rewrite !(q_bin_same_base (St lib)) by (try apply StF_refl; try apply StF_retract; exact HU).
  exact (cmp_refl prec emax a Ha).
Qed.

(* NaN-valued quantities are unordered exactly as NaN is *)
Theorem c10_nan_unordered :
  forall (x y : fl) (o : cmpop), is_nan x = true \/ is_nan y = true ->
    cmp o x y = match o with CNe => true | _ => false end.
Proof. intros x y o H. exact (cmp_nan prec emax x y o H). Qed.

(* the order is the order of the magnitudes *)
Theorem c10_lt_is_real_order :
  forall (x y : fl), is_finite x = true -> is_finite y = true ->
    (cmp CLt x y = true <-> (B2R x < B2R y)%R).
Proof. intros x y Fx Fy. exact (flt_B2R prec emax x y Fx Fy). Qed.

Theorem c10_eq_is_real_equality :
  forall (x y : fl), is_finite x = true -> is_finite y = true ->
    (cmp CEq x y = true <-> B2R x = B2R y).
Proof. intros x y Fx Fy. exact (feq_B2R prec emax x y Fx Fy). Qed.
End Float.

(* exact storage, operands in different base-unit sets: == and < decide the physical magnitudes *)
Theorem c10_mixed_exact_eq :
  forall (Ul Ur : list Q) (d : list Z) (a b : Q),
    length Ul = length Ur -> nonzero (combine Ul d) ->
    (q_bin StQ qeqb true Ul Ur d a b = true <-> (phys Ul d a == phys Ur d b)%Q).
Proof. intros Ul Ur d a b H1 H2. exact (eq_phys Ul Ur d H1 H2 a b). Qed.

Theorem c10_mixed_exact_lt :
  forall (Ul Ur : list Q) (d : list Z) (a b : Q),
    length Ul = length Ur -> nonzero (combine Ul d) -> positive (combine Ul d) ->
    (q_bin StQ qlt true Ul Ur d a b = true <-> (phys Ul d a < phys Ur d b)%Q).
Proof. intros Ul Ur d a b H1 H2 H3. exact (lt_phys Ul Ur d H1 H2 H3 a b). Qed.

(* hashing forwards to the stored value with the caller's hasher: equal quantities hash equally
   whenever the storage type's Hash is coherent with its Eq (any hasher `h`) *)
Definition q_hash {V H : Type} (h : V -> H) (v : V) : H := h v.
Theorem c10_eq_hash :
  forall (V H : Type) (veq : V -> V -> bool) (h : V -> H),
    (forall x y, veq x y = true -> h x = h y) ->
    forall a b, q_same (mkStorage V V (fun v => v) (fun v => v) (mkCF V (fun a _ => a) (fun a _ => a) (fun a _ => a) (fun a _ => a)
                 (fun _ _ => false) (fun _ _ => false) veq (fun a _ => a) a)) veq a b = true -> q_hash h a = q_hash h b.
Proof. intros V H veq h Hh a b E. exact (Hh a b E). Qed.

(* mixed-base float operands: once the magnitudes are separated by more than the rounding bound of
   the re-basing, `<` (in either operand order) decides the true order of the physical magnitudes *)
From UomV Require Import Proofs.Tree Proofs.ErrBound.
Theorem c10_mixed_float_separated :
  forall prec emax (Hprec : Prec_gt_0 prec) (Hmax : Prec_lt_emax prec emax) lib
         (Ul Ur : list (binary_float prec emax)) (d : list Z) (a b : binary_float prec emax),
    let t := change_base_tree prec emax Hprec Hmax lib Ul Ur d b in
    let E := (H prec ^ ops prec emax t - 1)%R in
    Safe prec emax Hprec Hmax t -> is_finite a = true ->
    ((B2R a < rebase_R prec emax Hprec Hmax lib Ul Ur d b - E * Rabs (rebase_R prec emax Hprec Hmax lib Ul Ur d b))%R ->
       flt prec emax a (change_base (CFfloat prec emax Hprec Hmax lib) Ul Ur d b) = true)
    /\ ((rebase_R prec emax Hprec Hmax lib Ul Ur d b + E * Rabs (rebase_R prec emax Hprec Hmax lib Ul Ur d b) < B2R a)%R ->
       flt prec emax (change_base (CFfloat prec emax Hprec Hmax lib) Ul Ur d b) a = true).
Proof. intros prec emax Hprec Hmax lib Ul Ur d a b t E St Fa. exact (mixed_lt_separated prec emax Hprec Hmax lib Ul Ur d a b St Fa). Qed.

(* ---- the comparison methods of the source call the storage type's method of the same name on the (re-based) operand,
   in both feature flavours (Gen/OpsSrc.v is regenerated from the source on every run) ---- *)
From Coq Require Import String.
From UomV Require Import Model.OpsSrc Gen.OpsSrc Spec.OpsTie.
Definition is_comparison (e : op_src) : bool := existsb (String.eqb (os_fn e)) ["eq"%string; "lt"%string; "le"%string; "gt"%string; "ge"%string; "partial_cmp"%string].
Theorem c10_comparison_sources_call_their_own_operator :
  forallb (fun e => negb (is_comparison e) || shape_ok e) src_ops = true
  /\ List.length (filter is_comparison src_ops) = 12%nat.
Proof. split; vm_compute; reflexivity. Qed.

(* Ord::max / Ord::min and the float max / min of the source are the storage type's own method on the stored values (so that even
   the choice between two equal operands is the storage type's) *)
From UomV Require Import Model.DelegSrc Gen.DelegSrc Spec.DelegTie.
Theorem c10_max_min_sources_are_direct :
  forallb (fun e => negb (String.eqb (dl_fn e) "max" || String.eqb (dl_fn e) "min") || deleg_ok e) src_delegations = true
  /\ List.length (filter (fun e => String.eqb (dl_fn e) "max" || String.eqb (dl_fn e) "min") src_delegations) = 4%nat.
Proof. split; vm_compute; reflexivity. Qed.

(* Hash::hash and Ord::cmp of the source forward to the storage type's on the stored value(s) *)
Theorem c10_hash_and_cmp_sources_forward :
  forallb (fun e => negb (in_list (dl_fn e) ["hash"%string; "cmp"%string]) || deleg_ok e) src_delegations = true
  /\ covers src_delegations "src/system.rs" ["hash"%string; "cmp"%string] = true.
Proof. split; vm_compute; reflexivity. Qed.
