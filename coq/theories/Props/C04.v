(* C04 — Quantities are a zero-cost, transparent wrapper over the storage type.  PARTIAL (see DESIGN.md §6).
   Decided here: the semantic content that makes zero cost possible — every conversion/operator is
   extensionally (bit for bit, for EVERY value incl. -0.0, infinities, NaN) the bare-number expression
   with the factor folded to one constant, with NO residual add/sub for offset-free units.
   Not decided by this technique: identity of optimised machine code, call ABI, #[repr(transparent)],
   #[inline(always)].  Property theorems only. *)
From Coq Require Import ZArith Bool List.
From Flocq Require Import Core BinarySingleNaN.
From UomV Require Import Model.Tables Model.Conv Model.FloatM Model.Quantity Model.Storages Model.Run
  Proofs.FloatLemmas Proofs.ConvFloat Proofs.QuantityP Proofs.StoragesP.
Import ListNotations.
Open Scope Z_scope.

Section S.
Variables prec emax : Z.
Context (Hprec : Prec_gt_0 prec) (Hmax : Prec_lt_emax prec emax).
Notation fl := (binary_float prec emax).
Notation ev := (eval_f prec emax Hprec Hmax).
Notation F lib := (CFfloat prec emax Hprec Hmax lib).
Notation one := (fone prec emax Hprec Hmax).

(* x + (-0.0) = x and x - (+0.0) = x for EVERY x: the offset arithmetic of an offset-free unit folds away *)
Theorem c04_constant_op_zeros_fold :
  forall x : fl, fadd prec emax Hprec Hmax x (B754_zero true) = x /\ fsub prec emax Hprec Hmax x (B754_zero false) = x.
Proof. intros x. split; [apply fadd_nzero_r|apply fsub_pzero_r]. Qed.

(* ... and with the two zeros exchanged it would not (sensitivity to exactly the ConstantOp choice) *)
Theorem c04_refuted_if_zeros_swapped :
  fadd prec emax Hprec Hmax (B754_zero true) (B754_zero false) <> (B754_zero true : fl)
  /\ fsub prec emax Hprec Hmax (B754_zero true) (B754_zero true) <> (B754_zero true : fl).
Proof. split; [apply fadd_pzero_r_refuted|apply fsub_nzero_r_refuted]. Qed.

(* default base units, offset-free unit: construction is ONE multiplication by the coefficient ... *)
Theorem c04_new_is_one_multiplication :
  forall lib U d coef (v : fl),
    base_factor (F lib) (map ev U) d = one ->
    f_new prec emax Hprec Hmax lib U d coef None v = fmul prec emax Hprec Hmax v (ev coef).
Proof.
  intros lib U d coef v Hf. unfold f_new, q_new. cbn [s_val s_conv StF s_cf].
  rewrite (to_base_default prec emax Hprec Hmax lib (map ev U) d (ev coef) _ v Hf). unfold cons_add.
  now rewrite fadd_nzero_r.
Qed.

(* ... read-back ONE division (or one multiplication by the folded reciprocal when coef < 1) *)
Theorem c04_get_is_one_operation :
  forall lib U d coef (v : fl),
    base_factor (F lib) (map ev U) d = one ->
    f_get prec emax Hprec Hmax lib U d coef None v
    = if flt prec emax (ev coef) one then fmul prec emax Hprec Hmax v (fdiv prec emax Hprec Hmax one (ev coef))
      else fdiv prec emax Hprec Hmax v (ev coef).
Proof.
  intros lib U d coef v Hf. unfold f_get, q_get. cbn [s_val s_conv StF s_cf].
  rewrite (from_base_default prec emax Hprec Hmax lib (map ev U) d (ev coef) _ v Hf). unfold cons_sub.
  destruct (flt prec emax (ev coef) one); now rewrite fsub_pzero_r.
Qed.

(* construction in the coherent base unit is the identity function: it compiles to nothing *)
Theorem c04_base_unit_is_identity :
  forall lib U d coef (v : fl),
    finite_nz prec emax (ev coef) = true -> base_factor (F lib) (map ev U) d = ev coef ->
    f_new prec emax Hprec Hmax lib U d coef None v = v /\ f_get prec emax Hprec Hmax lib U d coef None v = v.
Proof.
  intros lib U d coef v Hk Hf. split.
  - exact (to_base_base_unit prec emax Hprec Hmax lib (map ev U) d (ev coef) v Hk Hf).
  - exact (from_base_base_unit prec emax Hprec Hmax lib (map ev U) d (ev coef) v Hk Hf).
Qed.

(* + - * / comparison between quantities sharing base units are the single raw operation on the values *)
Theorem c04_operators_are_raw :
  forall lib ac (R : Type) (f : fl -> fl -> R) (U : list fl) d a b,
    Forall (fun u => is_nan u = false) U ->
    q_bin (StF prec emax Hprec Hmax lib) f ac U U d a b = f a b.
Proof.
  intros lib ac R f U d a b HU.
  exact (q_bin_same_base (StF prec emax Hprec Hmax lib) f ac U d a b (StF_refl prec emax Hprec Hmax lib U HU) (StF_retract prec emax Hprec Hmax lib)).
Qed.
End S.

(* ---- facts about the source as it is now (Gen/ConvSrc.v, regenerated from src/system.rs on every run) ---- *)
From Coq Require Import String.
From UomV Require Import Model.ConvSrc Gen.ConvSrc Spec.ConvTie.
(* struct Quantity is two PhantomData fields and the value under #[repr(transparent)]: by Rust's layout rules it has
   exactly the size, alignment and call ABI of the storage type (repr(C) or no repr would not guarantee the ABI) *)
Theorem c04_quantity_struct_is_transparent :
  struct_layout src_quantity_struct = {| lv_size_align_of_field := true; lv_abi := AbiAsField |}
  /\ map snd (ss_fields src_quantity_struct) = [FPhantom; FPhantom; FStorage].
Proof. exact quantity_struct_is_transparent. Qed.
Theorem c04_layout_rule_sensitivity :
  lv_abi (struct_layout {| ss_attrs := ["repr(C)"%string]; ss_fields := ss_fields src_quantity_struct |}) = AbiAggregate
  /\ lv_abi (struct_layout {| ss_attrs := []; ss_fields := ss_fields src_quantity_struct |}) = AbiUnspecified.
Proof. split; vm_compute; reflexivity. Qed.
(* the three conversion functions are #[inline(always)] *)
Theorem c04_conversions_inline_always :
  has_attr "inline(always)" (cs_attrs src_to_base) && has_attr "inline(always)" (cs_attrs src_from_base)
  && has_attr "inline(always)" (rs_attrs src_change_base) = true.
Proof. exact conversions_are_inline_always. Qed.
(* the bodies the theorems above speak about are the source's *)
Theorem c04_conversion_bodies_are_the_source :
  (forall (T : Type) (F : CF T) U d coef cons v, eval_conv F src_to_base (base_factor F U d) coef cons v = Some (to_base F U d coef cons v))
  /\ (forall (T : Type) (F : CF T) U d coef cons v, eval_conv F src_from_base (base_factor F U d) coef cons v = Some (from_base F U d coef cons v)).
Proof. split; [exact (proj2 to_base_is_the_source)|exact (proj2 from_base_is_the_source)]. Qed.
