(* C09 — Temperature points are affine, temperature intervals are linear.
   Property theorems only; axiom-free.  A temperature scale is (k, c): kelvin per degree and offset;
   Th is the coefficient of the temperature base unit in use (1 for kelvin, 1/1000 for millikelvin...).
   Exact storage here; the float statements are C03's, about the same functions. *)
From Coq Require Import ZArith QArith Qpower List Bool String.
From UomV Require Import Model.Tables Model.Conv Model.Exact Model.Quantity Model.Storages Proofs.ExactP
  Proofs.MixedP Spec.Anchors Gen.SiTables.
Import ListNotations.
Open Scope Q_scope.

Definition dTh : list Z := [1%Z].     (* the temperature exponent; all other exponents are zero *)

Lemma pi_single Th : pi (combine [Th] dTh) == Th.
Proof. cbn. ring. Qed.

(* a point is stored as (t + c) k / Th: the offset is applied exactly once, before the scale *)
Theorem c09_point_affine :
  forall Th k c t, q_new StQ [Th] dTh k c t == (t + c) * k / Th.
Proof. intros Th k c t. unfold q_new. cbn [s_val s_conv StQ s_cf]. rewrite to_base_exact, pi_single. reflexivity. Qed.

Theorem c09_point_readback :
  forall Th k c x, q_get StQ [Th] dTh k c x == x * Th / k - c.
Proof. intros Th k c x. unfold q_get. cbn [s_val s_conv StQ s_cf]. rewrite from_base_exact, pi_single. reflexivity. Qed.

(* an interval in the same named unit uses the scale only: it is linear, and 1 degree reads back as 1 *)
Theorem c09_interval_linear :
  forall Th k a b, q_new StQ [Th] dTh k 0 (a + b) == q_new StQ [Th] dTh k 0 a + q_new StQ [Th] dTh k 0 b.
Proof. intros Th k a b. rewrite !c09_point_affine. unfold Qdiv. ring. Qed.

Theorem c09_interval_unit_roundtrip :
  forall Th k, ~ k == 0 -> ~ Th == 0 -> q_get StQ [Th] dTh k 0 (q_new StQ [Th] dTh k 0 1) == 1.
Proof. intros Th k Hk HT. rewrite c09_point_readback, c09_point_affine. field. split; assumption. Qed.

(* point +/- interval: a point t in scale (k, c) plus an interval delta in scale k', read in (k, c),
   is t +/- delta * k'/k: the offset is neither applied twice nor applied to the interval *)
Theorem c09_point_plus_interval :
  forall Th k c k' t delta, ~ k == 0 -> ~ Th == 0 ->
    q_get StQ [Th] dTh k c (q_bin StQ qadd false [Th] [Th] dTh (q_new StQ [Th] dTh k c t) (q_new StQ [Th] dTh k' 0 delta))
    == t + delta * k' / k.
Proof.
  intros Th k c k' t delta Hk HT. unfold q_bin. cbn [rebase]. rewrite c09_point_readback, qadd_eq, !c09_point_affine.
  field. split; assumption.
Qed.

Theorem c09_point_minus_interval :
  forall Th k c k' t delta, ~ k == 0 -> ~ Th == 0 ->
    q_get StQ [Th] dTh k c (q_bin StQ qsub false [Th] [Th] dTh (q_new StQ [Th] dTh k c t) (q_new StQ [Th] dTh k' 0 delta))
    == t - delta * k' / k.
Proof.
  intros Th k c k' t delta Hk HT. unfold q_bin. cbn [rebase]. rewrite c09_point_readback, qsub_eq, !c09_point_affine.
  field. split; assumption.
Qed.

(* ... also when the interval is stored in a different temperature base unit (autoconvert) *)
Theorem c09_point_plus_interval_mixed_base :
  forall Th Th' k c k' t delta, ~ k == 0 -> ~ Th == 0 -> ~ Th' == 0 ->
    q_get StQ [Th] dTh k c (q_bin StQ qadd true [Th] [Th'] dTh (q_new StQ [Th] dTh k c t) (q_new StQ [Th'] dTh k' 0 delta))
    == t + delta * k' / k.
Proof.
  intros Th Th' k c k' t delta Hk HT HT'.
  assert (Hn : nonzero (combine [Th] dTh)) by (intros p [<-|[]]; exact HT).
  assert (Hp := add_phys [Th] [Th'] dTh eq_refl Hn (q_new StQ [Th] dTh k c t) (q_new StQ [Th'] dTh k' 0 delta)).
  unfold phys in Hp. rewrite !pi_single in Hp.
  rewrite c09_point_readback.
  set (r := q_bin StQ qadd true [Th] [Th'] dTh (q_new StQ [Th] dTh k c t) (q_new StQ [Th'] dTh k' 0 delta)) in *.
  assert (Hr : r == (q_new StQ [Th] dTh k c t * Th + q_new StQ [Th'] dTh k' 0 delta * Th') / Th).
  { rewrite <- Hp. field. exact HT. }
  rewrite Hr, !c09_point_affine. field. repeat split; assumption.
Qed.

(* ---- the regenerated tables ---- *)
Open Scope string_scope.
Definition tt := find_quantity si_quantities "thermodynamic_temperature".
Definition ti := find_quantity si_quantities "temperature_interval".
Definition scale (q : option quantity_decl) (n : string) : option (Q * Q) :=
  match q with Some q => match find_unit q n with Some u => Some (coef_q u, const_q u) | None => None end | None => None end.

(* 0 degC = 273.15 K = 32 degF, exactly, with the declared decimal coefficients *)
Theorem c09_zero_celsius_is_27315_kelvin_is_32_fahrenheit :
  match scale tt "degree_celsius", scale tt "degree_fahrenheit", scale tt "kelvin" with
  | Some (kc, cc), Some (kf, cf), Some (kk, ck) =>
      Qeq_bool (q_new StQ [1] dTh kc cc 0) (q_new StQ [1] dTh kk ck (dec 27315 (-2)))
      && Qeq_bool (q_new StQ [1] dTh kf cf 32) (q_new StQ [1] dTh kk ck (dec 27315 (-2)))
      && Qeq_bool (q_get StQ [1] dTh kf cf (q_new StQ [1] dTh kc cc 0)) 32
  | _, _, _ => false
  end = true.
Proof. vm_compute. reflexivity. Qed.

(* every interval unit has no offset and the scale of the point unit of the same name; and vice versa the unit lists agree *)
Definition ti_matches_tt : bool :=
  match tt, ti with
  | Some qt, Some qi =>
      forallb (fun u => match u_const u with Some _ => false | None => true end
                        && match find_unit qt (u_name u) with Some v => Qeq_bool (coef_q u) (coef_q v) | None => false end) (q_units qi)
      && Nat.eqb (List.length (q_units qi)) (List.length (q_units qt))
  | _, _ => false
  end.
Theorem c09_interval_units_are_offset_free_twins : ti_matches_tt = true.
Proof. vm_compute. reflexivity. Qed.

(* "no operation lets an offset be applied twice or to an interval", as a statement about which programs exist:
   on the typing model instantiated with the kinds and the impl_from! list that /repo declares now, no
   From/Into exists between a temperature point and a temperature interval (either direction, any base-unit
   combination, with or without autoconvert/std); the impl_from! table never mentions the temperature kind;
   two points can be neither added nor subtracted (their offsets would add up) *)
From UomV Require Import Model.Typing.
Open Scope string_scope.
Definition c09_temp : list Z := [0; 0; 0; 0; 1; 0; 0]%Z.
Definition c09_tt (u : Z) : qty := mkQty c09_temp "TemperatureKind" u.
Definition c09_ti (u : Z) : qty := mkQty c09_temp "Kind" u.
Definition c09_cfgs : list cfg := [mkCfg true true; mkCfg false true; mkCfg true false; mkCfg false false].
Definition c09_rejected (c : cfg) (p : prog) : bool :=
  match ty si_kinds si_impl_from 7 c09_temp c p with None => true | Some _ => false end.
Theorem c09_no_point_interval_conversion :
  forallb (fun c => forallb (fun ub => c09_rejected c (PFrom (c09_tt 0) (c09_ti ub)) && c09_rejected c (PFrom (c09_ti 0) (c09_tt ub))
                                        && c09_rejected c (PFrom (c09_tt ub) (c09_ti 0)) && c09_rejected c (PFrom (c09_ti ub) (c09_tt 0))) [0; 1]%Z) c09_cfgs
  && forallb (fun p => negb (String.eqb (fst p) "TemperatureKind") && negb (String.eqb (snd p) "TemperatureKind")) si_impl_from
  && forallb (fun c => forallb (fun o => c09_rejected c (PAdditive o (c09_tt 0) (c09_tt 0))) [AAdd; ASub; AAddAssign; ASubAssign]) c09_cfgs = true.
Proof. vm_compute. reflexivity. Qed.

(* how the unit! macro turns the optional second term of `@unit: coefficient, offset;` into constant() for every storage class (and
   -0.0 / +0.0 when there is none), and that the public arm forwards every term - as Model.Run.cons_add / cons_sub transcribe it
   (Gen/StorageSrc.v is regenerated from src/unit.rs on every run) *)
From UomV Require Import Gen.StorageSrc Spec.StorageTie.
Theorem c09_unit_macro_offset_plumbing :
  forallb (fun c => rows_eqb (class_rows c src_storage) (class_rows c expected_storage))
          ["unit!:Float"; "unit!:PrimInt,BigInt"; "unit!:BigUint"; "unit!:Ratio"; "unit!:Complex"; "unit!:arm"; "unit!:public arm"] = true.
Proof. vm_compute. reflexivity. Qed.
