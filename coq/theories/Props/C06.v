(* C06 — Results do not depend on the base units operands happen to be stored in.
   Property theorems only.  Exact part: BigRational storage (V = T = Q), any number of base
   quantities, any exponents, any non-zero (resp. positive) base-unit coefficients, all values:
   phys U d v := v * prod U_i^d_i is the magnitude in the coherent units of the system. *)
From Coq Require Import ZArith QArith List Bool.
From Flocq Require Import Core BinarySingleNaN.
From UomV Require Import Model.Tables Model.Conv Model.FloatM Model.Exact Model.Quantity Model.Storages
  Proofs.ExactP Proofs.MixedP Proofs.ConvFloat.
Import ListNotations.
Open Scope Q_scope.

(* re-basing preserves the physical magnitude *)
Theorem c06_rebase_exact :
  forall (Ul Ur : list Q) (d : list Z) (v : Q),
    length Ul = length Ur -> nonzero (combine Ul d) ->
    phys Ul d (rebase StQ true Ul Ur d v) == phys Ur d v.
Proof. intros Ul Ur d v H1 H2. exact (rebase_phys Ul Ur d H1 H2 v). Qed.

(* + and - (and += -=): physical sum / difference, expressed in the LEFT operand's base units *)
Theorem c06_add_exact :
  forall (Ul Ur : list Q) (d : list Z) (a b : Q),
    length Ul = length Ur -> nonzero (combine Ul d) ->
    phys Ul d (q_bin StQ qadd true Ul Ur d a b) == phys Ul d a + phys Ur d b.
Proof. intros Ul Ur d a b H1 H2. exact (add_phys Ul Ur d H1 H2 a b). Qed.

Theorem c06_sub_exact :
  forall (Ul Ur : list Q) (d : list Z) (a b : Q),
    length Ul = length Ur -> nonzero (combine Ul d) ->
    phys Ul d (q_bin StQ qsub true Ul Ur d a b) == phys Ul d a - phys Ur d b.
Proof. intros Ul Ur d a b H1 H2. exact (sub_phys Ul Ur d H1 H2 a b). Qed.

(* * : the stored product, read with the exponents dl (+) dr in the left base, is the product of
   the physical magnitudes *)
Theorem c06_mul_exact :
  forall (Ul Ur : list Q) (dl dr : list Z) (a b : Q),
    length Ul = length Ur -> nonzero (combine Ul dr) ->
    q_bin StQ qmul true Ul Ur dr a b * pi (combine Ul dl) * pi (combine Ul dr) == phys Ul dl a * phys Ur dr b.
Proof. intros Ul Ur dl dr a b H1 H2. exact (mul_phys Ul Ur dl dr a b H1 H2). Qed.

Theorem c06_exponents_add :
  forall (U : list Q) (dl dr : list Z),
    nonzero (combine U dl) -> length U = length dl -> length U = length dr ->
    pi (combine U (map (fun p => (fst p + snd p)%Z) (combine dl dr))) == pi (combine U dl) * pi (combine U dr).
Proof. intros U dl dr H1 H2 H3. exact (pi_app_add U dl dr H1 H2 H3). Qed.

(* == and < (likewise != <= > >= partial_cmp, which are defined from the same comparison) *)
Theorem c06_eq_exact :
  forall (Ul Ur : list Q) (d : list Z) (a b : Q),
    length Ul = length Ur -> nonzero (combine Ul d) ->
    (q_bin StQ qeqb true Ul Ur d a b = true <-> phys Ul d a == phys Ur d b).
Proof. intros Ul Ur d a b H1 H2. exact (eq_phys Ul Ur d H1 H2 a b). Qed.

Theorem c06_lt_exact :
  forall (Ul Ur : list Q) (d : list Z) (a b : Q),
    length Ul = length Ur -> nonzero (combine Ul d) -> positive (combine Ul d) ->
    (q_bin StQ qlt true Ul Ur d a b = true <-> phys Ul d a < phys Ur d b).
Proof. intros Ul Ur d a b H1 H2 H3. exact (lt_phys Ul Ur d H1 H2 H3 a b). Qed.

Theorem c06_le_exact :
  forall (Ul Ur : list Q) (d : list Z) (a b : Q),
    length Ul = length Ur -> nonzero (combine Ul d) -> positive (combine Ul d) ->
    (q_bin StQ qle true Ul Ur d a b = true <-> phys Ul d a <= phys Ur d b).
Proof. intros Ul Ur d a b H1 H2 H3. exact (le_phys Ul Ur d H1 H2 H3 a b). Qed.

(* fused multiply-add, operands in three base-unit sets *)
Theorem c06_mul_add_exact :
  forall (U Ua Ub : list Q) (da ds : list Z) (x a b : Q),
    length U = length Ua -> length U = length Ub -> nonzero (combine U da) -> nonzero (combine U ds) ->
    q_muladd StQ (fun x a b => qadd (qmul x a) b) true U Ua Ub da ds x a b * pi (combine U da) * pi (combine U ds)
    == x * phys Ua da a * pi (combine U ds) + phys Ub ds b * pi (combine U da).
Proof. intros U Ua Ub da ds x a b H1 H2 H3 H4. exact (muladd_phys U Ua Ub da ds x a b H1 H2 H3 H4). Qed.

(* floats: wherever the dimension is non-zero and both operands use the same base unit, no
   rounding at all is introduced by re-basing (any precision, any value) *)
Theorem c06_float_shared_positions :
  forall prec emax (Hprec : Prec_gt_0 prec) (Hmax : Prec_lt_emax prec emax) lib
         (Ul Ur : list (binary_float prec emax)) (d : list Z) (v : binary_float prec emax),
    agree_bases prec emax Ul Ur d ->
    change_base (CFfloat prec emax Hprec Hmax lib) Ul Ur d v = v.
Proof. intros prec emax Hprec Hmax lib Ul Ur d v H. exact (change_base_id prec emax Hprec Hmax lib Ul Ur d v H). Qed.

(* ---- non-vacuity: 1 km/h (km-g-h base) + 1 m/s (SI base) = 4.6 km/h, exactly ---- *)
Example c06_ex :
  let Ul := [1000#1; 1#1000; 3600#1] in let Ur := [1#1; 1#1; 1#1] in let d := [1; 0; -1]%Z in
  nonzero (combine Ul d) /\ positive (combine Ul d) /\
  q_bin StQ qadd true Ul Ur d 1 1 == 46#10.
Proof.
  cbv zeta. split; [|split].
  - intros p [<-|[<-|[<-|[]]]]; discriminate.
  - intros p [<-|[<-|[<-|[]]]]; reflexivity.
  - vm_compute. reflexivity.
Qed.

(* floats, different base units: the re-based value is within (1/(1-u))^n - 1 relative of the exact
   (real-arithmetic) re-basing, n = the number of floating-point operations change_base performs
   (positions where both sides use the same base unit cost nothing), whenever no intermediate
   overflows or underflows; any precision, either power algorithm *)
From Coq Require Import Reals.
From UomV Require Import Proofs.Tree Proofs.ErrBound.
Theorem c06_float_rebase_relative_error :
  forall prec emax (Hprec : Prec_gt_0 prec) (Hmax : Prec_lt_emax prec emax) lib
         (Ul Ur : list (binary_float prec emax)) (d : list Z) (v : binary_float prec emax),
    let t := change_base_tree prec emax Hprec Hmax lib Ul Ur d v in
    Safe prec emax Hprec Hmax t ->
    is_finite (change_base (CFfloat prec emax Hprec Hmax lib) Ul Ur d v) = true
    /\ (Rabs (B2R (change_base (CFfloat prec emax Hprec Hmax lib) Ul Ur d v) - rebase_R prec emax Hprec Hmax lib Ul Ur d v)
        <= (H prec ^ ops prec emax t - 1) * Rabs (rebase_R prec emax Hprec Hmax lib Ul Ur d v))%R.
Proof. intros prec emax Hprec Hmax lib Ul Ur d v t St. exact (change_base_relerr prec emax Hprec Hmax lib Ul Ur d v St). Qed.

From UomV Require Import Proofs.SafeB Model.Run.
(* non-vacuity: the Safe premise holds for re-basing 2.5 (km/h stored in the km-g-h base) into the cgs base *)
Example c06_float_rebase_premise :
  let ev := eval_f 53 1024 p64 m64 in
  Safe 53 1024 p64 m64 (change_base_tree 53 1024 p64 m64 LibStd
     (map ev [ELit 1 (-2); ELit 1 (-3); ELit 1 0]) (map ev [ELit 1 3; ELit 1 (-3); ELit 36 2]) [1; 0; -1]%Z (of_lit 53 1024 p64 m64 25 (-1))).
Proof. cbv zeta. apply safe64_sound. vm_compute. reflexivity. Qed.

(* ---- value accuracy of mixed-base arithmetic on floats (any precision, either power algorithm) ----
   B = the exact re-basing of the right operand, n = operations of change_base, E = H^n - 1.
   a + b, a - b: |result - (a +/- B)| <= u |a +/- B| + (1 + u) E |B|  (absolute: the two terms may cancel);
   a * b, a / b: within H^(n+1) - 1 relative of a * B, a / B. *)
From UomV Require Import Proofs.MixedArith Model.Quantity Model.Storages.
Theorem c06_float_mixed_addsub_accuracy :
  forall prec emax (Hprec : Prec_gt_0 prec) (Hmax : Prec_lt_emax prec emax) lib (sub : bool)
         (Ul Ur : list (binary_float prec emax)) (d : list Z) (a b : binary_float prec emax),
    let t := change_base_tree prec emax Hprec Hmax lib Ul Ur d b in
    let E := (H prec ^ ops prec emax t - 1)%R in
    let B := rebase_R prec emax Hprec Hmax lib Ul Ur d b in
    let b' := change_base (CFfloat prec emax Hprec Hmax lib) Ul Ur d b in
    let X := (if sub then B2R a - B else B2R a + B)%R in
    let res := q_bin (StF prec emax Hprec Hmax lib) (if sub then fsub prec emax Hprec Hmax else fadd prec emax Hprec Hmax) true Ul Ur d a b in
    Safe prec emax Hprec Hmax t -> is_finite a = true ->
    normal prec emax (if sub then B2R a - B2R b' else B2R a + B2R b')%R ->
    is_finite res = true /\ (Rabs (B2R res - X) <= u prec * Rabs X + (1 + u prec) * E * Rabs B)%R.
Proof.
  intros prec emax Hprec Hmax lib sub Ul Ur d a b t E B b' X res St Fa Nrm.
  exact (mixed_addsub_abserr prec emax Hprec Hmax lib sub Ul Ur d a b St Fa Nrm).
Qed.

Theorem c06_float_mixed_muldiv_accuracy :
  forall prec emax (Hprec : Prec_gt_0 prec) (Hmax : Prec_lt_emax prec emax) lib (dv : bool)
         (Ul Ur : list (binary_float prec emax)) (d : list Z) (a b : binary_float prec emax),
    let t := change_base_tree prec emax Hprec Hmax lib Ul Ur d b in
    let t' := if dv then Div prec emax (Leaf prec emax a) t else Mul prec emax (Leaf prec emax a) t in
    let B := rebase_R prec emax Hprec Hmax lib Ul Ur d b in
    let X := (if dv then B2R a / B else B2R a * B)%R in
    let res := q_bin (StF prec emax Hprec Hmax lib) (if dv then fdiv prec emax Hprec Hmax else fmul prec emax Hprec Hmax) true Ul Ur d a b in
    Safe prec emax Hprec Hmax t' ->
    is_finite res = true /\ (Rabs (B2R res - X) <= (H prec ^ S (ops prec emax t) - 1) * Rabs X)%R.
Proof.
  intros prec emax Hprec Hmax lib dv Ul Ur d a b t t' B X res St.
  exact (mixed_muldiv_relerr prec emax Hprec Hmax lib dv Ul Ur d a b St).
Qed.

(* non-vacuity: 1.5 (cm/s, cgs base) + 2.5 (km/h base re-based into cgs), and their product tree *)
Example c06_float_mixed_premises :
  let ev := eval_f 53 1024 p64 m64 in
  let Ul := map ev [ELit 1 (-2); ELit 1 (-3); ELit 1 0] in let Ur := map ev [ELit 1 3; ELit 1 (-3); ELit 36 2] in
  let d := [1; 0; -1]%Z in
  let a := of_lit 53 1024 p64 m64 15 (-1) in let b := of_lit 53 1024 p64 m64 25 (-1) in
  let t := change_base_tree 53 1024 p64 m64 LibStd Ul Ur d b in
  Safe 53 1024 p64 m64 t /\ is_finite a = true
  /\ normal 53 1024 (B2R a + B2R (change_base (CFfloat 53 1024 p64 m64 LibStd) Ul Ur d b))%R
  /\ normal 53 1024 (B2R a - B2R (change_base (CFfloat 53 1024 p64 m64 LibStd) Ul Ur d b))%R
  /\ Safe 53 1024 p64 m64 (Mul 53 1024 (Leaf 53 1024 a) t) /\ Safe 53 1024 p64 m64 (Div 53 1024 (Leaf 53 1024 a) t).
Proof.
  cbv zeta.
  split; [apply safe64_sound; vm_compute; reflexivity|].
  split; [vm_compute; reflexivity|].
  split; [apply normal64_add; vm_compute; reflexivity|].
  split; [apply normal64_sub; vm_compute; reflexivity|].
  split; apply safe64_sound; vm_compute; reflexivity.
Qed.

(* ---- the model's change_base IS the source (Gen/ConvSrc.v is regenerated from src/system.rs on every run):
   right coefficient in the numerator, left in the denominator, skipped when they are equal ---- *)
From UomV Require Import Model.ConvSrc Gen.ConvSrc Spec.ConvTie.
Theorem c06_change_base_is_the_source :
  rebase_shape_ok src_change_base = true
  /\ forall (T : Type) (F : CF T) Ul Ur d v,
       fold_left (fun acc p => match acc with Some x => eval_rebase_step F src_change_base x p | None => None end)
                 (combine (combine Ul Ur) d) (Some v)
       = Some (change_base F Ul Ur d v).
Proof. exact change_base_is_the_source. Qed.

(* ---- every function of the source that re-bases an operand has the shape of the model's q_bin / q_muladd / q_from:
   under autoconvert each quantity argument is re-based from ITS base units into SELF's with ITS dimension
   (Gen/OpsSrc.v is regenerated from src/system.rs and src/si/*.rs on every run) ---- *)
From Coq Require Import String.
From UomV Require Import Model.OpsSrc Gen.OpsSrc Spec.OpsTie.
Theorem c06_operator_sources_have_the_model_shape :
  forallb shape_ok src_ops = true
  /\ forallb (fun f => existsb (fun e => String.eqb (os_fn e) f) src_ops)
          ["$addsub_fun"; "$addsubassign_fun"; "$muldiv_fun"; "rem"; "rem_assign"; "eq"; "partial_cmp"; "lt"; "le"; "gt"; "ge"; "hypot"; "mul_add"; "from"; "add"]%string
     && (30 <=? List.length src_ops)%nat = true.
Proof. split; [exact operator_sources_have_the_model_shape|exact operator_table_covers]. Qed.

(* fused multiply-add with the multiplier a and the addend b in two other base-unit sets: ONE rounding of x a' + b' *)
Theorem c06_float_mixed_muladd_accuracy :
  forall prec emax (Hprec : Prec_gt_0 prec) (Hmax : Prec_lt_emax prec emax) lib
         (U Ua Ub : list (binary_float prec emax)) (da ds : list Z) (x a b : binary_float prec emax),
    let ta := change_base_tree prec emax Hprec Hmax lib U Ua da a in
    let tb := change_base_tree prec emax Hprec Hmax lib U Ub ds b in
    let Ea := (H prec ^ ops prec emax ta - 1)%R in let Eb := (H prec ^ ops prec emax tb - 1)%R in
    let A := rebase_R prec emax Hprec Hmax lib U Ua da a in let B := rebase_R prec emax Hprec Hmax lib U Ub ds b in
    let a' := change_base (CFfloat prec emax Hprec Hmax lib) U Ua da a in
    let b' := change_base (CFfloat prec emax Hprec Hmax lib) U Ub ds b in
    let X := (B2R x * A + B)%R in
    let res := q_muladd (StF prec emax Hprec Hmax lib) (ffma prec emax Hprec Hmax) true U Ua Ub da ds x a b in
    Safe prec emax Hprec Hmax ta -> Safe prec emax Hprec Hmax tb -> is_finite x = true ->
    normal prec emax (B2R x * B2R a' + B2R b')%R ->
    is_finite res = true /\ (Rabs (B2R res - X) <= u prec * Rabs X + (1 + u prec) * (Ea * Rabs (B2R x * A) + Eb * Rabs B))%R.
Proof.
  intros prec emax Hprec Hmax lib U Ua Ub da ds x a b ta tb Ea Eb A B a' b' X res Sa Sb Fx Nrm.
  exact (mixed_muladd_abserr prec emax Hprec Hmax lib U Ua Ub da ds x a b Sa Sb Fx Nrm).
Qed.
