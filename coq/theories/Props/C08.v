(* C08 — Exact storage converts exactly; integer storage truncates toward zero.
   Property theorems only; axiom-free.  U: base-unit coefficients (any non-zero rationals), d: any
   exponents, (k, c): any coefficient and offset. *)
From Coq Require Import ZArith QArith Qpower List Bool.
From UomV Require Import Model.Tables Model.Conv Model.Exact Model.Quantity Model.Storages Proofs.ExactP.
Import ListNotations.
Open Scope Q_scope.

(* rational storage: construction and read-back ARE the conversion formula, in both branches *)
Theorem c08_rational_new_exact :
  forall U d k c v, q_new StQ U d k c v == (v + c) * k / pi (combine U d).
Proof. intros U d k c v. exact (to_base_exact U d k c v). Qed.

Theorem c08_rational_get_exact :
  forall U d k c v, q_get StQ U d k c v == v * pi (combine U d) / k - c.
Proof. intros U d k c v. exact (from_base_exact U d k c v). Qed.

Theorem c08_rational_roundtrip :
  forall U d k c v, ~ k == 0 -> nonzero (combine U d) -> q_get StQ U d k c (q_new StQ U d k c v) == v.
Proof. intros U d k c v H1 H2. exact (roundtrip_exact U d k c v H1 H2). Qed.

Theorem c08_rational_two_units :
  forall U d k1 k2 v, ~ k1 == 0 -> ~ k2 == 0 -> q_get StQ U d k1 0 v * k1 == q_get StQ U d k2 0 v * k2.
Proof. intros U d k1 k2 v H1 H2. exact (two_units_ratio U d k1 k2 v H1 H2). Qed.

(* integer storage: the stored / returned integer is the exact rational result truncated toward zero *)
Theorem c08_integer_new_trunc :
  forall U d k c (v : Z), q_new StZ U d k c v = q_to_integer ((inject_Z v + c) * k / pi (combine U d)).
Proof. intros U d k c v. unfold q_new. cbn [s_val s_conv StZ s_cf]. apply q_to_integer_comp, to_base_exact. Qed.

Theorem c08_integer_get_trunc :
  forall U d k c (v : Z), q_get StZ U d k c v = q_to_integer (inject_Z v * pi (combine U d) / k - c).
Proof. intros U d k c v. unfold q_get. cbn [s_val s_conv StZ s_cf]. apply q_to_integer_comp, from_base_exact. Qed.

(* what "truncated toward zero" means *)
Theorem c08_truncation_toward_zero :
  forall x : Q,
    (0 <= x -> inject_Z (q_to_integer x) <= x /\ x < inject_Z (q_to_integer x) + 1)
    /\ (x <= 0 -> inject_Z (q_to_integer x) - 1 < x /\ x <= inject_Z (q_to_integer x)).
Proof. intros x. split; [apply q_to_integer_nonneg|apply q_to_integer_nonpos]. Qed.

(* the big-number integer power with a negative exponent is the power of the reciprocal (lib.rs powi) *)
Theorem c08_powi_is_power : forall a e, qpowi a e == a ^ e.
Proof. intros a e. exact (qpowi_eq a e). Qed.

(* non-vacuity: -7 ft = -2.1336 m truncates to -2 (toward zero, not to -3); 1 mile in a km base *)
Example c08_ex_trunc : q_new StZ [1; 1; 1] [1; 0; 0]%Z (3048 # 10000) 0 (-7)%Z = (-2)%Z.
Proof. vm_compute. reflexivity. Qed.
Example c08_ex_mile_km : q_new StQ [1000 # 1; 1; 1] [1; 0; 0]%Z (1609344 # 1000) 0 1 == 1609344 # 1000000.
Proof. vm_compute. reflexivity. Qed.

(* ---- fixed-width storage (Rational32/64, Rational, i8..i64, u8..u64, isize, usize) ----
   Model.Fixed evaluates the same three conversion functions over num-rational's Ratio<iN> with every machine
   operation checked against the type's range [lo, hi]; `None` = the implementation panics.  For EVERY width,
   unit, base-unit set and value: a conversion that returns ("no intermediate overflows") returns the exact
   rational result of the formula -- truncated toward zero, and inside the type's range, for integer storage. *)
From UomV Require Import Model.Fixed Proofs.FixedP.

Theorem c08_fixed_rational_new_exact :
  forall lo hi U d k c v p,
    q_new (StQw lo hi) (map Some U) d (Some k) (Some c) (Some v) = Some p ->
    wfs U -> wf k -> wf c -> wf v ->
    wf p /\ qv p == (qv v + qv c) * qv k / pi (combine (map qv U) d).
Proof. intros lo hi U d k c v p. exact (new_rat_w lo hi U d k c v p). Qed.

Theorem c08_fixed_rational_get_exact :
  forall lo hi U d k c v p,
    q_get (StQw lo hi) (map Some U) d (Some k) (Some c) (Some v) = Some p ->
    wfs U -> wf k -> wf c -> wf v ->
    wf p /\ qv p == qv v * pi (combine (map qv U) d) / qv k - qv c.
Proof. intros lo hi U d k c v p. exact (get_rat_w lo hi U d k c v p). Qed.

Theorem c08_fixed_rational_roundtrip :
  forall lo hi U d k c v s p,
    q_new (StQw lo hi) (map Some U) d (Some k) (Some c) (Some v) = Some s ->
    q_get (StQw lo hi) (map Some U) d (Some k) (Some c) (Some s) = Some p ->
    wfs U -> wf k -> wf c -> wf v -> nonzero (combine (map qv U) d) -> ~ qv k == 0 ->
    qv p == qv v.
Proof. intros lo hi U d k c v s p. exact (roundtrip_rat_w lo hi U d k c v s p). Qed.

Theorem c08_fixed_integer_new_trunc :
  forall lo hi U d k c (z r : Z),
    q_new (StZw lo hi) (map Some U) d (Some k) (Some c) (Some z) = Some r ->
    wfs U -> wf k -> wf c ->
    r = q_to_integer ((inject_Z z + qv c) * qv k / pi (combine (map qv U) d)) /\ (lo <= r <= hi)%Z.
Proof. intros lo hi U d k c z r. exact (new_int_w lo hi U d k c z r). Qed.

Theorem c08_fixed_integer_get_trunc :
  forall lo hi U d k c (z r : Z),
    q_get (StZw lo hi) (map Some U) d (Some k) (Some c) (Some z) = Some r ->
    wfs U -> wf k -> wf c ->
    r = q_to_integer (inject_Z z * pi (combine (map qv U) d) / qv k - qv c) /\ (lo <= r <= hi)%Z.
Proof. intros lo hi U d k c z r. exact (get_int_w lo hi U d k c z r). Qed.

(* re-basing (operands in two base-unit sets) at fixed width: the physical magnitude is preserved *)
Theorem c08_fixed_rational_rebase_exact :
  forall lo hi Ul Ur d v p,
    rebase (StQw lo hi) true (map Some Ul) (map Some Ur) d (Some v) = Some p ->
    length Ul = length Ur -> wfs Ul -> wfs Ur -> wf v ->
    wf p /\ qv p * pi (combine (map qv Ul) d) == qv v * pi (combine (map qv Ur) d).
Proof. intros lo hi Ul Ur d v p. exact (change_base_w lo hi Ul Ur d v p). Qed.

Theorem c08_fixed_integer_rebase_trunc :
  forall lo hi Ul Ur d (z r : Z),
    rebase (StZw lo hi) true (map Some Ul) (map Some Ur) d (Some z) = Some r ->
    length Ul = length Ur -> wfs Ul -> wfs Ur -> nonzero (combine (map qv Ul) d) ->
    r = q_to_integer (inject_Z z * pi (combine (map qv Ur) d) / pi (combine (map qv Ul) d)) /\ (lo <= r <= hi)%Z.
Proof. intros lo hi Ul Ur d z r. exact (rebase_int_w lo hi Ul Ur d z r). Qed.

(* the order and equality tests of Ratio<iN> that choose the branches are exact at every width *)
Theorem c08_fixed_comparison_exact :
  forall x y, wf x -> wf y -> rcmp x y = Qcompare (qv x) (qv y).
Proof. intros x y. exact (rcmp_ok x y). Qed.

(* non-vacuity at i64 / Ratio<i64>: 5 miles with a kilometre base unit; 7 feet as an i32; and a case that
   does overflow (10^12 parsec-sized coefficient squared) is reported as such, not as a value *)
Example c08_ex_fixed_mile :
  q_new (StQw (-(2^63)) (2^63-1)) [Some (1000, 1); Some (1, 1)]%Z [1; 0]%Z (Some (201168, 125)) (Some (0, 1)) (Some (5, 1))%Z
  = Some (25146, 3125)%Z.
Proof. vm_compute. reflexivity. Qed.
Example c08_ex_fixed_feet :
  q_new (StZw (-(2^31)) (2^31-1)) [Some (1, 1)]%Z [1]%Z (Some (381, 1250)) (Some (0, 1)) (Some (-7))%Z = Some (-2)%Z.
Proof. vm_compute. reflexivity. Qed.
Example c08_ex_fixed_overflow :
  q_new (StQw (-(2^63)) (2^63-1)) [Some (1, 1)]%Z [2]%Z (Some (30856775814913673, 1)) (Some (0, 1)) (Some (1000, 1))%Z = None
  /\ q_new (StQw (-(2^63)) (2^63-1)) [Some (1, 1)]%Z [2]%Z (Some (30856775814913673, 1)) (Some (0, 1)) (Some (100, 1))%Z
     = Some (3085677581491367300, 1)%Z.
Proof. vm_compute. split; reflexivity. Qed.

(* the plumbing of the exact storage classes that the model's StZ / StQ transcribe (Gen/StorageSrc.v is regenerated from src/lib.rs):
   integers and big integers convert through Ratio<V> and return to_integer() (truncation toward zero); rationals are their own
   factor type; the big classes raise to a negative power by recip() then pow *)
From Coq Require Import String.
From UomV Require Import Gen.StorageSrc Spec.StorageTie.
Open Scope string_scope.
Theorem c08_exact_plumbing_is_what_the_model_transcribes :
  forallb (fun c => rows_eqb (class_rows c src_storage) (class_rows c expected_storage))
          ["PrimInt"; "BigInt,BigUint"; "Rational,Rational32,Rational64"; "BigRational"; "default"] = true.
Proof. vm_compute. reflexivity. Qed.
