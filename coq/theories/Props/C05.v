(* C05 — The SI unit tables are mutually coherent and anchored.
   Every theorem here is about Gen/SiTables.v and Gen/SiReadings.v, which the translator
   regenerates from /repo's current source on every run: finite, exhaustive, decided by the
   kernel's evaluator.  Axiom-free. *)
From Coq Require Import ZArith QArith Qabs List String Bool.
From UomV Require Import Model.Tables Spec.Names Spec.Anchors Gen.SiTables Gen.SiReadings.
Import ListNotations.
Open Scope string_scope.

(* Tolerances of the specification.  A composed coefficient must agree with the declared one to
   1e-15 relative (the tables write some quotients such as 1/3.6 as 16-digit decimals).  Eleven
   customary units are declared with NIST SP 811 seven-digit values while their constituents are
   declared exactly; for these the agreement is required to 2e-6 (largest today: acre_foot 1.7e-6). *)
Definition nist_rounded : list (string * string) := [
  ("volume", "acre_foot"); ("energy", "foot_poundal"); ("volume", "cubic_inch"); ("volume", "cubic_foot");
  ("volume", "cubic_yard"); ("energy", "foot_pound"); ("molar_energy", "foot_pound_force_per_mole");
  ("area", "square_yard"); ("area", "square_mile"); ("volume", "cubic_mile"); ("inverse_velocity", "minute_per_mile")].
Definition in_list (l : list (string * string)) (m n : string) : bool :=
  existsb (fun p => String.eqb (fst p) m && String.eqb (snd p) n) l.
Definition tol (m n : string) : Q := if in_list nist_rounded m n then (2 # 1000000)%Q else (1 # 1000000000000000)%Q.

(* known finding F7 (KNOWN_FINDINGS.txt): identifier says W/(m K), unit is W/K *)
Definition known : list (string * string) := [("thermal_conductance", "watt_per_meter_degree_celsius")].

(* (1) every unit whose identifier is a composition has the coefficient and the dimension that the
   composition yields from the units it names — outside the known finding *)
Theorem c05_composable_units_coherent :
  incoherent si_quantities si_prefixes tol (in_list known) si_readings = [].
Proof. vm_compute. reflexivity. Qed.

(* ... and the known finding is a genuine failure of the same checker (no reading is coherent) *)
Theorem c05_known_finding_refuted :
  incoherent si_quantities si_prefixes tol (fun _ _ => false) si_readings
  = [("thermal_conductance", "watt_per_meter_degree_celsius")].
Proof. vm_compute. reflexivity. Qed.

(* what `incoherent = []` means, unit by unit *)
Theorem c05_incoherent_nil_sound :
  forall qs pf tl kn cert, incoherent qs pf tl kn cert = [] ->
  forall m n rs, In (m, n, rs) cert ->
    exists q u, find_quantity qs m = Some q /\ find_unit q n = Some u /\ (kn m n = true \/ coherent qs pf (tl m n) q u rs = true).
Proof.
  intros qs pf tl kn cert H m n rs Hin. unfold incoherent in H.
  assert (Hrow : (let '(m, n, rs) := (m, n, rs) in
                  match find_quantity qs m with
                  | Some q => match find_unit q n with
                              | Some u => if kn m n || coherent qs pf (tl m n) q u rs then [] else [(m, n)]
                              | None => [(m, n)] end
                  | None => [(m, n)] end) = []).
  { induction cert as [|row cert IH]; [contradiction|]. cbn [flat_map] in H. apply app_eq_nil in H. destruct H as [H1 H2].
    destruct Hin as [->|Hin]; [exact H1|exact (IH H2 Hin)]. }
  cbn in Hrow. destruct (find_quantity qs m) as [q|] eqn:Eq; [|discriminate].
  destruct (find_unit q n) as [u|] eqn:Eu; [|discriminate].
  exists q, u. split; [reflexivity|]. split; [exact Eu|].
  destruct (kn m n) eqn:E; [left; reflexivity|]. right. cbn in Hrow. destruct (coherent qs pf (tl m n) q u rs); [reflexivity|discriminate].
Qed.

(* (2) the base units named by system! have coefficient exactly 1, no offset, and the dimension e_i *)
Definition unit_vector (n i : nat) : list Z := map (fun k => if Nat.eqb k i then 1%Z else 0%Z) (seq 0 n).
Definition base_ok (i : nat) (b : base_decl) : bool :=
  match find_quantity si_quantities (b_quantity b) with
  | Some q => match find_unit q (b_unit b) with
              | Some u => Qeq_bool (coef_q u) 1 && match u_const u with None => true | Some _ => false end
                          && list_Z_eqb (q_dim q) (unit_vector (List.length si_base) i)
              | None => false end
  | None => false end.
Fixpoint forallb_i {A} (f : nat -> A -> bool) (i : nat) (l : list A) : bool :=
  match l with [] => true | x :: r => f i x && forallb_i f (S i) r end.
Theorem c05_base_units_one : forallb_i base_ok 0 si_base = true.
Proof. vm_compute. reflexivity. Qed.

(* (3) every quantity has a coherent unit: coefficient exactly 1 and no offset *)
Definition has_coherent_unit (q : quantity_decl) : bool :=
  existsb (fun u => Qeq_bool (coef_q u) 1 && match u_const u with None => true | Some _ => false end) (q_units q).
Theorem c05_coherent_unit_exists : forallb has_coherent_unit si_quantities = true.
Proof. vm_compute. reflexivity. Qed.

(* (4) anchors: exactly defined values; offsets; seven-digit class within 5e-7 *)
Definition lookup_coef (m n : string) : option Q :=
  match find_quantity si_quantities m with
  | Some q => match find_unit q n with Some u => Some (coef_q u) | None => None end
  | None => None end.
Definition lookup_const (m n : string) : option Q :=
  match find_quantity si_quantities m with
  | Some q => match find_unit q n with Some u => Some (const_q u) | None => None end
  | None => None end.
Definition anchor_exact (a : string * string * Q) : bool :=
  match lookup_coef (fst (fst a)) (snd (fst a)) with Some c => Qeq_bool c (snd a) | None => false end.
Definition anchor_offset (a : string * string * Q) : bool :=
  match lookup_const (fst (fst a)) (snd (fst a)) with Some c => Qeq_bool c (snd a) | None => false end.
Definition anchor_seven (a : string * string * Q) : bool :=
  match lookup_coef (fst (fst a)) (snd (fst a)) with Some c => close_q (5 # 10000000) c (snd a) | None => false end.
Theorem c05_anchors_exact : forallb anchor_exact exact_anchors = true.
Proof. vm_compute. reflexivity. Qed.
Theorem c05_anchors_offsets : forallb anchor_offset offset_anchors = true.
Proof. vm_compute. reflexivity. Qed.
Theorem c05_anchors_seven_digit : forallb anchor_seven seven_digit_anchors = true.
Proof. vm_compute. reflexivity. Qed.

(* only the two temperature-point scales carry an offset *)
Definition offset_units : list (string * string) :=
  flat_map (fun q => flat_map (fun u => match u_const u with Some _ => [(q_mod q, u_name u)] | None => [] end) (q_units q)) si_quantities.
Theorem c05_only_two_offsets :
  offset_units = [("thermodynamic_temperature", "degree_celsius"); ("thermodynamic_temperature", "degree_fahrenheit")].
Proof. vm_compute. reflexivity. Qed.

(* (5) the prefix! table *)
Definition prefix_ok10 (p : string * Z) : bool :=
  match find (fun x => String.eqb (fst x) (fst p)) si_prefixes with
  | Some (_, e) => Qeq_bool (eval_q e) (dec 1 (snd p)) | None => false end.
Definition prefix_ok2 (p : string * Z) : bool :=
  match find (fun x => String.eqb (fst x) (fst p)) si_prefixes with
  | Some (_, e) => Qeq_bool (eval_q e) (inject_Z (1024 ^ snd p)) | None => false end.
Theorem c05_prefix_table :
  forallb prefix_ok10 decimal_prefixes && forallb prefix_ok2 binary_prefixes
  && Nat.eqb (List.length si_prefixes) (List.length decimal_prefixes + List.length binary_prefixes) = true.
Proof. vm_compute. reflexivity. Qed.

(* (6) no coefficient is zero; unit names are unique within a quantity *)
Definition names_unique (q : quantity_decl) : bool :=
  (fix go (l : list unit_decl) := match l with [] => true | u :: r => negb (existsb (fun v => String.eqb (u_name v) (u_name u)) r) && go r end) (q_units q).
Theorem c05_coefficients_nonzero_names_unique :
  forallb (fun q => forallb (fun u => negb (Qeq_bool (coef_q u) 0)) (q_units q) && names_unique q) si_quantities = true.
Proof. vm_compute. reflexivity. Qed.

(* sensitivity: the checker rejects a wrong prefix and a five-digit typo on a real unit *)
Example c05_checker_rejects_wrong_prefix :
  match find_quantity si_quantities "length" with
  | Some q => match find_unit q "kilometer" with
              | Some u => check_reading si_quantities si_prefixes (tol "length" "kilometer") q u [IUnit (Some "mega") "meter" "length" "meter"]
                          || check_reading si_quantities si_prefixes (tol "length" "kilometer") q
                               {| u_name := u_name u; u_coef := ELit 100001 (-2); u_const := None; u_abbr := []; u_sing := []; u_plur := [] |}
                               [IUnit (Some "kilo") "meter" "length" "meter"]
              | None => true end
  | None => true end = false.
Proof. vm_compute. reflexivity. Qed.
