(* C05 — The SI unit tables are mutually coherent and anchored.
   Every theorem here is about Gen/SiTables.v and Gen/SiReadings.v, which the translator
   regenerates from /repo's current source on every run: finite, exhaustive, decided by the
   kernel's evaluator.  Axiom-free. *)
From Coq Require Import ZArith QArith Qabs List String Bool.
From UomV Require Import Model.Tables Spec.Names Spec.Anchors Spec.C05Defs Gen.SiTables Gen.SiReadings.
Import ListNotations.
Open Scope string_scope.

(* Tolerances of the specification.  A composed coefficient must agree with the declared one to
   1e-15 relative (the tables write some quotients such as 1/3.6 as 16-digit decimals).  Eleven
   customary units are declared with NIST SP 811 seven-digit values while their constituents are
   declared exactly; for these the agreement is required to 2e-6 (largest today: acre_foot 1.7e-6). *)

(* known finding F7 (KNOWN_FINDINGS.txt): identifier says W/(m K), unit is W/K *)

(* (1) every unit whose identifier is a composition has the coefficient and the dimension that the
   composition yields from the units it names — outside the known finding *)
Theorem c05_composable_units_coherent :
  incoherent si_quantities si_prefixes tol (in_list known) si_readings = [].
Proof. vm_compute. reflexivity. Qed.

(* ... and the known finding is a genuine failure of the same checker (no reading is coherent) *)
Theorem c05_known_finding_refuted :
  incoherent si_quantities si_prefixes tol (fun _ _ => false) si_readings
  = [("thermal_conductance", "watt_per_meter_degree_celsius")].
Proof. vm_compute. reflexivity. Qed.

(* what `incoherent = []` means, unit by unit *)
Theorem c05_incoherent_nil_sound :
  forall qs pf tl kn cert, incoherent qs pf tl kn cert = [] ->
  forall m n rs, In (m, n, rs) cert ->
    exists q u, find_quantity qs m = Some q /\ find_unit q n = Some u /\ (kn m n = true \/ coherent qs pf (tl m n) q u rs = true).
Proof.
  intros qs pf tl kn cert H m n rs Hin. unfold incoherent in H.
  assert (Hrow : (let '(m, n, rs) := (m, n, rs) in
                  match find_quantity qs m with
                  | Some q => match find_unit q n with
                              | Some u => if kn m n || coherent qs pf (tl m n) q u rs then [] else [(m, n)]
                              | None => [(m, n)] end
                  | None => [(m, n)] end) = []).
  { induction cert as [|row cert IH]; [contradiction|]. cbn [flat_map] in H. apply app_eq_nil in H. destruct H as [H1 H2].
    destruct Hin as [->|Hin]; [exact H1|exact (IH H2 Hin)]. }
  cbn in Hrow. destruct (find_quantity qs m) as [q|] eqn:Eq; [|discriminate].
  destruct (find_unit q n) as [u|] eqn:Eu; [|discriminate].
  exists q, u. split; [reflexivity|]. split; [exact Eu|].
  destruct (kn m n) eqn:E; [left; reflexivity|]. right. cbn in Hrow. destruct (coherent qs pf (tl m n) q u rs); [reflexivity|discriminate].
Qed.

(* (2) the base units named by system! have coefficient exactly 1, no offset, and the dimension e_i *)
Theorem c05_base_units_one : forallb_i base_ok 0 si_base = true.
Proof. vm_compute. reflexivity. Qed.

(* (3) every quantity has a coherent unit: coefficient exactly 1 and no offset *)
Theorem c05_coherent_unit_exists : forallb has_coherent_unit si_quantities = true.
Proof. vm_compute. reflexivity. Qed.

(* (4) anchors: exactly defined values; offsets; seven-digit class within 5e-7 *)
Theorem c05_anchors_exact : forallb anchor_exact exact_anchors = true.
Proof. vm_compute. reflexivity. Qed.
Theorem c05_anchors_offsets : forallb anchor_offset offset_anchors = true.
Proof. vm_compute. reflexivity. Qed.
Theorem c05_anchors_seven_digit : forallb anchor_seven seven_digit_anchors = true.
Proof. vm_compute. reflexivity. Qed.
(* angle and solid-angle units are the fractions of a turn their names say (360 degrees = 400 gon = 6400 mil = 21600 minutes = 1296000 seconds = 2 pi rad;
   spat = 4 pi sr, square degree = (pi/180)^2 sr ...), to the seven-digit class (the mil is a seven-digit rounding) *)
Theorem c05_anchors_turn : forallb anchor_seven turn_anchors = true.
Proof. vm_compute. reflexivity. Qed.
(* the 220 primitive units no other anchor covers (CGS-emu/esu units, CODATA constants used as units, NIST SP 811 customary
   units, information units ...) have exactly the reference values frozen in Spec/RefAnchors.v *)
From UomV Require Import Spec.RefAnchors.
Theorem c05_reference_values : forallb anchor_exact reference_values = true /\ List.length reference_values = 220%nat.
Proof. split; vm_compute; reflexivity. Qed.

(* offsets exist only on temperature POINTS (never on an interval or on any other quantity), and the Celsius and Fahrenheit scales are
   among them; further offset scales may be added to that one quantity *)
Theorem c05_offsets_only_on_temperature_points :
  forallb (fun p => String.eqb (fst p) "thermodynamic_temperature") offset_units
  && forallb (fun n => existsb (fun p => String.eqb (snd p) n) offset_units) ["degree_celsius"; "degree_fahrenheit"] = true.
Proof. vm_compute. reflexivity. Qed.

(* (5) the prefix! table *)
Theorem c05_prefix_table :
  forallb prefix_ok10 decimal_prefixes && forallb prefix_ok2 binary_prefixes
  && forallb prefix_known si_prefixes = true.
Proof. vm_compute. reflexivity. Qed.

(* (6) no coefficient is zero; unit names are unique within a quantity *)
Theorem c05_coefficients_nonzero_names_unique :
  forallb (fun q => forallb (fun u => negb (Qeq_bool (coef_q u) 0)) (q_units q) && names_unique q) si_quantities = true.
Proof. vm_compute. reflexivity. Qed.

(* sensitivity: the checker rejects a wrong prefix and a five-digit typo on a real unit *)
Example c05_checker_rejects_wrong_prefix :
  match find_quantity si_quantities "length" with
  | Some q => match find_unit q "kilometer" with
              | Some u => check_reading si_quantities si_prefixes (tol "length" "kilometer") q u [IUnit (Some "mega") "meter" "length" "meter"]
                          || check_reading si_quantities si_prefixes (tol "length" "kilometer") q
                               {| u_name := u_name u; u_coef := ELit 100001 (-2); u_const := None; u_abbr := []; u_sing := []; u_plur := [] |}
                               [IUnit (Some "kilo") "meter" "length" "meter"]
              | None => true end
  | None => true end = false.
Proof. vm_compute. reflexivity. Qed.
