(* C02 — Dimensionally or kind-wise invalid programs are rejected at compile time.
   Property theorems only; axiom-free.  General part: any kind table; SI part: the marker table,
   kinds and impl_from! list regenerated from /repo. *)
From Coq Require Import ZArith List Bool String.
From UomV Require Import Model.Tables Model.Typing Proofs.TypingP Gen.SiTables.
Import ListNotations.
Open Scope Z_scope.

Section T.
Variable kinds : list kind_decl.
Variable impl_from : list (string * string).
Variable n : nat.
Variable temp_dim : list Z.
Notation ty := (ty kinds impl_from n temp_dim).

(* + - % += -= %= compile only between the SAME dimension and kind (and a kind carrying the
   operator's marker); the only cross-kind exceptions are point +/- interval and interval + point *)
Theorem c02_additive :
  forall c o a b t, ty c (PAdditive o a b) = Some t ->
    (same_class a b = true /\ kind_has kinds (t_kind a) (aop_marker o) = true)
    \/ (is_point temp_dim a = true /\ is_interval temp_dim b = true /\ (o = AAdd \/ o = ASub \/ o = AAddAssign \/ o = ASubAssign))
    \/ (is_interval temp_dim a = true /\ is_point temp_dim b = true /\ o = AAdd).
Proof. intros c o a b t H. exact (ty_additive_sound kinds impl_from n temp_dim c o a b t H). Qed.

(* == != < <= > >= partial_cmp: same dimension and kind *)
Theorem c02_comparison : forall c a b t, ty c (PCompare a b) = Some t -> same_class a b = true.
Proof. intros c a b t H. exact (ty_compare_sound kinds impl_from n temp_dim c a b t H). Qed.

(* binding to an alias: identical dimension, kind and base units *)
Theorem c02_assignment : forall c alias e t, ty c (PLet alias e) = Some t -> qty_eqb alias e = true.
Proof. intros c alias e t H. exact (ty_let_sound kinds impl_from n temp_dim c alias e t H). Qed.

(* new::<N> / get::<N>: N must be a unit of this very quantity *)
Theorem c02_foreign_unit : forall c qm um t, ty c (PUnit qm um) = Some t -> qm = um.
Proof. intros c qm um t H. exact (ty_unit_sound kinds impl_from n temp_dim c qm um t H). Qed.

(* roots: only when every exponent is divisible *)
Theorem c02_roots :
  forall c a t, (ty c (PSqrt a) = Some t -> t_dim a = dpowi (t_dim t) 2) /\ (ty c (PCbrt a) = Some t -> t_dim a = dpowi (t_dim t) 3).
Proof.
  intros c a t. split; intros H.
  - exact (proj1 (ty_sqrt kinds impl_from n temp_dim c a t H)).
  - exact (proj1 (ty_cbrt kinds impl_from n temp_dim c a t H)).
Qed.

(* conversions: identity, or a pair listed by impl_from! with unchanged exponents *)
Theorem c02_conversions :
  forall c a b t, ty c (PFrom a b) = Some t -> qty_eqb a b = true \/ (t_dim a = t_dim b /\ In (t_kind a, t_kind b) impl_from).
Proof. intros c a b t H. exact (ty_from_sound kinds impl_from n temp_dim c a b t H). Qed.
End T.

(* ---- the SI as /repo declares it now ---- *)
Open Scope string_scope.
Definition si_temp : list Z := [0; 0; 0; 0; 1; 0; 0].
Definition si_ty := ty si_kinds si_impl_from 7 si_temp.
Definition tt (u : Z) : qty := mkQty si_temp "TemperatureKind" u.
Definition ti (u : Z) : qty := mkQty si_temp "Kind" u.
Definition both_cfgs : list cfg := [mkCfg true true; mkCfg false true; mkCfg true false; mkCfg false false].

(* two temperature points can be neither added nor subtracted nor negated (in any configuration) *)
Theorem c02_points_not_additive :
  forallb (fun c => forallb (fun o => match si_ty c (PAdditive o (tt 0) (tt 0)) with None => true | Some _ => false end) [AAdd; ASub; AAddAssign; ASubAssign]
                    && match si_ty c (PNeg (tt 0)) with None => true | Some _ => false end) both_cfgs = true.
Proof. vm_compute. reflexivity. Qed.

(* point +/- interval and interval + point do compile, giving a point; interval - point does not *)
Theorem c02_point_interval :
  forallb (fun c => match si_ty c (PAdditive AAdd (tt 0) (ti 0)), si_ty c (PAdditive ASub (tt 0) (ti 0)), si_ty c (PAdditive AAdd (ti 0) (tt 0)),
                          si_ty c (PAdditive ASub (ti 0) (tt 0)), si_ty c (PAdditive AAddAssign (ti 0) (tt 0)) with
                    | Some a, Some b, Some d, None, None => qty_eqb a (tt 0) && qty_eqb b (tt 0) && qty_eqb d (tt 0)
                    | _, _, _, _, _ => false end) both_cfgs = true.
Proof. vm_compute. reflexivity. Qed.

(* every impl_from! pair has exactly one default-kind side, never the temperature kind, and comes with its converse *)
Definition impl_from_shape : bool :=
  forallb (fun p => xorb (String.eqb (fst p) "Kind") (String.eqb (snd p) "Kind")
                    && negb (String.eqb (fst p) "TemperatureKind") && negb (String.eqb (snd p) "TemperatureKind")
                    && existsb (fun q => String.eqb (fst q) (snd p) && String.eqb (snd q) (fst p)) si_impl_from) si_impl_from.
Theorem c02_impl_from_shape : impl_from_shape = true.
Proof. vm_compute. reflexivity. Qed.

(* hence no conversion between two different non-default kinds, nor to/from a temperature point *)
Theorem c02_no_special_to_special :
  forall c a b t, si_ty c (PFrom a b) = Some t -> qty_eqb a b = true \/ t_kind a = "Kind" \/ t_kind b = "Kind".
Proof.
  intros c a b t H. destruct (c02_conversions si_kinds si_impl_from 7 si_temp c a b t H) as [E|[_ Hin]]; [left; exact E|right].
  assert (S := c02_impl_from_shape). unfold impl_from_shape in S. rewrite forallb_forall in S. specialize (S _ Hin). cbn [fst snd] in S.
  apply andb_prop in S. destruct S as [S _]. apply andb_prop in S. destruct S as [S _]. apply andb_prop in S. destruct S as [S _].
  destruct (String.eqb (t_kind a) "Kind") eqn:E1; [left; now apply String.eqb_eq|].
  destruct (String.eqb (t_kind b) "Kind") eqn:E2; [right; now apply String.eqb_eq|discriminate].
Qed.

(* the temperature kind carries none of the additive / negating / saturating markers (further restricted kinds may exist; the kinds
   of today's SI other than the temperature kind carry all twelve) *)
Theorem c02_only_temperature_kind_restricted :
  forallb (fun n => match find_kind si_kinds n with Some k => Nat.eqb (List.length (k_markers k)) 12 | None => false end)
          ["Kind"; "AngleKind"; "SolidAngleKind"; "InformationKind"; "ConstituentConcentrationKind"]
  && match find_kind si_kinds "TemperatureKind" with
     | Some k => forallb (fun m => negb (existsb (marker_eqb m) (k_markers k))) [MAdd; MAddAssign; MSub; MSubAssign; MNeg; MSaturating] | None => false end = true.
Proof. vm_compute. reflexivity. Qed.

(* ---- the generic operator impls of the source are bounded by the marker of their own trait on every dimension
   parameter (Gen/OpsSrc.v is regenerated from the source on every run) ---- *)
From UomV Require Import Model.OpsSrc Gen.OpsSrc Spec.OpsTie.
Theorem c02_operator_marker_bounds :
  forallb markers_ok src_ops = true
  /\ forallb (fun i => invocation_ok (snd i)) src_impl_ops_invocations = true.
Proof. split; [vm_compute; reflexivity|exact impl_ops_invocations_coherent]. Qed.
