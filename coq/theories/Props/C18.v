(* C18 — Angle and ratio functions act on the dimensionless magnitude, whatever the unit.
   Property theorems only.  The libm functions are parameters (`f` below is ANY function of the
   storage type): the theorems are about what uom does around them. *)
From Coq Require Import ZArith List Bool String.
From Flocq Require Import Core BinarySingleNaN.
From UomV Require Import Model.Tables Model.Conv Model.FloatM Model.FloatOps Model.Quantity Model.Storages Model.Run
  Proofs.FloatLemmas Proofs.ConvFloat Gen.SiTables.
Import ListNotations.
Open Scope Z_scope.

Section S.
Variables prec emax : Z.
Context (Hprec : Prec_gt_0 prec) (Hmax : Prec_lt_emax prec emax).
Notation fl := (binary_float prec emax).
Notation St := (StF prec emax Hprec Hmax).
Notation one := (fone prec emax Hprec Hmax).

(* a dimensionless quantity (all exponents zero) has base factor 1 in EVERY base-unit set, NaN coefficients included *)
Lemma zeros_unit_bases (U : list fl) n : unit_bases prec emax Hprec Hmax U (repeat 0 n).
Proof.
  intros p Hp. right. revert n Hp. induction U as [|u U IH]; intros [|n] Hp; cbn in Hp; try contradiction.
  destruct Hp as [<-|Hp]; [reflexivity|exact (IH n Hp)].
Qed.

(* inverse trigonometric functions (-> Angle::new::<radian>), exp/ln/... (-> Ratio::new::<ratio>), atan2:
   the result stored is exactly the storage type's function value, in any base-unit set *)
Theorem c18_result_is_function_value :
  forall lib (U : list fl) n (y : fl),
    q_new (St lib) U (repeat 0 n) one (B754_zero true) y = y.
Proof.
  intros lib U n y. unfold q_new. cbn [s_val s_conv StF s_cf].
  apply to_base_id. apply base_factor_one. apply zeros_unit_bases.
Qed.

(* sin/cos/tan/sinh/cosh/tanh act on the stored value, which IS the magnitude in radians: reading the
   angle in radians returns the stored value bit for bit *)
Theorem c18_stored_is_radians :
  forall lib (U : list fl) n (v : fl),
    q_get (St lib) U (repeat 0 n) one (B754_zero false) v = v.
Proof.
  intros lib U n v. unfold q_get. cbn [s_val s_conv StF s_cf].
  apply from_base_id. apply base_factor_one. apply zeros_unit_bases.
Qed.
End S.

(* ---- the published constants, on the regenerated tables, binary64 and binary32 ---- *)
Open Scope string_scope.
Definition ones : list cexpr := map (fun _ => ELit 1 0) si_base.
Definition get_in (run : flib -> req Z -> list Z) (m n : string) (vb : Z) : list Z :=
  match find_quantity si_quantities m with
  | Some q => match find_unit q n with
              | Some u => run LibStd (RGet ones (q_dim q) (u_coef u) (u_const u) vb)
              | None => [] end
  | None => [] end.
Definition lit_bits (run : flib -> req Z -> list Z) (m e : Z) : list Z := run LibStd (RCoef (ELit m e)).

Definition PI64 : Z := 4614256656552045848.    (* 0x400921FB54442D18 = core::f64::consts::PI *)
Definition PI32 : Z := 1078530011.             (* 0x40490FDB = core::f32::consts::PI *)
Definition dbl64 (b : Z) : Z := b + 2 ^ 52.    (* 2. * x for a normal binary64 *)
Definition dbl32 (b : Z) : Z := b + 2 ^ 23.

Theorem c18_half_turn_is_180_degrees :
  get_in run64 "angle" "degree" PI64 = lit_bits run64 180 0 /\ get_in run32 "angle" "degree" PI32 = lit_bits run32 180 0.
Proof. split; vm_compute; reflexivity. Qed.
Theorem c18_half_turn_is_pi_radians :
  get_in run64 "angle" "radian" PI64 = [PI64] /\ get_in run32 "angle" "radian" PI32 = [PI32].
Proof. split; vm_compute; reflexivity. Qed.
Theorem c18_full_turn_is_one_revolution :
  get_in run64 "angle" "revolution" (dbl64 PI64) = lit_bits run64 1 0 /\ get_in run32 "angle" "revolution" (dbl32 PI32) = lit_bits run32 1 0.
Proof. split; vm_compute; reflexivity. Qed.
Theorem c18_full_turn_is_360_degrees :
  get_in run64 "angle" "degree" (dbl64 PI64) = lit_bits run64 360 0 /\ get_in run32 "angle" "degree" (dbl32 PI32) = lit_bits run32 360 0.
Proof. split; vm_compute; reflexivity. Qed.
Theorem c18_sphere_is_4pi_steradians :
  get_in run64 "solid_angle" "steradian" (dbl64 (dbl64 PI64)) = [dbl64 (dbl64 PI64)]
  /\ get_in run32 "solid_angle" "steradian" (dbl32 (dbl32 PI32)) = [dbl32 (dbl32 PI32)].
Proof. split; vm_compute; reflexivity. Qed.
Theorem c18_sphere_is_one_spat :
  get_in run64 "solid_angle" "spat" (dbl64 (dbl64 PI64)) = lit_bits run64 1 0
  /\ get_in run32 "solid_angle" "spat" (dbl32 (dbl32 PI32)) = lit_bits run32 1 0.
Proof. split; vm_compute; reflexivity. Qed.

(* ---- every angle / ratio function of the source is the storage type's function of the same name applied to the stored value,
   wrapped as a ratio (into) or as radians / a ratio (Gen/DelegSrc.v is regenerated from src/si/angle.rs and ratio.rs on every run) ---- *)
From Coq Require Import String.
From UomV Require Import Model.DelegSrc Gen.DelegSrc Spec.DelegTie.
Theorem c18_angle_ratio_sources_are_direct :
  forallb (fun e => negb (String.eqb (dl_file e) "src/si/angle.rs" || String.eqb (dl_file e) "src/si/ratio.rs") || deleg_ok e) src_delegations = true
  /\ covers src_delegations "src/si/angle.rs" ("atan2"%string :: angle_fns) && covers src_delegations "src/si/ratio.rs" (ratio_to_angle ++ ratio_to_ratio) = true.
Proof. split; vm_compute; reflexivity. Qed.

(* ---- "sin of 90 degrees, of a quarter revolution and of pi/2 rad agree" needs the angle units to be the fractions of a turn their
   names say: on the regenerated tables, revolution = 2 pi, degree = pi/180, gon = pi/200, mil = pi/3200, minute = pi/10800,
   second = pi/648000 rad; spat = 4 pi sr and the square degree / minute / second are the squares (relative 5e-7: the mil is a 7-digit rounding) ---- *)
From UomV Require Import Spec.Names Spec.Anchors Spec.C05Defs.
Theorem c18_angle_units_are_fractions_of_a_turn : forallb anchor_seven turn_anchors = true.
Proof. vm_compute. reflexivity. Qed.
