(* C19 — Systems, quantities and units defined via the public macros behave like the SI.
   Every general theorem of this development (C01, C03, C06, C07, C08, C10, C11, C12, C15, C16) is stated
   for an ARBITRARY system: any number of base quantities, any base-unit coefficients, any unit
   tables.  What remains specific to a downstream system is its tables: here the 4-base system of
   /verif/harness/csys.rs, translated by the same translator on every run (Gen/CustomTables.v).
   Axiom-free, exhaustive. *)
From Coq Require Import ZArith QArith List String Bool.
From UomV Require Import Model.Tables Model.Text Spec.Names Proofs.TextP Gen.CustomTables Gen.CustomReadings.
Import ListNotations.
Open Scope string_scope.

(* every composable unit name of the custom system has the coefficient and dimension its composition yields, exactly to 1e-15 *)
Theorem c19_custom_units_coherent :
  incoherent cs_quantities cs_prefixes (fun _ _ => (1 # 1000000000000000)%Q) (fun _ _ => false) cs_readings = [].
Proof. vm_compute. reflexivity. Qed.

Theorem c19_custom_readings_cover_all_compound_names : List.length cs_readings = 7%nat.
Proof. reflexivity. Qed.

(* base units: coefficient exactly 1, no offset, dimension e_i *)
Definition unit_vector (n i : nat) : list Z := map (fun k => if Nat.eqb k i then 1%Z else 0%Z) (seq 0 n).
Fixpoint forallb_i {A} (f : nat -> A -> bool) (i : nat) (l : list A) : bool :=
  match l with [] => true | x :: r => f i x && forallb_i f (S i) r end.
Definition base_ok (i : nat) (b : base_decl) : bool :=
  match find_quantity cs_quantities (b_quantity b) with
  | Some q => match find_unit q (b_unit b) with
              | Some u => Qeq_bool (coef_q u) 1 && match u_const u with None => true | Some _ => false end
                          && list_Z_eqb (q_dim q) (unit_vector (List.length cs_base) i)
              | None => false end
  | None => false end.
Theorem c19_custom_base_units_one : forallb_i base_ok 0 cs_base = true.
Proof. vm_compute. reflexivity. Qed.

(* labels: unambiguous within a quantity and invariant under trim, so formatting then parsing returns the same conversion (c12_format_parse_roundtrip applies) *)
Theorem c19_custom_labels :
  forallb (fun q => match conflicts (q_units q) with [] => true | _ => false end
                    && match untrimmed_labels (q_units q) with [] => true | _ => false end) cs_quantities = true.
Proof. vm_compute. reflexivity. Qed.

(* exactly the two affine scales of `warmth` carry offsets *)
Theorem c19_custom_offsets :
  flat_map (fun q => flat_map (fun u => match u_const u with Some _ => [(q_mod q, u_name u)] | None => [] end) (q_units q)) cs_quantities
  = [("warmth", "degree_b"); ("warmth", "degree_c")].
Proof. vm_compute. reflexivity. Qed.

(* a unit added afterwards with unit! is not in the registry, hence never matched by the parser: for
   ANY unit list and any label carried by none of its units, parsing reports UnknownUnit *)
Theorem c19_added_unit_not_parsed :
  forall (V : Type) (parseV : text -> option V) (us : list unit_decl) a b v,
    forallb (fun c => negb (N.eqb c SP)) a = true -> parseV a = Some v ->
    forallb (fun u => negb (unit_matches (trim b) u)) us = true ->
    parse_quantity parseV us (List.app a (SP :: b)) = inl UnknownUnit.
Proof.
  intros V parseV us a b v Ha Hv Hn. apply (parse_unknown_unit parseV us a b v Ha Hv).
  unfold first_unit. destruct (find (unit_matches (trim b)) us) as [u|] eqn:E; [|reflexivity].
  apply find_some in E. destruct E as [Hin Hm]. rewrite forallb_forall in Hn. specialize (Hn u Hin). rewrite Hm in Hn. discriminate.
Qed.

(* the public unit! arm (the one downstream crates use) forwards every conversion term, labels and attributes to the @units arm
   (Gen/StorageSrc.v is regenerated from src/unit.rs on every run) *)
From Coq Require Import String.
From UomV Require Import Gen.StorageSrc Spec.StorageTie.
Theorem c19_public_unit_arm_forwards_everything :
  rows_eqb (class_rows "unit!:public arm" src_storage) (class_rows "unit!:public arm" expected_storage) = true
  /\ List.length (class_rows "unit!:public arm" src_storage) = 1%nat.
Proof. split; vm_compute; reflexivity. Qed.
