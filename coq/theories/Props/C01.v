(* C01 — Operator results carry the dimension that dimensional analysis prescribes.
   Property theorems only; axiom-free.  Exponent vectors have ANY length (any system of quantities)
   and unbounded integer exponents; `ty` is the typing judgement that the correspondence ties to
   rustc on generated programs. *)
From Coq Require Import ZArith List Bool String.
From UomV Require Import Model.Tables Model.Typing Proofs.TypingP.
Import ListNotations.
Open Scope Z_scope.

(* position by position: product = sum, quotient = difference, reciprocal = negation, power = product *)
Theorem c01_exponents :
  forall (a b : list Z) (e : Z) (i : nat), List.length a = List.length b -> (i < List.length a)%nat ->
    nth i (dmul a b) 0 = nth i a 0 + nth i b 0
    /\ nth i (ddiv a b) 0 = nth i a 0 - nth i b 0
    /\ nth i (drecip a) 0 = - nth i a 0
    /\ nth i (dpowi a e) 0 = nth i a 0 * e.
Proof.
  intros a b e i Hl Hi.
  exact (conj (dmul_nth a b i Hl Hi) (conj (ddiv_nth a b i Hl Hi) (conj (drecip_nth a i) (dpowi_nth a e i)))).
Qed.

(* roots exist exactly when every exponent is divisible, and invert the power (exact quotient) *)
Theorem c01_roots : forall (k : Z) (a r : list Z), k <> 0 -> (droot k a = Some r <-> a = dpowi r k).
Proof. intros k a r Hk. exact (droot_spec k a r Hk). Qed.

(* the dimensions form an abelian group under *, with / and recip derived and powi the Z-action *)
Theorem c01_group_laws :
  forall a b c : list Z,
    dmul a b = dmul b a /\ dmul (dmul a b) c = dmul a (dmul b c)
    /\ dmul (repeat 0 (List.length a)) a = a /\ dmul a (drecip a) = repeat 0 (List.length a)
    /\ ddiv a b = dmul a (drecip b)
    /\ dpowi a 1 = a /\ (forall e f, dpowi a (e + f) = dmul (dpowi a e) (dpowi a f)) /\ (forall e f, dpowi (dpowi a e) f = dpowi a (e * f)).
Proof.
  intros a b c.
  exact (conj (dmul_comm a b) (conj (dmul_assoc a b c) (conj (dmul_zero a) (conj (dmul_drecip a) (conj (ddiv_is_dmul_drecip a b)
        (conj (dpowi_one a) (conj (dpowi_add a) (dpowi_mul a)))))))).
Qed.

Section T.
Variable kinds : list kind_decl.
Variable impl_from : list (string * string).
Variable n : nat.
Variable temp_dim : list Z.
Notation ty := (ty kinds impl_from n temp_dim).

(* static result types: * / recip powi sqrt cbrt mul_add give the prescribed exponents and the DEFAULT kind *)
Theorem c01_multiplicative_results :
  forall c a b x e t,
    (ty c (PMul a b) = Some t -> t_dim t = dmul (t_dim a) (t_dim b) /\ t_kind t = default_kind /\ t_base t = t_base a)
    /\ (ty c (PDiv a b) = Some t -> t_dim t = ddiv (t_dim a) (t_dim b) /\ t_kind t = default_kind /\ t_base t = t_base a)
    /\ (ty c (PRecip a) = Some t -> t_dim t = drecip (t_dim a) /\ t_kind t = default_kind)
    /\ (ty c (PPowi a e) = Some t -> t_dim t = dpowi (t_dim a) e /\ t_kind t = default_kind)
    /\ (ty c (PSqrt a) = Some t -> t_dim a = dpowi (t_dim t) 2 /\ t_kind t = default_kind)
    /\ (ty c (PCbrt a) = Some t -> t_dim a = dpowi (t_dim t) 3 /\ t_kind t = default_kind)
    /\ (ty c (PMulAdd x a b) = Some t -> t_dim t = dmul (t_dim x) (t_dim a) /\ t_kind t = default_kind /\ t_dim b = t_dim t).
Proof.
  intros c a b x e t.
  exact (conj (ty_mul kinds impl_from n temp_dim c a b t) (conj (ty_div kinds impl_from n temp_dim c a b t)
        (conj (ty_recip kinds impl_from n temp_dim c a t) (conj (ty_powi kinds impl_from n temp_dim c a e t)
        (conj (ty_sqrt kinds impl_from n temp_dim c a t) (conj (ty_cbrt kinds impl_from n temp_dim c a t)
        (ty_muladd kinds impl_from n temp_dim c x a b t))))))).
Qed.

(* a bare number on the left keeps the operand's kind: 2.0 * q has q's type, 2.0 / q its negated exponents and its kind *)
Theorem c01_scalar_left :
  forall c a t, List.length (t_dim a) = n ->
    (ty c (PScalarLeftMul a) = Some t -> t = a)
    /\ (ty c (PScalarLeftDiv a) = Some t -> t_dim t = drecip (t_dim a) /\ t_kind t = t_kind a).
Proof.
  intros c a t Hn. split; intros H.
  - exact (ty_scalar_left_mul kinds impl_from n temp_dim c a t H Hn).
  - exact (ty_scalar_left_div kinds impl_from n temp_dim c a t H Hn).
Qed.

(* + - % unary minus, scaling by a bare number, rounding/sign functions, min/max, hypot return the
   dimension AND kind (the type) of their left operand *)
Theorem c01_left_operand_type :
  forall c p a t,
    (exists o b, p = PAdditive o a b /\ same_class a b = true) \/ p = PScalarRight a \/ p = PNeg a \/ p = PUnchanged a
    \/ (exists b, p = PSameTypeOp a b) \/ (exists b, p = PHypot a b) ->
    ty c p = Some t -> t = a.
Proof. intros c p a t H1 H2. exact (ty_left_operand kinds impl_from n temp_dim c p a t H1 H2). Qed.

(* interchangeable with the default-kind named quantity of that dimension: length / time IS a velocity *)
Theorem c01_named_interchange :
  forall c a b r q3,
    ty c (PMul a b) = Some r -> t_dim q3 = dmul (t_dim a) (t_dim b) -> t_kind q3 = default_kind -> t_base q3 = t_base a ->
    ty c (PLet q3 r) = Some q3.
Proof. intros c a b r q3 H1 H2 H3 H4. exact (ty_named_interchange kinds impl_from n temp_dim c a b r q3 H1 H2 H3 H4). Qed.
End T.

(* ---- the dimension rules of the typing model are the ones written in the result types of the source
   (Gen/OpsSrc.v is regenerated from src/system.rs on every run): * adds and / subtracts (left, right) exponents and gives the
   default kind in the left operand's base units; number * q and number / q take (0, q) and keep q's kind; recip negates; sqrt and
   cbrt divide exactly by 2 and 3; powi multiplies by the exponent; mul_add adds (self, a); all of these give the default kind ---- *)
From Coq Require Import String.
From UomV Require Import Model.OpsSrc Gen.OpsSrc Spec.OpsTie.
Theorem c01_source_dimension_rules_are_the_model_rules :
  dim_rules_ok src_dim_rules = true
  /\ muldiv_aliases src_impl_ops_invocations = [("Mul", "Sum"); ("Div", "Diff")]%string.
Proof. exact source_dimension_rules_are_the_model_rules. Qed.
