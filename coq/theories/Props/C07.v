(* C07 — Same-base operations equal the storage type's operations over any history.
   Property theorems only.  `f` below is ANY operation of the storage type (+ - % * / == <
   partial_cmp hypot ... : the statement is parametric in it), U is ANY base-unit vector (default
   or not), d any dimension vector, the history has any length. *)
From Coq Require Import ZArith QArith List Bool.
From Flocq Require Import Core BinarySingleNaN.
From UomV Require Import Model.Tables Model.Conv Model.FloatM Model.FloatOps Model.Exact Model.Quantity
  Model.Storages Model.Run Proofs.QuantityP Proofs.StoragesP.
Import ListNotations.
Open Scope Z_scope.

Section Float.
Variables prec emax : Z.
Context (Hprec : Prec_gt_0 prec) (Hmax : Prec_lt_emax prec emax).
Notation fl := (binary_float prec emax).
Notation St := (StF prec emax Hprec Hmax).

(* one operator: with shared base units the quantity operator IS the storage operator, bit for bit
   (every value: NaN, infinities, signed zeros), with or without autoconvert *)
Theorem c07_float_operator :
  forall lib ac (R : Type) (f : fl -> fl -> R) (U : list fl) (d : list Z) (a b : fl),
    Forall (fun u => is_nan u = false) U ->
    q_bin (St lib) f ac U U d a b = f a b.
Proof.
  intros lib ac R f U d a b HU.
  exact (q_bin_same_base (St lib) f ac U d a b (StF_refl prec emax Hprec Hmax lib U HU) (StF_retract prec emax Hprec Hmax lib)).
Qed.

Theorem c07_float_mul_add :
  forall lib ac f (U : list fl) (da ds : list Z) (x a b : fl),
    Forall (fun u => is_nan u = false) U ->
    q_muladd (St lib) f ac U U U da ds x a b = f x a b.
Proof.
  intros lib ac f U da ds x a b HU.
  exact (q_muladd_same_base (St lib) f ac U da ds x a b (StF_refl prec emax Hprec Hmax lib U HU) (StF_retract prec emax Hprec Hmax lib)).
Qed.

(* any history: the quantity register and the bare register show the same transcript *)
Theorem c07_float_history :
  forall lib ac (U : list fl) (d : list Z) (ops : list (hop (St lib))) (init : fl),
    Forall (fun u => is_nan u = false) U ->
    Forall (same_base (St lib) U) ops ->
    trace_q (St lib) ac U d ops init = trace_raw (St lib) ops init.
Proof.
  intros lib ac U d ops init HU Hops.
  exact (trace_q_raw (St lib) ac U d ops init (StF_refl prec emax Hprec Hmax lib U HU) (StF_retract prec emax Hprec Hmax lib) Hops).
Qed.
End Float.

(* rational storage (BigRational, Rational64 without overflow) *)
Theorem c07_rational_operator :
  forall ac (R : Type) (f : Q -> Q -> R) (U : list Q) (d : list Z) (a b : Q),
    q_bin StQ f ac U U d a b = f a b.
Proof. intros. exact (q_bin_same_base StQ f ac U d a b (StQ_refl U) StQ_retract). Qed.

Theorem c07_rational_history :
  forall ac (U : list Q) (d : list Z) (ops : list (hop StQ)) (init : Q),
    Forall (same_base StQ U) ops -> trace_q StQ ac U d ops init = trace_raw StQ ops init.
Proof. intros ac U d ops init H. exact (trace_q_raw StQ ac U d ops init (StQ_refl U) StQ_retract H). Qed.

(* integer storage (BigInt, BigUint, primitive integers without overflow) *)
Theorem c07_integer_operator :
  forall ac (R : Type) (f : Z -> Z -> R) (U : list Q) (d : list Z) (a b : Z),
    q_bin StZ f ac U U d a b = f a b.
Proof. intros. exact (q_bin_same_base StZ f ac U d a b (StZ_refl U) StZ_retract). Qed.

Theorem c07_integer_history :
  forall ac (U : list Q) (d : list Z) (ops : list (hop StZ)) (init : Z),
    Forall (same_base StZ U) ops -> trace_q StZ ac U d ops init = trace_raw StZ ops init.
Proof. intros ac U d ops init H. exact (trace_q_raw StZ ac U d ops init (StZ_refl U) StZ_retract H). Qed.

(* ---- non-vacuity and sensitivity (binary64, the km-g-h base of the correspondence stream) ---- *)
Definition km_U64 := map (eval_f 53 1024 p64 m64)
  [ELit 1 3; ELit 1 (-3); ELit 36 2; ELit 1 (-3); ELit 1 (-3); ELit 1 3; ELit 1 0].

Example c07_ex_premise : Forall (fun u : binary_float 53 1024 => is_nan u = false) km_U64.
Proof. repeat constructor. Qed.

(* Without the `r == l` short cut of change_base (the defect repaired by the first fix: commit),
   re-basing between identical base units is NOT the identity: v*k/k with k = 3600, v = 0.011. *)
Example c07_old_change_base_refuted :
  let k := eval_f 53 1024 p64 m64 (ELit 36 2) in
  let v := of_lit 53 1024 p64 m64 11 (-3) in
  fdiv 53 1024 p64 m64 (fmul 53 1024 p64 m64 v k) k <> v.
Proof. intros k v H. apply (f_equal (@B2SF _ _)) in H. vm_compute in H. discriminate. Qed.

(* ---- the unary helpers and predicates of the source (abs signum recip max min cbrt sqrt powi neg; classify and the is_ predicates) apply the storage
   type's operation of the same name to the stored value (Gen/DelegSrc.v is regenerated from src/system.rs on every run) ---- *)
From Coq Require Import String.
From UomV Require Import Model.DelegSrc Gen.DelegSrc Spec.DelegTie.
Theorem c07_helper_sources_are_direct :
  forallb (fun e => negb (String.eqb (dl_file e) "src/system.rs") || deleg_ok e) src_delegations = true
  /\ covers src_delegations "src/system.rs" (value_fns ++ predicate_fns) = true.
Proof. split; vm_compute; reflexivity. Qed.

(* Saturating, Sum, Zero / is_zero and Default forward to the storage type's own operation on the stored value(s) *)
Theorem c07_forwarding_impl_sources_are_direct :
  forallb (fun e => negb (in_list (dl_fn e) ["saturating_add"%string; "saturating_sub"%string; "sum"%string; "zero"%string; "is_zero"%string; "default"%string]) || deleg_ok e) src_delegations = true
  /\ covers src_delegations "src/system.rs" ["saturating_add"%string; "saturating_sub"%string; "sum"%string; "zero"%string; "is_zero"%string; "default"%string] = true.
Proof. split; vm_compute; reflexivity. Qed.

(* ---- the identity of re-basing between identical base units rests on the shortcut `if r == l { v }` of change_base, taken on
   the COEFFICIENTS (never on computed powers, which may overflow or underflow): the model's change_base is the source's
   (Gen/ConvSrc.v is regenerated from src/system.rs on every run) ---- *)
From UomV Require Import Model.Conv Model.ConvSrc Gen.ConvSrc Spec.ConvTie.
Theorem c07_same_base_shortcut_is_the_source :
  rebase_shape_ok src_change_base = true
  /\ forall (T : Type) (F : CF T) Ul Ur d v,
       fold_left (fun acc p => match acc with Some x => eval_rebase_step F src_change_base x p | None => None end)
                 (combine (combine Ul Ur) d) (Some v)
       = Some (change_base F Ul Ur d v).
Proof. exact change_base_is_the_source. Qed.
