(* C17 — Feature flags change what compiles, never what a compiled program computes.
   Property theorems only. *)
From Coq Require Import ZArith QArith List Bool String.
From Flocq Require Import Core BinarySingleNaN.
From UomV Require Import Model.Tables Model.Conv Model.FloatM Model.FloatOps Model.Exact Model.Quantity
  Model.Storages Model.Typing Model.Run Proofs.QuantityP Proofs.StoragesP Proofs.TypingP.
Import ListNotations.
Open Scope Z_scope.

(* autoconvert on/off: every operator whose impl exists in both flavours computes the same value when
   the operands share base units (the only case that compiles without autoconvert), in ANY base-unit
   set, for any storage operation f — floats (no NaN coefficient), rationals, integers *)
Theorem c17_autoconvert_agrees_float :
  forall prec emax (Hprec : Prec_gt_0 prec) (Hmax : Prec_lt_emax prec emax) lib (R : Type)
         (f : binary_float prec emax -> binary_float prec emax -> R) (U : list (binary_float prec emax)) d a b,
    Forall (fun u => is_nan u = false) U ->
    q_bin (StF prec emax Hprec Hmax lib) f true U U d a b = q_bin (StF prec emax Hprec Hmax lib) f false U U d a b.
Proof.
  intros prec emax Hprec Hmax lib R f U d a b HU.
  exact (q_bin_ac_agree (StF prec emax Hprec Hmax lib) f U d a b (StF_refl prec emax Hprec Hmax lib U HU) (StF_retract prec emax Hprec Hmax lib)).
Qed.

Theorem c17_autoconvert_agrees_exact :
  forall (R : Type) (f : Q -> Q -> R) (g : Z -> Z -> R) (U : list Q) d a b x y,
    q_bin StQ f true U U d a b = q_bin StQ f false U U d a b
    /\ q_bin StZ g true U U d x y = q_bin StZ g false U U d x y.
Proof.
  intros R f g U d a b x y. split.
  - exact (q_bin_ac_agree StQ f U d a b (StQ_refl U) StQ_retract).
  - exact (q_bin_ac_agree StZ g U d x y (StZ_refl U) StZ_retract).
Qed.

(* histories: the two flavours produce the same transcript *)
Theorem c17_autoconvert_agrees_history :
  forall prec emax (Hprec : Prec_gt_0 prec) (Hmax : Prec_lt_emax prec emax) lib
         (U : list (binary_float prec emax)) d (ops : list (hop (StF prec emax Hprec Hmax lib))) init,
    Forall (fun u => is_nan u = false) U -> Forall (same_base (StF prec emax Hprec Hmax lib) U) ops ->
    trace_q (StF prec emax Hprec Hmax lib) true U d ops init = trace_q (StF prec emax Hprec Hmax lib) false U d ops init.
Proof.
  intros prec emax Hprec Hmax lib U d ops init HU Hops.
  rewrite !(trace_q_raw (StF prec emax Hprec Hmax lib)) by (try apply StF_refl; try apply StF_retract; assumption). reflexivity.
Qed.

(* what compiles: without autoconvert, operands in different base-unit sets are rejected by every two-base operator;
   when the operands share base units the typing judgement does not depend on the flag *)
Theorem c17_mixed_base_rejected_without_autoconvert :
  forall kinds impl_from n temp a b, t_base a <> t_base b ->
    (forall o, ty kinds impl_from n temp (mkCfg false true) (PAdditive o a b) = None)
    /\ ty kinds impl_from n temp (mkCfg false true) (PCompare a b) = None
    /\ ty kinds impl_from n temp (mkCfg false true) (PMul a b) = None
    /\ ty kinds impl_from n temp (mkCfg false true) (PDiv a b) = None
    /\ ty kinds impl_from n temp (mkCfg false true) (PHypot a b) = None
    /\ (qty_eqb a b = false -> ty kinds impl_from n temp (mkCfg false true) (PFrom a b) = None).
Proof. intros kinds impl_from n temp a b H. exact (ty_mixed_base_rejected kinds impl_from n temp a b H). Qed.

(* std / no-std: NOT bit-identical (known finding, KNOWN_FINDINGS.txt classes nostd-powi, nostd-negzero).
   Witnesses, binary64: the two integer-power algorithms differ on 100^-3 (the factor of a cgs mass density);
   FloatCore's trunc gives +0.0 for -0.3 where IEEE gives -0.0 *)
Theorem c17_std_nostd_powi_refuted :
  let x := eval_f 53 1024 p64 m64 (ELit 1 (-2)) in
  fpowi 53 1024 p64 m64 LibStd x (-3) <> fpowi 53 1024 p64 m64 LibCore x (-3).
Proof. intros x H. apply (f_equal (@B2SF 53 1024)) in H. vm_compute in H. discriminate. Qed.

Theorem c17_std_nostd_trunc_refuted :
  let x := of_lit 53 1024 p64 m64 (-3) (-1) in
  fround_op 53 1024 p64 m64 LibStd RTrunc x = B754_zero true /\ fround_op 53 1024 p64 m64 LibCore RTrunc x = B754_zero false.
Proof. split; apply (@B2SF_inj 53 1024); vm_compute; reflexivity. Qed.

(* with default SI base units every base factor is 1 and the power algorithm is irrelevant: powi(1, e) = 1 in both libraries *)
Theorem c17_std_nostd_agree_on_unit_bases :
  forall prec emax (Hprec : Prec_gt_0 prec) (Hmax : Prec_lt_emax prec emax) e,
    fpowi prec emax Hprec Hmax LibStd (fone prec emax Hprec Hmax) e = fpowi prec emax Hprec Hmax LibCore (fone prec emax Hprec Hmax) e.
Proof. intros. rewrite !Proofs.FloatLemmas.fpowi_one. reflexivity. Qed.

(* ... and that is the only way the two integer-power algorithms can differ: for a NON-NEGATIVE exponent they perform the same
   multiplications in the same order (the same chain of squarings, the product of the squares at the set bits from the low bit
   up; std multiplies the first into 1, which is exact), for every float and any precision.  Hence with no negative exponent in
   the dimension, construction, read-back and re-basing are bit-identical with and without std in EVERY base-unit set; the
   known class nostd-powi is confined to dimensions with a negative exponent on a non-unit base unit (1 / x^n vs (1/x)^n). *)
From UomV Require Import Proofs.PowiAgree Model.Conv.
Theorem c17_std_nostd_powi_agree_nonneg :
  forall prec emax (Hprec : Prec_gt_0 prec) (Hmax : Prec_lt_emax prec emax) (x : binary_float prec emax) e,
    (0 <= e < 2 ^ 31)%Z -> fpowi prec emax Hprec Hmax LibStd x e = fpowi prec emax Hprec Hmax LibCore x e.
Proof. intros prec emax Hprec Hmax x e. exact (fpowi_std_core_agree_nonneg prec emax Hprec Hmax x e). Qed.

Theorem c17_std_nostd_conversions_agree_nonneg :
  forall prec emax (Hprec : Prec_gt_0 prec) (Hmax : Prec_lt_emax prec emax) U Ur d k c v,
    small_nonneg d ->
    to_base (CFfloat prec emax Hprec Hmax LibStd) U d k c v = to_base (CFfloat prec emax Hprec Hmax LibCore) U d k c v
    /\ from_base (CFfloat prec emax Hprec Hmax LibStd) U d k c v = from_base (CFfloat prec emax Hprec Hmax LibCore) U d k c v
    /\ change_base (CFfloat prec emax Hprec Hmax LibStd) U Ur d v = change_base (CFfloat prec emax Hprec Hmax LibCore) U Ur d v.
Proof.
  intros prec emax Hprec Hmax U Ur d k c v Hd.
  split; [exact (to_base_std_core_agree prec emax Hprec Hmax U d k c v Hd)|].
  split; [exact (from_base_std_core_agree prec emax Hprec Hmax U d k c v Hd)|].
  exact (change_base_std_core_agree prec emax Hprec Hmax U Ur d v Hd).
Qed.

(* ---- each autoconvert body in the source has exactly one not_autoconvert twin, which is the same expression
   without the re-basing, and conversely (Gen/OpsSrc.v is regenerated from the source on every run): disabling
   the feature cannot change what a same-base program computes ---- *)
From Coq Require Import List Bool String.
From UomV Require Import Model.OpsSrc Gen.OpsSrc Spec.OpsTie.
Theorem c17_operator_twins_differ_only_by_rebasing : twins_ok src_ops = true.
Proof. exact operator_twins_differ_only_by_rebasing. Qed.
