(* C14 — Time <-> std Duration conversion is total, classified and accurate (float storage).
   Property theorems only. *)
From Coq Require Import ZArith List Bool Lia.
From Flocq Require Import Core BinarySingleNaN.
From UomV Require Import Model.Tables Model.Conv Model.FloatM Model.FloatOps Model.Quantity Model.Storages
  Model.Duration Proofs.DurationP.
Import ListNotations.
Open Scope Z_scope.

Section S.
Variables prec emax : Z.
Context (Hprec : Prec_gt_0 prec) (Hmax : Prec_lt_emax prec emax).
Hypothesis Hp60 : prec <= 60.      (* f32: 24, f64: 53 *)
Notation fl := (binary_float prec emax).

(* never panics: Duration::new's carry cannot overflow, whatever the value, the base units, the
   coefficients (no hypothesis on U, ksec, knano: they may be anything, NaN included) *)
Theorem c14_never_panics :
  forall lib ac (U : list fl) dT (ksec knano v : fl),
    time_to_duration prec emax Hprec Hmax lib ac U dT ksec knano v <> DurPanic.
Proof. intros. exact (time_to_duration_no_panic prec emax Hprec Hmax Hp60 lib ac U dT ksec knano v). Qed.

(* a strictly negative stored value (however tiny, in whatever base unit) reports NegativeDuration;
   the test is made on the stored quantity, before any conversion can lose the sign *)
Theorem c14_negative :
  forall lib ac (U : list fl) dT (ksec knano v : fl),
    Forall (fun u => is_nan u = false) U ->
    flt prec emax v (B754_zero false) = true ->
    time_to_duration prec emax Hprec Hmax lib ac U dT ksec knano v = DurNegative.
Proof. intros lib ac U dT ksec knano v HU Hv. exact (time_to_duration_negative prec emax Hprec Hmax lib ac U dT ksec knano v HU Hv). Qed.

(* NaN reports Overflow (never Negative, never Ok) *)
Theorem c14_nan_overflow :
  forall lib ac (U : list fl) dT (ksec knano : fl),
    Forall (fun u => is_nan u = false) U ->
    time_to_duration prec emax Hprec Hmax lib ac U dT ksec knano B754_nan = DurOverflow.
Proof. intros lib ac U dT ksec knano HU. exact (time_to_duration_nan prec emax Hprec Hmax lib ac U dT ksec knano HU). Qed.

(* an Ok result is a well-formed Duration: 0 <= secs < 2^64, 0 <= nanos < 10^9 *)
Theorem c14_ok_wellformed :
  forall lib ac (U : list fl) dT (ksec knano v : fl) s n,
    time_to_duration prec emax Hprec Hmax lib ac U dT ksec knano v = DurOk s n ->
    0 <= s < 2 ^ 64 /\ 0 <= n < 1000000000.
Proof. intros lib ac U dT ksec knano v s n H. exact (time_to_duration_ok_wf prec emax Hprec Hmax lib ac U dT ksec knano v s n H). Qed.

(* to_u64 / to_u32 accept exactly -1 < x < 2^bits and truncate toward zero; 2^64 itself overflows *)
Theorem c14_to_uint_spec :
  forall bits (x : fl) z, to_uint prec emax bits x = Some z -> ftrunc_Z prec emax x = Some z /\ 0 <= z < 2 ^ bits.
Proof. intros bits x z H. exact (to_uint_spec prec emax bits x z H). Qed.
End S.

(* both zeros convert to the zero Duration; -0.0 is not negative (binary64, hour base) *)
Example c14_zeros_ok :
  let U := map (eval_f 53 1024 p64 m64) [ELit 1 0; ELit 1 0; ELit 36 2; ELit 1 0; ELit 1 0; ELit 1 0; ELit 1 0] in
  let dT := [0; 0; 1; 0; 0; 0; 0] in
  let one := eval_f 53 1024 p64 m64 (ELit 1 0) in let nano := eval_f 53 1024 p64 m64 (ELit 1 (-9)) in
  time_to_duration 53 1024 p64 m64 LibStd true U dT one nano (B754_zero true) = DurOk 0 0
  /\ time_to_duration 53 1024 p64 m64 LibStd true U dT one nano (B754_zero false) = DurOk 0 0.
Proof. split; vm_compute; reflexivity. Qed.

(* 7 s stored in hours converts to exactly 7 s (the defect repaired by the third fix: commit gave 7.999999999 s) *)
Example c14_seven_seconds_hour_base :
  let U := map (eval_f 53 1024 p64 m64) [ELit 1 0; ELit 1 0; ELit 36 2; ELit 1 0; ELit 1 0; ELit 1 0; ELit 1 0] in
  let dT := [0; 0; 1; 0; 0; 0; 0] in
  let one := eval_f 53 1024 p64 m64 (ELit 1 0) in let nano := eval_f 53 1024 p64 m64 (ELit 1 (-9)) in
  let stored := q_new (StF 53 1024 p64 m64 LibStd) U dT one (B754_zero true) (of_lit 53 1024 p64 m64 7 0) in
  time_to_duration 53 1024 p64 m64 LibStd true U dT one nano stored = DurOk 7 0.
Proof. vm_compute. reflexivity. Qed.
