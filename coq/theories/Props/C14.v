(* C14 — Time <-> std Duration conversion is total, classified and accurate (float storage).
   Property theorems only. *)
From Coq Require Import ZArith List Bool Lia.
From Flocq Require Import Core BinarySingleNaN.
From UomV Require Import Model.Tables Model.Conv Model.FloatM Model.FloatOps Model.Quantity Model.Storages
  Model.Duration Proofs.DurationP.
Import ListNotations.
Open Scope Z_scope.

Section S.
Variables prec emax : Z.
Context (Hprec : Prec_gt_0 prec) (Hmax : Prec_lt_emax prec emax).
Hypothesis Hp60 : prec <= 60.      (* f32: 24, f64: 53 *)
Notation fl := (binary_float prec emax).

(* never panics: Duration::new's carry cannot overflow, whatever the value, the base units, the
   coefficients (no hypothesis on U, ksec, knano: they may be anything, NaN included) *)
Theorem c14_never_panics :
  forall lib ac (U : list fl) dT (ksec knano v : fl),
    time_to_duration prec emax Hprec Hmax lib ac U dT ksec knano v <> DurPanic.
Proof. intros. exact (time_to_duration_no_panic prec emax Hprec Hmax Hp60 lib ac U dT ksec knano v). Qed.

(* a strictly negative stored value (however tiny, in whatever base unit) reports NegativeDuration;
   the test is made on the stored quantity, before any conversion can lose the sign *)
Theorem c14_negative :
  forall lib ac (U : list fl) dT (ksec knano v : fl),
    Forall (fun u => is_nan u = false) U ->
    flt prec emax v (B754_zero false) = true ->
    time_to_duration prec emax Hprec Hmax lib ac U dT ksec knano v = DurNegative.
Proof. intros lib ac U dT ksec knano v HU Hv. exact (time_to_duration_negative prec emax Hprec Hmax lib ac U dT ksec knano v HU Hv). Qed.

(* NaN reports Overflow (never Negative, never Ok) *)
Theorem c14_nan_overflow :
  forall lib ac (U : list fl) dT (ksec knano : fl),
    Forall (fun u => is_nan u = false) U ->
    time_to_duration prec emax Hprec Hmax lib ac U dT ksec knano B754_nan = DurOverflow.
Proof. intros lib ac U dT ksec knano HU. exact (time_to_duration_nan prec emax Hprec Hmax lib ac U dT ksec knano HU). Qed.

(* an Ok result is a well-formed Duration: 0 <= secs < 2^64, 0 <= nanos < 10^9 *)
Theorem c14_ok_wellformed :
  forall lib ac (U : list fl) dT (ksec knano v : fl) s n,
    time_to_duration prec emax Hprec Hmax lib ac U dT ksec knano v = DurOk s n ->
    0 <= s < 2 ^ 64 /\ 0 <= n < 1000000000.
Proof. intros lib ac U dT ksec knano v s n H. exact (time_to_duration_ok_wf prec emax Hprec Hmax lib ac U dT ksec knano v s n H). Qed.

(* to_u64 / to_u32 accept exactly -1 < x < 2^bits and truncate toward zero; 2^64 itself overflows *)
Theorem c14_to_uint_spec :
  forall bits (x : fl) z, to_uint prec emax bits x = Some z -> ftrunc_Z prec emax x = Some z /\ 0 <= z < 2 ^ bits.
Proof. intros bits x z H. exact (to_uint_spec prec emax bits x z H). Qed.
End S.

(* both zeros convert to the zero Duration; -0.0 is not negative (binary64, hour base) *)
Example c14_zeros_ok :
  let U := map (eval_f 53 1024 p64 m64) [ELit 1 0; ELit 1 0; ELit 36 2; ELit 1 0; ELit 1 0; ELit 1 0; ELit 1 0] in
  let dT := [0; 0; 1; 0; 0; 0; 0] in
  let one := eval_f 53 1024 p64 m64 (ELit 1 0) in let nano := eval_f 53 1024 p64 m64 (ELit 1 (-9)) in
  time_to_duration 53 1024 p64 m64 LibStd true U dT one nano (B754_zero true) = DurOk 0 0
  /\ time_to_duration 53 1024 p64 m64 LibStd true U dT one nano (B754_zero false) = DurOk 0 0.
Proof. split; vm_compute; reflexivity. Qed.

(* 7 s stored in hours converts to exactly 7 s (the defect repaired by the third fix: commit gave 7.999999999 s) *)
Example c14_seven_seconds_hour_base :
  let U := map (eval_f 53 1024 p64 m64) [ELit 1 0; ELit 1 0; ELit 36 2; ELit 1 0; ELit 1 0; ELit 1 0; ELit 1 0] in
  let dT := [0; 0; 1; 0; 0; 0; 0] in
  let one := eval_f 53 1024 p64 m64 (ELit 1 0) in let nano := eval_f 53 1024 p64 m64 (ELit 1 (-9)) in
  let stored := q_new (StF 53 1024 p64 m64 LibStd) U dT one (B754_zero true) (of_lit 53 1024 p64 m64 7 0) in
  time_to_duration 53 1024 p64 m64 LibStd true U dT one nano stored = DurOk 7 0.
Proof. vm_compute. reflexivity. Qed.

(* ---- accuracy (any binary format, any base-unit set, std or no-std power) ----
   T = v f / k_second: the time in seconds that the stored value v denotes (f = exact product of base-unit powers);
   G = k_second / k_nanosecond (the float-rounded 10^9).  An Ok result, counted in nanoseconds, is within
   one nanosecond plus ulp-sized terms of T: n1 roundings on the way to seconds, n2 + n3 on the sub-second part.
   Premise: no intermediate over/underflows (Safe: decidable, see SafeB) - for the fractional part only when
   it is non-zero; the conversions of 1 being safe makes a zero fractional part convert to zero nanoseconds. *)
From Coq Require Import Reals.
From UomV Require Import Proofs.Tree Proofs.ErrBound Proofs.SafeB Proofs.DurationAcc.
Section Acc.
Variables prec emax : Z.
Context (Hprec : Prec_gt_0 prec) (Hmax : Prec_lt_emax prec emax).
Notation fl := (binary_float prec emax).
Notation one := (fone prec emax Hprec Hmax).
Open Scope R_scope.

Theorem c14_to_duration_accuracy :
  forall lib ac (U : list fl) dT (ksec knano v : fl) s n,
  Forall (fun u => is_nan u = false) U ->
  time_to_duration prec emax Hprec Hmax lib ac U dT ksec knano v = DurOk s n ->
  let t1 := from_base_tree prec emax Hprec Hmax lib U dT ksec v in
  let frac := frem prec emax Hprec Hmax (evalF prec emax Hprec Hmax t1) one in
  let t2 := to_base_tree prec emax Hprec Hmax lib U dT ksec frac in
  let t3 := from_base_tree prec emax Hprec Hmax lib U dT knano (evalF prec emax Hprec Hmax t2) in
  let T := B2R v * factor_R prec emax lib U dT / B2R ksec in
  let G := B2R ksec / B2R knano in
  Safe prec emax Hprec Hmax t1 ->
  Safe prec emax Hprec Hmax (to_base_tree prec emax Hprec Hmax lib U dT ksec one) ->
  Safe prec emax Hprec Hmax (from_base_tree prec emax Hprec Hmax lib U dT knano one) ->
  (B2R frac <> 0 -> Safe prec emax Hprec Hmax t2 /\ Safe prec emax Hprec Hmax t3) ->
  0 < B2R ksec -> 0 < B2R knano ->
  Rabs (IZR (s * 1000000000 + n) - T * 1000000000)
    <= 1000000000 * (H prec ^ ops prec emax t1 - 1) * Rabs T + 1
       + G * (H prec ^ (ops prec emax t2 + ops prec emax t3) - 1) + Rabs (G - 1000000000).
Proof.
  intros lib ac U dT ksec knano v s n HU Hok t1 frac t2 t3 T G S1 Su2 Su3 Snz Pk Pn.
  exact (to_duration_accuracy prec emax Hprec Hmax lib ac U dT ksec knano v s n HU Hok S1 Su2 Su3 Snz Pk Pn).
Qed.

(* Duration -> Time: X = (secs k_second + nanos k_nanosecond) / f is the exact stored value; the result is within
   (two roundings more than the longer of the two conversions) relative of it, and finite *)
Theorem c14_from_duration_accuracy :
  (64 < emax)%Z ->
  forall lib ac (U : list fl) dT (ksec knano : fl) secs nanos,
  Forall (fun u => is_nan u = false) U ->
  (0 <= secs < 2 ^ 64)%Z -> (0 <= nanos < 2 ^ 32)%Z ->
  let ta := to_base_tree prec emax Hprec Hmax lib U dT ksec (of_Z prec emax Hprec Hmax secs) in
  let tn := to_base_tree prec emax Hprec Hmax lib U dT knano (of_Z prec emax Hprec Hmax nanos) in
  let X := (IZR secs * B2R ksec + IZR nanos * B2R knano) / factor_R prec emax lib U dT in
  let r := duration_to_time prec emax Hprec Hmax lib ac U dT ksec knano secs nanos in
  Safe prec emax Hprec Hmax (to_base_tree prec emax Hprec Hmax lib U dT ksec one) ->
  Safe prec emax Hprec Hmax (to_base_tree prec emax Hprec Hmax lib U dT knano one) ->
  (secs <> 0%Z -> Safe prec emax Hprec Hmax ta) -> (nanos <> 0%Z -> Safe prec emax Hprec Hmax tn) ->
  (X <> 0 -> normal prec emax (B2R (evalF prec emax Hprec Hmax ta) + B2R (evalF prec emax Hprec Hmax tn))) ->
  0 < B2R ksec -> 0 < B2R knano -> 0 < factor_R prec emax lib U dT ->
  is_finite r = true /\
  Rabs (B2R r - X) <= (H prec ^ (S (S (Nat.max (ops prec emax ta) (ops prec emax tn)))) - 1) * Rabs X.
Proof.
  intros He lib ac U dT ksec knano secs nanos HU Hs Hn ta tn X r Sus Sun Ss Sn Nrm Pk Pn Pf.
  exact (from_duration_accuracy prec emax Hprec Hmax He lib ac U dT ksec knano secs nanos HU Hs Hn Sus Sun Ss Sn Nrm Pk Pn Pf).
Qed.

(* the pieces are exact: to_u64/to_u32 truncate the real value; `% 1` leaves exactly the fractional part *)
Theorem c14_trunc_and_fract_exact :
  forall x : fl, is_finite x = true ->
    ftrunc_Z prec emax x = Some (Ztrunc (B2R x))
    /\ B2R (frem prec emax Hprec Hmax x one) = B2R x - IZR (Ztrunc (B2R x)).
Proof.
  intros x Fx. split; [exact (ftrunc_Z_Ztrunc prec emax x Fx)|].
  exact (proj2 (frem_one prec emax Hprec Hmax x Fx)).
Qed.
End Acc.

(* non-vacuity (binary64, hour base): 7.25 s stored in hours converts to Ok, and every premise of the
   accuracy theorem is met; 9 + (9 + 9) roundings *)
Definition hour_U := map (eval_f 53 1024 p64 m64) [ELit 1 0; ELit 1 0; ELit 36 2; ELit 1 0; ELit 1 0; ELit 1 0; ELit 1 0].
Definition dTime := [0; 0; 1; 0; 0; 0; 0]%Z.
Definition k_sec := eval_f 53 1024 p64 m64 (ELit 1 0).
Definition k_nano := eval_f 53 1024 p64 m64 (ELit 1 (-9)).
Definition stored_725 := q_new (StF 53 1024 p64 m64 LibStd) hour_U dTime k_sec (B754_zero true) (of_lit 53 1024 p64 m64 725 (-2)).
Example c14_accuracy_premises_64 :
  let t1 := from_base_tree 53 1024 p64 m64 LibStd hour_U dTime k_sec stored_725 in
  let frac := frem 53 1024 p64 m64 (evalF 53 1024 p64 m64 t1) (fone 53 1024 p64 m64) in
  let t2 := to_base_tree 53 1024 p64 m64 LibStd hour_U dTime k_sec frac in
  let t3 := from_base_tree 53 1024 p64 m64 LibStd hour_U dTime k_nano (evalF 53 1024 p64 m64 t2) in
  (exists n, time_to_duration 53 1024 p64 m64 LibStd true hour_U dTime k_sec k_nano stored_725 = DurOk 7 n
             /\ (249999999 <= n <= 250000000)%Z)
  /\ Safe 53 1024 p64 m64 t1
  /\ Safe 53 1024 p64 m64 (to_base_tree 53 1024 p64 m64 LibStd hour_U dTime k_sec (fone 53 1024 p64 m64))
  /\ Safe 53 1024 p64 m64 (from_base_tree 53 1024 p64 m64 LibStd hour_U dTime k_nano (fone 53 1024 p64 m64))
  /\ Safe 53 1024 p64 m64 t2 /\ Safe 53 1024 p64 m64 t3
  /\ is_finite_strict frac = true
  /\ (ops 53 1024 t1 + (ops 53 1024 t2 + ops 53 1024 t3) <= 60)%nat.
Proof.
  cbv zeta.
  split; [eexists; split; [vm_compute; reflexivity|vm_compute; split; discriminate]|].
  split; [apply safe64_sound; vm_compute; reflexivity|].
  split; [apply safe64_sound; vm_compute; reflexivity|].
  split; [apply safe64_sound; vm_compute; reflexivity|].
  split; [apply safe64_sound; vm_compute; reflexivity|].
  split; [apply safe64_sound; vm_compute; reflexivity|].
  split; [vm_compute; reflexivity|].
  vm_compute. lia.
Qed.

(* ---- primitive-integer storage (Model/DurationW.v: the same statements over the width-checked Ratio<iN> of Model/Fixed.v;
   DurPanic = an intermediate leaves the type's range).  For every width, base units and value: a strictly negative stored value is
   the negative-duration error; an Ok result is the exact time in seconds truncated toward zero, below 2^64, with zero nanoseconds.
   The property's "never panics" FAILS for integer storage, and the model says exactly where (known findings): with i32 and the
   hour as base unit it panics for EVERY non-negative value, a theorem; with i64 and the hour it panics for 3*10^15 h although
   that is 1.08*10^19 s < 2^64 s, a representable Duration. ---- *)
From Coq Require Import QArith.
From UomV Require Import Model.Fixed Model.DurationW Model.Exact Proofs.ExactP Proofs.FixedP Proofs.DurationWP.

Theorem c14_integer_negative :
  forall lo hi U dT ks kn v, (lo <= 0)%Z -> (0 <= hi)%Z -> wfs U -> (v < 0)%Z ->
    time_to_duration_w lo hi U dT ks kn v = DurNegative.
Proof. intros lo hi U dT ks kn v Hlo Hhi. exact (to_duration_w_negative lo hi Hlo Hhi U dT ks kn v). Qed.

Theorem c14_integer_ok_is_exact :
  forall lo hi U dT ks kn v s n, (lo <= 0)%Z -> (0 <= hi)%Z -> wfs U -> wf ks -> wf kn ->
    time_to_duration_w lo hi U dT ks kn v = DurOk s n ->
    (0 <= v)%Z /\ n = 0%Z
    /\ s = q_to_integer (inject_Z v * pi (combine (map qv U) dT) / qv ks)%Q /\ (0 <= s < 2 ^ 64)%Z.
Proof. intros lo hi U dT ks kn v s n Hlo Hhi. exact (to_duration_w_ok lo hi Hlo Hhi U dT ks kn v s n). Qed.

Theorem c14_known_finding_i32_hour_base_always_panics :
  forall v, (0 <= v)%Z -> time_to_duration_w i32_lo i32_hi hour_base dim_time (1, 1)%Z (1, 1000000000)%Z v = DurPanic.
Proof. exact i32_hour_base_always_panics. Qed.

Example c14_known_finding_i64_hours_witness :
  time_to_duration_w (- 2 ^ 63) (2 ^ 63 - 1) hour_base dim_time (1, 1)%Z (1, 1000000000)%Z 3000000000000000 = DurPanic
  /\ (3000000000000000 * 3600 < 2 ^ 64)%Z
  /\ time_to_duration_w (- 2 ^ 63) (2 ^ 63 - 1) hour_base dim_time (1, 1)%Z (1, 1000000000)%Z 7 = DurOk 25200 0.
Proof. split; [vm_compute; reflexivity|]. split; [vm_compute; reflexivity|vm_compute; reflexivity]. Qed.

(* ---- the two conversions of src/si/time.rs that Model/Duration.v transcribes (Gen/BodySrc.v is regenerated on every run) ---- *)
From Coq Require Import String.
From UomV Require Import Gen.BodySrc Spec.BodyTie.
Theorem c14_conversion_sources_are_what_the_model_transcribes :
  body_pinned "duration_from_time"%string = true /\ body_pinned "time_from_duration"%string = true.
Proof. split; vm_compute; reflexivity. Qed.
