(* C13 — Serialization is transparent and round-trips.  Property theorems only; axiom-free.
   `serV` / `deV` are the storage type's Serialize / Deserialize for ANY data format `Doc`. *)
From Coq Require Import List ZArith.
From UomV Require Import Model.Serde.

Section S.
Context {V Doc : Type} (serV : V -> Doc) (deV : Doc -> option V).

(* a quantity serializes to exactly what its stored value serializes to *)
Theorem c13_serialize_transparent : forall q : quantity V, q_serialize serV q = serV (q_val q).
Proof. reflexivity. Qed.

(* ... whatever its dimension and base units *)
Theorem c13_serialize_independent_of_types :
  forall d d' b b' (v : V), q_serialize serV (mkQ d b v) = q_serialize serV (mkQ d' b' v).
Proof. reflexivity. Qed.

(* it deserializes from exactly what the storage type deserializes from, and rejects what it rejects *)
Theorem c13_deserialize_transparent :
  forall d b x, q_deserialize deV d b x = option_map (mkQ d b) (deV x).
Proof. intros d b x. unfold q_deserialize. destruct (deV x); reflexivity. Qed.

Theorem c13_deserialize_rejects_iff :
  forall d b x, q_deserialize deV d b x = None <-> deV x = None.
Proof. intros d b x. unfold q_deserialize. destruct (deV x); split; congruence. Qed.

(* deserialize(serialize(q)) = q for every format in which the storage type round-trips *)
Theorem c13_roundtrip :
  (forall v, deV (serV v) = Some v) ->
  forall d b v, q_deserialize deV d b (q_serialize serV (mkQ d b v)) = Some (mkQ d b v).
Proof. intros H d b v. unfold q_deserialize, q_serialize. cbn. now rewrite H. Qed.
End S.

(* ---- Serialize / Deserialize of the source forward to the storage type and wrap the value unchanged (Gen/DelegSrc.v is
   regenerated from src/system.rs on every run) ---- *)
From Coq Require Import String List Bool.
From UomV Require Import Model.DelegSrc Gen.DelegSrc Spec.DelegTie.
Import ListNotations.
Theorem c13_serde_sources_forward :
  forallb (fun e => negb (in_list (dl_fn e) ["serialize"%string; "deserialize"%string]) || deleg_ok e) src_delegations = true
  /\ covers src_delegations "src/system.rs"%string ["serialize"%string; "deserialize"%string] = true.
Proof. split; vm_compute; reflexivity. Qed.
