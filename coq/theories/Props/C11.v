(* C11 — Formatting prints the value in the requested unit with the right label.
   Property theorems only.  `shown` is the storage type's own formatting of the converted value
   under the caller's format spec (an oracle: width, precision, sign, fill, radix are its business). *)
From Coq Require Import ZArith NArith List Bool.
From UomV Require Import Model.Tables Model.Text Proofs.TextP.
Import ListNotations.
Open Scope N_scope.

(* the output is exactly: the storage type's text, ONE space, the label *)
Theorem c11_format_composition :
  forall st u shown one, fmt_quantity st u shown one = shown ++ [SP] ++ label st u one.
Proof. reflexivity. Qed.

(* the label is the abbreviation, or the singular name if and only if the converted value is one, else the plural *)
Theorem c11_label_choice :
  forall u one,
    label Abbreviation u one = u_abbr u
    /\ label Description u true = u_sing u
    /\ label Description u false = u_plur u.
Proof. intros u one. repeat split. Qed.

(* the number part is untouched by the label: the output starts with the storage type's text *)
Theorem c11_number_prefix :
  forall st u shown one, firstn (List.length shown) (fmt_quantity st u shown one) = shown.
Proof. intros st u shown one. unfold fmt_quantity. rewrite firstn_app, Nat.sub_diag, firstn_all. cbn. apply app_nil_r. Qed.

(* Debug of a bare quantity: stored value, then ` <abbr>^<d>` for exactly the non-zero exponents in system order *)
Theorem c11_debug_step :
  forall shown a abbrs e d,
    debug_quantity shown (a :: abbrs) (e :: d)
    = debug_quantity (shown ++ (if Z.eqb e 0 then [] else [SP] ++ a ++ [94] ++ dec_Z e)) abbrs d.
Proof. intros. unfold debug_quantity. rewrite debug_suffix_cons, app_assoc. reflexivity. Qed.

Theorem c11_debug_dimensionless :
  forall shown abbrs d, Forall (fun e => e = 0%Z) d -> debug_quantity shown abbrs d = shown.
Proof. intros shown abbrs d H. unfold debug_quantity. rewrite (debug_suffix_all_zero abbrs d H). apply app_nil_r. Qed.

Example c11_debug_velocity :
  debug_quantity [49] [[109]; [107; 103]; [115]; [65]; [75]; [109; 111; 108]; [99; 100]] [1; 0; -1; 0; 0; 0; 0]%Z
  = [49; 32; 109; 94; 49; 32; 115; 94; 45; 49].      (* "1 m^1 s^-1" *)
Proof. vm_compute. reflexivity. Qed.
