(* C11 — Formatting prints the value in the requested unit with the right label.
   Property theorems only.  `shown` is the storage type's own formatting of the converted value
   under the caller's format spec (an oracle: width, precision, sign, fill, radix are its business). *)
From Coq Require Import ZArith NArith List Bool.
From UomV Require Import Model.Tables Model.Text Proofs.TextP.
Import ListNotations.
Open Scope N_scope.

(* the output is exactly: the storage type's text, ONE space, the label *)
Theorem c11_format_composition :
  forall st u shown one, fmt_quantity st u shown one = shown ++ [SP] ++ label st u one.
Proof. reflexivity. Qed.

(* the label is the abbreviation, or the singular name if and only if the converted value is one, else the plural *)
Theorem c11_label_choice :
  forall u one,
    label Abbreviation u one = u_abbr u
    /\ label Description u true = u_sing u
    /\ label Description u false = u_plur u.
Proof. intros u one. repeat split. Qed.

(* the number part is untouched by the label: the output starts with the storage type's text *)
Theorem c11_number_prefix :
  forall st u shown one, firstn (List.length shown) (fmt_quantity st u shown one) = shown.
Proof. intros st u shown one. unfold fmt_quantity. rewrite firstn_app, Nat.sub_diag, firstn_all. cbn. apply app_nil_r. Qed.

(* Debug of a bare quantity: stored value, then ` <abbr>^<d>` for exactly the non-zero exponents in system order *)
Theorem c11_debug_step :
  forall shown a abbrs e d,
    debug_quantity shown (a :: abbrs) (e :: d)
    = debug_quantity (shown ++ (if Z.eqb e 0 then [] else [SP] ++ a ++ [94] ++ dec_Z e)) abbrs d.
Proof. intros. unfold debug_quantity. rewrite debug_suffix_cons, app_assoc. reflexivity. Qed.

Theorem c11_debug_dimensionless :
  forall shown abbrs d, Forall (fun e => e = 0%Z) d -> debug_quantity shown abbrs d = shown.
Proof. intros shown abbrs d H. unfold debug_quantity. rewrite (debug_suffix_all_zero abbrs d H). apply app_nil_r. Qed.

Example c11_debug_velocity :
  debug_quantity [49] [[109]; [107; 103]; [115]; [65]; [75]; [109; 111; 108]; [99; 100]] [1; 0; -1; 0; 0; 0; 0]%Z
  = [49; 32; 109; 94; 49; 32; 115; 94; 45; 49].      (* "1 m^1 s^-1" *)
Proof. vm_compute. reflexivity. Qed.

(* ---- the source the text model transcribes: QuantityArguments' fmt (value read in the unit, formatted by the storage type with the
   caller's formatter, one blank, label by style and is_one), Debug's fmt (value, then ' abbr^d' for the non-zero exponents in order),
   and the three constructors through which unit, style and quantity reach it (Gen/BodySrc.v is regenerated from src/system.rs and
   src/quantity.rs on every run) ---- *)
From Coq Require Import String.
From UomV Require Import Gen.BodySrc Spec.BodyTie.
Theorem c11_formatting_sources_are_what_the_model_transcribes :
  forallb body_pinned ["arguments_fmt"%string; "debug_fmt"%string; "format_args"%string; "into_format_args"%string; "arguments_with"%string] = true.
Proof. vm_compute. reflexivity. Qed.
