(* C03 — Unit conversion on construction and read-back is numerically faithful (floats).
   Property theorems only: each is closed by `exact <lemma>`; statements are about the functions
   the extracted runner executes (Model.Run.f_new / f_get = Model.Conv.to_base / from_base at
   the IEEE instance), for EVERY precision/exponent range, every base-unit vector, every dimension
   vector of any length, every value (signed zeros, infinities, subnormals, NaN included). *)
From Coq Require Import ZArith Reals Bool List.
From Flocq Require Import Core BinarySingleNaN.
From UomV Require Import Model.Tables Model.Conv Model.FloatM Model.Quantity Model.Storages Model.Run Proofs.FloatLemmas Proofs.ConvFloat
  Proofs.Tree Proofs.PowR Proofs.ErrBound Proofs.SafeB Proofs.ErrOffset.
Import ListNotations.
Open Scope Z_scope.

Section Stmt.
Variables prec emax : Z.
Context (Hprec : Prec_gt_0 prec) (Hmax : Prec_lt_emax prec emax).
Notation fl := (binary_float prec emax).
Notation ev := (eval_f prec emax Hprec Hmax).
Notation F lib := (CFfloat prec emax Hprec Hmax lib).
Notation one := (@fone prec emax Hprec Hmax).

(* (1) With the coherent base unit itself the conversion is the bit-exact identity.
   "Coherent base unit" = the unit whose coefficient equals the computed coefficient of the
   base-unit combination in use (meter in the SI base, kilometer in a km base, ...), no offset. *)
Theorem c03_base_unit_new_identity :
  forall lib U d coef (v : fl),
    finite_nz prec emax (ev coef) = true ->
    base_factor (F lib) (map ev U) d = ev coef ->
    f_new prec emax Hprec Hmax lib U d coef None v = v.
Proof. intros lib U d coef v Hk Hf. exact (to_base_base_unit prec emax Hprec Hmax lib (map ev U) d (ev coef) v Hk Hf). Qed.

Theorem c03_base_unit_get_identity :
  forall lib U d coef (v : fl),
    finite_nz prec emax (ev coef) = true ->
    base_factor (F lib) (map ev U) d = ev coef ->
    f_get prec emax Hprec Hmax lib U d coef None v = v.
Proof. intros lib U d coef v Hk Hf. exact (from_base_base_unit prec emax Hprec Hmax lib (map ev U) d (ev coef) v Hk Hf). Qed.

(* (2) The premise of (1) holds structurally in the default base: every base unit the dimension
   uses has coefficient 1, and so has the unit. *)
Theorem c03_default_base_factor_one :
  forall lib U d, unit_bases prec emax Hprec Hmax (map ev U) d -> base_factor (F lib) (map ev U) d = one.
Proof. intros lib U d H. exact (base_factor_one prec emax Hprec Hmax lib (map ev U) d H). Qed.

(* (3) Default base: construction is ONE correctly rounded product after the offset addition —
   in both branches of `coef >= f`; read-back is the quotient (or the product with the rounded
   reciprocal when coef < 1), then the offset subtraction. *)
Theorem c03_default_base_new :
  forall lib U d coef const (v : fl),
    base_factor (F lib) (map ev U) d = one ->
    f_new prec emax Hprec Hmax lib U d coef const v
    = fmul prec emax Hprec Hmax (fadd prec emax Hprec Hmax v (cons_add prec emax Hprec Hmax const)) (ev coef).
Proof. intros lib U d coef const v Hf. exact (to_base_default prec emax Hprec Hmax lib (map ev U) d (ev coef) _ v Hf). Qed.

Theorem c03_default_base_get :
  forall lib U d coef const (v : fl),
    base_factor (F lib) (map ev U) d = one ->
    f_get prec emax Hprec Hmax lib U d coef const v
    = if flt prec emax (ev coef) one
      then fsub prec emax Hprec Hmax (fmul prec emax Hprec Hmax v (fdiv prec emax Hprec Hmax one (ev coef))) (cons_sub prec emax Hprec Hmax const)
      else fsub prec emax Hprec Hmax (fdiv prec emax Hprec Hmax v (ev coef)) (cons_sub prec emax Hprec Hmax const).
Proof. intros lib U d coef const v Hf. exact (from_base_default prec emax Hprec Hmax lib (map ev U) d (ev coef) _ v Hf). Qed.

(* (4) The offset is applied exactly once: before the scaling on construction, after it on
   read-back; for offset-free units the constants -0.0 / +0.0 change nothing, for any value. *)
Theorem c03_offset_once_new :
  forall lib U d coef const (v : fl),
    f_new prec emax Hprec Hmax lib U d coef const v
    = f_new prec emax Hprec Hmax lib U d coef None (fadd prec emax Hprec Hmax v (cons_add prec emax Hprec Hmax const)).
Proof. intros. exact (to_base_offset_split prec emax Hprec Hmax lib (map ev U) d (ev coef) _ v). Qed.

Theorem c03_offset_once_get :
  forall lib U d coef const (v : fl),
    f_get prec emax Hprec Hmax lib U d coef const v
    = fsub prec emax Hprec Hmax (f_get prec emax Hprec Hmax lib U d coef None v) (cons_sub prec emax Hprec Hmax const).
Proof. intros. exact (from_base_offset_split prec emax Hprec Hmax lib (map ev U) d (ev coef) _ v). Qed.

(* (5) construct-then-read with the coherent base unit returns the input bit for bit *)
Theorem c03_base_unit_roundtrip :
  forall lib U d coef (v : fl),
    finite_nz prec emax (ev coef) = true ->
    base_factor (F lib) (map ev U) d = ev coef ->
    f_get prec emax Hprec Hmax lib U d coef None (f_new prec emax Hprec Hmax lib U d coef None v) = v.
Proof. intros lib U d coef v Hk Hf. rewrite c03_base_unit_new_identity by assumption. exact (c03_base_unit_get_identity lib U d coef v Hk Hf). Qed.

End Stmt.

(* (6) ACCURACY, any precision, any base-unit vector, any exponents, either power algorithm: for an
   offset-free unit, whenever no intermediate overflows or underflows (Safe: every intermediate
   product/quotient of the expression, as a real, lies in the normal range), construction stores
   and read-back returns the conversion formula within (1/(1-u))^n - 1 relative, n = the number of
   floating-point operations the expression performs (a few ulps: n is 2 with default base units).
   factor_R is the exact (real-arithmetic) product of the base-unit coefficients' integer powers. *)
Section Accuracy.
Variables prec emax : Z.
Context (Hprec : Prec_gt_0 prec) (Hmax : Prec_lt_emax prec emax).
Notation fl := (binary_float prec emax).
Notation ev := (eval_f prec emax Hprec Hmax).
Open Scope R_scope.

Theorem c03_new_relative_error :
  forall lib U d coef (v : fl),
    let t := to_base_tree prec emax Hprec Hmax lib (map ev U) d (ev coef) v in
    Safe prec emax Hprec Hmax t ->
    f_new prec emax Hprec Hmax lib U d coef None v = evalF prec emax Hprec Hmax t
    /\ is_finite (evalF prec emax Hprec Hmax t) = true
    /\ Rabs (B2R (evalF prec emax Hprec Hmax t) - B2R v * B2R (ev coef) / factor_R prec emax lib (map ev U) d)
       <= (H prec ^ ops prec emax t - 1) * Rabs (B2R v * B2R (ev coef) / factor_R prec emax lib (map ev U) d).
Proof. intros lib U d coef v t St. exact (to_base_relerr prec emax Hprec Hmax lib (map ev U) d (ev coef) v St). Qed.

Theorem c03_get_relative_error :
  forall lib U d coef (v : fl),
    let t := from_base_tree prec emax Hprec Hmax lib (map ev U) d (ev coef) v in
    Safe prec emax Hprec Hmax t ->
    f_get prec emax Hprec Hmax lib U d coef None v = evalF prec emax Hprec Hmax t
    /\ is_finite (evalF prec emax Hprec Hmax t) = true
    /\ Rabs (B2R (evalF prec emax Hprec Hmax t) - B2R v * factor_R prec emax lib (map ev U) d / B2R (ev coef))
       <= (H prec ^ ops prec emax t - 1) * Rabs (B2R v * factor_R prec emax lib (map ev U) d / B2R (ev coef)).
Proof. intros lib U d coef v t St. exact (from_base_relerr prec emax Hprec Hmax lib (map ev U) d (ev coef) v St). Qed.

(* units WITH an offset c: construction is (v + c) k / f within one more rounding ... *)
Theorem c03_new_offset_relative_error :
  forall lib (U : list fl) d (k c v : fl),
    let s := fadd prec emax Hprec Hmax v c in
    let t := to_base_tree prec emax Hprec Hmax lib U d k s in
    is_finite v = true -> is_finite c = true -> normal prec emax (B2R v + B2R c) ->
    Safe prec emax Hprec Hmax t ->
    is_finite (to_base (CFfloat prec emax Hprec Hmax lib) U d k c v) = true
    /\ Rabs (B2R (to_base (CFfloat prec emax Hprec Hmax lib) U d k c v) - (B2R v + B2R c) * B2R k / factor_R prec emax lib U d)
       <= (H prec ^ S (ops prec emax t) - 1) * Rabs ((B2R v + B2R c) * B2R k / factor_R prec emax lib U d).
Proof. intros lib U d k c v s t Fv Fc Nvc St. exact (to_base_offset_relerr prec emax Hprec Hmax lib U d k c v Fv Fc Nvc St). Qed.

(* ... and read-back is X - c with X = v f / k, accurate to ulps at the larger of the result and the offset term *)
Theorem c03_get_offset_error :
  forall lib (U : list fl) d (k c v : fl),
    let t := from_base_tree prec emax Hprec Hmax lib U d k v in
    let X := B2R v * factor_R prec emax lib U d / B2R k in
    is_finite c = true -> Safe prec emax Hprec Hmax t ->
    normal prec emax (B2R (evalF prec emax Hprec Hmax t) - B2R c) ->
    is_finite (from_base (CFfloat prec emax Hprec Hmax lib) U d k c v) = true
    /\ Rabs (B2R (from_base (CFfloat prec emax Hprec Hmax lib) U d k c v) - (X - B2R c))
       <= Tree.u prec * Rabs (X - B2R c) + (1 + Tree.u prec) * (H prec ^ ops prec emax t - 1) * Rabs X.
Proof. intros lib U d k c v t X Fc St Ns. exact (from_base_offset_abserr prec emax Hprec Hmax lib U d k c v Fc St Ns). Qed.

(* construct-then-read in one (offset-free) unit returns the input to the same accuracy *)
Theorem c03_roundtrip_relative_error :
  forall lib (U : list fl) d (k v : fl),
    let t1 := to_base_tree prec emax Hprec Hmax lib U d k v in
    let t2 := from_base_tree prec emax Hprec Hmax lib U d k (evalF prec emax Hprec Hmax t1) in
    Safe prec emax Hprec Hmax t1 -> Safe prec emax Hprec Hmax t2 ->
    from_base (CFfloat prec emax Hprec Hmax lib) U d k (B754_zero false) (to_base (CFfloat prec emax Hprec Hmax lib) U d k (B754_zero true) v)
      = evalF prec emax Hprec Hmax t2
    /\ Rabs (B2R (evalF prec emax Hprec Hmax t2) - B2R v) <= (H prec ^ (ops prec emax t1 + ops prec emax t2) - 1) * Rabs (B2R v).
Proof. intros lib U d k v t1 t2 S1 S2. exact (roundtrip_relerr prec emax Hprec Hmax lib U d k v S1 S2). Qed.

(* the integer power computed by the std build's loop is the real power x^e (so factor_R is prod U_i^d_i) *)
Theorem c03_std_power_is_real_power :
  forall (a : R) (e : Z), (Z.abs e < 2 ^ 40)%Z ->
    powi_std Rmult Rdiv 1 a e = if (e <? 0)%Z then 1 / a ^ Z.to_nat (- e) else a ^ Z.to_nat e.
Proof. intros a e He. exact (powi_std_R a e He). Qed.
End Accuracy.

(* the operation count for the default base: one multiplication for a coefficient >= 1 ... *)
Example c03_ops_default_base :
  ops 53 1024 (to_base_tree 53 1024 p64 m64 LibStd (map (eval_f 53 1024 p64 m64) [ELit 1 0; ELit 1 0; ELit 1 0]) [1; 0; -1] (eval_f 53 1024 p64 m64 (ELit 36 (-1))) (fone 53 1024 p64 m64)) = 8%nat.
Proof. vm_compute. reflexivity. Qed.

(* non-vacuity of (6): the Safe premise holds for 1.5 km/h constructed and read in the cgs base (binary64)
   and for 2.5 mile in a foot base (binary32), decided by exact rational arithmetic (Proofs/SafeB.v) *)
Definition cgs_U := [ELit 1 (-2); ELit 1 (-3); ELit 1 0; ELit 1 0; ELit 1 0; ELit 1 0; ELit 1 0].
Definition kmh := EDiv (ELit 1 3) (ELit 36 2).
Example c03_accuracy_premise_64 :
  Safe 53 1024 p64 m64 (to_base_tree 53 1024 p64 m64 LibStd (map (eval_f 53 1024 p64 m64) cgs_U) [1; 0; -1; 0; 0; 0; 0]
                          (eval_f 53 1024 p64 m64 kmh) (of_lit 53 1024 p64 m64 15 (-1)))
  /\ Safe 53 1024 p64 m64 (from_base_tree 53 1024 p64 m64 LibStd (map (eval_f 53 1024 p64 m64) cgs_U) [1; 0; -1; 0; 0; 0; 0]
                          (eval_f 53 1024 p64 m64 kmh) (of_lit 53 1024 p64 m64 4166 (-2))).
Proof. split; apply safe64_sound; vm_compute; reflexivity. Qed.
Example c03_accuracy_premise_32 :
  Safe 24 128 p32 m32 (to_base_tree 24 128 p32 m32 LibCore (map (eval_f 24 128 p32 m32) [ELit 3048 (-4)]) [1]
                          (eval_f 24 128 p32 m32 (ELit 1609344 (-3))) (of_lit 24 128 p32 m32 25 (-1))).
Proof. apply safe32_sound. vm_compute. reflexivity. Qed.

(* ---- non-vacuity: the premises are met by real unit/base combinations (binary64) ---- *)
Definition one_e := ELit 1 0.
Definition si_U := [one_e; one_e; one_e; one_e; one_e; one_e; one_e].
Definition km_U := [ELit 1 3; ELit 1 (-3); ELit 36 2; ELit 1 (-3); ELit 1 (-3); ELit 1 3; one_e].

Ltac feq_compute := apply (@B2SF_inj _ _); vm_compute; reflexivity.

Example c03_ex_si_meter :
  unit_bases 53 1024 p64 m64 (map (eval_f 53 1024 p64 m64) si_U) [1;0;0;0;0;0;0]
  /\ finite_nz 53 1024 (eval_f 53 1024 p64 m64 one_e) = true.
Proof.
  split; [|vm_compute; reflexivity]. intros p Hin. left.
  cbn [si_U map combine In] in Hin. destruct Hin as [<-|[<-|[<-|[<-|[<-|[<-|[<-|[]]]]]]]]; cbn [fst]; feq_compute.
Qed.

(* kilometer in the (km, g, h, mA, mK, kmol, cd) base: the computed factor equals the coefficient *)
Example c03_ex_km_base :
  base_factor (CFfloat 53 1024 p64 m64 LibStd) (map (eval_f 53 1024 p64 m64) km_U) [1;0;0;0;0;0;0]
  = eval_f 53 1024 p64 m64 (ELit 1 3)
  /\ finite_nz 53 1024 (eval_f 53 1024 p64 m64 (ELit 1 3)) = true.
Proof. split; [feq_compute|vm_compute; reflexivity]. Qed.

(* sensitivity: with the other branch ((v * k) / k) the identity would fail — v = 0.011, k = 3600 *)
Example c03_wrong_branch_not_identity :
  let k := eval_f 53 1024 p64 m64 (ELit 36 2) in
  let v := of_lit 53 1024 p64 m64 11 (-3) in
  fdiv 53 1024 p64 m64 (fmul 53 1024 p64 m64 v k) k <> v.
Proof. intros k v H. apply (f_equal (@B2SF _ _)) in H. vm_compute in H. discriminate. Qed.

(* ---- the model functions ARE the source: Gen/ConvSrc.v is regenerated from src/system.rs on every run ---- *)
From UomV Require Import Model.ConvSrc Gen.ConvSrc Spec.ConvTie.
Theorem c03_to_base_is_the_source :
  conv_shape_ok src_to_base ConsAdd = true
  /\ forall (T : Type) (F : CF T) U d coef cons v,
       eval_conv F src_to_base (base_factor F U d) coef cons v = Some (to_base F U d coef cons v).
Proof. exact to_base_is_the_source. Qed.
Theorem c03_from_base_is_the_source :
  conv_shape_ok src_from_base ConsSub = true
  /\ forall (T : Type) (F : CF T) U d coef cons v,
       eval_conv F src_from_base (base_factor F U d) coef cons v = Some (from_base F U d coef cons v).
Proof. exact from_base_is_the_source. Qed.

(* new::<N> stores to_base::<Dimension, U, V, N>(&v) and get::<N> returns from_base::<Dimension, U, V, N>(&self.value) *)
From Coq Require Import String.
From UomV Require Import Model.DelegSrc Gen.DelegSrc Spec.DelegTie.
Theorem c03_new_get_sources_call_the_conversions :
  forallb (fun e => negb (String.eqb (dl_fn e) "new" || String.eqb (dl_fn e) "get") || deleg_ok e) src_delegations = true
  /\ covers src_delegations "src/quantity.rs" ["new"%string; "get"%string] = true.
Proof. split; vm_compute; reflexivity. Qed.

(* the float plumbing the model's StF transcribes: T = Self, conversion = *self, value = self, powi = Float::powi,
   constants -0.0 (Add) and +0.0 (Sub); trait defaults coefficient = 1, constant = 0 (Gen/StorageSrc.v is regenerated from src/lib.rs) *)
From UomV Require Import Gen.StorageSrc Spec.StorageTie.
Theorem c03_float_plumbing_is_what_the_model_transcribes :
  rows_eqb (class_rows "Float" src_storage ++ class_rows "default" src_storage)
           (class_rows "Float" expected_storage ++ class_rows "default" expected_storage) = true.
Proof. vm_compute. reflexivity. Qed.
