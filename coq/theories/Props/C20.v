(* C20 — Complex storage: unit conversion scales the number and keeps its phase.
   THE PROPERTY IS FALSE OF THE CODE (known finding F5, KNOWN_FINDINGS.txt class=complex-modulus):
   the theorems below characterise the actual behaviour completely, refute the property with a
   witness, and prove the part that does hold.  `hyp` is libm's hypot (any function). *)
From Coq Require Import ZArith List Bool.
From Flocq Require Import Core BinarySingleNaN.
From UomV Require Import Model.Tables Model.Conv Model.FloatM Model.FloatOps Model.Quantity Model.Storages Model.Run
  Proofs.QuantityP Proofs.StoragesP.
Import ListNotations.
Open Scope Z_scope.

Section S.
Variables prec emax : Z.
Context (Hprec : Prec_gt_0 prec) (Hmax : Prec_lt_emax prec emax).
Notation fl := (binary_float prec emax).
Variable hyp : fl -> fl -> fl.
Notation St := (StC prec emax Hprec Hmax hyp).
Notation StR := (StF prec emax Hprec Hmax).

(* what construction and read-back actually do: the REAL conversion of the modulus, imaginary part +0 *)
Theorem c20_conversion_actual :
  forall lib U d k ca cs (z : fl * fl),
    q_new (St lib) U d k ca z = (q_new (StR lib) U d k ca (hyp (fst z) (snd z)), B754_zero false)
    /\ q_get (St lib) U d k cs z = (q_get (StR lib) U d k cs (hyp (fst z) (snd z)), B754_zero false).
Proof. intros. split; reflexivity. Qed.

(* the part of the property that holds: for a number on the non-negative real axis (imaginary part +0,
   libm returning |x| for hypot(x, 0)), conversion is the real conversion and keeps the phase *)
Theorem c20_holds_on_nonnegative_reals :
  forall lib U d k ca (x : fl),
    hyp x (B754_zero false) = x ->
    q_new (St lib) U d k ca (x, B754_zero false) = (q_new (StR lib) U d k ca x, B754_zero false).
Proof. intros lib U d k ca x H. unfold q_new. cbn [s_conv s_val StC StF s_cf fst snd]. now rewrite H. Qed.

(* with autoconvert, a same-base operator sees the right operand replaced by its modulus ... *)
Theorem c20_same_base_operator_actual :
  forall lib (R : Type) (f : fl * fl -> fl * fl -> R) (U : list fl) d (a b : fl * fl),
    Forall (fun u => is_nan u = false) U ->
    q_bin (St lib) f true U U d a b = f a (hyp (fst b) (snd b), B754_zero false).
Proof.
  intros lib R f U d a b HU. unfold q_bin, rebase. cbn [s_conv s_val StC s_cf].
  rewrite (change_base_same (StR lib) U d) by (apply StF_refl; exact HU). reflexivity.
Qed.

(* ... and without autoconvert it is complex arithmetic on the stored values, as the property says *)
Theorem c20_same_base_operator_without_autoconvert :
  forall lib (R : Type) (f : fl * fl -> fl * fl -> R) (U : list fl) d (a b : fl * fl),
    q_bin (St lib) f false U U d a b = f a b.
Proof. reflexivity. Qed.
End S.

(* refutation (binary64, default SI base, meter): with ANY hypot returning 5 for (3, 4),
   new::<meter>(3 + 4i) stores 5 + 0i *)
Theorem c20_refuted :
  forall hyp : binary_float 53 1024 -> binary_float 53 1024 -> binary_float 53 1024,
    let f n := binary_normalize 53 1024 p64 m64 mode_NE n 0 false in
    hyp (f 3) (f 4) = f 5 ->
    let one := fone 53 1024 p64 m64 in
    q_new (StC 53 1024 p64 m64 hyp LibStd) [one] [1] one (B754_zero true) (f 3, f 4) = (f 5, B754_zero false)
    /\ (f 5, B754_zero false) <> (f 3, f 4).
Proof.
  intros hyp f H one. split.
  - unfold q_new. cbn [s_conv s_val StC s_cf fst snd]. rewrite H. f_equal.
    apply (@B2SF_inj 53 1024). vm_compute. reflexivity.
  - intros E. apply (f_equal fst) in E. apply (f_equal (@B2SF 53 1024)) in E. vm_compute in E. discriminate.
Qed.

(* the complex plumbing as the source has it (and as StC transcribes it, known finding included): conversion() = norm(),
   value(x) = V::new(x, 0.0), powi on the real factor (Gen/StorageSrc.v is regenerated from src/lib.rs) *)
From Coq Require Import String.
From UomV Require Import Gen.StorageSrc Spec.StorageTie.
Theorem c20_complex_plumbing_is_what_the_model_transcribes :
  rows_eqb (class_rows "Complex" src_storage) (class_rows "Complex" expected_storage) = true.
Proof. vm_compute. reflexivity. Qed.
