(* C16 — Rounding to a unit rounds the value as expressed in that unit.  Property theorems only. *)
From Coq Require Import ZArith QArith Reals List Bool Morphisms.
From Flocq Require Import Core BinarySingleNaN.
From UomV Require Import Model.Tables Model.Conv Model.FloatM Model.FloatOps Model.Exact Model.Quantity
  Model.Storages Proofs.ExactP Proofs.RoundP.
Import ListNotations.

(* Exact arithmetic (spec level), for ANY rounding function r (floor, ceil, round, trunc, fract):
   read back in the unit, the result is r of the original value in that unit *)
Theorem c16_readback_is_rounding_of_value_in_unit :
  forall (r : Q -> Q) (U : list Q) d (k c v : Q),
    ~ (k == 0)%Q -> nonzero (combine U d) ->
    (q_get StQ U d k c (q_round StQ r U d k c c v) == r (q_get StQ U d k c v))%Q.
Proof. intros r U d k c v H1 H2. exact (round_readback r U d k c v H1 H2). Qed.

(* the result does not depend on the base units in use *)
Theorem c16_base_independent :
  forall (r : Q -> Q), Proper (Qeq ==> Qeq) r ->
  forall (U U' : list Q) d (k c v v' : Q),
    ~ (k == 0)%Q -> nonzero (combine U d) -> nonzero (combine U' d) ->
    (v * pi (combine U d) == v' * pi (combine U' d))%Q ->
    (q_round StQ r U d k c c v * pi (combine U d) == q_round StQ r U' d k c c v' * pi (combine U' d))%Q.
Proof. intros r Hr U U' d k c v v' H1 H2 H3 H4. exact (round_base_independent r Hr U U' d k c v v' H1 H2 H3 H4). Qed.

(* trunc + fract restores the original (offset-free units) *)
Theorem c16_trunc_plus_fract :
  forall (tr fr : Q -> Q) (U : list Q) d (k v : Q),
    (forall x, tr x + fr x == x)%Q -> ~ (k == 0)%Q -> nonzero (combine U d) ->
    (q_round StQ tr U d k 0 0 v + q_round StQ fr U d k 0 0 v == v)%Q.
Proof. intros tr fr U d k v H1 H2 H3. exact (trunc_fract_restore tr fr U d k v H1 H2 H3). Qed.

(* Floats (std build, any precision): the roundings applied to the value in the unit are the
   mathematical floor / ceiling / truncation / round-half-away-from-zero: integer-valued, finite
   iff the argument is, bracketing the argument on the correct side *)
Theorem c16_float_roundings_are_mathematical :
  forall prec emax (Hprec : Prec_gt_0 prec) (Hmax : Prec_lt_emax prec emax) (x : binary_float prec emax),
    B2R (ffloor_std prec emax Hmax x) = IZR (Zfloor (B2R x))
    /\ B2R (fceil_std prec emax Hmax x) = IZR (Zceil (B2R x))
    /\ B2R (ftrunc_std prec emax Hmax x) = IZR (Ztrunc (B2R x))
    /\ B2R (fround_std prec emax Hmax x) = IZR (ZnearestA (B2R x))
    /\ (B2R (ffloor_std prec emax Hmax x) <= B2R x <= B2R (fceil_std prec emax Hmax x))%R.
Proof.
  intros prec emax Hprec Hmax x.
  exact (conj (ffloor_std_correct prec emax Hmax x) (conj (fceil_std_correct prec emax Hmax x)
        (conj (ftrunc_std_correct prec emax Hmax x) (conj (fround_std_correct prec emax Hmax x)
        (floor_ceil_bracket prec emax Hmax x))))).
Qed.

(* the float operation IS new::<N>(rounding(get::<N>())) — rounding happens on the value in the unit,
   not on the stored value (definitional for the model that the correspondence ties to the code) *)
Theorem c16_float_definition :
  forall prec emax (Hprec : Prec_gt_0 prec) (Hmax : Prec_lt_emax prec emax) lib r U d k ca cs v,
    q_round (StF prec emax Hprec Hmax lib) (fround_op prec emax Hprec Hmax lib r) U d k ca cs v
    = q_new (StF prec emax Hprec Hmax lib) U d k ca (fround_op prec emax Hprec Hmax lib r (q_get (StF prec emax Hprec Hmax lib) U d k cs v)).
Proof. reflexivity. Qed.

(* floats, offset-free unit, any rounding function r of the storage type: read back in the unit, the
   result is within (1/(1-u))^(n1+n2) - 1 relative of r(value in the unit) — which is an integer for
   floor/ceil/round/trunc (c16_float_roundings_are_mathematical) — whenever no intermediate of the two
   conversions overflows or underflows *)
From UomV Require Import Proofs.Tree Proofs.ErrBound Proofs.ErrOffset.
Theorem c16_float_readback_accuracy :
  forall prec emax (Hprec : Prec_gt_0 prec) (Hmax : Prec_lt_emax prec emax) lib (r : binary_float prec emax -> binary_float prec emax)
         (U : list (binary_float prec emax)) d (k v : binary_float prec emax),
    let St := StF prec emax Hprec Hmax lib in
    let y := r (q_get St U d k (B754_zero false) v) in
    let t1 := to_base_tree prec emax Hprec Hmax lib U d k y in
    let t2 := from_base_tree prec emax Hprec Hmax lib U d k (evalF prec emax Hprec Hmax t1) in
    Safe prec emax Hprec Hmax t1 -> Safe prec emax Hprec Hmax t2 ->
    q_get St U d k (B754_zero false) (q_round St r U d k (B754_zero true) (B754_zero false) v) = evalF prec emax Hprec Hmax t2
    /\ (Rabs (B2R (evalF prec emax Hprec Hmax t2) - B2R y) <= (H prec ^ (ops prec emax t1 + ops prec emax t2) - 1) * Rabs (B2R y))%R.
Proof.
  intros prec emax Hprec Hmax lib r U d k v St y t1 t2 S1 S2.
  exact (roundtrip_relerr prec emax Hprec Hmax lib U d k y S1 S2).
Qed.

(* ---- the five rounding methods of the source are `Self::new::<N>(self.get::<N>().<the same rounding>())`
   (Gen/DelegSrc.v is regenerated from src/quantity.rs on every run): the model's q_round with the storage type's own function ---- *)
From Coq Require Import String.
From UomV Require Import Model.DelegSrc Gen.DelegSrc Spec.DelegTie.
Theorem c16_rounding_sources_are_new_of_rounded_get :
  forallb (fun e => negb (String.eqb (dl_file e) "src/quantity.rs") || deleg_ok e) src_delegations = true
  /\ covers src_delegations "src/quantity.rs" (["new"%string; "get"%string] ++ rounding_fns)%list = true.
Proof. split; vm_compute; reflexivity. Qed.
