// A downstream system of quantities declared with uom's exported macros (C19).
// Four base quantities; fractional, large and offset coefficients; derived quantities whose unit
// names compose from the others.  This file is BOTH compiled into the harness crate and read by the
// translator (translator/uom2coq.py translate_file), so the Coq tables describe exactly this source.

#[macro_use]
pub mod span {
    quantity! {
        /// Span (base unit pace).
        quantity: Span; "span";
        /// Dimension of span.
        dimension: CQ<
            P1,  // span
            Z0,  // heft
            Z0,  // tick
            Z0>; // warmth
        units {
            @pace: 1.0_E0; "pc", "pace", "paces";
            @league: 4.828_032_E3; "lg", "league", "leagues";
            @hair: 1.0_E-4 / 3.0_E0; "hr", "hair", "hairs";
            @gigapace: 1.0_E9; "Gpc", "gigapace", "gigapaces";
            @chain_link: 2.011_68_E-1; "lk", "chain link", "chain links";
        }
    }
}

#[macro_use]
pub mod heft {
    quantity! {
        /// Heft (base unit stone).
        quantity: Heft; "heft";
        /// Dimension of heft.
        dimension: CQ<
            Z0,
            P1,
            Z0,
            Z0>;
        units {
            @stone: 1.0_E0; "st", "stone", "stones";
            @feather: 2.5_E-4; "fe", "feather", "feathers";
            @mountain: 1.0_E18; "Mt", "mountain", "mountains";
        }
    }
}

#[macro_use]
pub mod tick {
    quantity! {
        /// Tick (base unit beat).
        quantity: Tick; "tick";
        /// Dimension of tick.
        dimension: CQ<
            Z0,
            Z0,
            P1,
            Z0>;
        units {
            @beat: 1.0_E0; "bt", "beat", "beats";
            @blink: 3.0_E-1; "bk", "blink", "blinks";
            @age: 3.153_6_E9; "ag", "age", "ages";
        }
    }
}

#[macro_use]
pub mod warmth {
    quantity! {
        /// Warmth (base unit degree_a); degree_b and degree_c are affine scales.
        quantity: Warmth; "warmth";
        /// Dimension of warmth.
        dimension: CQ<
            Z0,
            Z0,
            Z0,
            P1>;
        units {
            @degree_a: 1.0_E0; "°A", "degree A", "degrees A";
            @millidegree_a: 1.0_E-3; "m°A", "millidegree A", "millidegrees A";
            @degree_b: 5.0_E0 / 9.0_E0, 4.596_7_E2; "°B", "degree B", "degrees B";
            @degree_c: 1.0_E0, 2.731_5_E2; "°C", "degree C", "degrees C";
        }
    }
}

#[macro_use]
pub mod pace_rate {
    quantity! {
        /// Pace rate (span per tick).
        quantity: PaceRate; "pace rate";
        /// Dimension of pace rate.
        dimension: CQ<
            P1,
            Z0,
            N1,
            Z0>;
        units {
            @pace_per_beat: 1.0_E0; "pc/bt", "pace per beat", "paces per beat";
            @league_per_age: 4.828_032_E3 / 3.153_6_E9; "lg/ag", "league per age", "leagues per age";
            @gigapace_per_blink: 1.0_E9 / 3.0_E-1; "Gpc/bk", "gigapace per blink", "gigapaces per blink";
        }
    }
}

#[macro_use]
pub mod plot {
    quantity! {
        /// Plot (span squared).
        quantity: Plot; "plot";
        /// Dimension of plot.
        dimension: CQ<
            P2,
            Z0,
            Z0,
            Z0>;
        units {
            @square_pace: 1.0_E0; "pc²", "square pace", "square paces";
            @square_league: 4.828_032_E3 * 4.828_032_E3; "lg²", "square league", "square leagues";
        }
    }
}

#[macro_use]
pub mod shove {
    quantity! {
        /// Shove (span heft per tick squared per warmth): mixed-sign exponents in every base position.
        quantity: Shove; "shove";
        /// Dimension of shove.
        dimension: CQ<
            P1,
            P1,
            N2,
            N1>;
        units {
            @pace_stone_per_beat_squared_degree_a: 1.0_E0; "pc·st/(bt²·°A)", "pace stone per beat squared degree A", "pace stones per beat squared degree A";
            @league_feather_per_blink_squared_millidegree_a: 4.828_032_E3 * 2.5_E-4 / (3.0_E-1 * 3.0_E-1) / 1.0_E-3; "lg·fe/(bk²·m°A)",
                "league feather per blink squared millidegree A", "league feathers per blink squared millidegree A";
        }
    }
}

system! {
    /// Custom system of quantities.
    quantities: CQ {
        /// Span.
        span: pace, Sp;
        /// Heft.
        heft: stone, He;
        /// Tick.
        tick: beat, Tk;
        /// Warmth.
        warmth: degree_a, Wa;
    }

    /// Custom system of units.
    units: CU {
        mod span::Span,
        mod heft::Heft,
        mod tick::Tick,
        mod warmth::Warmth,
        mod pace_rate::PaceRate,
        mod plot::Plot,
        mod shove::Shove,
    }
}
