#![allow(clippy::all)]
#[macro_use]
extern crate uom;
use uom::si::f64 as q64;
use uom::si::f32 as q32;
use uom::si::length::{kilometer, meter, millimeter};
use uom::si::thermodynamic_temperature::degree_celsius;
mod kmb {
    ISQ!(uom::si, f64, (kilometer, kilogram, second, ampere, kelvin, mole, candela));
}
#[no_mangle] pub fn q_add(a: q64::Length, b: q64::Length) -> q64::Length { a + b }
#[no_mangle] pub fn b_add(a: f64, b: f64) -> f64 { a + b }
#[no_mangle] pub fn q_sub(a: q64::Length, b: q64::Length) -> q64::Length { a - b }
#[no_mangle] pub fn b_sub(a: f64, b: f64) -> f64 { a - b }
#[no_mangle] pub fn q_mul(a: q64::Length, b: q64::Length) -> q64::Area { a * b }
#[no_mangle] pub fn b_mul(a: f64, b: f64) -> f64 { a * b }
#[no_mangle] pub fn q_div(a: q64::Length, b: q64::Time) -> q64::Velocity { a / b }
#[no_mangle] pub fn b_div(a: f64, b: f64) -> f64 { a / b }
#[no_mangle] pub fn q_neg(a: q64::Length) -> q64::Length { -a }
#[no_mangle] pub fn b_neg(a: f64) -> f64 { -a }
#[no_mangle] pub fn q_lt(a: q64::Length, b: q64::Length) -> bool { a < b }
#[no_mangle] pub fn b_lt(a: f64, b: f64) -> bool { a < b }
#[no_mangle] pub fn q_eq(a: q64::Length, b: q64::Length) -> bool { a == b }
#[no_mangle] pub fn b_eq(a: f64, b: f64) -> bool { a == b }
#[no_mangle] pub fn q_new_m(a: f64) -> q64::Length { q64::Length::new::<meter>(a) }
#[no_mangle] pub fn b_new_m(a: f64) -> f64 { a }
#[no_mangle] pub fn q_get_m(a: q64::Length) -> f64 { a.get::<meter>() }
#[no_mangle] pub fn b_get_m(a: f64) -> f64 { a }
#[no_mangle] pub fn q_new_km(a: f64) -> q64::Length { q64::Length::new::<kilometer>(a) }
#[no_mangle] pub fn b_new_km(a: f64) -> f64 { a * 1.0E3 }
#[no_mangle] pub fn q_get_km(a: q64::Length) -> f64 { a.get::<kilometer>() }
#[no_mangle] pub fn b_get_km(a: f64) -> f64 { a / 1.0E3 }
#[no_mangle] pub fn q_new_mm(a: f64) -> q64::Length { q64::Length::new::<millimeter>(a) }
#[no_mangle] pub fn b_new_mm(a: f64) -> f64 { a * 1.0E-3 }
#[no_mangle] pub fn q_get_mm(a: q64::Length) -> f64 { a.get::<millimeter>() }
#[no_mangle] pub fn b_get_mm(a: f64) -> f64 { a * (1.0 / 1.0E-3) }
#[no_mangle] pub fn q_new_c(a: f64) -> q64::ThermodynamicTemperature { q64::ThermodynamicTemperature::new::<degree_celsius>(a) }
#[no_mangle] pub fn b_new_c(a: f64) -> f64 { a + 273.15 }
#[no_mangle] pub fn q_get_c(a: q64::ThermodynamicTemperature) -> f64 { a.get::<degree_celsius>() }
#[no_mangle] pub fn b_get_c(a: f64) -> f64 { a - 273.15 }
#[no_mangle] pub fn q_mixed_add(a: kmb::Length, b: q64::Length) -> kmb::Length { a + b }
#[no_mangle] pub fn b_mixed_add(a: f64, b: f64) -> f64 { a + b / 1.0E3 }
#[no_mangle] pub fn q_mixed_lt(a: kmb::Length, b: q64::Length) -> bool { a < b }
#[no_mangle] pub fn b_mixed_lt(a: f64, b: f64) -> bool { a < b / 1.0E3 }
#[no_mangle] pub fn q_add32(a: q32::Length, b: q32::Length) -> q32::Length { a + b }
#[no_mangle] pub fn b_add32(a: f32, b: f32) -> f32 { a + b }
#[no_mangle] pub fn q_new_km32(a: f32) -> q32::Length { q32::Length::new::<kilometer>(a) }
#[no_mangle] pub fn b_new_km32(a: f32) -> f32 { a * 1.0E3 }
