#![allow(clippy::all)]
#[macro_use]
extern crate uom;
use uom::si::f64 as q64;
use uom::si::f32 as q32;
use uom::si::length::{kilometer, meter, millimeter};
use uom::si::thermodynamic_temperature::degree_celsius;
use uom::si::time::second;
use uom::typenum::P2;
mod kmb {
    ISQ!(uom::si, f64, (kilometer, kilogram, second, ampere, kelvin, mole, candela));
}
#[no_mangle] pub fn q_add(a: q64::Length, b: q64::Length) -> q64::Length { a + b }
#[no_mangle] pub fn b_add(a: f64, b: f64) -> f64 { a + b }
#[no_mangle] pub fn q_sub(a: q64::Length, b: q64::Length) -> q64::Length { a - b }
#[no_mangle] pub fn b_sub(a: f64, b: f64) -> f64 { a - b }
#[no_mangle] pub fn q_mul(a: q64::Length, b: q64::Length) -> q64::Area { a * b }
#[no_mangle] pub fn b_mul(a: f64, b: f64) -> f64 { a * b }
#[no_mangle] pub fn q_div(a: q64::Length, b: q64::Time) -> q64::Velocity { a / b }
#[no_mangle] pub fn b_div(a: f64, b: f64) -> f64 { a / b }
#[no_mangle] pub fn q_neg(a: q64::Length) -> q64::Length { -a }
#[no_mangle] pub fn b_neg(a: f64) -> f64 { -a }
#[no_mangle] pub fn q_lt(a: q64::Length, b: q64::Length) -> bool { a < b }
#[no_mangle] pub fn b_lt(a: f64, b: f64) -> bool { a < b }
#[no_mangle] pub fn q_eq(a: q64::Length, b: q64::Length) -> bool { a == b }
#[no_mangle] pub fn b_eq(a: f64, b: f64) -> bool { a == b }
#[no_mangle] pub fn q_new_m(a: f64) -> q64::Length { q64::Length::new::<meter>(a) }
#[no_mangle] pub fn b_new_m(a: f64) -> f64 { a }
#[no_mangle] pub fn q_get_m(a: q64::Length) -> f64 { a.get::<meter>() }
#[no_mangle] pub fn b_get_m(a: f64) -> f64 { a }
#[no_mangle] pub fn q_new_km(a: f64) -> q64::Length { q64::Length::new::<kilometer>(a) }
#[no_mangle] pub fn b_new_km(a: f64) -> f64 { a * 1.0E3 }
#[no_mangle] pub fn q_get_km(a: q64::Length) -> f64 { a.get::<kilometer>() }
#[no_mangle] pub fn b_get_km(a: f64) -> f64 { a / 1.0E3 }
#[no_mangle] pub fn q_new_mm(a: f64) -> q64::Length { q64::Length::new::<millimeter>(a) }
#[no_mangle] pub fn b_new_mm(a: f64) -> f64 { a * 1.0E-3 }
#[no_mangle] pub fn q_get_mm(a: q64::Length) -> f64 { a.get::<millimeter>() }
#[no_mangle] pub fn b_get_mm(a: f64) -> f64 { a * (1.0 / 1.0E-3) }
#[no_mangle] pub fn q_new_c(a: f64) -> q64::ThermodynamicTemperature { q64::ThermodynamicTemperature::new::<degree_celsius>(a) }
#[no_mangle] pub fn b_new_c(a: f64) -> f64 { a + 273.15 }
#[no_mangle] pub fn q_get_c(a: q64::ThermodynamicTemperature) -> f64 { a.get::<degree_celsius>() }
#[no_mangle] pub fn b_get_c(a: f64) -> f64 { a - 273.15 }
#[no_mangle] pub fn q_mixed_add(a: kmb::Length, b: q64::Length) -> kmb::Length { a + b }
#[no_mangle] pub fn b_mixed_add(a: f64, b: f64) -> f64 { a + b / 1.0E3 }
#[no_mangle] pub fn q_mixed_lt(a: kmb::Length, b: q64::Length) -> bool { a < b }
#[no_mangle] pub fn b_mixed_lt(a: f64, b: f64) -> bool { a < b / 1.0E3 }
#[no_mangle] pub fn q_add32(a: q32::Length, b: q32::Length) -> q32::Length { a + b }
#[no_mangle] pub fn b_add32(a: f32, b: f32) -> f32 { a + b }
#[no_mangle] pub fn q_new_km32(a: f32) -> q32::Length { q32::Length::new::<kilometer>(a) }
#[no_mangle] pub fn b_new_km32(a: f32) -> f32 { a * 1.0E3 }
#[no_mangle] pub fn q_rem(a: q64::Length, b: q64::Length) -> q64::Length { a % b }
#[no_mangle] pub fn b_rem(a: f64, b: f64) -> f64 { a % b }
#[no_mangle] pub fn q_add_assign(a: &mut q64::Length, b: q64::Length) { *a += b }
#[no_mangle] pub fn b_add_assign(a: &mut f64, b: f64) { *a += b }
#[no_mangle] pub fn q_sub_assign(a: &mut q64::Length, b: q64::Length) { *a -= b }
#[no_mangle] pub fn b_sub_assign(a: &mut f64, b: f64) { *a -= b }
#[no_mangle] pub fn q_scale(a: q64::Length, k: f64) -> q64::Length { a * k }
#[no_mangle] pub fn b_scale(a: f64, k: f64) -> f64 { a * k }
#[no_mangle] pub fn q_scale_left(k: f64, a: q64::Length) -> q64::Length { k * a }
#[no_mangle] pub fn b_scale_left(k: f64, a: f64) -> f64 { k * a }
#[no_mangle] pub fn q_unscale(a: q64::Length, k: f64) -> q64::Length { a / k }
#[no_mangle] pub fn b_unscale(a: f64, k: f64) -> f64 { a / k }
#[no_mangle] pub fn q_abs(a: q64::Length) -> q64::Length { a.abs() }
#[no_mangle] pub fn b_abs(a: f64) -> f64 { a.abs() }
#[no_mangle] pub fn q_recip(a: q64::Time) -> q64::Frequency { a.recip() }
#[no_mangle] pub fn b_recip(a: f64) -> f64 { a.recip() }
#[no_mangle] pub fn q_max(a: q64::Length, b: q64::Length) -> q64::Length { a.max(b) }
#[no_mangle] pub fn b_max(a: f64, b: f64) -> f64 { a.max(b) }
#[no_mangle] pub fn q_sqrt(a: q64::Area) -> q64::Length { a.sqrt() }
#[no_mangle] pub fn b_sqrt(a: f64) -> f64 { a.sqrt() }
#[no_mangle] pub fn q_powi2(a: q64::Length) -> q64::Area { a.powi(P2::new()) }
#[no_mangle] pub fn b_powi2(a: f64) -> f64 { a.powi(2) }
#[no_mangle] pub fn q_floor_m(a: q64::Length) -> q64::Length { a.floor::<meter>() }
#[no_mangle] pub fn b_floor_m(a: f64) -> f64 { a.floor() }
#[no_mangle] pub fn q_is_nan(a: q64::Length) -> bool { a.is_nan() }
#[no_mangle] pub fn b_is_nan(a: f64) -> bool { a.is_nan() }
#[no_mangle] pub fn q_le(a: q64::Length, b: q64::Length) -> bool { a <= b }
#[no_mangle] pub fn b_le(a: f64, b: f64) -> bool { a <= b }
#[no_mangle] pub fn q_mul_add(x: q64::Length, a: q64::Length, b: q64::Area) -> q64::Area { x.mul_add(a, b) }
#[no_mangle] pub fn b_mul_add(x: f64, a: f64, b: f64) -> f64 { x.mul_add(a, b) }
#[no_mangle] pub fn q_get_s(a: q64::Time) -> f64 { a.get::<second>() }
#[no_mangle] pub fn b_get_s(a: f64) -> f64 { a }
#[no_mangle] pub fn q_clone(a: &q64::Length) -> q64::Length { a.clone() }
#[no_mangle] pub fn b_clone(a: &f64) -> f64 { a.clone() }
#[no_mangle] pub fn q_sum3(a: q64::Length, b: q64::Length, c: q64::Length) -> q64::Length { [a, b, c].iter().copied().sum() }
#[no_mangle] pub fn b_sum3(a: f64, b: f64, c: f64) -> f64 { [a, b, c].iter().copied().sum() }
