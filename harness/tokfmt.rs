// A self-describing token-level serde data format (C13): the serializer records the exact sequence of
// serde data-model calls as a token tree (floats by bit pattern, so NaN, infinities and -0.0 travel
// unchanged - JSON cannot carry them); the deserializer replays a token tree into any visitor.
// Included verbatim into the generated harness crate by vlib/props/c13.py.
pub mod tokfmt {
    use serde::de::{self, DeserializeOwned, DeserializeSeed, Visitor};
    use serde::ser::{self, Serialize};
    use std::fmt;

    #[derive(Clone, Debug, PartialEq)]
    pub enum Tok {
        Bool(bool),
        I8(i8), I16(i16), I32(i32), I64(i64), I128(i128),
        U8(u8), U16(u16), U32(u32), U64(u64), U128(u128),
        F32(u32), F64(u64),
        Char(char), Str(String), Bytes(Vec<u8>),
        None, Some(Box<Tok>), Unit, UnitStruct(String), Newtype(String, Box<Tok>),
        Seq(Vec<Tok>), Tuple(Vec<Tok>), TupleStruct(String, Vec<Tok>),
        Map(Vec<(Tok, Tok)>), Struct(String, Vec<(String, Tok)>),
        Variant(String, u32, String, Box<Tok>),
    }

    #[derive(Debug)]
    pub struct Error(pub String);
    impl fmt::Display for Error { fn fmt(&self, f: &mut fmt::Formatter<'_>) -> fmt::Result { write!(f, "{}", self.0) } }
    impl std::error::Error for Error {}
    impl ser::Error for Error { fn custom<T: fmt::Display>(m: T) -> Self { Error(m.to_string()) } }
    impl de::Error for Error { fn custom<T: fmt::Display>(m: T) -> Self { Error(m.to_string()) } }

    pub struct Ser;
    pub enum Kind { Seq, Tuple, TupleStruct(String), TupleVariant(String, u32, String) }
    pub struct SeqS { kind: Kind, items: Vec<Tok> }
    pub struct MapS { items: Vec<(Tok, Tok)>, key: Option<Tok> }
    pub struct StructS { name: String, variant: Option<(u32, String)>, items: Vec<(String, Tok)> }

    impl SeqS {
        fn finish(self) -> Tok {
            match self.kind {
                Kind::Seq => Tok::Seq(self.items),
                Kind::Tuple => Tok::Tuple(self.items),
                Kind::TupleStruct(n) => Tok::TupleStruct(n, self.items),
                Kind::TupleVariant(n, i, v) => Tok::Variant(n, i, v, Box::new(Tok::Tuple(self.items))),
            }
        }
    }
    impl ser::SerializeSeq for SeqS {
        type Ok = Tok; type Error = Error;
        fn serialize_element<T: ?Sized + Serialize>(&mut self, v: &T) -> Result<(), Error> { self.items.push(v.serialize(Ser)?); Ok(()) }
        fn end(self) -> Result<Tok, Error> { Ok(self.finish()) }
    }
    impl ser::SerializeTuple for SeqS {
        type Ok = Tok; type Error = Error;
        fn serialize_element<T: ?Sized + Serialize>(&mut self, v: &T) -> Result<(), Error> { self.items.push(v.serialize(Ser)?); Ok(()) }
        fn end(self) -> Result<Tok, Error> { Ok(self.finish()) }
    }
    impl ser::SerializeTupleStruct for SeqS {
        type Ok = Tok; type Error = Error;
        fn serialize_field<T: ?Sized + Serialize>(&mut self, v: &T) -> Result<(), Error> { self.items.push(v.serialize(Ser)?); Ok(()) }
        fn end(self) -> Result<Tok, Error> { Ok(self.finish()) }
    }
    impl ser::SerializeTupleVariant for SeqS {
        type Ok = Tok; type Error = Error;
        fn serialize_field<T: ?Sized + Serialize>(&mut self, v: &T) -> Result<(), Error> { self.items.push(v.serialize(Ser)?); Ok(()) }
        fn end(self) -> Result<Tok, Error> { Ok(self.finish()) }
    }
    impl ser::SerializeMap for MapS {
        type Ok = Tok; type Error = Error;
        fn serialize_key<T: ?Sized + Serialize>(&mut self, k: &T) -> Result<(), Error> { self.key = Some(k.serialize(Ser)?); Ok(()) }
        fn serialize_value<T: ?Sized + Serialize>(&mut self, v: &T) -> Result<(), Error> {
            let k = self.key.take().ok_or_else(|| Error("value without key".to_string()))?;
            self.items.push((k, v.serialize(Ser)?)); Ok(())
        }
        fn end(self) -> Result<Tok, Error> { Ok(Tok::Map(self.items)) }
    }
    impl StructS {
        fn finish(self) -> Tok {
            match self.variant {
                None => Tok::Struct(self.name, self.items),
                Some((i, v)) => Tok::Variant(self.name.clone(), i, v, Box::new(Tok::Struct(self.name, self.items))),
            }
        }
    }
    impl ser::SerializeStruct for StructS {
        type Ok = Tok; type Error = Error;
        fn serialize_field<T: ?Sized + Serialize>(&mut self, k: &'static str, v: &T) -> Result<(), Error> { self.items.push((k.to_string(), v.serialize(Ser)?)); Ok(()) }
        fn end(self) -> Result<Tok, Error> { Ok(self.finish()) }
    }
    impl ser::SerializeStructVariant for StructS {
        type Ok = Tok; type Error = Error;
        fn serialize_field<T: ?Sized + Serialize>(&mut self, k: &'static str, v: &T) -> Result<(), Error> { self.items.push((k.to_string(), v.serialize(Ser)?)); Ok(()) }
        fn end(self) -> Result<Tok, Error> { Ok(self.finish()) }
    }

    impl ser::Serializer for Ser {
        type Ok = Tok; type Error = Error;
        type SerializeSeq = SeqS; type SerializeTuple = SeqS; type SerializeTupleStruct = SeqS; type SerializeTupleVariant = SeqS;
        type SerializeMap = MapS; type SerializeStruct = StructS; type SerializeStructVariant = StructS;
        fn serialize_bool(self, v: bool) -> Result<Tok, Error> { Ok(Tok::Bool(v)) }
        fn serialize_i8(self, v: i8) -> Result<Tok, Error> { Ok(Tok::I8(v)) }
        fn serialize_i16(self, v: i16) -> Result<Tok, Error> { Ok(Tok::I16(v)) }
        fn serialize_i32(self, v: i32) -> Result<Tok, Error> { Ok(Tok::I32(v)) }
        fn serialize_i64(self, v: i64) -> Result<Tok, Error> { Ok(Tok::I64(v)) }
        fn serialize_i128(self, v: i128) -> Result<Tok, Error> { Ok(Tok::I128(v)) }
        fn serialize_u8(self, v: u8) -> Result<Tok, Error> { Ok(Tok::U8(v)) }
        fn serialize_u16(self, v: u16) -> Result<Tok, Error> { Ok(Tok::U16(v)) }
        fn serialize_u32(self, v: u32) -> Result<Tok, Error> { Ok(Tok::U32(v)) }
        fn serialize_u64(self, v: u64) -> Result<Tok, Error> { Ok(Tok::U64(v)) }
        fn serialize_u128(self, v: u128) -> Result<Tok, Error> { Ok(Tok::U128(v)) }
        fn serialize_f32(self, v: f32) -> Result<Tok, Error> { Ok(Tok::F32(v.to_bits())) }
        fn serialize_f64(self, v: f64) -> Result<Tok, Error> { Ok(Tok::F64(v.to_bits())) }
        fn serialize_char(self, v: char) -> Result<Tok, Error> { Ok(Tok::Char(v)) }
        fn serialize_str(self, v: &str) -> Result<Tok, Error> { Ok(Tok::Str(v.to_string())) }
        fn serialize_bytes(self, v: &[u8]) -> Result<Tok, Error> { Ok(Tok::Bytes(v.to_vec())) }
        fn serialize_none(self) -> Result<Tok, Error> { Ok(Tok::None) }
        fn serialize_some<T: ?Sized + Serialize>(self, v: &T) -> Result<Tok, Error> { Ok(Tok::Some(Box::new(v.serialize(Ser)?))) }
        fn serialize_unit(self) -> Result<Tok, Error> { Ok(Tok::Unit) }
        fn serialize_unit_struct(self, n: &'static str) -> Result<Tok, Error> { Ok(Tok::UnitStruct(n.to_string())) }
        fn serialize_unit_variant(self, n: &'static str, i: u32, v: &'static str) -> Result<Tok, Error> {
            Ok(Tok::Variant(n.to_string(), i, v.to_string(), Box::new(Tok::Unit)))
        }
        fn serialize_newtype_struct<T: ?Sized + Serialize>(self, n: &'static str, v: &T) -> Result<Tok, Error> {
            Ok(Tok::Newtype(n.to_string(), Box::new(v.serialize(Ser)?)))
        }
        fn serialize_newtype_variant<T: ?Sized + Serialize>(self, n: &'static str, i: u32, var: &'static str, v: &T) -> Result<Tok, Error> {
            Ok(Tok::Variant(n.to_string(), i, var.to_string(), Box::new(Tok::Newtype(String::new(), Box::new(v.serialize(Ser)?)))))
        }
        fn serialize_seq(self, _len: Option<usize>) -> Result<SeqS, Error> { Ok(SeqS { kind: Kind::Seq, items: vec![] }) }
        fn serialize_tuple(self, _len: usize) -> Result<SeqS, Error> { Ok(SeqS { kind: Kind::Tuple, items: vec![] }) }
        fn serialize_tuple_struct(self, n: &'static str, _len: usize) -> Result<SeqS, Error> { Ok(SeqS { kind: Kind::TupleStruct(n.to_string()), items: vec![] }) }
        fn serialize_tuple_variant(self, n: &'static str, i: u32, v: &'static str, _len: usize) -> Result<SeqS, Error> {
            Ok(SeqS { kind: Kind::TupleVariant(n.to_string(), i, v.to_string()), items: vec![] })
        }
        fn serialize_map(self, _len: Option<usize>) -> Result<MapS, Error> { Ok(MapS { items: vec![], key: None }) }
        fn serialize_struct(self, n: &'static str, _len: usize) -> Result<StructS, Error> { Ok(StructS { name: n.to_string(), variant: None, items: vec![] }) }
        fn serialize_struct_variant(self, n: &'static str, i: u32, v: &'static str, _len: usize) -> Result<StructS, Error> {
            Ok(StructS { name: n.to_string(), variant: Some((i, v.to_string())), items: vec![] })
        }
    }

    pub struct De(pub Tok);
    struct SeqAcc(std::vec::IntoIter<Tok>);
    struct MapAcc { it: std::vec::IntoIter<(Tok, Tok)>, val: Option<Tok> }

    impl<'de> de::SeqAccess<'de> for SeqAcc {
        type Error = Error;
        fn next_element_seed<S: DeserializeSeed<'de>>(&mut self, seed: S) -> Result<Option<S::Value>, Error> {
            match self.0.next() { Some(t) => seed.deserialize(De(t)).map(Some), None => Ok(None) }
        }
        fn size_hint(&self) -> Option<usize> { Some(self.0.len()) }
    }
    impl<'de> de::MapAccess<'de> for MapAcc {
        type Error = Error;
        fn next_key_seed<S: DeserializeSeed<'de>>(&mut self, seed: S) -> Result<Option<S::Value>, Error> {
            match self.it.next() { Some((k, v)) => { self.val = Some(v); seed.deserialize(De(k)).map(Some) } None => Ok(None) }
        }
        fn next_value_seed<S: DeserializeSeed<'de>>(&mut self, seed: S) -> Result<S::Value, Error> {
            match self.val.take() { Some(v) => seed.deserialize(De(v)), None => Err(Error("value without key".to_string())) }
        }
    }

    impl<'de> de::Deserializer<'de> for De {
        type Error = Error;
        fn deserialize_any<V: Visitor<'de>>(self, vis: V) -> Result<V::Value, Error> {
            match self.0 {
                Tok::Bool(v) => vis.visit_bool(v),
                Tok::I8(v) => vis.visit_i8(v), Tok::I16(v) => vis.visit_i16(v), Tok::I32(v) => vis.visit_i32(v),
                Tok::I64(v) => vis.visit_i64(v), Tok::I128(v) => vis.visit_i128(v),
                Tok::U8(v) => vis.visit_u8(v), Tok::U16(v) => vis.visit_u16(v), Tok::U32(v) => vis.visit_u32(v),
                Tok::U64(v) => vis.visit_u64(v), Tok::U128(v) => vis.visit_u128(v),
                Tok::F32(b) => vis.visit_f32(f32::from_bits(b)), Tok::F64(b) => vis.visit_f64(f64::from_bits(b)),
                Tok::Char(c) => vis.visit_char(c), Tok::Str(s) => vis.visit_string(s), Tok::Bytes(y) => vis.visit_byte_buf(y),
                Tok::None => vis.visit_none(), Tok::Some(t) => vis.visit_some(De(*t)),
                Tok::Unit | Tok::UnitStruct(_) => vis.visit_unit(),
                Tok::Newtype(_, t) => vis.visit_newtype_struct(De(*t)),
                Tok::Seq(v) | Tok::Tuple(v) | Tok::TupleStruct(_, v) => vis.visit_seq(SeqAcc(v.into_iter())),
                Tok::Map(v) => vis.visit_map(MapAcc { it: v.into_iter(), val: None }),
                Tok::Struct(_, v) => vis.visit_map(MapAcc { it: v.into_iter().map(|(k, t)| (Tok::Str(k), t)).collect::<Vec<_>>().into_iter(), val: None }),
                Tok::Variant(..) => Err(Error("enum tokens are not replayed".to_string())),
            }
        }
        fn deserialize_option<V: Visitor<'de>>(self, vis: V) -> Result<V::Value, Error> {
            match self.0 { Tok::None => vis.visit_none(), Tok::Some(t) => vis.visit_some(De(*t)), Tok::Unit => vis.visit_unit(), t => vis.visit_some(De(t)) }
        }
        fn deserialize_newtype_struct<V: Visitor<'de>>(self, _n: &'static str, vis: V) -> Result<V::Value, Error> {
            match self.0 { Tok::Newtype(_, t) => vis.visit_newtype_struct(De(*t)), t => vis.visit_newtype_struct(De(t)) }
        }
        serde::forward_to_deserialize_any! {
            bool i8 i16 i32 i64 i128 u8 u16 u32 u64 u128 f32 f64 char str string bytes byte_buf unit unit_struct
            seq tuple tuple_struct map struct enum identifier ignored_any
        }
    }

    pub fn to_tok<T: Serialize>(v: &T) -> Result<Tok, Error> { v.serialize(Ser) }
    pub fn from_tok<T: DeserializeOwned>(t: Tok) -> Result<T, Error> { T::deserialize(De(t)) }

    // ---- text form of a token tree (no blanks), written by the Python side -------------------------
    //   b0 b1 | i8:n i16:n i32:n i64:n i128:n | u8:n ... u128:n | f32:hex f64:hex | c:hexcodepoint | s:hex | y:hex
    //   N | S(t) | U | W(t) | L[t,t,..] (seq) | T[t,..] (tuple) | M[k=v,..]
    pub fn parse(s: &str) -> Option<Tok> {
        let b = s.as_bytes();
        let mut i = 0usize;
        let t = p_tok(b, &mut i)?;
        if i == b.len() { Some(t) } else { None }
    }
    fn word<'a>(b: &'a [u8], i: &mut usize) -> &'a str {
        let st = *i;
        while *i < b.len() && !matches!(b[*i], b',' | b')' | b']' | b'=') { *i += 1; }
        std::str::from_utf8(&b[st..*i]).unwrap()
    }
    fn unhexb(s: &str) -> Option<Vec<u8>> {
        if s.len() % 2 != 0 { return None; }
        (0..s.len() / 2).map(|k| u8::from_str_radix(&s[2 * k..2 * k + 2], 16).ok()).collect()
    }
    fn p_list(b: &[u8], i: &mut usize, close: u8) -> Option<Vec<Tok>> {
        let mut v = vec![];
        if *i < b.len() && b[*i] == close { *i += 1; return Some(v); }
        loop {
            v.push(p_tok(b, i)?);
            if *i >= b.len() { return None; }
            if b[*i] == b',' { *i += 1; } else if b[*i] == close { *i += 1; return Some(v); } else { return None; }
        }
    }
    fn p_tok(b: &[u8], i: &mut usize) -> Option<Tok> {
        if *i >= b.len() { return None; }
        match b[*i] {
            b'N' => { *i += 1; Some(Tok::None) }
            b'U' => { *i += 1; Some(Tok::Unit) }
            b'S' | b'W' => {
                let k = b[*i]; *i += 1;
                if *i >= b.len() || b[*i] != b'(' { return None; }
                *i += 1;
                let t = p_tok(b, i)?;
                if *i >= b.len() || b[*i] != b')' { return None; }
                *i += 1;
                Some(if k == b'S' { Tok::Some(Box::new(t)) } else { Tok::Newtype("W".to_string(), Box::new(t)) })
            }
            b'L' | b'T' => {
                let k = b[*i]; *i += 1;
                if *i >= b.len() || b[*i] != b'[' { return None; }
                *i += 1;
                let v = p_list(b, i, b']')?;
                Some(if k == b'L' { Tok::Seq(v) } else { Tok::Tuple(v) })
            }
            b'M' => {
                *i += 1;
                if *i >= b.len() || b[*i] != b'[' { return None; }
                *i += 1;
                let mut v = vec![];
                if *i < b.len() && b[*i] == b']' { *i += 1; return Some(Tok::Map(v)); }
                loop {
                    let k = p_tok(b, i)?;
                    if *i >= b.len() || b[*i] != b'=' { return None; }
                    *i += 1;
                    let t = p_tok(b, i)?;
                    v.push((k, t));
                    if *i >= b.len() { return None; }
                    if b[*i] == b',' { *i += 1; } else if b[*i] == b']' { *i += 1; return Some(Tok::Map(v)); } else { return None; }
                }
            }
            _ => {
                let w = word(b, i);
                if w == "b0" { return Some(Tok::Bool(false)); }
                if w == "b1" { return Some(Tok::Bool(true)); }
                let (k, x) = w.split_once(':')?;
                Some(match k {
                    "i8" => Tok::I8(x.parse().ok()?), "i16" => Tok::I16(x.parse().ok()?), "i32" => Tok::I32(x.parse().ok()?),
                    "i64" => Tok::I64(x.parse().ok()?), "i128" => Tok::I128(x.parse().ok()?),
                    "u8" => Tok::U8(x.parse().ok()?), "u16" => Tok::U16(x.parse().ok()?), "u32" => Tok::U32(x.parse().ok()?),
                    "u64" => Tok::U64(x.parse().ok()?), "u128" => Tok::U128(x.parse().ok()?),
                    "f32" => Tok::F32(u32::from_str_radix(x, 16).ok()?), "f64" => Tok::F64(u64::from_str_radix(x, 16).ok()?),
                    "c" => Tok::Char(char::from_u32(u32::from_str_radix(x, 16).ok()?)?),
                    "s" => Tok::Str(String::from_utf8(unhexb(x)?).ok()?), "y" => Tok::Bytes(unhexb(x)?),
                    _ => return None,
                })
            }
        }
    }
    pub fn show(t: &Tok) -> String {
        match t {
            Tok::Bool(v) => format!("b{}", if *v { 1 } else { 0 }),
            Tok::I8(v) => format!("i8:{}", v), Tok::I16(v) => format!("i16:{}", v), Tok::I32(v) => format!("i32:{}", v),
            Tok::I64(v) => format!("i64:{}", v), Tok::I128(v) => format!("i128:{}", v),
            Tok::U8(v) => format!("u8:{}", v), Tok::U16(v) => format!("u16:{}", v), Tok::U32(v) => format!("u32:{}", v),
            Tok::U64(v) => format!("u64:{}", v), Tok::U128(v) => format!("u128:{}", v),
            Tok::F32(v) => format!("f32:{:08x}", v), Tok::F64(v) => format!("f64:{:016x}", v),
            Tok::Char(c) => format!("c:{:x}", *c as u32),
            Tok::Str(s) => format!("s:{}", s.bytes().map(|c| format!("{:02x}", c)).collect::<String>()),
            Tok::Bytes(y) => format!("y:{}", y.iter().map(|c| format!("{:02x}", c)).collect::<String>()),
            Tok::None => "N".to_string(), Tok::Some(t) => format!("S({})", show(t)), Tok::Unit => "U".to_string(),
            Tok::UnitStruct(n) => format!("US<{}>", n), Tok::Newtype(n, t) => format!("W<{}>({})", n, show(t)),
            Tok::Seq(v) => format!("L[{}]", v.iter().map(show).collect::<Vec<_>>().join(",")),
            Tok::Tuple(v) => format!("T[{}]", v.iter().map(show).collect::<Vec<_>>().join(",")),
            Tok::TupleStruct(n, v) => format!("TS<{}>[{}]", n, v.iter().map(show).collect::<Vec<_>>().join(",")),
            Tok::Map(v) => format!("M[{}]", v.iter().map(|(k, t)| format!("{}={}", show(k), show(t))).collect::<Vec<_>>().join(",")),
            Tok::Struct(n, v) => format!("ST<{}>[{}]", n, v.iter().map(|(k, t)| format!("{}={}", k, show(t))).collect::<Vec<_>>().join(",")),
            Tok::Variant(n, i, v, t) => format!("V<{}#{}:{}>({})", n, i, v, show(t)),
        }
    }
}
