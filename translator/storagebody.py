"""Translate the per-storage-class plumbing of src/lib.rs (the `storage_types! { types: ...; impl Conversion ...; impl
ConversionFactor ... }` blocks) into a Coq table (Gen/StorageSrc.v): for each class the associated type T and the bodies of
constant / conversion / powi / value, as normalised token text (paths shortened: `crate::`, `$crate::`, `num::`, `lib::cmp::`)."""
import os
import re

from uom2coq import lex, TranslateError
import opsbody as O


def _norm(txt):
    for a in ("$crate::", "crate::", "num::rational::", "num::pow::", "num::", "lib::cmp::Ordering::", "lib::cmp::"):
        txt = txt.replace(a, "")
    return txt


def unit_macro_rows(repo):
    """src/unit.rs: per storage class, how the unit! macro builds coefficient() / constant() from the table expressions (and the
    from_f64 helpers); the @coefficient / @constant helper arms; what the public arm forwards."""
    path = os.path.join(repo, "src", "unit.rs")
    with open(path, encoding="utf-8") as f:
        toks = lex(f.read(), path)
    n = len(toks)
    rows = []
    i = 0
    while i < n:
        if toks[i][:2] == ("id", "storage_types") and toks[i + 1][:2] == ("punct", "!") and toks[i + 2][:2] == ("punct", "{"):
            end = O._match(toks, i + 2, "{", "}")
            body = toks[i + 3:end]
            if body and body[0][:2] == ("id", "types"):
                k = 0
                while body[k][:2] != ("punct", ";"):
                    k += 1
                types = "unit!:" + O._txt(body[2:k])
                j = k + 1
                depth = 0
                while j < len(body):
                    if body[j][:2] == ("id", "fn"):
                        name = body[j + 1][1]
                        b = j
                        while body[b][:2] != ("punct", "{"):
                            b += 1
                        be = O._match(body, b, "{", "}")
                        if name != "is_valid":
                            rows.append((types, "", "fn " + name, _norm(O._txt(body[b + 1:be]))))
                        j = be
                    elif body[j][:2] == ("id", "type") and body[j + 1][:2] == ("id", "T"):
                        s_ = j
                        while body[s_][:2] != ("punct", ";"):
                            s_ += 1
                        rows.append((types, "", "type T", _norm(O._txt(body[j + 3:s_]))))
                        j = s_
                    j += 1
            i = end
        i += 1
    # macro arms
    for i in range(n - 3):
        if toks[i][:2] == ("id", "macro_rules") and toks[i + 2][:2] == ("id", "unit"):
            b = i + 3
            e = O._match(toks, b, "{", "}")
            k = b + 1
            while k < e:
                if toks[k][:2] == ("punct", "("):
                    pe = O._match(toks, k, "(", ")")
                    pat = O._txt(toks[k + 1:pe])
                    bb = pe + 1
                    while toks[bb][:2] != ("punct", "{"):
                        bb += 1
                    be = O._match(toks, bb, "{", "}")
                    if pat.startswith("@coefficient") or pat.startswith("@constant"):
                        rows.append(("unit!:arm", _norm(pat), "=>", _norm(O._txt(toks[bb + 1:be]))))
                    elif pat.startswith("system:"):
                        rows.append(("unit!:public arm", _norm(pat), "=>", _norm(O._txt(toks[bb + 1:be]))))
                    k = be
                k += 1
            break
    return rows


def translate(repo):
    path = os.path.join(repo, "src", "lib.rs")
    with open(path, encoding="utf-8") as f:
        toks = lex(f.read(), path)
    n = len(toks)
    rows = []
    i = 0
    while i < n:
        if toks[i][:2] == ("id", "storage_types") and toks[i + 1][:2] == ("punct", "!") and toks[i + 2][:2] == ("punct", "{"):
            end = O._match(toks, i + 2, "{", "}")
            body = toks[i + 3:end]
            if not (body and body[0][:2] == ("id", "types")):
                i = end
                continue
            k = 0
            while body[k][:2] != ("punct", ";"):
                k += 1
            types = O._txt(body[2:k])
            j = k + 1
            while j < len(body):
                if body[j][:2] == ("id", "impl"):
                    h = j
                    while body[h][:2] != ("punct", "{"):
                        h += 1
                    header = _norm(O._txt(body[j + 1:h]))
                    e2 = O._match(body, h, "{", "}")
                    inner = body[h + 1:e2]
                    m = 0
                    while m < len(inner):
                        if inner[m][:2] == ("id", "type") and inner[m + 1][0] == "id":
                            s_ = m
                            while inner[s_][:2] != ("punct", ";"):
                                s_ += 1
                            rows.append((types, header, "type " + inner[m + 1][1], _norm(O._txt(inner[m + 3:s_]))))
                            m = s_
                        elif inner[m][:2] == ("id", "const") and inner[m + 1][0] == "id":
                            s_ = m
                            while inner[s_][:2] != ("punct", ";"):
                                s_ += 1
                            rows.append((types, header, "const " + inner[m + 1][1], _norm(O._txt(inner[m + 2:s_]))))
                            m = s_
                        elif inner[m][:2] == ("id", "fn"):
                            name = inner[m + 1][1]
                            b = m
                            while inner[b][:2] != ("punct", "{"):
                                b += 1
                            sig = _norm(O._txt(inner[m + 2:b]))
                            be = O._match(inner, b, "{", "}")
                            rows.append((types, header, "fn " + name + sig, _norm(O._txt(inner[b + 1:be]))))
                            m = be
                        m += 1
                    j = e2
                j += 1
            i = end
        i += 1
    # default methods of the Conversion trait itself (coefficient = 1, constant = 0, conversion = coefficient)
    for i in range(n - 2):
        if toks[i][:2] == ("id", "trait") and toks[i + 1][:2] == ("id", "Conversion") and toks[i + 2][:2] == ("punct", "<"):
            h = i
            while toks[h][:2] != ("punct", "{"):
                h += 1
            e2 = O._match(toks, h, "{", "}")
            m = h + 1
            while m < e2:
                if toks[m][:2] == ("id", "fn"):
                    name = toks[m + 1][1]
                    b = m
                    while toks[b][:2] not in (("punct", "{"), ("punct", ";")):
                        b += 1
                    if toks[b][:2] == ("punct", "{"):
                        be = O._match(toks, b, "{", "}")
                        rows.append(("default", "traitConversion<V>", "fn " + name, _norm(O._txt(toks[b + 1:be]))))
                        m = be
                m += 1
    return rows + unit_macro_rows(repo)


def _s(x):
    return '"' + x.replace('"', '""') + '"'


def emit(repo):
    rows = translate(repo)
    o = ["(* GENERATED by /verif/translator/storagebody.py from src/lib.rs of the current tree. DO NOT EDIT. *)",
         "From Coq Require Import List String.", "Import ListNotations.", "Open Scope string_scope.", "",
         "Definition src_storage : list (string * string * string * string) := ["]
    o.append(";\n".join(f"  ({_s(a)}, {_s(b)}, {_s(c)}, {_s(d)})" for a, b, c, d in rows))
    o.append("].")
    return "\n".join(o) + "\n", rows


if __name__ == "__main__":
    import sys
    print(emit(sys.argv[1] if len(sys.argv) > 1 else "/repo")[0])
