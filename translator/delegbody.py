"""Translate the one-line delegating methods of uom (rounding in a unit, angle / ratio functions, the float
helpers of Quantity, new / get, Neg) into a Coq table (Gen/DelegSrc.v): for each function its wrapper
(struct literal, Self::new::<N>, Angle::new::<radian>, Ratio::new::<ratio>, .into(), none), the receiver
(self.value or self.get::<N>()), the storage-type method it calls and the argument text."""
import os
import re

from uom2coq import lex, TranslateError
import opsbody as O

FILES = ["src/quantity.rs", "src/si/angle.rs", "src/si/ratio.rs", "src/system.rs"]
STRUCT_RE = re.compile(r"^(?:Self|Quantity|\$quantity)\{dimension:\$?crate::lib::marker::PhantomData,units:\$?crate::lib::marker::PhantomData,value:(.*?),?\}$")
WRAPS = [("Self::new::<N>", re.compile(r"^Self::new::<N>\((.*)\)$")), ("Angle::new::<radian>", re.compile(r"^Angle::new::<radian>\((.*)\)$")),
         ("Ratio::new::<ratio>", re.compile(r"^Ratio::new::<ratio>\((.*)\)$")), ("into", re.compile(r"^(.*)\.into\(\)$"))]
UPDATE_RE = re.compile(r"^Quantity\{value:(.*),\.\.self\}$")
SUM_RE = re.compile(r"^iter\.map\(\|(\w+)\|\{?\1\.value\}?\)\.sum\(\)$")
STATIC_RE = re.compile(r"^V::(\w+)\(\)$")
DESER_RE = re.compile(r"^let(\w+):V=\$crate::serde::Deserialize::deserialize\((\w+)\)\?;Ok\(Quantity\{dimension:\$crate::lib::marker::PhantomData,units:\$crate::lib::marker::PhantomData,value(?::\1)?,?\}\)$")
DESER2_RE = re.compile(r"^let(\w+):Result<V,De::Error>=\$crate::serde::Deserialize::deserialize\((\w+)\);\1\.map\(\|(\w+)\|Quantity\{dimension:\$crate::lib::marker::PhantomData,units:\$crate::lib::marker::PhantomData,(?:value:\3|\3),?\}\)$")
CORE_RE = re.compile(r"^(self\.value|self\.get::<N>\(\))\.(\w+)\((.*)\)$")
NEG_RE = re.compile(r"^-(self\.value)$")


def _fns(path):
    with open(path, encoding="utf-8") as f:
        toks = lex(f.read(), path)
    n = len(toks)
    out = []
    i = 0
    while i < n:
        if toks[i][:2] == ("id", "fn") and toks[i + 1][0] == "id":
            is_pub = toks[i - 1][:2] == ("id", "pub")
            name = toks[i + 1][1]
            p = i
            while toks[p][:2] != ("punct", "("):
                p += 1
            pe = O._match(toks, p, "(", ")")
            b = pe
            while b < n and toks[b][:2] not in (("punct", "{"), ("punct", ";")):
                b += 1
            if b >= n or toks[b][:2] == ("punct", ";"):
                i = b
                continue
            be = O._match(toks, b, "{", "}")
            body = toks[b + 1:be]
            # drop leading attributes and `use` statements
            k = 0
            while k < len(body):
                if body[k][:2] == ("punct", "#") and body[k + 1][:2] == ("punct", "["):
                    k = O._match(body, k + 1, "[", "]") + 1
                elif body[k][:2] == ("id", "use"):
                    while body[k][:2] != ("punct", ";"):
                        k += 1
                    k += 1
                else:
                    break
            out.append((name, is_pub, O._txt(toks[p + 1:pe]), O._txt(O.inline_lets(body[k:])), toks[i][2]))
            i = be
        i += 1
    return out


def classify(body):
    wrap = ""
    body = body[:-1] if body.endswith(";") else body
    m = DESER_RE.match(body)
    if m:
        return "Ok(struct)", "Deserialize", "deserialize", m.group(2)
    m = DESER2_RE.match(body)
    if m:
        return "Ok(struct)", "Deserialize", "deserialize", m.group(2)       # the same thing through Result::map
    m = UPDATE_RE.match(body)
    if m:
        w, r, me, a = classify(m.group(1))
        return ("update" if w == "" else "update+" + w), r, me, a
    m = STRUCT_RE.match(body)
    if m:
        wrap, body = "struct", m.group(1)
    else:
        for w, rx in WRAPS:
            m = rx.match(body)
            if m:
                wrap, body = w, m.group(1)
                break
    m = CORE_RE.match(body)
    if m:
        return wrap, m.group(1), m.group(2), m.group(3)
    m = NEG_RE.match(body)
    if m:
        return wrap, m.group(1), "neg", ""
    m = SUM_RE.match(body)
    if m:
        return wrap, "iter.map(value)", "sum", ""
    m = STATIC_RE.match(body)
    if m:
        return wrap, "V", m.group(1), ""
    return wrap, "?", "?", body[:120]


WANTED = {
    "src/quantity.rs": ["floor", "ceil", "round", "trunc", "fract", "new", "get"],
    "src/si/angle.rs": ["cos", "cosh", "sin", "sinh", "tan", "tanh", "atan2"],
    "src/si/ratio.rs": ["acos", "acosh", "asin", "asinh", "atan", "atanh", "exp", "exp2", "ln", "log", "log2", "log10", "exp_m1", "ln_1p"],
    "src/system.rs": ["classify", "abs", "signum", "is_sign_positive", "is_sign_negative", "recip", "max", "min", "is_nan", "is_infinite", "is_finite", "is_normal",
                      "cbrt", "powi", "sqrt", "neg",
                      "saturating_add", "saturating_sub", "sum", "zero", "is_zero", "default", "hash", "cmp", "serialize", "deserialize"],
}


FORWARDED = ("saturating_add", "saturating_sub", "sum", "zero", "is_zero", "default", "hash", "cmp", "serialize", "deserialize")


def translate(repo):
    rows = []
    for rel in FILES:
        for name, is_pub, params, body, line in _fns(os.path.join(repo, rel)):
            if name not in WANTED[rel]:
                continue
            if not is_pub and not (rel == "src/system.rs" and name in ("neg", "max", "min", "saturating_add", "saturating_sub", "sum", "zero", "is_zero",
                                                                        "default", "hash", "cmp", "serialize", "deserialize")):
                continue        # test helpers of the same name
            if rel == "src/system.rs" and name in ("max", "min") and "self.value" not in body:
                continue
            pname = params.split(":")[0].replace("mut", "") if ":" in params else ""
            if name == "new" and pname and pname != "v":
                body = body.replace(f"(&{pname})", "(&v)")       # the parameter's name is not part of the meaning
            if name == "new" and "to_base" in body:
                m = STRUCT_RE.match(body)
                rows.append({"file": rel, "line": line, "fn": name, "wrap": "struct" if m else "", "recv": "-", "meth": "-", "args": (m.group(1) if m else body)[:200]})
                continue
            if name == "get" and "from_base" in body:
                rows.append({"file": rel, "line": line, "fn": name, "wrap": "", "recv": "-", "meth": "-", "args": body[:200]})
                continue
            if name in ("new", "get"):
                continue
            w, r, m_, a = classify(body)
            if name in FORWARDED:
                # the parameters' names are not part of the meaning: positional
                k = 0
                for part in params.split(","):
                    if ":" in part and not part.startswith(("self", "&self", "mutself", "&mutself")):
                        k += 1
                        pn = part.split(":")[0].replace("mut", "", 1) if part.startswith("mut") else part.split(":")[0]
                        a = re.sub(r"(?<![\w.])" + re.escape(pn) + r"(?!\w)", f"_{k}", a)
            rows.append({"file": rel, "line": line, "fn": name, "wrap": w, "recv": r, "meth": m_, "args": a})
    return rows


def _s(x):
    return '"' + x.replace('"', '""') + '"'


def emit(repo):
    rows = translate(repo)
    o = ["(* GENERATED by /verif/translator/delegbody.py from the current source tree. DO NOT EDIT. *)",
         "From Coq Require Import List String ZArith.", "From UomV Require Import Model.DelegSrc.", "Import ListNotations.", "Open Scope string_scope.", "",
         "Definition src_delegations : list deleg_src := ["]
    o.append(";\n".join(f"  {{| dl_file := {_s(r['file'])}; dl_line := {r['line']}%Z; dl_fn := {_s(r['fn'])}; dl_wrap := {_s(r['wrap'])}; dl_recv := {_s(r['recv'])}; "
                        f"dl_meth := {_s(r['meth'])}; dl_args := {_s(r['args'])} |}}" for r in rows))
    o.append("].")
    return "\n".join(o) + "\n", rows


if __name__ == "__main__":
    import sys
    print(emit(sys.argv[1] if len(sys.argv) > 1 else "/repo")[0])
