"""Translate the one-line delegating methods of uom (rounding in a unit, angle / ratio functions, the float
helpers of Quantity, new / get, Neg) into a Coq table (Gen/DelegSrc.v): for each function its wrapper
(struct literal, Self::new::<N>, Angle::new::<radian>, Ratio::new::<ratio>, .into(), none), the receiver
(self.value or self.get::<N>()), the storage-type method it calls and the argument text."""
import os
import re

from uom2coq import lex, TranslateError
import opsbody as O

FILES = ["src/quantity.rs", "src/si/angle.rs", "src/si/ratio.rs", "src/system.rs"]
STRUCT_RE = re.compile(r"^(?:Self|Quantity|\$quantity)\{dimension:\$?crate::lib::marker::PhantomData,units:\$?crate::lib::marker::PhantomData,value:(.*?),?\}$")
WRAPS = [("Self::new::<N>", re.compile(r"^Self::new::<N>\((.*)\)$")), ("Angle::new::<radian>", re.compile(r"^Angle::new::<radian>\((.*)\)$")),
         ("Ratio::new::<ratio>", re.compile(r"^Ratio::new::<ratio>\((.*)\)$")), ("into", re.compile(r"^(.*)\.into\(\)$"))]
CORE_RE = re.compile(r"^(self\.value|self\.get::<N>\(\))\.(\w+)\((.*)\)$")
NEG_RE = re.compile(r"^-(self\.value)$")


def _fns(path):
    with open(path, encoding="utf-8") as f:
        toks = lex(f.read(), path)
    n = len(toks)
    out = []
    i = 0
    while i < n:
        if toks[i][:2] == ("id", "fn") and toks[i + 1][0] == "id":
            is_pub = toks[i - 1][:2] == ("id", "pub")
            name = toks[i + 1][1]
            p = i
            while toks[p][:2] != ("punct", "("):
                p += 1
            pe = O._match(toks, p, "(", ")")
            b = pe
            while b < n and toks[b][:2] not in (("punct", "{"), ("punct", ";")):
                b += 1
            if b >= n or toks[b][:2] == ("punct", ";"):
                i = b
                continue
            be = O._match(toks, b, "{", "}")
            body = toks[b + 1:be]
            # drop leading attributes and `use` statements
            k = 0
            while k < len(body):
                if body[k][:2] == ("punct", "#") and body[k + 1][:2] == ("punct", "["):
                    k = O._match(body, k + 1, "[", "]") + 1
                elif body[k][:2] == ("id", "use"):
                    while body[k][:2] != ("punct", ";"):
                        k += 1
                    k += 1
                else:
                    break
            out.append((name, is_pub, O._txt(toks[p + 1:pe]), O._txt(O.inline_lets(body[k:])), toks[i][2]))
            i = be
        i += 1
    return out


def classify(body):
    wrap = ""
    m = STRUCT_RE.match(body)
    if m:
        wrap, body = "struct", m.group(1)
    else:
        for w, rx in WRAPS:
            m = rx.match(body)
            if m:
                wrap, body = w, m.group(1)
                break
    m = CORE_RE.match(body)
    if m:
        return wrap, m.group(1), m.group(2), m.group(3)
    m = NEG_RE.match(body)
    if m:
        return wrap, m.group(1), "neg", ""
    return wrap, "?", "?", body[:120]


WANTED = {
    "src/quantity.rs": ["floor", "ceil", "round", "trunc", "fract", "new", "get"],
    "src/si/angle.rs": ["cos", "cosh", "sin", "sinh", "tan", "tanh", "atan2"],
    "src/si/ratio.rs": ["acos", "acosh", "asin", "asinh", "atan", "atanh", "exp", "exp2", "ln", "log", "log2", "log10", "exp_m1", "ln_1p"],
    "src/system.rs": ["classify", "abs", "signum", "is_sign_positive", "is_sign_negative", "recip", "max", "min", "is_nan", "is_infinite", "is_finite", "is_normal",
                      "cbrt", "powi", "sqrt", "neg"],
}


def translate(repo):
    rows = []
    for rel in FILES:
        for name, is_pub, params, body, line in _fns(os.path.join(repo, rel)):
            if name not in WANTED[rel]:
                continue
            if not is_pub and not (rel == "src/system.rs" and name in ("neg", "max", "min")):
                continue        # test helpers of the same name
            if rel == "src/system.rs" and name in ("max", "min") and "self.value" not in body:
                continue
            pname = params.split(":")[0].replace("mut", "") if ":" in params else ""
            if name == "new" and pname and pname != "v":
                body = body.replace(f"(&{pname})", "(&v)")       # the parameter's name is not part of the meaning
            if name == "new" and "to_base" in body:
                m = STRUCT_RE.match(body)
                rows.append({"file": rel, "line": line, "fn": name, "wrap": "struct" if m else "", "recv": "-", "meth": "-", "args": (m.group(1) if m else body)[:200]})
                continue
            if name == "get" and "from_base" in body:
                rows.append({"file": rel, "line": line, "fn": name, "wrap": "", "recv": "-", "meth": "-", "args": body[:200]})
                continue
            if name in ("new", "get"):
                continue
            w, r, m_, a = classify(body)
            rows.append({"file": rel, "line": line, "fn": name, "wrap": w, "recv": r, "meth": m_, "args": a})
    return rows


def _s(x):
    return '"' + x.replace('"', '""') + '"'


def emit(repo):
    rows = translate(repo)
    o = ["(* GENERATED by /verif/translator/delegbody.py from the current source tree. DO NOT EDIT. *)",
         "From Coq Require Import List String ZArith.", "From UomV Require Import Model.DelegSrc.", "Import ListNotations.", "Open Scope string_scope.", "",
         "Definition src_delegations : list deleg_src := ["]
    o.append(";\n".join(f"  {{| dl_file := {_s(r['file'])}; dl_line := {r['line']}%Z; dl_fn := {_s(r['fn'])}; dl_wrap := {_s(r['wrap'])}; dl_recv := {_s(r['recv'])}; "
                        f"dl_meth := {_s(r['meth'])}; dl_args := {_s(r['args'])} |}}" for r in rows))
    o.append("].")
    return "\n".join(o) + "\n", rows


if __name__ == "__main__":
    import sys
    print(emit(sys.argv[1] if len(sys.argv) > 1 else "/repo")[0])
