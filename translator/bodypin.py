"""Translate the bodies of the functions whose meaning Model/Text.v, Model/Duration.v and Model/Serde.v transcribe by hand
(Debug and QuantityArguments formatting, FromStr, the two Duration conversions, the format-argument constructors) into
normalised token strings (Gen/BodySrc.v): comments and layout are gone (lexer), parameters, `let`-bound names and closure
parameters are replaced by positional names (`_1`, `_2`, ... in binding order; a re-binding gets a new name), tokens are
separated by one blank.  Spec/BodyTie.v pins, per function, the text the model was written against."""
import os

from uom2coq import lex, TranslateError
import opsbody as O


def _fns(path):
    with open(path, encoding="utf-8") as f:
        toks = lex(f.read(), path)
    n = len(toks)
    out = []
    i = 0
    while i < n:
        if toks[i][:2] == ("id", "fn") and i + 1 < n and toks[i + 1][0] == "id":
            name = toks[i + 1][1]
            p = i
            while toks[p][:2] != ("punct", "("):
                p += 1
            pe = O._match(toks, p, "(", ")")
            b = pe
            while b < n and toks[b][:2] not in (("punct", "{"), ("punct", ";")):
                b += 1
            if b >= n or toks[b][:2] == ("punct", ";"):
                i = b
                continue
            be = O._match(toks, b, "{", "}")
            out.append((name, toks[p + 1:pe], toks[pe + 1:b], toks[b + 1:be], toks[i][2]))
            i = be
        i += 1
    return out


def _param_names(ptoks):
    names = []
    for part in O._split_top(ptoks):
        ids = []
        for t in part:
            if t[:2] == ("punct", ":"):
                break
            if t[0] == "id" and t[1] not in ("mut", "self", "ref"):
                ids.append(t[1])
        if ids and any(t[:2] == ("punct", ":") for t in part):
            names.append(ids[-1])
    return names


def normalise(ptoks, body):
    alias = {}
    counter = [0]
    meta = {}           # macro metavariables ($abbreviation, $unit, ...) by order of appearance; $crate stays

    def fresh(name):
        counter[0] += 1
        alias[name] = f"_{counter[0]}"
        return alias[name]

    for nm in _param_names(ptoks):
        fresh(nm)
    out = []

    def arms(ts):
        """match arms of this token range: pattern start -> (index of `=>`, index after the arm's body)."""
        res = {}
        for j, t in enumerate(ts):
            if t[:2] != ("punct", "=>"):
                continue
            d, a = 0, j - 1
            while a >= 0:
                u = ts[a]
                if u[0] == "punct" and u[1] in ")]}":
                    if u[1] == "}" and d == 0:
                        break
                    d += 1
                elif u[0] == "punct" and u[1] in "([{":
                    if d == 0:
                        break
                    d -= 1
                elif u[:2] == ("punct", ",") and d == 0:
                    break
                elif u[0] == "punct" and u[1] not in ("|", "::", "&", "$", "..", "..=", "@", "-", ","):
                    break           # not part of a pattern (e.g. the `+` closing a macro repetition of arms)
                a -= 1
            start = a + 1
            e = j + 1
            if e < len(ts) and ts[e][:2] == ("punct", "{"):
                e = O._match(ts, e, "{", "}") + 1
            else:
                d = 0
                while e < len(ts):
                    u = ts[e]
                    if u[0] == "punct" and u[1] in "([{":
                        d += 1
                    elif u[0] == "punct" and u[1] in ")]}":
                        if d == 0:
                            break
                        d -= 1
                    elif u[:2] == ("punct", ",") and d == 0:
                        break
                    e += 1
            res[start] = (j, e)
        return res

    def pattern_binders(ts):
        out_ = []
        for i, u in enumerate(ts):
            if u[0] != "id" or not (u[1][0].islower() or (u[1][0] == "_" and len(u[1]) > 1)) or u[1] in ("ref", "mut", "if", "crate", "self"):
                continue
            pv = ts[i - 1][:2] if i > 0 else None
            nx = ts[i + 1][:2] if i + 1 < len(ts) else None
            if pv in (("punct", "::"), ("punct", "."), ("punct", "$")) or nx in (("punct", "("), ("punct", "::"), ("punct", "!"), ("punct", "{")):
                continue
            out_.append(u[1])
        return out_

    def emit_range(ts):
        k = 0
        arm = arms(ts)
        restore = {}        # index after an arm's body -> bindings to restore
        while k < len(ts):
            if k in restore:
                saved = restore.pop(k)
                alias.clear()
                alias.update(saved)
            if k in arm and not any(u[:2] == ("id", "if") for u in ts[k:arm[k][0]]):
                arrow, end = arm[k]
                restore[end] = dict(alias)
                for nm in pattern_binders(ts[k:arrow]):
                    fresh(nm)
            t = ts[k]
            prev = ts[k - 1][:2] if k > 0 else None
            if t[:2] == ("id", "let"):
                # let [mut] NAME [: TYPE] = RHS ;
                j = k + 1
                if j < len(ts) and ts[j][:2] == ("id", "mut"):
                    j += 1
                if j < len(ts) and ts[j][0] == "id":
                    name = ts[j][1]
                    d, e = 0, j + 1
                    while e < len(ts):
                        if ts[e][0] == "punct" and ts[e][1] in "({[":
                            d += 1
                        elif ts[e][0] == "punct" and ts[e][1] in ")}]":
                            d -= 1
                        elif ts[e][:2] == ("punct", ";") and d == 0:
                            break
                        e += 1
                    out.append("let")
                    if ts[k + 1][:2] == ("id", "mut"):
                        out.append("mut")
                    mark = len(out)
                    out.append("?")
                    emit_range(ts[j + 1:e])          # type annotation and right-hand side see the old bindings
                    out[mark] = fresh(name)
                    if e < len(ts):
                        out.append(";")
                    k = e + 1
                    continue
            if t[:2] == ("punct", "|") and prev in (("punct", "("), ("punct", ","), ("punct", "="), None):
                # closure parameters up to the closing bar
                e = k + 1
                while e < len(ts) and ts[e][:2] != ("punct", "|"):
                    e += 1
                out.append("|")
                for u in ts[k + 1:e]:
                    if u[0] == "id" and u[1] != "_" and u[1] not in ("mut", "ref"):
                        out.append(fresh(u[1]))
                    else:
                        out.append(u[1])
                out.append("|")
                k = e + 1
                continue
            if t[0] == "id" and prev == ("punct", "$"):
                if t[1] == "crate":
                    out.append("crate")
                else:
                    out.append(meta.setdefault(t[1], f"m{len(meta) + 1}"))
            elif t[0] == "id" and t[1] in alias and prev not in (("punct", "."), ("punct", "::")):
                nxt = ts[k + 1][:2] if k + 1 < len(ts) else None
                if nxt == ("punct", "::"):
                    out.append(t[1])                 # a path segment, not a local
                elif prev in (("punct", "{"), ("punct", ",")) and nxt in (("punct", ","), ("punct", "}")):
                    out.extend([t[1], ":", alias[t[1]]])  # field shorthand
                elif nxt == ("punct", ":") and prev in (("punct", "{"), ("punct", ",")):
                    out.append(t[1])                 # a field name
                else:
                    out.append(alias[t[1]])
            elif t[0] == "str":
                out.append("'" + t[1] + "'")
            else:
                out.append(t[1])
            k += 1

    emit_range(body)
    return " ".join(out)


def _strip_attrs(body):
    k = 0
    while k < len(body):
        if body[k][:2] == ("punct", "#") and k + 1 < len(body) and body[k + 1][:2] == ("punct", "["):
            k = O._match(body, k + 1, "[", "]") + 1
        elif body[k][:2] == ("id", "use"):
            while body[k][:2] != ("punct", ";"):
                k += 1
            k += 1
        else:
            break
    return body[k:]


# key, file, fn name, test on the text of the parameter list
TARGETS = [
    ("debug_fmt", "src/system.rs", "fmt", lambda p: "lib::fmt::Formatter" in p),
    ("arguments_fmt", "src/system.rs", "fmt", lambda p: "lib::fmt::Formatter" not in p and "Formatter" in p),
    ("from_str", "src/quantity.rs", "from_str", lambda p: True),
    ("format_args", "src/quantity.rs", "format_args", lambda p: True),
    ("into_format_args", "src/quantity.rs", "into_format_args", lambda p: True),
    ("arguments_with", "src/quantity.rs", "with", lambda p: True),
    ("duration_from_time", "src/si/time.rs", "try_from", lambda p: "Time<" in p),
    ("time_from_duration", "src/si/time.rs", "try_from", lambda p: "Duration" in p and "Time<" not in p),
]


def translate(repo):
    rows = []
    cache = {}
    for key, rel, fn, test in TARGETS:
        if rel not in cache:
            cache[rel] = _fns(os.path.join(repo, rel))
        found = [(pt, wt, body, line) for name, pt, wt, body, line in cache[rel] if name == fn and test(O._txt(pt))]
        if len(found) != 1:
            rows.append({"key": key, "file": rel, "line": 0, "text": f"<{len(found)} functions match>"})
            continue
        pt, wt, body, line = found[0]
        try:
            text = normalise(pt, _strip_attrs(body))
        except (TranslateError, IndexError) as e:
            text = f"<not translatable: {e}>"
        rows.append({"key": key, "file": rel, "line": line, "text": text})
    return rows


def _s(x):
    return '"' + x.replace('"', '""') + '"'


def emit(repo):
    rows = translate(repo)
    lines = ["(* GENERATED by /verif/translator/bodypin.py from the current source tree. DO NOT EDIT. *)",
             "From Coq Require Import List String ZArith.", "Import ListNotations.", "Open Scope string_scope.", "",
             "Definition src_bodies : list (string * string) := ["]
    lines.append(";\n".join(f"  ({_s(r['key'])}, {_s(r['text'])})" for r in rows))
    lines.append("].")
    return "\n".join(lines) + "\n", rows


if __name__ == "__main__":
    import sys
    for r in translate(sys.argv[1] if len(sys.argv) > 1 else "/repo"):
        print(r["key"], r["file"], r["line"])
        print("   ", r["text"])
