"""Translate the bodies of uom's three conversion functions (src/system.rs: from_base, to_base,
change_base) and the declaration of `struct Quantity` into Coq terms (Gen/ConvSrc.v).

The translation is purely syntactic: each `let` is matched against the one form the model knows
(anything else becomes an `Unknown` marker that makes the tie theorems fail), the final `if` and its
arithmetic are parsed into a small expression tree.  Model/ConvSrc.v evaluates those trees over any
CF record; Spec/ConvTie.v proves them equal to Model.Conv's functions."""
import os

from uom2coq import lex, TranslateError


def _find_fn(toks, name):
    """Index of `fn <name>` ; returns (attrs_text_list, index_of_fn_token)."""
    for i in range(len(toks) - 1):
        if toks[i][:2] == ("id", "fn") and toks[i + 1][:2] == ("id", name):
            # attributes immediately before (walk back over `# [ ... ]` groups and doc comments are already stripped)
            attrs = []
            j = i
            while j >= 1 and toks[j - 1][:2] == ("punct", "]"):
                k = j - 1
                depth = 0
                while k >= 0:
                    if toks[k][:2] == ("punct", "]"):
                        depth += 1
                    elif toks[k][:2] == ("punct", "["):
                        depth -= 1
                        if depth == 0:
                            break
                    k -= 1
                if k < 1 or toks[k - 1][:2] != ("punct", "#"):
                    break
                attrs.append("".join(t[1] for t in toks[k + 1:j - 1]))
                j = k - 1
            return attrs, i
    raise TranslateError(f"src/system.rs: fn {name} not found")


def _body(toks, i):
    """tokens of the `{ ... }` body of the fn starting at token i (skips the signature and where clause)."""
    depth_angle = 0
    j = i
    while j < len(toks):
        if toks[j][:2] == ("punct", "{"):
            break
        j += 1
    depth = 0
    k = j
    while k < len(toks):
        if toks[k][:2] == ("punct", "{"):
            depth += 1
        elif toks[k][:2] == ("punct", "}"):
            depth -= 1
            if depth == 0:
                return toks[j + 1:k]
        k += 1
    raise TranslateError("unterminated fn body")


def _txt(ts):
    return "".join(t[1] for t in ts)


class E:
    """expression parser over a token list: comparison < additive < multiplicative < postfix < primary"""

    def __init__(self, ts, where, exp_alias=()):
        self.t, self.i, self.w, self.ea = ts, 0, where, list(exp_alias)

    def peek(self):
        return self.t[self.i][:2] if self.i < len(self.t) else ("eof", "")

    def eat(self, kind, text):
        if self.peek() != (kind, text):
            raise TranslateError(f"{self.w}: expected {text!r} at token {self.i}: {_txt(self.t[self.i:self.i + 6])!r}")
        self.i += 1

    def cond(self):
        a = self.add()
        k, x = self.peek()
        if k == "punct" and x in ("<", "<=", ">", ">=", "==", "!="):
            self.i += 1
            b = self.add()
            return ("cmp", x, a, b)
        return a

    def add(self):
        a = self.mul()
        while self.peek() in (("punct", "+"), ("punct", "-")):
            op = self.peek()[1]
            self.i += 1
            b = self.mul()
            a = ("add" if op == "+" else "sub", a, b)
        return a

    def mul(self):
        a = self.post()
        while self.peek() in (("punct", "*"), ("punct", "/")):
            op = self.peek()[1]
            self.i += 1
            b = self.post()
            a = ("mul" if op == "*" else "div", a, b)
        return a

    def post(self):
        a = self.prim()
        while self.peek() == ("punct", "."):
            self.i += 1
            k, m = self.peek()
            self.i += 1
            self.eat("punct", "(")
            depth, st = 1, self.i
            while depth:
                if self.peek() == ("eof", ""):
                    raise TranslateError(f"{self.w}: unterminated call")
                if self.peek() == ("punct", "("):
                    depth += 1
                elif self.peek() == ("punct", ")"):
                    depth -= 1
                self.i += 1
            arg = _txt(self.t[st:self.i - 1])
            if m == "powi" and arg in self.ea:
                arg = POWI_ARG
            a = ("call", m, arg, a)
        return a

    def prim(self):
        k, x = self.peek()
        if (k, x) == ("punct", "("):
            self.i += 1
            sub = E(self.t, self.w, self.ea)
            sub.i = self.i
            a = sub.cond()
            self.i = sub.i
            self.eat("punct", ")")
            return a
        if k == "id":
            self.i += 1
            return ("id", x)
        raise TranslateError(f"{self.w}: unexpected token {x!r} in expression")


def _split_stmts(ts):
    """Split a body into statements at top-level `;` ; the trailing expression (no `;`) is the last item."""
    out, cur, depth = [], [], 0
    for t in ts:
        if t[0] == "punct" and t[1] in "({[":
            depth += 1
        elif t[0] == "punct" and t[1] in ")}]":
            depth -= 1
        if t[:2] == ("punct", ";") and depth == 0:
            out.append(cur)
            cur = []
        else:
            cur.append(t)
    out.append(cur)
    return out


def _if_parts(ts, where):
    """`if COND { A } else { B }` -> (cond tokens, A tokens, B tokens)"""
    if not ts or ts[0][:2] != ("id", "if"):
        raise TranslateError(f"{where}: final expression is not an `if`: {_txt(ts)[:60]!r}")
    i = 1
    while ts[i][:2] != ("punct", "{"):
        i += 1
    cond = ts[1:i]

    def block(j):
        depth, k = 0, j
        while True:
            if ts[k][:2] == ("punct", "{"):
                depth += 1
            elif ts[k][:2] == ("punct", "}"):
                depth -= 1
                if depth == 0:
                    return ts[j + 1:k], k + 1
            k += 1
    a, j = block(i)
    if ts[j][:2] != ("id", "else"):
        raise TranslateError(f"{where}: `if` without `else`")
    b, j2 = block(j + 1)
    if j2 != len(ts):
        raise TranslateError(f"{where}: tokens after the `if` expression")
    return cond, a, b


F_PRODUCT = "V::coefficient()$(*U::$name::coefficient().powi(D::$symbol::to_i32()))+"
POWI_ARG = "D::$symbol::to_i32()"


def _term(e, names, where):
    """expression tree -> Coq term of type cterm; names: id -> constructor"""
    k = e[0]
    if k == "id":
        if e[1] not in names:
            raise TranslateError(f"{where}: unknown identifier {e[1]!r}")
        return names[e[1]]
    if k in ("add", "sub", "mul", "div"):
        c = {"add": "TAdd", "sub": "TSub", "mul": "TMul", "div": "TDiv"}[k]
        return f"({c} {_term(e[1], names, where)} {_term(e[2], names, where)})"
    if k == "call":
        _, m, arg, a = e
        if m == "powi" and arg == POWI_ARG:
            return f"(TPowi {_term(a, names, where)})"
        raise TranslateError(f"{where}: unknown method call .{m}({arg})")
    raise TranslateError(f"{where}: comparison inside arithmetic")


def _strip_value(e, where):
    """(EXPR).value() -> (EXPR, True)"""
    if e[0] == "call" and e[1] == "value" and e[2] == "":
        return e[3], True
    return e, False


def _cond(e, names, where):
    if e[0] != "cmp":
        raise TranslateError(f"{where}: condition is not a comparison")
    c = {"<": "CLt", "<=": "CLe", ">": "CGt", ">=": "CGe", "==": "CEq", "!=": "CNe"}[e[1]]
    return f"({c} {_term(e[2], names, where)} {_term(e[3], names, where)})"


def translate_to_from(toks, name):
    where = f"src/system.rs fn {name}"
    attrs, i = _find_fn(toks, name)
    stmts = _split_stmts(_body(toks, i))
    # the value parameter: `fn name<..>(PARAM: &V)`
    k = i
    while toks[k][:2] != ("punct", "("):
        k += 1
    param = toks[k + 1][1]
    names = {param: "RAW"}          # local name -> what it denotes (classified by the right-hand side, not by the name)
    kinds = []
    cons = "ConsUnknown"
    for s in stmts[:-1]:
        if not s:
            continue
        if s[0][:2] == ("id", "use"):
            continue
        if s[0][:2] != ("id", "let") or s[2][:2] != ("punct", "="):
            raise TranslateError(f"{where}: unexpected statement {_txt(s)[:60]!r}")
        nm, rhs = s[1][1], _txt(s[3:])
        if rhs.endswith(".conversion()") and names.get(rhs[:-len(".conversion()")]) == "RAW":
            names[nm] = "TV"
            kinds.append("v")
        elif rhs == "N::coefficient()":
            names[nm] = "TCoef"
            kinds.append("coef")
        elif rhs == F_PRODUCT:
            names[nm] = "TF"
            kinds.append("f")
        elif rhs in ("N::constant($crate::ConstantOp::Add)", "N::constant($crate::ConstantOp::Sub)"):
            names[nm] = "TCons"
            kinds.append("cons")
            cons = "ConsAdd" if rhs.endswith("Add)") else "ConsSub"
        else:
            # any other local that is pure arithmetic over what is already known: it denotes its expression
            try:
                names[nm] = _term(E(s[3:], where).cond(), {k_: v_ for k_, v_ in names.items() if v_ != "RAW"}, where)
            except TranslateError:
                raise TranslateError(f"{where}: `let {nm} = {rhs[:70]}` is neither one of the four bindings the model knows nor arithmetic over them")
    flags = {"v_conv": "v" in kinds, "coef_unit": "coef" in kinds, "f_product": "f" in kinds, "cons": cons,
             "lets": sorted(kinds) == ["coef", "cons", "f", "v"]}
    names = {k_: v_ for k_, v_ in names.items() if v_ != "RAW"}
    cond_t, a_t, b_t = _if_parts(stmts[-1], where)
    cond = _cond(E(cond_t, where).cond(), names, where)
    ea, va = _strip_value(E(a_t, where).cond(), where)
    eb, vb = _strip_value(E(b_t, where).cond(), where)
    return {"name": name, "attrs": attrs, "flags": flags, "cond": cond, "then": _term(ea, names, where), "else": _term(eb, names, where),
            "value": va and vb}


def translate_change_base(toks):
    where = "src/system.rs fn change_base"
    attrs, i = _find_fn(toks, "change_base")
    body = _body(toks, i)
    stmts = _split_stmts(body)
    stmts = [s for s in stmts if s and s[0][:2] != ("id", "use")]
    # let v = v.conversion();   $( let v = { ... }; )+   v.value()
    if len(stmts) != 2:
        raise TranslateError(f"{where}: expected 2 statements (conversion; the repeated step followed by the result), found {len(stmts)}")
    k = i
    while toks[k][:2] != ("punct", "("):
        k += 1
    param = toks[k + 1][1]
    s0 = stmts[0]
    first_ok = (s0[0][:2] == ("id", "let") and _txt(s0[3:]) == param + ".conversion()")
    acc = s0[1][1] if first_ok else param
    rest = stmts[1]
    if not (rest[0][:2] == ("punct", "$") and rest[1][:2] == ("punct", "(")):
        raise TranslateError(f"{where}: the per-base-quantity step is not a `$( ... )+` repetition")
    depth, k = 0, 1
    while True:
        if rest[k][:2] == ("punct", "("):
            depth += 1
        elif rest[k][:2] == ("punct", ")"):
            depth -= 1
            if depth == 0:
                break
        k += 1
    if rest[k + 1][:2] != ("punct", "+"):
        raise TranslateError(f"{where}: repetition is not `+`")
    inner = rest[2:k]
    final = rest[k + 2:]
    # inner = let ACC = { BLOCK } ;
    if not (inner[0][:2] == ("id", "let") and inner[1][1] == acc and _txt(inner[2:4]) == "={" and _txt(inner[-2:]) == "};"):
        raise TranslateError(f"{where}: step is not `let {acc} = {{ ... }};`")
    block = inner[4:-2]
    bst = _split_stmts(block)
    names = {acc: "TV"}
    r_side = l_side = "SideUnknown"
    nlets = 0
    exp_alias = []
    for s in bst[:-1]:
        if s[0][:2] != ("id", "let") or s[2][:2] != ("punct", "="):
            raise TranslateError(f"{where}: unexpected statement in step {_txt(s)[:60]!r}")
        nm, rhs = s[1][1], _txt(s[3:])
        nlets += 1
        # a local denotes the coefficient it is bound to, whatever it is called
        if rhs == "Ur::$name::coefficient()":
            names[nm] = "TR"
            r_side = "SideRight"
        elif rhs == "Ul::$name::coefficient()":
            names[nm] = "TL"
            l_side = "SideLeft"
        elif rhs == POWI_ARG:
            exp_alias.append(nm)            # `let e = D::$symbol::to_i32();`
        else:
            try:
                names[nm] = _term(E(s[3:], where, exp_alias).cond(), names, where)
            except TranslateError:
                raise TranslateError(f"{where}: `let {nm} = {rhs[:70]}` is neither a base-unit coefficient, the exponent, nor arithmetic over them")
    lets = {}
    cond_t, a_t, b_t = _if_parts(bst[-1], where)
    cond = _cond(E(cond_t, where, exp_alias).cond(), names, where)
    last = E(final, where).cond()
    _, took = _strip_value(last, where)
    return {"name": "change_base", "attrs": attrs, "first_ok": first_ok, "r_side": r_side, "l_side": l_side, "cond": cond,
            "then": _term(E(a_t, where, exp_alias).cond(), names, where), "else": _term(E(b_t, where, exp_alias).cond(), names, where),
            "value": took and last[0] == "call" and last[3] == ("id", acc), "nlets": nlets}


def translate_struct(toks):
    """`pub struct Quantity<D, U, V> where ... { fields }` with its attributes."""
    for i in range(len(toks) - 2):
        if toks[i][:2] == ("id", "struct") and toks[i + 1][:2] == ("id", "Quantity"):
            break
    else:
        raise TranslateError("src/system.rs: struct Quantity not found")
    j = i
    if toks[j - 1][:2] == ("id", "pub"):
        j -= 1
    attrs = []
    while j >= 1 and toks[j - 1][:2] == ("punct", "]"):
        k, depth = j - 1, 0
        while k >= 0:
            if toks[k][:2] == ("punct", "]"):
                depth += 1
            elif toks[k][:2] == ("punct", "["):
                depth -= 1
                if depth == 0:
                    break
            k -= 1
        a_ = "".join(t[1] for t in toks[k + 1:j - 1])
        if "doc=" not in a_:
            attrs.append(a_)
        j = k - 1
    body = _body(toks, i)
    fields = []
    for f in _split_fields(body):
        f = [t for t in f if t[:2] != ("id", "pub")]
        if not f:
            continue
        name = f[0][1]
        ty = _txt(f[2:])
        fields.append((name, ty))
    return {"attrs": attrs, "fields": fields}


def _split_fields(ts):
    out, cur, depth = [], [], 0
    for t in ts:
        if t[0] == "punct" and t[1] in "({[<":
            depth += 1
        elif t[0] == "punct" and t[1] in ")}]>":
            depth -= 1
        if t[:2] == ("punct", ",") and depth == 0:
            out.append(cur)
            cur = []
        else:
            cur.append(t)
    if cur:
        out.append(cur)
    return out


def coq_bool(b):
    return "true" if b else "false"


def coq_str(s):
    return '"' + s.replace('"', '""') + '"'


def emit(repo):
    path = os.path.join(repo, "src", "system.rs")
    with open(path, encoding="utf-8") as f:
        toks = lex(f.read(), path)
    errors = []

    def guarded(fn, fallback):
        # a body the translator cannot read is emitted as a tree no theorem accepts (the tie theorems then fail and the
        # checks go on to search for a failing input); the reason is kept in a comment and in the JSON
        try:
            return fn()
        except (TranslateError, IndexError, KeyError) as e:
            errors.append(str(e))
            return fallback
    bad_conv = lambda n: {"name": n, "attrs": [], "flags": {"v_conv": False, "coef_unit": False, "f_product": False, "cons": "ConsUnknown", "lets": False},
                          "cond": "(CNe TV TV)", "then": "TV", "else": "TV", "value": False}
    tb = guarded(lambda: translate_to_from(toks, "to_base"), bad_conv("to_base"))
    fb = guarded(lambda: translate_to_from(toks, "from_base"), bad_conv("from_base"))
    cb = guarded(lambda: translate_change_base(toks), {"name": "change_base", "attrs": [], "first_ok": False, "r_side": "SideUnknown", "l_side": "SideUnknown",
                                                       "cond": "(CNe TV TV)", "then": "TV", "else": "TV", "value": False, "nlets": 0})
    st = guarded(lambda: translate_struct(toks), {"attrs": [], "fields": []})
    out = ["(* GENERATED by /verif/translator/convbody.py from src/system.rs of the current tree. DO NOT EDIT. *)",
           "From Coq Require Import List String.", "From UomV Require Import Model.ConvSrc.", "Import ListNotations.", "Open Scope string_scope.", ""]
    for d in (tb, fb):
        fl = d["flags"]
        out.append(f"Definition src_{d['name']} : conv_src := {{|")
        out.append(f"  cs_v_converted := {coq_bool(fl['v_conv'])}; cs_coef_is_unit := {coq_bool(fl['coef_unit'])}; cs_f_is_base_product := {coq_bool(fl['f_product'])};")
        out.append(f"  cs_lets_in_order := {coq_bool(fl['lets'])}; cs_cons := {fl['cons']}; cs_value_taken := {coq_bool(d['value'])};")
        out.append(f"  cs_cond := {d['cond']};")
        out.append(f"  cs_then := {d['then']};")
        out.append(f"  cs_else := {d['else']};")
        out.append(f"  cs_attrs := [{'; '.join(coq_str(a) for a in d['attrs'])}] |}}.")
        out.append("")
    out.append("Definition src_change_base : rebase_src := {|")
    out.append(f"  rs_v_converted := {coq_bool(cb['first_ok'])}; rs_r := {cb['r_side']}; rs_l := {cb['l_side']}; rs_value_taken := {coq_bool(cb['value'])};")
    out.append(f"  rs_cond := {cb['cond']};")
    out.append(f"  rs_then := {cb['then']};")
    out.append(f"  rs_else := {cb['else']};")
    out.append(f"  rs_attrs := [{'; '.join(coq_str(a) for a in cb['attrs'])}] |}}.")
    out.append("")

    def fkind(ty):
        if ty.endswith("PhantomData<D>") or ty.endswith("PhantomData<U>") or "PhantomData<" in ty:
            return "FPhantom"
        if ty == "V":
            return "FStorage"
        return "FOther"
    out.append("Definition src_quantity_struct : struct_src := {|")
    out.append(f"  ss_attrs := [{'; '.join(coq_str(a) for a in st['attrs'])}];")
    out.append(f"  ss_fields := [{'; '.join('(' + coq_str(n) + ', ' + fkind(ty) + ')' for n, ty in st['fields'])}] |}}.")
    out.append("")
    for e in errors:
        out.append("(* NOT TRANSLATED: " + e.replace("(*", "( *").replace("*)", "* )") + " *)")
    return "\n".join(out) + "\n", {"to_base": tb, "from_base": fb, "change_base": cb, "struct": st, "errors": errors}


if __name__ == "__main__":
    import sys
    v, info = emit(sys.argv[1] if len(sys.argv) > 1 else "/repo")
    print(v)
