"""Translate the bodies of uom's binary operator impls (every function that re-bases an operand with
change_base, and its not_autoconvert twin) into Coq terms (Gen/OpsSrc.v).

For each such `fn` the translator records: file and line, the feature flavour it is compiled under
(autoconvert! / not_autoconvert! wrappers, #[cfg(feature = "autoconvert")] attributes on the fn, its impl
or the enclosing macro_rules!), the trait and function names, the base-unit parameter of Self and of every
quantity argument, the `D::Kind: marker::X` bounds, and the value expression as a tree over
self.value, <arg>.value, change_base::<D, L, R, V>(&x), binary operators and method calls.
Model/OpsSrc.v states what shape Model.Quantity.q_bin / q_muladd / q_from claim; Spec/OpsTie.v proves the
regenerated table has it."""
import os
import re

from uom2coq import lex, TranslateError

FILES = ["src/system.rs", "src/si/mod.rs", "src/si/thermodynamic_temperature.rs", "src/si/temperature_interval.rs", "src/si/angle.rs"]


def _txt(ts):
    return "".join(t[1] for t in ts)


def _match(toks, i, open_, close):
    d = 0
    k = i
    while k < len(toks):
        if toks[k][:2] == ("punct", open_):
            d += 1
        elif toks[k][:2] == ("punct", close):
            d -= 1
            if d == 0:
                return k
        k += 1
    raise TranslateError("unbalanced " + open_)


def _split_top(ts, sep=","):
    out, cur, d = [], [], 0
    for t in ts:
        if t[0] == "punct" and t[1] in "({[<":
            d += 1
        elif t[0] == "punct" and t[1] in ")}]>":
            d -= 1
        if t[:2] == ("punct", sep) and d == 0:
            out.append(cur)
            cur = []
        else:
            cur.append(t)
    if cur:
        out.append(cur)
    return out


def _type_base(ts):
    """Quantity<D, Ur, V> -> ('D', 'Ur');  TemperatureInterval<Ur, V> -> ('Dimension', 'Ur');  Self / anything else -> None"""
    s = _txt(ts)
    m = re.search(r"([A-Za-z_]+)<(.*)>$", s)
    if not m:
        return None
    # split the generic arguments at top level
    args, cur, d = [], "", 0
    for ch in m.group(2):
        if ch in "<(":
            d += 1
        elif ch in ">)":
            d -= 1
        if ch == "," and d == 0:
            args.append(cur)
            cur = ""
        else:
            cur += ch
    if cur:
        args.append(cur)
    args = [a for a in args if a]
    if m.group(1) == "Quantity" and len(args) == 3:
        return (args[0].replace(",>", ">"), args[1])
    if len(args) == 2:
        return ("Dimension", args[0])
    return None


class X:
    """expression parser for operator bodies"""

    def __init__(self, ts, params, where):
        self.t, self.i, self.p, self.w = ts, 0, params, where

    def peek(self, k=0):
        return self.t[self.i + k][:2] if self.i + k < len(self.t) else ("eof", "")

    def expr(self):
        a = self.unary()
        while True:
            k, x = self.peek()
            if k == "punct" and x in ("+", "-", "*", "/", "%", "==", "!=", "<", "<=", ">", ">=", "+=", "-=", "*=", "/=") or (k == "punct" and x == "%" and self.peek(1) == ("punct", "=")):
                self.i += 1
                if x == "%" and self.peek() == ("punct", "="):
                    self.i += 1
                    x = "%="
                b = self.unary()
                a = ("bin", x, a, b)
            elif (k, x) == ("punct", "$") and self.peek(1)[0] == "id" and self.peek(1)[1].endswith("_op"):
                op = "$" + self.peek(1)[1]
                self.i += 2
                b = self.unary()
                a = ("bin", op, a, b)
            else:
                return a

    def unary(self):
        if self.peek() == ("punct", "&"):
            self.i += 1
            return self.unary()
        return self.post()

    def post(self):
        a = self.prim()
        while self.peek() == ("punct", "."):
            name = self.peek(1)[1]
            if self.peek(2) == ("punct", "("):
                j = _match(self.t, self.i + 2, "(", ")")
                args = [X(a_, self.p, self.w).expr() for a_ in _split_top(self.t[self.i + 3:j])]
                self.i = j + 1
                a = ("meth", name, a, args)
            else:
                self.i += 2
                a = ("field", name, a)
        return a

    def prim(self):
        k, x = self.peek()
        if (k, x) == ("punct", "("):
            j = _match(self.t, self.i, "(", ")")
            e = X(self.t[self.i + 1:j], self.p, self.w).expr()
            self.i = j + 1
            return e
        # optional path prefix: super:: / $crate:: ...
        st = self.i
        while self.peek()[0] in ("id",) or self.peek() in (("punct", "::"), ("punct", "$")):
            self.i += 1
        path = _txt(self.t[st:self.i])
        if path.endswith("change_base::") and self.peek() == ("punct", "<"):
            j = _match(self.t, self.i, "<", ">")
            targs = [_txt(a_) for a_ in _split_top(self.t[self.i + 1:j])]
            if self.t[j + 1][:2] != ("punct", "("):
                raise TranslateError(f"{self.w}: change_base without call")
            k2 = _match(self.t, j + 1, "(", ")")
            arg = X(self.t[j + 2:k2], self.p, self.w).expr()
            self.i = k2 + 1
            return ("rebase", targs, arg)
        if path:
            return ("path", path)
        raise TranslateError(f"{self.w}: cannot read expression at {_txt(self.t[self.i:self.i + 8])!r}")


def _coq_str(s):
    return '"' + s.replace('"', '""') + '"'


def _term(e, params):
    """-> Coq oterm"""
    k = e[0]
    if k == "field" and e[1] == "value" and e[2][0] == "path":
        nm = e[2][1]
        if nm == "self":
            return "OSelf"
        if nm in params:
            return f"(OArg {params.index(nm)})"
        return f"(OUnknown {_coq_str(nm + '.value')})"
    if k == "rebase":
        ta = e[1]
        if len(ta) != 4:
            return f"(OUnknown {_coq_str('change_base::<' + ','.join(ta) + '>')})"
        return f"(ORebase {_coq_str(ta[0].replace(',>', '>'))} {_coq_str(ta[1])} {_coq_str(ta[2])} {_term(e[2], params)})"
    if k == "bin":
        return f"(OBin {_coq_str(e[1])} {_term(e[2], params)} {_term(e[3], params)})"
    if k == "meth":
        return f"(OMeth {_coq_str(e[1])} {_term(e[2], params)} [{'; '.join(_term(a, params) for a in e[3])}])"
    if k == "path":
        return f"(OUnknown {_coq_str(e[1])})"
    if k == "field":
        return f"(OUnknown {_coq_str('.' + e[1])})"
    return f"(OUnknown {_coq_str(str(k))})"


def inline_lets(ts):
    """`let NAME = EXPR; REST` where REST mentions NAME exactly once -> REST with EXPR in its place (a field shorthand `NAME,`
    becomes `NAME: EXPR`).  A harmless way of writing the same expression must not change what the theorems see."""
    while len(ts) > 3 and ts[0][:2] == ("id", "let") and ts[1][0] == "id" and ts[2][:2] == ("punct", "="):
        name = ts[1][1]
        d, k = 0, 3
        while k < len(ts):
            if ts[k][0] == "punct" and ts[k][1] in "({[":
                d += 1
            elif ts[k][0] == "punct" and ts[k][1] in ")}]":
                d -= 1
            elif ts[k][:2] == ("punct", ";") and d == 0:
                break
            k += 1
        if k >= len(ts):
            return ts
        expr, rest = ts[3:k], ts[k + 1:]
        occ = [j for j, t in enumerate(rest) if t[:2] == ("id", name) and not (j > 0 and rest[j - 1][:2] in (("punct", "."), ("punct", "::")))]
        if len(occ) != 1:
            return ts
        j = occ[0]
        prev = rest[j - 1][:2] if j > 0 else None
        nxt = rest[j + 1][:2] if j + 1 < len(rest) else None
        line = rest[j][2]
        # does the expression contain a binary operator outside turbofish brackets (::<...>)?
        simple, q, dd = True, 0, 0
        while q < len(expr):
            t = expr[q]
            if t[:2] == ("punct", "::") and q + 1 < len(expr) and expr[q + 1][:2] == ("punct", "<"):
                q = _match(expr, q + 1, "<", ">") + 1
                continue
            if t[0] == "punct" and t[1] in ("+", "-", "*", "/", "%", "==", "<", ">", "<=", ">=", "!="):
                simple = False
            q += 1
        sub = list(expr) if simple else [("punct", "(", line)] + list(expr) + [("punct", ")", line)]
        if prev in (("punct", ","), ("punct", "{")) and nxt in (("punct", ","), ("punct", "}")):
            sub = [("id", name, line), ("punct", ":", line)] + list(expr)       # field shorthand
        ts = rest[:j] + sub + rest[j + 1:]
    return ts


def _value_expr(body, where):
    """The expression that becomes the stored value / the result: the `value:` field of a struct literal,
    the single assignment statement, or the tail expression."""
    ts = [t for t in body]
    # strip attributes and `use` statements at the start
    i = 0
    while i < len(ts):
        if ts[i][:2] == ("punct", "#") and ts[i + 1][:2] == ("punct", "["):
            i = _match(ts, i + 1, "[", "]") + 1
        elif ts[i][:2] == ("id", "use"):
            while ts[i][:2] != ("punct", ";"):
                i += 1
            i += 1
        else:
            break
    ts = inline_lets(ts[i:])
    # struct literal  Name { dimension: .., units: .., value: EXPR[,] }   (possibly wrapped: Angle::new::<radian>(EXPR) is left as a method tree)
    for j in range(len(ts) - 1):
        if ts[j][:2] == ("id", "value") and ts[j + 1][:2] == ("punct", ":") and (j == 0 or ts[j - 1][:2] in (("punct", ","), ("punct", "{"))):
            # up to the closing brace of the literal or the next top-level comma
            k, d = j + 2, 0
            while k < len(ts):
                if ts[k][:2] == ("punct", "::") and k + 1 < len(ts) and ts[k + 1][:2] == ("punct", "<"):
                    k = _match(ts, k + 1, "<", ">") + 1        # turbofish: its commas are not field separators
                    continue
                if ts[k][0] == "punct" and ts[k][1] in "({[":
                    d += 1
                elif ts[k][0] == "punct" and ts[k][1] in ")}]":
                    if d == 0:
                        break
                    d -= 1
                elif ts[k][:2] == ("punct", ",") and d == 0:
                    break
                k += 1
            return ts[j + 2:k], "value"
    if ts and ts[-1][:2] == ("punct", ";"):
        return ts[:-1], "stmt"
    return ts, "expr"


def scan_file(repo, rel):
    path = os.path.join(repo, rel)
    with open(path, encoding="utf-8") as f:
        toks = lex(f.read(), path)
    n = len(toks)
    # flavour regions: list of (start, end, flavour)
    regions = []
    i = 0
    while i < n:
        t = toks[i]
        if t[0] == "id" and t[1] in ("autoconvert", "not_autoconvert") and i + 2 < n and toks[i + 1][:2] == ("punct", "!") and toks[i + 2][:2] == ("punct", "{"):
            j = _match(toks, i + 2, "{", "}")
            regions.append((i, j, "Auto" if t[1] == "autoconvert" else "NotAuto"))
        if t[:2] == ("punct", "#") and i + 1 < n and toks[i + 1][:2] == ("punct", "["):
            j = _match(toks, i + 1, "[", "]")
            a = _txt(toks[i + 2:j])
            fl = {"cfg(feature=autoconvert)": "Auto", "cfg(not(feature=autoconvert))": "NotAuto"}.get(a)
            if fl:
                # the item that follows: up to the closing brace of its first `{`
                k = j + 1
                while toks[k][:2] != ("punct", "{"):
                    k += 1
                regions.append((j, _match(toks, k, "{", "}"), fl))
        i += 1
    entries = []
    i = 0
    while i < n:
        if toks[i][:2] == ("id", "impl") and i + 1 < n and (toks[i + 1][:2] == ("punct", "<") or toks[i + 1][0] == "id"):
            j = i
            while toks[j][:2] != ("punct", "{"):
                j += 1
            header = toks[i:j]
            end = _match(toks, j, "{", "}")
            # split header:  impl<..> [TRAIT for] TYPE where ...
            hs = _txt(header)
            k = 1
            if header[1][:2] == ("punct", "<"):
                k = _match(header, 1, "<", ">") + 1
            w = next((x for x in range(k, len(header)) if header[x][:2] == ("id", "where")), len(header))
            head, wher = header[k:w], header[w + 1:]
            f_ = next((x for x in range(len(head)) if head[x][:2] == ("id", "for")), None)
            trait_ts, self_ts = (head[:f_], head[f_ + 1:]) if f_ is not None else ([], head)
            trait = _txt(trait_ts)
            tname = re.sub(r"<.*", "", trait).split("::")[-1]
            markers = re.findall(r"([A-Za-z]+)::Kind:\$?crate::marker::(\$?[A-Za-z]+)", _txt(wher))
            selfb = _type_base(self_ts)
            # functions
            m = j + 1
            while m < end:
                if toks[m][:2] == ("id", "fn"):
                    name = ("$" if toks[m + 1][:2] == ("punct", "$") else "") + (toks[m + 2][1] if toks[m + 1][:2] == ("punct", "$") else toks[m + 1][1])
                    p = m
                    while toks[p][:2] != ("punct", "("):
                        p += 1
                    pe = _match(toks, p, "(", ")")
                    params = []
                    for prm in _split_top(toks[p + 1:pe]):
                        ptxt = _txt(prm)
                        if ptxt in ("self", "&self", "&mutself", "mutself"):
                            continue
                        c = next((x for x in range(len(prm)) if prm[x][:2] == ("punct", ":")), None)
                        if c is None:
                            continue
                        params.append((prm[c - 1][1], prm[c + 1:]))
                    b = pe
                    while toks[b][:2] != ("punct", "{"):
                        b += 1
                    be = _match(toks, b, "{", "}")
                    fwhere = _txt(toks[pe:b])
                    markers_fn = re.findall(r"([A-Za-z]+)::Kind:\$?crate::marker::(\$?[A-Za-z]+)", fwhere)
                    body = toks[b + 1:be]
                    fl = "Always"
                    for (s_, e_, f2) in regions:
                        if s_ <= m <= e_:
                            fl = f2
                    entries.append({"file": rel, "line": toks[m][2], "flavour": fl, "trait": tname, "fn": name, "self": selfb,
                                    "params": params, "markers": markers + markers_fn, "body": body, "impl_header": hs})
                    m = be
                m += 1
            i = end
        i += 1
    return entries, toks


def translate(repo):
    ents = []
    invocations = []
    for rel in FILES:
        if not os.path.exists(os.path.join(repo, rel)):
            continue
        es, toks = scan_file(repo, rel)
        ents += es
        # impl_ops!(Add, add, +, ...) invocations
        for i in range(len(toks) - 2):
            if toks[i][:2] == ("id", "impl_ops") and toks[i + 1][:2] == ("punct", "!") and toks[i + 2][:2] == ("punct", "("):
                j = _match(toks, i + 2, "(", ")")
                invocations.append((rel, [_txt(a) for a in _split_top(toks[i + 3:j])]))
    uses = [e for e in ents if any(t[:2] == ("id", "change_base") for t in e["body"])]
    keys = {(e["file"], e["trait"], e["fn"]) for e in uses}
    twins = [e for e in ents if (e["file"], e["trait"], e["fn"]) in keys and e not in uses and e["flavour"] == "NotAuto"]
    out = []
    for e in uses + twins:
        where = f"{e['file']}:{e['line']} fn {e['fn']}"
        pnames = [p[0] for p in e["params"]]
        try:
            vts, form = _value_expr(e["body"], where)
            term = _term(X(vts, pnames, where).expr(), pnames)
        except (TranslateError, IndexError) as ex:
            term, form = f"(OUnknown {_coq_str(str(ex)[:120])})", "expr"
        bases = []
        for nm, ty in e["params"]:
            tb = _type_base(ty)
            bases.append(tb if tb else ("-", "-"))
        out.append({"file": e["file"], "line": e["line"], "flavour": e["flavour"], "trait": e["trait"], "fn": e["fn"],
                    "self": e["self"] or ("-", "-"), "args": bases, "markers": e["markers"], "term": term, "form": form})
    out.sort(key=lambda r: (r["file"], r["line"]))
    return out, invocations


def emit(repo):
    ents, invs = translate(repo)
    o = ["(* GENERATED by /verif/translator/opsbody.py from the current source tree. DO NOT EDIT. *)",
         "From Coq Require Import List String ZArith.", "From UomV Require Import Model.OpsSrc.", "Import ListNotations.", "Open Scope string_scope.", "",
         "Definition src_ops : list op_src := ["]
    rows = []
    for r in ents:
        args = "; ".join(f"({_coq_str(d)}, {_coq_str(b)})" for d, b in r["args"])
        marks = "; ".join(f"({_coq_str(a)}, {_coq_str(b)})" for a, b in r["markers"])
        rows.append(f"  {{| os_file := {_coq_str(r['file'])}; os_line := {r['line']}%Z; os_flavour := {r['flavour']}; os_trait := {_coq_str(r['trait'])}; os_fn := {_coq_str(r['fn'])};\n"
                    f"     os_self := ({_coq_str(r['self'][0])}, {_coq_str(r['self'][1])}); os_args := [{args}]; os_markers := [{marks}];\n"
                    f"     os_assign := {'true' if r['form'] == 'stmt' else 'false'}; os_body := {r['term']} |}}")
    o.append(";\n".join(rows))
    o.append("].")
    o.append("")
    o.append("Definition src_impl_ops_invocations : list (string * list string) := [")
    o.append(";\n".join(f"  ({_coq_str(f)}, [{'; '.join(_coq_str(a) for a in args)}])" for f, args in invs))
    o.append("].")
    rv, _rules = emit_rules(repo)
    return "\n".join(o) + "\n" + rv, ents


if __name__ == "__main__":
    import sys
    v, ents = emit(sys.argv[1] if len(sys.argv) > 1 else "/repo")
    print(v)


# ----------------------------------------------------------------------------- type-level dimension rules
RULE_RE = re.compile(r"\$quantities<\$\(\$crate::typenum::(\$?\w+)<(.*?)>(?:,\)\+|\),\+)([^>]*)>,(\w+),V>")


def _norm_arg(a):
    return a.replace("$crate::typenum::", "").replace("::$symbol", "")


def dim_rules(repo):
    """Every result type of the form Quantity<$quantities<$(typenum::ALIAS<ARGS>),+ [KIND]>, BASE, V> with the function that returns it."""
    path = os.path.join(repo, "src", "system.rs")
    with open(path, encoding="utf-8") as f:
        toks = lex(f.read(), path)
    n = len(toks)
    regions = []
    for i in range(n):
        t = toks[i]
        if t[0] == "id" and t[1] in ("autoconvert", "not_autoconvert") and i + 2 < n and toks[i + 1][:2] == ("punct", "!") and toks[i + 2][:2] == ("punct", "{"):
            regions.append((i, _match(toks, i + 2, "{", "}"), "Auto" if t[1] == "autoconvert" else "NotAuto"))
    out = []
    i = 0
    impl_stack = []
    while i < n:
        if toks[i][:2] == ("id", "impl") and i + 1 < n and (toks[i + 1][:2] == ("punct", "<") or toks[i + 1][0] == "id"):
            j = i
            while toks[j][:2] != ("punct", "{"):
                j += 1
            end = _match(toks, j, "{", "}")
            header = _txt(toks[i:j])
            m_ = re.search(r"(?:ops|cmp)::(\$?\w+)", header)
            trait = m_.group(1) if m_ else ""
            scalar_left = bool(re.search(r"for(f32|f64|V|\$\w+)where|<Quantity<D,U,V>>forV", header)) or "forV" in header.split("where")[0][-6:]
            # type Output = ...;
            k = j + 1
            while k < end:
                if toks[k][:2] == ("id", "type") and toks[k + 1][:2] == ("id", "Output"):
                    e2 = k
                    while toks[e2][:2] != ("punct", ";"):
                        e2 += 1
                    ty = _txt(toks[k + 3:e2])
                    for m in RULE_RE.finditer(ty):
                        fl = next((f2 for (s_, e_, f2) in regions if s_ <= i <= e_), "Always")
                        out.append({"line": toks[k][2], "site": trait, "flavour": fl, "alias": m.group(1), "args": [_norm_arg(a) for a in m.group(2).split(",")],
                                    "kind": m.group(3).strip(",") or "default", "base": m.group(4), "scalar_left": "Z0" in m.group(2)})
                if toks[k][:2] == ("id", "fn"):
                    name = toks[k + 1][1] if toks[k + 1][0] == "id" else "$" + toks[k + 2][1]
                    p = k
                    while toks[p][:2] != ("punct", "("):
                        p += 1
                    pe = _match(toks, p, "(", ")")
                    b = pe
                    while toks[b][:2] not in (("punct", "{"), ("id", "where")):
                        b += 1
                    ret = _txt(toks[pe + 1:b])
                    for m in RULE_RE.finditer(ret):
                        fl = next((f2 for (s_, e_, f2) in sorted(regions, key=lambda r: r[1] - r[0]) if s_ <= k <= e_), "Always")
                        out.append({"line": toks[k][2], "site": name, "flavour": fl, "alias": m.group(1), "args": [_norm_arg(a) for a in m.group(2).split(",")],
                                    "kind": m.group(3).strip(",") or "default", "base": m.group(4), "scalar_left": False})
                    while toks[b][:2] != ("punct", "{"):
                        b += 1
                    k = _match(toks, b, "{", "}")
                k += 1
            i = end
        i += 1
    return out


def emit_rules(repo):
    rules = dim_rules(repo)
    o = ["", "(* result types of the form Quantity<$quantities<$(typenum::ALIAS<ARGS>),+ [KIND]>, BASE, V> in src/system.rs *)",
         "Definition src_dim_rules : list dim_rule := ["]
    o.append(";\n".join(
        f"  {{| dr_site := {_coq_str(r['site'])}; dr_flavour := {r['flavour']}; dr_alias := {_coq_str(r['alias'])}; dr_args := [{'; '.join(_coq_str(a) for a in r['args'])}]; "
        f"dr_kind := {_coq_str(r['kind'])}; dr_base := {_coq_str(r['base'])} |}}" for r in rules))
    o.append("].")
    return "\n".join(o) + "\n", rules
