"""Name-composition readings of unit identifiers (C05).

A unit identifier such as `kilometer_per_hour` is read as prefixes, other declared units' names and
the words per / square / cubic / squared / cubed / reciprocal.  This module only PROPOSES readings
(certificates: a list of items) from the identifier and the set of declared names; whether a
reading is right — that it renders back to exactly the identifier, and that its coefficient and
dimension agree with the unit's declaration — is decided inside Coq (Spec/Names.v), never here."""
from fractions import Fraction

WORDS = {"per": "IPer", "square": "ISquare", "cubic": "ICubic", "squared": "ISquared", "cubed": "ICubed",
         "reciprocal": "IReciprocal"}
# written name -> declared unit it conventionally denotes inside compound names (force units)
ALIASES = {"pound": "pound_force", "ounce": "ounce_force", "kilogram": "kilogram_force", "ton": "ton_force",
           "gram": "gram_force"}
MAX_READINGS = 4


def build_dict(tables):
    d = {}
    for q in tables["quantities"]:
        for u in q["units"]:
            d.setdefault(u["name"], []).append((q["module"], u))
    return d


def unit_refs(tokens, i, names, prefixes):
    """Ways to read a unit reference starting at token i: (next_i, prefix|None, written name, declared name)."""
    out = []
    for j in range(len(tokens), i, -1):
        cand = "_".join(tokens[i:j])
        if cand in WORDS:
            continue
        if cand in names:
            out.append((j, None, cand, cand))
        if cand in ALIASES and ALIASES[cand] in names:
            out.append((j, None, cand, ALIASES[cand]))
        for p in prefixes:
            if cand.startswith(p) and len(cand) > len(p) and cand[len(p):] in names:
                out.append((j, p, cand[len(p):], cand[len(p):]))
    return out


def item_readings(name, names, prefixes, limit=300):
    """All item-level readings of the identifier (structure only)."""
    tokens = name.split("_")
    outs = []

    def go(i, items, seen_unit, pending):
        if len(outs) >= limit:
            return
        if i == len(tokens):
            if seen_unit and not pending:
                outs.append(list(items))
            return
        t = tokens[i]
        if t == "per" and not pending and i + 1 < len(tokens):
            go(i + 1, items + [("IPer",)], seen_unit, False)
        if t == "reciprocal" and i == 0:
            go(i + 1, items + [("IReciprocal",)], seen_unit, False)
        if t in ("square", "cubic") and not pending:
            go(i + 1, items + [(WORDS[t],)], seen_unit, True)
        if t in ("squared", "cubed") and items and items[-1][0] == "IUnit" and not pending and not (len(items) >= 2 and items[-2][0] in ("ISquare", "ICubic")):
            go(i + 1, items + [(WORDS[t],)], seen_unit, False)
        for (j, p, written, declared) in unit_refs(tokens, i, names, prefixes):
            go(j, items + [("IUnit", p, written, declared)], True, False)

    go(0, [], False, False)
    res = []
    for r in outs:
        if len(r) == 1 and r[0][0] == "IUnit" and r[0][1] is None:
            continue    # the unit itself, or a bare alias: not a composition
        res.append(r)
    return res


def factors_of(items):
    """(prefix, declared name, signed power) list — the same evaluation as Spec/Names.v eval_items."""
    sign, pending = 1, 1
    acc = []
    for it in items:
        k = it[0]
        if k in ("IPer", "IReciprocal"):
            sign = -1
        elif k == "ISquare":
            pending = 2
        elif k == "ICubic":
            pending = 3
        elif k == "IUnit":
            acc.append([it[1], it[3], sign * pending])
            pending = 1
        elif k == "ISquared":
            acc[-1][2] *= 2
        elif k == "ICubed":
            acc[-1][2] *= 3
    return acc


def frac(e):
    k = e[0]
    if k == "lit":
        return Fraction(e[1]) * Fraction(10) ** e[2]
    if k == "mul":
        return frac(e[1]) * frac(e[2])
    if k == "div":
        return frac(e[1]) / frac(e[2])
    if k == "neg":
        return -frac(e[1])
    if k == "prefix":
        return frac(e[2])
    raise ValueError(e)


def readings_for(tables, ndict, q, u):
    """Resolved candidate readings for unit u of quantity q, best first.
    Each reading: list of items ("IUnit", prefix|None, written, module, declared) | (word,).
    Returns (readings, best) with best = (dimension matches, relative coefficient error) or None."""
    pfx = {p: frac(tables["prefixes"][p]) for p in tables["prefix_order"] if p != "none"}
    names = set(ndict)
    qdim = {x["module"]: x["dim"] for x in tables["quantities"]}
    cands = []
    for items in item_readings(u["name"], names, list(pfx)):
        choices = [[]]
        for it in items:
            if it[0] != "IUnit":
                choices = [c + [it] for c in choices]
                continue
            _, p, written, declared = it
            alts = [(m, uu) for (m, uu) in ndict[declared]
                    if uu["const"] is None and not (m == q["module"] and declared == u["name"] and p is None)]
            if not alts:
                choices = []
                break
            choices = [c + [("IUnit", p, written, m, declared)] for c in choices for (m, uu) in alts][:48]
        for c in choices:
            dim = [0] * len(q["dim"])
            coef = Fraction(1)
            fs = factors_of([(i[0], i[1], i[2], (i[3], i[4])) if i[0] == "IUnit" else i for i in c])
            for (p, (m, declared), w) in fs:
                uu = next(x for (mm, x) in ndict[declared] if mm == m)
                dim = [a + b * w for a, b in zip(dim, qdim[m])]
                coef *= (frac(uu["coef"]) * (pfx[p] if p else 1)) ** w
            mine = frac(u["coef"])
            rel = abs(coef - mine) / abs(mine) if mine else Fraction(1)
            cands.append((0 if dim == q["dim"] else 1, rel, c))
    cands.sort(key=lambda x: (x[0], x[1]))
    out = []
    for c in cands:
        if c[2] not in out:
            out.append(c[2])
        if len(out) >= MAX_READINGS:
            break
    return out, ((cands[0][0] == 0, cands[0][1]) if cands else None)


# ----------------------------------------------------------------------------- emit Gen/SiReadings.v

def coq_string(s):
    return '"' + s.replace('"', '""') + '"'


def coq_item(it):
    if it[0] == "IUnit":
        _, p, written, m, declared = it
        ps = f"(Some {coq_string(p)})" if p else "None"
        return f"IUnit {ps} {coq_string(written)} {coq_string(m)} {coq_string(declared)}"
    return it[0]


def emit_readings(tables, prefix="si"):
    nd = build_dict(tables)
    lines = ["(* GENERATED by /verif/translator/readings.py from the current source tree. DO NOT EDIT.",
             "   Candidate readings (certificates) of the unit identifiers; checked by Spec/Names.v. *)",
             "From Coq Require Import ZArith List String.",
             "From UomV Require Import Model.Tables Spec.Names.",
             "Import ListNotations.", "Open Scope string_scope.", "",
             f"Definition {prefix}_readings : list (string * string * list reading) := ["]
    rows = []
    stats = {"units": 0, "with_readings": 0}
    survey = []
    for q in tables["quantities"]:
        for u in q["units"]:
            stats["units"] += 1
            rs, best = readings_for(tables, nd, q, u)
            if not rs:
                continue
            stats["with_readings"] += 1
            survey.append((q["module"], u["name"], best[0], best[1]))
            rtxt = "; ".join("[" + "; ".join(coq_item(i) for i in r) + "]" for r in rs)
            rows.append(f"  ({coq_string(q['module'])}, {coq_string(u['name'])}, [{rtxt}])")
    lines.append(";\n".join(rows))
    lines.append("].")
    return "\n".join(lines) + "\n", stats, survey


if __name__ == "__main__":
    import sys
    import os
    sys.path.insert(0, os.path.dirname(__file__))
    import uom2coq
    t = uom2coq.translate_si(sys.argv[1] if len(sys.argv) > 1 else "/repo")
    v, stats, survey = emit_readings(t)
    print(stats, len(v))
    bad = [s for s in survey if not s[2] or s[3] > Fraction(1, 10 ** 15)]
    for b in sorted(bad, key=lambda x: (x[2], -x[3])):
        print(b[0], b[1], b[2], float(b[3]))
