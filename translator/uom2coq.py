#!/usr/bin/env python3
"""uom2coq: translate the declarative tables of iliekturtles/uom into Gallina.

Reads (token level, following the macro_rules! grammars of src/quantity.rs, src/unit.rs,
src/system.rs):
  * every `quantity! { ... }` invocation of src/si/*.rs
  * the `prefix!` arms of src/si/prefix.rs
  * the `system! { ... }` invocation of src/si/mod.rs
  * the kind traits of src/si/mod.rs (`pub trait XKind: ...`) and `pub trait Kind: ...` of src/lib.rs
  * the `impl_from!(A, B);` list of src/si/mod.rs
and writes coq/theories/Gen/SiTables.v plus a JSON mirror used by the harness generators.

Anything that does not fit the grammar is an error (never skipped silently).
"""
import json
import os
import re
import sys
from fractions import Fraction


class TranslateError(Exception):
    pass


# ----------------------------------------------------------------------------- lexer

IDENT_START = set("abcdefghijklmnopqrstuvwxyzABCDEFGHIJKLMNOPQRSTUVWXYZ_")
IDENT_CONT = IDENT_START | set("0123456789")
DIGITS = set("0123456789")


def lex(src, fname="<src>"):
    """Return list of tokens (kind, text, line). kinds: id, num, str, punct, lifetime, char."""
    toks = []
    i = 0
    n = len(src)
    line = 1
    while i < n:
        c = src[i]
        if c == "\n":
            line += 1
            i += 1
            continue
        if c in " \t\r":
            i += 1
            continue
        if src.startswith("//", i):
            j = src.find("\n", i)
            if j < 0:
                j = n
            i = j
            continue
        if src.startswith("/*", i):
            depth = 1
            j = i + 2
            while j < n and depth > 0:
                if src.startswith("/*", j):
                    depth += 1
                    j += 2
                elif src.startswith("*/", j):
                    depth -= 1
                    j += 2
                else:
                    if src[j] == "\n":
                        line += 1
                    j += 1
            i = j
            continue
        # raw strings
        m = re.match(r'b?r(#*)"', src[i:])
        if m:
            hashes = m.group(1)
            start = i + m.end()
            end = src.find('"' + hashes, start)
            if end < 0:
                raise TranslateError(f"{fname}:{line}: unterminated raw string")
            text = src[start:end]
            line += text.count("\n")
            toks.append(("str", text, line))
            i = end + 1 + len(hashes)
            continue
        if c == '"' or (c == "b" and i + 1 < n and src[i + 1] == '"'):
            j = i + 1 if c == '"' else i + 2
            out = []
            while True:
                if j >= n:
                    raise TranslateError(f"{fname}:{line}: unterminated string")
                d = src[j]
                if d == '"':
                    j += 1
                    break
                if d == "\\":
                    e = src[j + 1]
                    if e == "n":
                        out.append("\n"); j += 2
                    elif e == "t":
                        out.append("\t"); j += 2
                    elif e == "r":
                        out.append("\r"); j += 2
                    elif e == "0":
                        out.append("\0"); j += 2
                    elif e == "\\":
                        out.append("\\"); j += 2
                    elif e == '"':
                        out.append('"'); j += 2
                    elif e == "'":
                        out.append("'"); j += 2
                    elif e == "x":
                        out.append(chr(int(src[j + 2:j + 4], 16))); j += 4
                    elif e == "u":
                        k = src.index("}", j)
                        out.append(chr(int(src[j + 3:k].replace("_", ""), 16))); j = k + 1
                    elif e == "\n":
                        # line continuation: skip newline and leading whitespace
                        j += 2
                        line += 1
                        while j < n and src[j] in " \t\r\n":
                            if src[j] == "\n":
                                line += 1
                            j += 1
                    else:
                        raise TranslateError(f"{fname}:{line}: unknown escape \\{e}")
                else:
                    if d == "\n":
                        line += 1
                    out.append(d)
                    j += 1
            toks.append(("str", "".join(out), line))
            i = j
            continue
        if c == "'":
            # char literal or lifetime
            m = re.match(r"'(\\.[^']*|[^'\\])'", src[i:])
            if m:
                toks.append(("char", m.group(0), line))
                i += m.end()
                continue
            m = re.match(r"'[A-Za-z_][A-Za-z_0-9]*", src[i:])
            if m:
                toks.append(("lifetime", m.group(0), line))
                i += m.end()
                continue
            raise TranslateError(f"{fname}:{line}: stray quote")
        if c in DIGITS:
            m = re.match(r"0[xX][0-9a-fA-F_]+|0[bB][01_]+|0[oO][0-7_]+", src[i:])
            if m:
                toks.append(("num", m.group(0), line))
                i += m.end()
                continue
            m = re.match(r"[0-9][0-9_]*(\.(?![.A-Za-z_])[0-9_]*)?([eE][+-]?_*[0-9][0-9_]*)?([a-z][a-z0-9]*)?", src[i:])
            toks.append(("num", m.group(0), line))
            i += m.end()
            continue
        if c in IDENT_START:
            j = i + 1
            while j < n and src[j] in IDENT_CONT:
                j += 1
            toks.append(("id", src[i:j], line))
            i = j
            continue
        # punctuation: multi-char ones we care about
        for p in ("::", "->", "=>", "==", "!=", "<=", ">=", "&&", "||", "+=", "-=", "*=", "/=", ".."):
            if src.startswith(p, i):
                toks.append(("punct", p, line))
                i += len(p)
                break
        else:
            toks.append(("punct", c, line))
            i += 1
    return toks


# ----------------------------------------------------------------------------- parser helpers

class P:
    def __init__(self, toks, fname):
        self.t = toks
        self.i = 0
        self.f = fname

    def peek(self, k=0):
        if self.i + k < len(self.t):
            return self.t[self.i + k]
        return ("eof", "", -1)

    def next(self):
        tok = self.peek()
        self.i += 1
        return tok

    def err(self, msg):
        tok = self.peek()
        raise TranslateError(f"{self.f}:{tok[2]}: {msg} (at {tok[0]} {tok[1]!r})")

    def expect(self, kind, text=None):
        tok = self.next()
        if tok[0] != kind or (text is not None and tok[1] != text):
            self.i -= 1
            self.err(f"expected {kind} {text!r}")
        return tok

    def at(self, kind, text=None, k=0):
        tok = self.peek(k)
        return tok[0] == kind and (text is None or tok[1] == text)

    def skip_attrs(self):
        while self.at("punct", "#"):
            self.next()
            if self.at("punct", "!"):
                self.next()
            self.expect("punct", "[")
            depth = 1
            while depth:
                tok = self.next()
                if tok[0] == "eof":
                    self.err("unterminated attribute")
                if tok == ("punct", "[", tok[2]):
                    depth += 1
                elif tok[0] == "punct" and tok[1] == "]":
                    depth -= 1


def parse_number(text, fname, line):
    """Decimal float literal -> (mantissa:int, exp10:int) exactly."""
    t = text.replace("_", "")
    m = re.fullmatch(r"([0-9]+)(?:\.([0-9]*))?(?:[eE]([+-]?[0-9]+))?(f32|f64)?", t)
    if not m:
        raise TranslateError(f"{fname}:{line}: unsupported numeric literal {text!r}")
    ip, fp, ex, _suf = m.groups()
    fp = fp or ""
    ex = int(ex) if ex else 0
    mant = int(ip + fp)
    e10 = ex - len(fp)
    # normalise trailing zeros of the mantissa (keeps numbers small; value unchanged)
    while mant != 0 and mant % 10 == 0:
        mant //= 10
        e10 += 1
    if mant == 0:
        e10 = 0
    return (mant, e10)


def parse_expr(p, prefixes):
    """expr := unary (('*'|'/') unary)*   (left assoc); + and - binary are not used by uom."""
    lhs = parse_unary(p, prefixes)
    while p.at("punct", "*") or p.at("punct", "/"):
        op = p.next()[1]
        rhs = parse_unary(p, prefixes)
        lhs = ("mul" if op == "*" else "div", lhs, rhs)
    if p.at("punct", "+") or p.at("punct", "-"):
        p.err("binary +/- in a conversion expression is not supported by the translator")
    return lhs


def parse_unary(p, prefixes):
    if p.at("punct", "-"):
        p.next()
        return ("neg", parse_unary(p, prefixes))
    if p.at("punct", "("):
        p.next()
        e = parse_expr(p, prefixes)
        p.expect("punct", ")")
        return e
    if p.at("num"):
        tok = p.next()
        m, e = parse_number(tok[1], p.f, tok[2])
        return ("lit", m, e)
    if p.at("id", "prefix") and p.at("punct", "!", 1):
        p.next(); p.next()
        p.expect("punct", "(")
        name = p.expect("id")[1]
        p.expect("punct", ")")
        if prefixes is None:
            p.err("prefix! inside prefix table")
        if name not in prefixes:
            p.err(f"unknown prefix {name}")
        return ("prefix", name, prefixes[name])
    p.err("unsupported token in conversion expression")


# ----------------------------------------------------------------------------- grammar pieces

def parse_prefix_table(path):
    src = open(path, encoding="utf-8").read()
    toks = lex(src, path)
    p = P(toks, path)
    # find macro_rules ! prefix {
    while not (p.at("id", "macro_rules") and p.at("punct", "!", 1) and p.at("id", "prefix", 2)):
        if p.at("eof"):
            raise TranslateError(f"{path}: macro_rules! prefix not found")
        p.next()
    p.next(); p.next(); p.next()
    p.expect("punct", "{")
    table = {}
    order = []
    while not p.at("punct", "}"):
        p.expect("punct", "(")
        name = p.expect("id")[1]
        p.expect("punct", ")")
        p.expect("punct", "=>")
        p.expect("punct", "{")
        e = parse_expr(p, None)
        p.expect("punct", "}")
        p.expect("punct", ";")
        if name in table:
            p.err(f"duplicate prefix arm {name}")
        table[name] = e
        order.append(name)
    return table, order


TYPENUM = {"Z0": 0}
for k in range(1, 65):
    TYPENUM[f"P{k}"] = k
    TYPENUM[f"N{k}"] = -k


def parse_quantity_block(p, prefixes, fname):
    """p is positioned just after `quantity ! {`."""
    q = {}
    p.skip_attrs()
    p.expect("id", "quantity"); p.expect("punct", ":")
    q["alias"] = p.expect("id")[1]
    p.expect("punct", ";")
    q["desc"] = p.expect("str")[1]
    p.expect("punct", ";")
    p.skip_attrs()
    p.expect("id", "dimension"); p.expect("punct", ":")
    q["system"] = p.expect("id")[1]
    p.expect("punct", "<")
    dims = []
    while True:
        d = p.expect("id")[1]
        if d not in TYPENUM:
            p.err(f"unknown typenum integer {d}")
        dims.append(TYPENUM[d])
        if p.at("punct", ","):
            p.next()
            continue
        break
    p.expect("punct", ">"); p.expect("punct", ";")
    q["dim"] = dims
    q["kind"] = "Kind"
    if p.at("id", "kind"):
        p.next(); p.expect("punct", ":")
        ktoks = []
        while not p.at("punct", ";"):
            ktoks.append(p.next()[1])
        p.expect("punct", ";")
        # accepted forms: dyn (path::XKind)  |  dyn path::XKind
        ids = [t for t in ktoks if re.fullmatch(r"[A-Za-z_][A-Za-z_0-9]*", t)]
        if not ids or ids[0] != "dyn":
            p.err(f"unsupported kind type {' '.join(ktoks)}")
        q["kind"] = ids[-1]
    p.expect("id", "units"); p.expect("punct", "{")
    units = []
    while not p.at("punct", "}"):
        p.skip_attrs()
        p.expect("punct", "@")
        u = {"name": p.expect("id")[1], "line": p.peek()[2]}
        p.expect("punct", ":")
        convs = [parse_expr(p, prefixes)]
        while p.at("punct", ","):
            p.next()
            convs.append(parse_expr(p, prefixes))
        p.expect("punct", ";")
        if len(convs) > 2:
            p.err("more than two conversion terms")
        u["coef"] = convs[0]
        u["const"] = convs[1] if len(convs) == 2 else None
        u["abbr"] = p.expect("str")[1]; p.expect("punct", ",")
        u["sing"] = p.expect("str")[1]; p.expect("punct", ",")
        u["plur"] = p.expect("str")[1]; p.expect("punct", ";")
        units.append(u)
    p.expect("punct", "}")
    p.expect("punct", "}")
    if not units:
        p.err("quantity without units")
    q["units"] = units
    return q


def parse_quantity_file(path, prefixes):
    src = open(path, encoding="utf-8").read()
    toks = lex(src, path)
    p = P(toks, path)
    found = []
    while not p.at("eof"):
        if p.at("id", "quantity") and p.at("punct", "!", 1) and p.at("punct", "{", 2):
            p.next(); p.next(); p.next()
            found.append(parse_quantity_block(p, prefixes, path))
        else:
            p.next()
    return found


def parse_system(path):
    src = open(path, encoding="utf-8").read()
    toks = lex(src, path)
    p = P(toks, path)
    while not (p.at("id", "system") and p.at("punct", "!", 1) and p.at("punct", "{", 2)):
        if p.at("eof"):
            raise TranslateError(f"{path}: system! not found")
        p.next()
    p.next(); p.next(); p.next()
    s = {}
    p.skip_attrs()
    p.expect("id", "quantities"); p.expect("punct", ":")
    s["quantities_name"] = p.expect("id")[1]
    p.expect("punct", "{")
    base = []
    while not p.at("punct", "}"):
        p.skip_attrs()
        name = p.expect("id")[1]; p.expect("punct", ":")
        unit = p.expect("id")[1]; p.expect("punct", ",")
        sym = p.expect("id")[1]; p.expect("punct", ";")
        base.append({"name": name, "unit": unit, "symbol": sym})
    p.expect("punct", "}")
    p.skip_attrs()
    p.expect("id", "units"); p.expect("punct", ":")
    s["units_name"] = p.expect("id")[1]
    p.expect("punct", "{")
    mods = []
    while not p.at("punct", "}"):
        if p.at("id", "mod"):
            p.next()
        m = p.expect("id")[1]; p.expect("punct", "::")
        a = p.expect("id")[1]; p.expect("punct", ",")
        mods.append({"module": m, "alias": a})
    p.expect("punct", "}")
    p.expect("punct", "}")
    s["base"] = base
    s["modules"] = mods
    # kinds + impl_from in the rest of the file
    kinds = []
    impl_from = []
    while not p.at("eof"):
        if p.at("id", "pub") and p.at("id", "trait", 1):
            p.next(); p.next()
            name = p.expect("id")[1]
            bounds = []
            if p.at("punct", ":"):
                p.next()
                cur = []
                while not p.at("punct", "{"):
                    tok = p.next()
                    if tok[1] == "+":
                        bounds.append(cur); cur = []
                    else:
                        cur.append(tok[1])
                bounds.append(cur)
            kinds.append({"name": name, "bounds": ["".join(b) for b in bounds if b]})
        elif p.at("id", "impl_from") and p.at("punct", "!", 1) and p.at("punct", "(", 2):
            p.next(); p.next(); p.next()
            a = p.expect("id")[1]; p.expect("punct", ",")
            b = p.expect("id")[1]; p.expect("punct", ")")
            impl_from.append([a, b])
        else:
            p.next()
    s["kind_traits"] = kinds
    s["impl_from"] = impl_from
    return s


MARKERS = ["Add", "AddAssign", "Sub", "SubAssign", "Mul", "MulAssign", "Div", "DivAssign",
           "Neg", "Rem", "RemAssign", "Saturating"]


def parse_default_kind(path):
    src = open(path, encoding="utf-8").read()
    toks = lex(src, path)
    p = P(toks, path)
    while not p.at("eof"):
        if p.at("id", "pub") and p.at("id", "trait", 1) and p.at("id", "Kind", 2):
            p.next(); p.next(); p.next()
            p.expect("punct", ":")
            ms = []
            cur = []
            while not p.at("punct", "{"):
                tok = p.next()
                if tok[1] == "+":
                    ms.append(cur); cur = []
                else:
                    cur.append(tok[1])
            ms.append(cur)
            out = []
            for b in ms:
                if not b:
                    continue
                name = b[-1]
                if name not in MARKERS:
                    raise TranslateError(f"{path}: unknown marker bound {''.join(b)} on Kind")
                out.append(name)
            return out
        p.next()
    raise TranslateError(f"{path}: pub trait Kind not found")


def resolve_kinds(sysd, default_markers):
    """kind name -> (marker list, is_subkind_of_Kind)."""
    table = {"Kind": {"markers": list(default_markers), "inherits_kind": True}}
    for k in sysd["kind_traits"]:
        name = k["name"]
        if not name.endswith("Kind"):
            continue
        markers = []
        inherits = False
        for b in k["bounds"]:
            last = b.split("::")[-1]
            if last == "Kind":
                inherits = True
                for m in default_markers:
                    if m not in markers:
                        markers.append(m)
            elif last in MARKERS:
                if last not in markers:
                    markers.append(last)
            else:
                raise TranslateError(f"kind trait {name}: unknown bound {b}")
        table[name] = {"markers": markers, "inherits_kind": inherits}
    return table


# ----------------------------------------------------------------------------- emit Coq

def coq_string(s):
    if any(ord(c) > 126 or ord(c) < 32 for c in s):
        raise TranslateError(f"non-ASCII in identifier/description string {s!r}")
    return '"' + s.replace('"', '""') + '"'


def coq_z(n):
    return f"({n})" if n < 0 else str(n)


def coq_expr(e):
    k = e[0]
    if k == "lit":
        return f"(ELit {coq_z(e[1])} {coq_z(e[2])})"
    if k == "mul":
        return f"(EMul {coq_expr(e[1])} {coq_expr(e[2])})"
    if k == "div":
        return f"(EDiv {coq_expr(e[1])} {coq_expr(e[2])})"
    if k == "neg":
        return f"(ENeg {coq_expr(e[1])})"
    if k == "prefix":
        return f"(EPre {coq_string(e[1])} {coq_expr(e[2])})"
    raise TranslateError(f"bad expr {e!r}")


def coq_cps(s):
    return "[" + ";".join(str(ord(c)) for c in s) + "]"


def expr_fraction(e):
    k = e[0]
    if k == "lit":
        return Fraction(e[1]) * Fraction(10) ** e[2]
    if k == "mul":
        return expr_fraction(e[1]) * expr_fraction(e[2])
    if k == "div":
        return expr_fraction(e[1]) / expr_fraction(e[2])
    if k == "neg":
        return -expr_fraction(e[1])
    if k == "prefix":
        return expr_fraction(e[2])
    raise TranslateError("bad expr")


def expr_json(e):
    k = e[0]
    if k == "lit":
        return {"lit": [str(e[1]), e[2]]}
    if k in ("mul", "div"):
        return {k: [expr_json(e[1]), expr_json(e[2])]}
    if k == "neg":
        return {"neg": expr_json(e[1])}
    if k == "prefix":
        return {"prefix": e[1], "body": expr_json(e[2])}


def emit(tables, modname_prefix="si"):
    out = []
    w = out.append
    w("(* GENERATED by /verif/translator/uom2coq.py from the current source tree. DO NOT EDIT. *)")
    w("From Coq Require Import ZArith NArith List String.")
    w("From UomV Require Import Model.Tables.")
    w("Import ListNotations.")
    w("Open Scope string_scope.")
    w("Open Scope N_scope.")
    w("")
    p = modname_prefix
    w(f"Definition {p}_prefixes : list (string * cexpr) := [")
    w(";\n".join(f"  ({coq_string(n)}, {coq_expr(tables['prefixes'][n])})" for n in tables["prefix_order"]))
    w("]%Z.")
    w("")
    w(f"Definition {p}_base : list base_decl := [")
    w(";\n".join(f"  {{| b_quantity := {coq_string(b['name'])}; b_unit := {coq_string(b['unit'])}; b_symbol := {coq_string(b['symbol'])} |}}"
                 for b in tables["system"]["base"]))
    w("].")
    w("")
    w(f"Definition {p}_kinds : list kind_decl := [")
    ks = []
    for name, k in tables["kinds"].items():
        ms = "; ".join("M" + m for m in k["markers"])
        ks.append(f"  {{| k_name := {coq_string(name)}; k_markers := [{ms}]; k_inherits := {'true' if k['inherits_kind'] else 'false'} |}}")
    w(";\n".join(ks))
    w("].")
    w("")
    w(f"Definition {p}_impl_from : list (string * string) := [")
    w(";\n".join(f"  ({coq_string(a)}, {coq_string(b)})" for a, b in tables["system"]["impl_from"]))
    w("].")
    w("")
    names = []
    for q in tables["quantities"]:
        qn = f"{p}_q_{q['module']}"
        names.append(qn)
        w(f"Definition {qn} : quantity_decl := {{|")
        w(f"  q_mod := {coq_string(q['module'])}; q_alias := {coq_string(q['alias'])};")
        w(f"  q_dim := [{'; '.join(coq_z(d) for d in q['dim'])}]%Z; q_kind := {coq_string(q['kind'])};")
        w("  q_units := [")
        us = []
        for u in q["units"]:
            const = f"(Some {coq_expr(u['const'])})" if u["const"] is not None else "None"
            us.append(f"    {{| u_name := {coq_string(u['name'])}; u_coef := {coq_expr(u['coef'])}%Z; u_const := {const}%Z;\n"
                      f"       u_abbr := {coq_cps(u['abbr'])}; u_sing := {coq_cps(u['sing'])}; u_plur := {coq_cps(u['plur'])} |}}")
        w(";\n".join(us))
        w("  ] |}.")
        w("")
    w(f"Definition {p}_quantities : list quantity_decl := [")
    w(";\n".join("  " + n for n in names))
    w("].")
    w("")
    return "\n".join(out) + "\n"


def translate_si(repo):
    si = os.path.join(repo, "src", "si")
    prefixes, prefix_order = parse_prefix_table(os.path.join(si, "prefix.rs"))
    sysd = parse_system(os.path.join(si, "mod.rs"))
    default_markers = parse_default_kind(os.path.join(repo, "src", "lib.rs"))
    kinds = resolve_kinds(sysd, default_markers)
    quantities = []
    nbase = len(sysd["base"])
    for m in sysd["modules"]:
        path = os.path.join(si, m["module"] + ".rs")
        if not os.path.exists(path):
            raise TranslateError(f"{path}: module listed in system! but file missing")
        qs = parse_quantity_file(path, prefixes)
        if len(qs) != 1:
            raise TranslateError(f"{path}: expected exactly one quantity! invocation, found {len(qs)}")
        q = qs[0]
        q["module"] = m["module"]
        if q["alias"] != m["alias"]:
            raise TranslateError(f"{path}: quantity alias {q['alias']} differs from system! entry {m['alias']}")
        if len(q["dim"]) != nbase:
            raise TranslateError(f"{path}: {len(q['dim'])} exponents for {nbase} base quantities")
        if q["kind"] not in kinds:
            raise TranslateError(f"{path}: unknown kind {q['kind']}")
        quantities.append(q)
    # quantity files present in src/si but not in system!  (would be dead code; report)
    listed = {m["module"] for m in sysd["modules"]} | {"mod", "prefix"}
    for f in sorted(os.listdir(si)):
        if f.endswith(".rs") and f[:-3] not in listed:
            raise TranslateError(f"{si}/{f}: not listed in system!")
    return {"prefixes": prefixes, "prefix_order": prefix_order, "system": sysd, "kinds": kinds,
            "quantities": quantities}


def translate_file(path, repo):
    """Translate a single-file downstream system (quantity! blocks inside `mod <name> { ... }` and one system! block),
    e.g. /verif/harness/csys.rs, into the same table structure as translate_si."""
    src = open(path, encoding="utf-8").read()
    toks = lex(src, path)
    p = P(toks, path)
    found = []
    last_mod = None
    while not p.at("eof"):
        if p.at("id", "mod") and p.at("id", None, 1) and p.at("punct", "{", 2):
            last_mod = p.peek(1)[1]
            p.next()
        elif p.at("id", "quantity") and p.at("punct", "!", 1) and p.at("punct", "{", 2):
            p.next(); p.next(); p.next()
            q = parse_quantity_block(p, {}, path)
            q["module"] = last_mod
            found.append(q)
        else:
            p.next()
    sysd = parse_system(path)
    default_markers = parse_default_kind(os.path.join(repo, "src", "lib.rs"))
    kinds = resolve_kinds(sysd, default_markers)
    byname = {q["module"]: q for q in found}
    quantities = []
    nbase = len(sysd["base"])
    for m in sysd["modules"]:
        if m["module"] not in byname:
            raise TranslateError(f"{path}: module {m['module']} listed in system! has no quantity! block")
        q = byname[m["module"]]
        if q["alias"] != m["alias"]:
            raise TranslateError(f"{path}: alias mismatch for {m['module']}")
        if len(q["dim"]) != nbase:
            raise TranslateError(f"{path}: {len(q['dim'])} exponents for {nbase} base quantities in {m['module']}")
        quantities.append(q)
    return {"prefixes": {}, "prefix_order": [], "system": sysd, "kinds": kinds, "quantities": quantities}


def tables_json(tables):
    qs = []
    for q in tables["quantities"]:
        us = []
        for u in q["units"]:
            c = expr_fraction(u["coef"])
            k = expr_fraction(u["const"]) if u["const"] is not None else None
            us.append({"name": u["name"], "coef": expr_json(u["coef"]),
                       "const": expr_json(u["const"]) if u["const"] is not None else None,
                       "coef_q": [str(c.numerator), str(c.denominator)],
                       "const_q": [str(k.numerator), str(k.denominator)] if k is not None else None,
                       "abbr": u["abbr"], "sing": u["sing"], "plur": u["plur"], "line": u["line"]})
        qs.append({"module": q["module"], "alias": q["alias"], "dim": q["dim"], "kind": q["kind"],
                   "desc": q["desc"], "units": us})
    return {"base": tables["system"]["base"], "kinds": tables["kinds"],
            "impl_from": tables["system"]["impl_from"],
            "prefixes": {n: expr_json(tables["prefixes"][n]) for n in tables["prefix_order"]},
            "prefix_q": {n: [str(expr_fraction(tables["prefixes"][n]).numerator),
                             str(expr_fraction(tables["prefixes"][n]).denominator)] for n in tables["prefix_order"]},
            "quantities": qs}


def main():
    repo = sys.argv[1] if len(sys.argv) > 1 else "/repo"
    outdir = sys.argv[2] if len(sys.argv) > 2 else "/verif/coq/theories/Gen"
    os.makedirs(outdir, exist_ok=True)
    try:
        tables = translate_si(repo)
    except TranslateError as e:
        print(f"TRANSLATE-ERROR: {e}")
        sys.exit(2)
    v = emit(tables)
    j = json.dumps(tables_json(tables), ensure_ascii=False, indent=0, sort_keys=True)
    changed = False
    for name, text in (("SiTables.v", v), ("si_tables.json", j)):
        path = os.path.join(outdir, name)
        old = open(path, encoding="utf-8").read() if os.path.exists(path) else None
        if old != text:
            with open(path, "w", encoding="utf-8") as f:
                f.write(text)
            changed = True
    nunits = sum(len(q["units"]) for q in tables["quantities"])
    print(f"translated {len(tables['quantities'])} quantities, {nunits} units, "
          f"{len(tables['prefix_order'])} prefixes, {len(tables['kinds'])} kinds, "
          f"{len(tables['system']['impl_from'])} impl_from; changed={changed}")


if __name__ == "__main__":
    main()
