#!/bin/bash
# regen.sh Cxx...: run the quick checks on the clean tree, sequentially (evidence is rewritten by each run)
cd /verif
git -C /repo diff --quiet || { echo "/repo dirty"; exit 2; }
for c in "$@"; do bin/check $c quick > .build/regen_$c.log 2>&1; echo "$c rc=$? $(tail -1 .build/regen_$c.log)"; done
