#!/bin/bash
# tie_probe.sh <seed-name>: apply the seeded change to /repo, regenerate Gen/ and rebuild the Coq development
# (no harness runs), undo it, regenerate again.  Says in a minute whether a change breaks a source tie or a table theorem.
NAME=$1
P=/verif/seeded/$NAME/patch.diff
cd /repo && git diff --quiet || { echo "/repo has local changes"; exit 2; }
git -C /repo apply $P || exit 3
cd /verif
python3 -c "from vlib import tables; tables.translate()" 2>&1 | tail -3
(cd coq && timeout 900 make -j16 2>&1 | grep -B2 -A8 'Error' | head -40)
rc=${PIPESTATUS[0]}
git -C /repo checkout -- .; git -C /repo clean -fdq src
python3 -c "from vlib import tables; tables.translate()" >/dev/null 2>&1
(cd coq && timeout 900 make -j16 >/dev/null 2>&1) && echo "probe=$NAME clean-tree rebuild ok"
