#!/bin/bash
# confirm_mutant.sh <worktree> <seed-name> <property>
# Confirms in the scratch worktree: patch applies to the clean tree; suite passes with the change; demo fails with it, passes without.
# Writes /verif/seeded/<seed-name>/{patch.diff,demo...,notes.md,meta.json}
set -u
WT=$1; NAME=$2; PROP=$3
OUT=/verif/seeded/$NAME
mkdir -p $OUT
cd $WT || exit 2
export CARGO_NET_OFFLINE=true
cp deliver/patch.diff $OUT/patch.diff
[ -f deliver/notes.md ] && cp deliver/notes.md $OUT/notes.md
rm -rf $OUT/demo; [ -d deliver/demo ] && rsync -a --exclude target deliver/demo/ $OUT/demo/
git checkout -q -- src 2>/dev/null
git apply --check $OUT/patch.diff || { echo "patch does not apply"; exit 3; }
DEMO_CMD="cd $WT/deliver/demo && cargo run --offline -q"
# the primary command only: the first line that is neither empty nor a comment
[ -f deliver/demo_cmd.txt ] && DEMO_CMD=$(grep -v '^[[:space:]]*#' deliver/demo_cmd.txt | grep -v '^[[:space:]]*$' | head -1)
# without the change
( eval "$DEMO_CMD" ) > $OUT/demo_without.log 2>&1; RC_WITHOUT=$?
git apply $OUT/patch.diff
( eval "$DEMO_CMD" ) > $OUT/demo_with.log 2>&1; RC_WITH=$?
( cargo nextest run --workspace --no-fail-fast --offline 2>&1 | tail -3 ) > $OUT/suite_with.log 2>&1
SUITE=$(grep -c "676 passed" $OUT/suite_with.log)
python3 - <<PY
import json
json.dump({"property": "$PROP", "name": "$NAME", "demo_cmd": """$DEMO_CMD""".replace("$WT/deliver", "<seed dir>"),
           "demo_exit_without_change": $RC_WITHOUT, "demo_exit_with_change": $RC_WITH,
           "suite_676_passed_with_change": bool($SUITE), "confirmed": ($RC_WITHOUT == 0 and $RC_WITH != 0 and bool($SUITE))},
          open("$OUT/meta.json", "w"), indent=1)
PY
cat $OUT/meta.json
