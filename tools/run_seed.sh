#!/bin/bash
# run_seed.sh <seed-name> <Cxx> [<Cxx>...] : apply the seeded change to /repo, run the quick checks, undo it.
NAME=$1; shift
P=/verif/seeded/$NAME/patch.diff
cd /repo && git diff --quiet || { echo "/repo has local changes"; exit 2; }
git -C /repo apply $P || exit 3
cd /verif
# the evidence files must describe the unchanged tree: keep them aside while the change is applied
rm -rf .build/evidence_backup; cp -r evidence .build/evidence_backup
for c in "$@"; do
  out=$(bin/check $c quick 2>&1); rc=$?
  nv=$(echo "$out" | grep -c '^VIOLATION')
  echo "seed=$NAME check=$c exit=$rc violations=$nv"
  echo "$out" | grep '^VIOLATION' | head -3
  echo "$out" > /verif/.build/seedlog_${NAME}_$c.log
done
git -C /repo checkout -- .; git -C /repo clean -fdq src
cp .build/evidence_backup/*.json evidence/ 2>/dev/null
