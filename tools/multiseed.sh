#!/bin/bash
# multiseed.sh <seed>...: run every claimed quick check on the unchanged tree under several seeds; print one line per (seed, check).
cd "$(dirname "$0")/.."
for seed in "$@"; do
  for c in $(python3 -c "import json;print(' '.join(x['property_id'] for x in json.load(open('MANIFEST.json'))['checks']))"); do
    out=$(VERIF_SEED=$seed bin/check $c quick 2>&1); rc=$?
    echo "seed=$seed check=$c exit=$rc $(echo "$out" | grep -c '^VIOLATION') violations; $(echo "$out" | tail -1)"
    if [ $rc -ne 0 ]; then echo "$out" | grep '^VIOLATION' | head -3; mkdir -p multiseed_fail; cp .build/replay/${c}_0.json multiseed_fail/${c}_seed${seed}.json 2>/dev/null; fi
  done
done
