#!/bin/bash
# seed_matrix.sh [seed...]: for every seeded change (default: all under seeded/), apply it to the repository
# (UOM_REPO, default /repo), run the quick check of the property it breaks, undo it, and print one line per seed.
# Writes seeded/<name>/detection.json.  Run it from the /verif directory (or a snapshot of it).
REPO=${UOM_REPO:-/repo}
cd "$(dirname "$0")/.."
SEEDS=${@:-$(ls seeded)}
git -C $REPO diff --quiet || { echo "$REPO has local changes"; exit 2; }
mkdir -p .build; rm -rf .build/evidence_backup; cp -r evidence .build/evidence_backup
for s in $SEEDS; do
  P=$(pwd)/seeded/$s/patch.diff
  [ -f $P ] || continue
  prop=$(python3 -c "import json;print(json.load(open('seeded/$s/meta.json'))['property'])")
  git -C $REPO apply $P || { echo "seed=$s patch does not apply"; continue; }
  out=$(bin/check $prop quick 2>&1); rc=$?
  nv=$(echo "$out" | grep -c '^VIOLATION')
  first=$(echo "$out" | grep '^VIOLATION' | head -1)
  git -C $REPO checkout -- .; git -C $REPO clean -fdq src
  cp .build/evidence_backup/*.json evidence/ 2>/dev/null
  echo "seed=$s property=$prop exit=$rc violations=$nv $first"
  python3 - <<PY
import json
benign = json.load(open("seeded/$s/meta.json")).get("benign", False)
json.dump({"seed": "$s", "property": "$prop", "check": "bin/check $prop quick", "exit": $rc, "violation_lines": $nv, "benign": benign,
           "as_expected": ($rc == 0 and $nv == 0) if benign else ($rc == 1 and $nv > 0)}, open("seeded/$s/detection.json", "w"), indent=1)
PY
done
