#!/bin/bash
# thorough_all.sh [Cxx...]: run the thorough tier of each claimed check on the unchanged tree; one line per check.
cd "$(dirname "$0")/.."
CHECKS="$@"
[ -z "$CHECKS" ] && CHECKS=$(python3 -c "import json;print(' '.join(x['property_id'] for x in json.load(open('MANIFEST.json'))['checks']))")
for c in $CHECKS; do
  out=$(bin/check $c thorough 2>&1); rc=$?
  echo "thorough check=$c exit=$rc $(echo "$out" | grep -c '^VIOLATION') violations; $(echo "$out" | tail -1)"
  if [ $rc -ne 0 ]; then echo "$out" | grep '^VIOLATION' | head -3; mkdir -p thorough_fail; cp .build/replay/${c}_0.json thorough_fail/${c}.json 2>/dev/null; fi
done
