#!/usr/bin/env python3
"""mutprompt.py <Cxx> <suffix>: print the brief given to a fresh sub-agent that seeds a property-breaking change
(property text only; nothing from /verif except the one-line descriptions of changes already made, so that
the new one is different).  The worktree is /tmp/mut/<Cxx><suffix>."""
import glob
import json
import os
import sys

HERE = os.path.dirname(os.path.dirname(os.path.abspath(__file__)))
pid, suf = sys.argv[1], sys.argv[2]
props = {json.loads(l)["id"]: json.loads(l) for l in open(os.path.join(HERE, "properties.jsonl"))}
p = props[pid]
wt = f"/tmp/mut/{pid}{suf}"
prev = []
for m in sorted(glob.glob(os.path.join(HERE, "seeded", f"m_{pid.lower()}*", "meta.json"))):
    d = json.load(open(m))
    prev.append(f"- {d.get('change')} (needs: {d.get('needs_to_manifest')})")
print(f"""You are helping to evaluate a verification effort for the Rust crate `uom` (units of measurement; compile-time dimensional analysis). You have your own scratch git worktree of the crate at {wt} (work ONLY inside that directory; never touch /repo or /verif; do not read anything under /verif). The sandbox has no network: use `cargo ... --offline` (env CARGO_NET_OFFLINE=true). The crate builds and its test suite passes with: `cd {wt} && cargo nextest run --workspace --no-fail-fast --offline` (fallback: `cargo test --workspace --no-fail-fast --offline --lib --tests`), 676 tests. Optional dependencies (num-bigint, num-rational, num-complex, serde, serde_json) are in the offline cargo cache, so other feature sets build too (e.g. `--features bigrational,i64,serde`).

Here is a semantic property the crate is supposed to satisfy:

  id: {p['id']}
  title: {p['title']}
  statement: {p['statement']}
  quantified over: {p['quantifier']}
  why the existing tests cannot settle it: {p['why_tests_cant']}
  code anchors: {json.dumps(p['anchors'])}

YOUR TASK: make ONE realistic source change to the crate (in {wt}/src/...) that BREAKS this property, while the crate still compiles and the ENTIRE existing test suite (command above, default features) still passes. The change should look like a plausible slip or a plausible-but-wrong "improvement" a developer could make (a few lines), NOT a contrived `if x == 12345` special case and not a change to tests. Prefer a change that needs something specific to manifest - an unusual input (signed zero, NaN, huge or tiny magnitude, a particular unit or base-unit set, a non-default feature set such as no autoconvert / no std / a non-float storage type), a multi-step sequence of operations, or two cooperating sites that each look fine alone - rather than something ordinary use would expose at once.

Then write a DEMONSTRATION: a small standalone Rust program or test (e.g. a file under {wt}/demo/ as its own tiny cargo crate with `uom = {{ path = ".." , ...features... }}` and an empty `[workspace]` table, copying {wt}/Cargo.lock next to its Cargo.toml so that it resolves offline; or a test file) that FAILS (non-zero exit / panic) with your change and PASSES without it. Verify both directions yourself, and verify the full existing suite still passes WITH your change.

Deliver, inside {wt}/deliver/: `patch.diff` (output of `git diff` for the src change only, applying cleanly with `git apply` to the unmodified tree), the demonstration (`demo/` crate directory or a single file plus the exact command to run it, in `demo_cmd.txt`), and `notes.md` saying: what the change is, why it breaks the property, what specific input / configuration / sequence is needed for it to manifest, and the commands you ran with their outcomes (suite with change: pass; demo with change: fail; demo without change: pass). Leave the worktree's src in the MODIFIED state when you finish. Keep build output inside {wt} (default target dir). Be concise in your final answer: just the summary of the change and where the files are.

ADDITIONAL CONSTRAINTS FOR THIS ROUND: (1) never use `git stash` (the stash is shared between worktrees of this repository); use `git diff > file`, `git apply`, `git apply -R`, `git checkout -- src` instead. (2) Others have already produced the changes listed below; yours must be a DIFFERENT kind of change at a different code site (a different function, macro arm, table line or feature-gated twin), exercising a different clause of the property statement or a different part of what it quantifies over:
""" + "\n".join(prev))
