"""Conversion slots for every storage class (C08, C09, C16): new / get / coefficient / constant /
rounding in a unit, and temperature point +/- interval."""
from fractions import Fraction

from .. import floatcases as FC, tables as T, valgen as VG
from ..stypes import STYPES, parse_expr, show_expr, prelude_for
from . import binops as B


def show_factor(ty, expr):
    """coefficient()/constant() have type V::T: V for floats and rationals, Ratio<V> for integers."""
    c = STYPES[ty]["cls"]
    if c in ("f64", "f32"):
        return show_expr(ty, expr)
    return f'{{ let r = {expr}; format!("{{}}/{{}}", r.numer(), r.denom()) }}'


def conv_slot(q, u, bs, ty, rounding=False):
    if u.get("added"):
        from . import added as AD
        return AD.repath(conv_slot(q, dict(u, added=False), bs, ty, rounding), q, u)
    rt = STYPES[ty]["rust"]
    qm, alias, un = q["module"], q["alias"], u["name"]
    rnd = ""
    if rounding:
        rnd = """
        "floor" => sh(&mk(p(a[1])).floor::<N>().value),
        "ceil" => sh(&mk(p(a[1])).ceil::<N>().value),
        "round" => sh(&mk(p(a[1])).round::<N>().value),
        "trunc" => sh(&mk(p(a[1])).trunc::<N>().value),
        "fract" => sh(&mk(p(a[1])).fract::<N>().value),"""
    return f"""    type V = {rt};
    type Q = uom::si::{qm}::{alias}<{B.units_type(bs, ty)}, V>;
    type N = uom::si::{qm}::{un};
    let p = |s: &str| -> V {{ {parse_expr(ty, 's')} }};
    let sh = |v: &V| -> String {{ {show_expr(ty, 'v.clone()')} }};
    let mk = |v: V| Q {{ dimension: PhantomData, units: PhantomData, value: v }};
    match a[0] {{
        "n" => sh(&Q::new::<N>(p(a[1])).value),
        "g" => sh(&mk(p(a[1])).get::<N>()),
        "c" => {show_factor(ty, f"<N as uom::Conversion<V>>::coefficient()")},
        "ka" => {show_factor(ty, f"<N as uom::Conversion<V>>::constant(uom::ConstantOp::Add)")},
        "ks" => {show_factor(ty, f"<N as uom::Conversion<V>>::constant(uom::ConstantOp::Sub)")},{rnd}
        _ => "BADOP".to_string(),
    }}"""


def base_coef_slot(bs, ty):
    """Published coefficients of the seven base units of a base set, in the storage type's factor type."""
    rt = STYPES[ty]["rust"]
    names = T.BASE_SETS[bs]
    mods = ["length", "mass", "time", "electric_current", "thermodynamic_temperature", "amount_of_substance", "luminous_intensity"]
    items = ", ".join(show_factor(ty, f"<uom::si::{m}::{n} as uom::Conversion<V>>::coefficient()") for m, n in zip(mods, names))
    return f"""    type V = {rt};
    let v: Vec<String> = vec![{items}];
    v.join(" ")"""


def parse_factor(ty, text):
    c = STYPES[ty]["cls"]
    if text in (None, "PANIC", "nan"):
        return None
    if c in ("f64", "f32"):
        b = int(text, 16)
        if FC.is_inf_bits(b, c) or FC.is_nan_bits(b, c):
            return None
        return FC.bits_to_frac(b, c)
    n, d = text.split("/")
    return Fraction(int(n), int(d))


def parse_value(ty, text):
    c = STYPES[ty]["cls"]
    if text in (None, "PANIC", "nan"):
        return None
    if c in ("f64", "f32"):
        b = int(text, 16)
        if FC.is_inf_bits(b, c) or FC.is_nan_bits(b, c):
            return None
        return FC.bits_to_frac(b, c)
    if c == "z":
        return Fraction(int(text))
    n, d = text.split("/")
    return Fraction(int(n), int(d))


def tquot(fr):
    n, d = fr.numerator, fr.denominator
    q = abs(n) // d
    return q if n >= 0 else -q
