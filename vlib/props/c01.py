"""C01 — operator results carry the dimension that dimensional analysis prescribes."""
from .. import common as C
from .. import coqbuild, tables as T
from .. import progs as PG

PROPS = "theories/Props/C01.v"
MODULE = "Props.C01"
SUPPORT = ["theories/Proofs/TypingP.v", "theories/Model/Typing.v"]
FEATURES = ["autoconvert", "f64", "si", "std"]

SYNTH = [[1, -2, 3, -4, 5, -6, 7], [-7, 6, -5, 4, -3, 2, -1], [2, 4, 6, -2, -4, -6, 8], [3, -3, 6, -6, 9, -9, 0], [0, 1, 0, -1, 2, 0, -2],
         [6, 0, -6, 3, 0, -3, 12], [-1, -2, -3, -4, -5, -6, -7]]


def quantity_types(t, base=0):
    return [PG.QT(q["dim"], q["kind"], base, q["module"], q["alias"]) for q in t.quantities]


def generate(t, rng, quick):
    qts = quantity_types(t)
    qts_k = quantity_types(t, 1)
    synth = [PG.QT(d, "Kind", 0) for d in SYNTH] + [PG.QT(SYNTH[0], "AngleKind", 0), PG.QT(SYNTH[1], "InformationKind", 1)]
    progs = []
    by_dim = {}
    for q in qts:
        if q.kind == "Kind":
            by_dim.setdefault(tuple(q.dims), q)
    npart = 12 if quick else len(qts)
    for a in qts:
        partners = rng.fork(a.module).sample(qts, npart) + [a]
        for b in partners:
            lim = lambda ds: all(abs(x) <= 12 for x in ds)
            if lim([x + y for x, y in zip(a.dims, b.dims)]):
                progs.append(PG.P_mul(a, b))
                alias = by_dim.get(tuple(x + y for x, y in zip(a.dims, b.dims)))
                if alias is not None and rng.below(3) == 0:
                    progs.append(PG.P_let_mul(alias, a, b)[0])
            if lim([x - y for x, y in zip(a.dims, b.dims)]):
                progs.append(PG.P_div(a, b))
        for kind in ("recip", "sqrt", "cbrt", "neg", "scalar_right", "scalar_left_mul", "scalar_left_div", "unchanged"):
            progs.append(PG.P_unary(kind, a))
        for e in (-3, -2, -1, 0, 1, 2, 3):
            if all(abs(x * e) <= 12 for x in a.dims):
                progs.append(PG.P_unary("powi", a, e))
        b = rng.fork("ma" + a.module).choice(qts)
        s = [x + y for x, y in zip(a.dims, b.dims)]
        if all(abs(x) <= 12 for x in s):
            progs.append(PG.P_muladd(a, b, PG.QT(s, "Kind", 0)))
    # synthetic vectors with a distinct exponent in every base position, mixed kinds and base sets
    for a in synth:
        for b in synth + [qts[0], qts_k[5]]:
            if all(abs(x + y) <= 16 for x, y in zip(a.dims, b.dims)):
                progs.append(PG.P_mul(a, b))
            if all(abs(x - y) <= 16 for x, y in zip(a.dims, b.dims)):
                progs.append(PG.P_div(a, b))
        for kind in ("recip", "sqrt", "cbrt", "scalar_left_mul", "scalar_left_div", "scalar_right", "neg"):
            progs.append(PG.P_unary(kind, a))
        progs.append(PG.P_unary("powi", a, 2))
        progs.append(PG.P_unary("powi", a, -1))
    # interchangeability with named aliases: positive (default kind) and negative (special-kind twin)
    L, Tm, V = t.qmap["length"], t.qmap["time"], t.qmap["velocity"]
    qt = lambda q, b=0: PG.QT(q["dim"], q["kind"], b, q["module"], q["alias"])
    progs.append(PG.Program(f"(let {qt(V).sexp()} {PG.QT(V['dim'], 'Kind', 0).sexp()})", [("a", qt(L).rust()), ("b", qt(Tm).rust())],
                            f"let x: {qt(V).rust()} = a / b; d(&x)", "let v: Velocity = length / time"))
    A, R = t.qmap["angle"], t.qmap["ratio"]
    progs.append(PG.Program(f"(let {qt(A).sexp()} {PG.QT(R['dim'], 'Kind', 0).sexp()})", [("a", qt(L).rust()), ("b", qt(L).rust())],
                            f"let x: {qt(A).rust()} = a / b; d(&x)", "let a: Angle = length / length (special-kind alias: reject)"))
    progs.append(PG.Program(f"(let {qt(R).sexp()} {PG.QT(R['dim'], 'Kind', 0).sexp()})", [("a", qt(L).rust()), ("b", qt(L).rust())],
                            f"let x: {qt(R).rust()} = a / b; d(&x)", "let r: Ratio = length / length"))
    return progs


def compare(ctx, t, programs, features, ac, std, name, what):
    """Shared by C01/C02/C15/C17: model verdicts vs rustc verdicts (+ static result types). Returns stats."""
    mv = PG.model_verdicts(t, programs, ac, std)
    ctx.log(f"{len(programs)} programs; asking rustc ({name})")
    rv = PG.classify(name, features, programs)
    accepted = [i for i in range(len(programs)) if rv.get(i, (None,))[0] is True]
    desc, runlog = PG.run_accepted(name, features, programs, accepted)
    if desc is None:
        ctx.violation({"kind": "harness-build", "obligation": "programs that `cargo check` accepts failed to build", "log": runlog[-2000:]}, no_input=True)
        desc = {}
    bad = []
    stats = {"accept": 0, "reject": 0, "inconclusive": 0, "codes": {}}
    for i, p in enumerate(programs):
        m_ok, m_ty = mv.get(i, ("error", None))
        r_ok, codes = rv.get(i, (None, ["missing"]))
        if r_ok is None:
            stats["inconclusive"] += 1
            continue
        for cd in set(codes):
            stats["codes"][cd] = stats["codes"].get(cd, 0) + 1
        stats["accept" if r_ok else "reject"] += 1
        if m_ok == "error":
            bad.append((i, f"model error {m_ty}", None))
        elif m_ok != r_ok:
            bad.append((i, f"model says {'compiles' if m_ok else 'does not compile'}, rustc says {'compiles' if r_ok else 'does not compile ' + str(sorted(set(codes)))}", None))
        elif r_ok and p.body.startswith(("d(", "let x", "let mut x", "let y")) and i in desc and not p.sexp.startswith("(unit "):
            got = PG.parse_desc(desc[i])
            if (got[0], got[1], got[2]) != (m_ty[0], m_ty[1], m_ty[2]):
                bad.append((i, f"static result type: rustc {got}, model {m_ty}", got))
    for i, why, got in bad[:5]:
        p = programs[i]
        ctx.violation({"kind": "program", "what": what, "program": p.rust_fn(f"p{i}"), "note": p.note, "model_request": p.sexp, "detail": why,
                       "features": features, "autoconvert": ac, "std": std,
                       "how_to_replay": "put PRELUDE (vlib/progs.py) and this function into a crate depending on uom (path /repo) with the listed features; cargo check"})
    stats["mismatches"] = len(bad)
    return stats, mv, rv


# Definitional identities between named quantities (SI brochure, table 4 ff.): what "interchangeable with the named quantity of that
# dimension" means physically, independent of the exponents the tables declare.  (result, left, op, right); all of the default kind
# (torque, the concentrations, the charge / current densities ... carry a special kind upstream by design and are not listed).
IDENTITIES = [
    ("velocity", "length", "/", "time"), ("acceleration", "velocity", "/", "time"), ("jerk", "acceleration", "/", "time"),
    ("force", "mass", "*", "acceleration"), ("energy", "force", "*", "length"), ("power", "energy", "/", "time"),
    ("pressure", "force", "/", "area"), ("area", "length", "*", "length"), ("volume", "area", "*", "length"),
    ("momentum", "mass", "*", "velocity"), ("mass_density", "mass", "/", "volume"), ("specific_volume", "volume", "/", "mass"),
    ("volume_rate", "volume", "/", "time"), ("mass_rate", "mass", "/", "time"), ("action", "energy", "*", "time"),
    ("electric_charge", "electric_current", "*", "time"), ("electric_potential", "power", "/", "electric_current"),
    ("electrical_resistance", "electric_potential", "/", "electric_current"), ("electrical_conductance", "electric_current", "/", "electric_potential"),
    ("capacitance", "electric_charge", "/", "electric_potential"), ("magnetic_flux", "electric_potential", "*", "time"),
    ("magnetic_flux_density", "magnetic_flux", "/", "area"), ("inductance", "magnetic_flux", "/", "electric_current"),
    ("electric_field", "electric_potential", "/", "length"),
    ("magnetic_field_strength", "electric_current", "/", "length"), ("luminance", "luminous_intensity", "/", "area"),
    ("molar_mass", "mass", "/", "amount_of_substance"),
    ("molar_energy", "energy", "/", "amount_of_substance"), ("molar_volume", "volume", "/", "amount_of_substance"),
    ("catalytic_activity", "amount_of_substance", "/", "time"), ("heat_capacity", "energy", "/", "temperature_interval"),
    ("specific_heat_capacity", "heat_capacity", "/", "mass"), ("molar_heat_capacity", "heat_capacity", "/", "amount_of_substance"),
    ("heat_flux_density", "power", "/", "area"), ("radiant_exposure", "energy", "/", "area"), ("dynamic_viscosity", "pressure", "*", "time"),
    ("thermal_conductance", "power", "/", "temperature_interval"), ("temperature_gradient", "temperature_interval", "/", "length"),
    ("specific_power", "power", "/", "mass"), ("power_rate", "power", "/", "time"), ("frequency_drift", "frequency", "/", "time"),
    ("linear_mass_density", "mass", "/", "length"), ("areal_mass_density", "mass", "/", "area"), ("available_energy", "energy", "/", "mass"),
    ("electric_dipole_moment", "electric_charge", "*", "length"), ("electric_flux", "electric_potential", "*", "length"),
    ("frequency", "velocity", "/", "length"), ("time", "length", "/", "velocity"), ("length", "velocity", "*", "time"),
    ("ratio", "length", "/", "length"), ("ratio", "energy", "/", "energy"), ("reciprocal_length", "ratio", "/", "length"),
]
# dimensionless quantities of a special kind convert to and from a plain ratio
DIMENSIONLESS_KINDS = ["angle", "solid_angle", "information"]


def identity_programs(t):
    qts = {q.module: q for q in quantity_types(t)}
    out = []
    for r, a, op, b in IDENTITIES:
        if not all(x in qts for x in (r, a, b)):
            continue
        qa, qb, qr = qts[a], qts[b], qts[r]
        dims = [x + y if op == "*" else x - y for x, y in zip(qa.dims, qb.dims)]
        res = PG.QT(dims, "Kind", qa.base)
        out.append((PG.Program(f"(let {qr.sexp()} {res.sexp()})", [("a", qa.rust()), ("b", qb.rust())], f"let x: {qr.rust()} = a {op} b; d(&x)", f"{r} = {a} {op} {b}"),
                    f"{r} = {a} {op} {b}"))
    for m in DIMENSIONLESS_KINDS:
        if m in qts and "ratio" in qts:
            out.append((PG.P_from(qts[m], qts["ratio"], "from"), f"{m} -> ratio (both dimensionless)"))
            out.append((PG.P_from(qts["ratio"], qts[m], "into"), f"ratio -> {m} (both dimensionless)"))
    return out


def run(ctx):
    if not ctx.translate():
        return
    t = ctx.tables
    if not ctx.proof_gate(PROPS, MODULE, SUPPORT):
        ctx.violation({"kind": "proof", "obligation": f"{PROPS}: {getattr(ctx, 'proof_error', '')[-1500:]}"}, no_input=True)
    ok, out = coqbuild.build_runner()
    if not ok:
        ctx.violation({"kind": "runner", "obligation": "extraction/compilation of the model runner failed", "log": out[-2000:]}, no_input=True)
        return
    quick = ctx.tier == "quick"
    programs = generate(t, ctx.rng, quick)
    ident = identity_programs(t)
    first_ident = len(programs)
    programs += [p for p, _ in ident]
    stats, mv, rv = compare(ctx, t, programs, FEATURES, True, True, "c01", "C01: static result dimension/kind of an operator")
    # the property's own oracle, independent of the declared exponents: definitional identities between named quantities must type-check
    ident_bad = 0
    for k, (p, what) in enumerate(ident):
        v = rv.get(first_ident + k, (None, []))
        if v[0] is False:
            ident_bad += 1
            if ident_bad <= 3:
                ctx.violation({"kind": "program", "spec": "C01: the result of the operator is interchangeable with the named quantity of that dimension", "identity": what,
                               "program": p.rust_fn(f"p{first_ident + k}"), "detail": f"rustc rejects it {sorted(set(v[1]))}", "features": FEATURES,
                               "how_to_replay": "put PRELUDE (vlib/progs.py) and this function into a crate depending on uom (path /repo) with the listed features; cargo check"})
    # the not_autoconvert! twins of the operator impls compute their Output types separately: same programs, autoconvert off
    sub = [p for k, p in enumerate(programs) if k % 3 == 0 or "Dimension<" in p.rust_fn("x")]
    stats2, _, _ = compare(ctx, t, sub, [f for f in FEATURES if f != "autoconvert"], False, True, "c01noac",
                           "C01 (autoconvert disabled): static result dimension/kind of an operator")
    cov = ctx.coverage
    cov["rustc_without_autoconvert"] = stats2
    cov["programs_without_autoconvert"] = len(sub)
    cov["programs"] = len(programs)
    cov["definitional_identities"] = {"checked": len(ident), "rejected_by_rustc": ident_bad}
    cov["evaluations"] = len(programs)
    cov["distinct_nontrivial"] = len({p.sexp for p in programs})
    cov["disagreements_checked"] = stats["mismatches"] + stats2["mismatches"]
    cov["rustc"] = stats
    cov["rule"] = ("one-line Rust functions over the 115 SI quantity aliases (x 12 seed-chosen partners + itself; thorough: all ordered pairs) for * and /, all unary forms "
                   "(recip, sqrt, cbrt, powi N3..P3, neg, scalar left/right, abs/signum), mul_add, let-binding of a product to the named alias; ~60 definitional identities between named quantities (velocity = length / time ... ) that must type-check whatever the tables say; 9 synthetic types "
                   "with a distinct exponent in every base position (default, angle and information kinds, two base-unit sets); verdict and static result type "
                   "(to_i32 of every exponent, Kind type name, base units) from rustc vs the extracted typing judgement")
    cov["samples"] = [{"program": programs[i].rust_fn(f"p{i}"), "model": str(mv.get(i)), "rustc": str(rv.get(i))} for i in ctx.rng.fork("s").sample(list(range(len(programs))), 4)]
