"""C14 — Time <-> std Duration conversion is total, classified and accurate."""
from fractions import Fraction

from .. import common as C
from .. import coqbuild, floatcases as FC, tables as T, valgen as VG
from ..harness import Harness, FEATURE_SETS
from ..stypes import STYPES, parse_expr, show_expr, model_val
from . import binops as B

PROPS = "theories/Props/C14.v"
MODULE = "Props.C14"
SUPPORT = ["theories/Proofs/DurationP.v", "theories/Proofs/DurationAcc.v", "theories/Proofs/QuantityP.v", "theories/Proofs/Tree.v", "theories/Proofs/ErrBound.v"]

FTYPES = ["f64", "f32"]
ITYPES = ["i64", "u64", "i32"]
BASES = ["si", "kgh", "fpm", "mtm", "tiny"]
FEATURES = ["autoconvert", "f32", "f64", "i32", "i64", "u64", "si", "std"]


def slot(bs, ty):
    rt = STYPES[ty]["rust"]
    return f"""    type V = {rt};
    type Q = uom::si::time::Time<{B.units_type(bs, ty)}, V>;
    use std::convert::TryFrom;
    use std::time::Duration;
    let p = |s: &str| -> V {{ {parse_expr(ty, 's')} }};
    match a[0] {{
        "to" => {{
            let q = Q {{ dimension: PhantomData, units: PhantomData, value: p(a[1]) }};
            match Duration::try_from(q) {{
                Ok(d) => format!("ok {{}} {{}}", d.as_secs(), d.subsec_nanos()),
                Err(uom::si::time::TryFromError::NegativeDuration) => "neg".to_string(),
                Err(uom::si::time::TryFromError::Overflow) => "ovf".to_string(),
            }}
        }}
        "from" => {{
            let d = Duration::new(a[1].parse::<u64>().unwrap(), a[2].parse::<u32>().unwrap());
            match Q::try_from(d) {{
                Ok(q) => format!("ok {{}}", {show_expr(ty, 'q.value')}),
                Err(uom::si::time::TryFromError::NegativeDuration) => "neg".to_string(),
                Err(uom::si::time::TryFromError::Overflow) => "ovf".to_string(),
            }}
        }}
        "coefs" => {{
            let sf = |r: <V as uom::Conversion<V>>::T| {{COEF_SHOW}};
            format!("{{}} {{}} {{}}", sf(<uom::si::time::second as uom::Conversion<V>>::coefficient()),
                    sf(<uom::si::time::nanosecond as uom::Conversion<V>>::coefficient()),
                    sf(<uom::si::time::{{TBASE}} as uom::Conversion<V>>::coefficient()))
        }}
        _ => "BADOP".to_string(),
    }}""".replace("{COEF_SHOW}", 'format!("{}/{}", r.numer(), r.denom())' if STYPES[ty]["cls"] == "z" else 'format!("{:?}", r)').replace("{TBASE}", T.BASE_SETS[bs][2])


def float_stored_values(rng, ty, k, n):
    """Stored values (bits) for a Time whose base unit is k seconds: boundary classes in SECONDS mapped back to the base unit."""
    f = FC.FMT[ty]
    sp = FC.special_values(ty)
    out = [("special:" + nm, b) for nm, b in sp.items()]

    def near(sec, tag):
        x = Fraction(sec) / k
        if x == 0:
            return
        b = float_bits(x, ty)
        for dlt in (-2, -1, 0, 1, 2):
            bb = b + dlt
            if 0 < (bb & ((1 << (f["bits"] - 1)) - 1)) and not FC.is_nan_bits(bb, ty):
                out.append((f"{tag}{dlt:+d}", bb))

    for e in (0, 1, 10, 23, 24, 31, 32, 52, 53, 62, 63, 64, 65):
        near(2 ** e, f"2^{e}s")
    for s in (1, 2, 7, 59, 60, 3599, 3600, 86399, 1999, 10 ** 9, 10 ** 12):
        near(s, f"{s}s")
    for s in (Fraction(1, 2), Fraction(999999999, 10 ** 9), Fraction(1, 10 ** 9), Fraction(15, 10), Fraction(7999999999, 10 ** 9)):
        near(s, f"{float(s)}s")
    # tiny negatives (sign must not be lost by the conversion), tiny positives
    sign = 1 << (f["bits"] - 1)
    for b in (1, 2, 1 << (f["prec"] - 1), (1 << (f["prec"] - 1)) + 5):
        out.append(("tiny+", b))
        out.append(("tiny-", sign | b))
    for _ in range(n):
        out.append(("binade", FC.random_value(rng, ty, 1, (1 << f["ew"]) - 2)))
        sec = Fraction(rng.below(2 ** 40), 1 + rng.below(1000))
        near(sec, "rndsec")
    return out


def float_bits(x, ty):
    if ty == "f64":
        try:
            return C.f64_bits(float(x))
        except OverflowError:
            return FC.special_values(ty)["+inf"]
    try:
        return C.f32_bits(float(x))
    except OverflowError:
        return FC.special_values(ty)["+inf"]


def run(ctx):
    if not ctx.translate():
        return
    if not ctx.proof_gate(PROPS, MODULE, SUPPORT):
        ctx.violation({"kind": "proof", "obligation": f"{PROPS}: {getattr(ctx, 'proof_error', '')[-1500:]}"}, no_input=True)
    ok, out = coqbuild.build_runner()
    if not ok:
        ctx.violation({"kind": "runner", "obligation": "extraction/compilation of the model runner failed", "log": out[-2000:]}, no_input=True)
        return
    t = ctx.tables
    quick = ctx.tier == "quick"
    types = FTYPES + ITYPES
    h = Harness("c14", FEATURES, prelude=B.prelude(BASES, types))
    dT = t.qmap["time"]["dim"]
    ksec = T.sexp(t.unit("time", "second")["coef"])
    knano = T.sexp(t.unit("time", "nanosecond")["coef"])
    cases, meta, mlines = [], {}, []
    for ty in types:
        for bs in BASES:
            if bs == "tiny" and ty not in FTYPES:
                continue
            sl = h.slot(slot(bs, ty))
            U = T.sexp_list(t.base_unit_exprs(T.BASE_SETS[bs]))
            kfr = T.frac(t.unit("time", T.BASE_SETS[bs][2])["coef"])
            rng = ctx.rng.fork(f"{ty}:{bs}")
            if ty in FTYPES:
                for tag, bits in float_stored_values(rng, ty, kfr, 30 if quick else 400):
                    cid = f"t{len(cases)}"
                    cases.append((cid, sl, ["to", FC.hexbits(bits, ty)]))
                    meta[cid] = ("to", ty, bs, kfr, tag, bits)
                    mlines.append(f"{cid} {ty} std (todur 1 {U} {T.zlist(dT)} {ksec} {knano} {bits})")
            else:
                st = STYPES[ty]
                cid = f"t{len(cases)}"
                cases.append((cid, sl, ["coefs"]))
                meta[cid] = ("coefs", ty, bs, kfr, "coefs", None)
                # the whole range of the type: which of these make an intermediate Ratio<iN> overflow is decided by Model/DurationW.v
                vals = {0, 1, 7, 59, 3600, 86400, -1, -7, 10 ** 9, st["hi"], st["lo"], st["hi"] - 1, st["hi"] // 2, st["lo"] + 1}
                for m_ in (kfr.numerator, kfr.denominator, kfr.numerator * 10 ** 9, 10 ** 9):
                    if m_ > 1:
                        th = st["hi"] // m_
                        vals |= {th - 1, th, th + 1, -th, -th - 1}
                for th in ((2 ** 64) * kfr.denominator // kfr.numerator,):          # both sides of 2^64 seconds
                    vals |= {th - 1, th, th + 1}
                vals |= {rng.below(10 ** 6) for _ in range(20)}
                for _ in range(12 if quick else 100):
                    e = rng.below(st["hi"].bit_length())
                    x = (1 << e) + rng.below(1 << e)
                    vals.add(-x if st["lo"] < 0 and rng.below(3) == 0 else x)
                for v in sorted(vals):
                    if v < st["lo"] or v > st["hi"]:
                        continue
                    cid = f"t{len(cases)}"
                    cases.append((cid, sl, ["to", str(v)]))
                    meta[cid] = ("to", ty, bs, kfr, "int", v)
            durs = [(0, 0), (1, 0), (0, 1), (7, 0), (7, 999999999), (3599, 500000000), (2 ** 31 - 1, 0), (2 ** 31, 0), (2 ** 53, 1),
                    (2 ** 63 - 1, 0), (2 ** 63, 0), (2 ** 64 - 1, 999999999)]
            durs += [(rng.below(2 ** (1 + rng.below(63))), rng.below(10 ** 9)) for _ in range(10 if quick else 200)]
            for (s, n) in durs:
                cid = f"t{len(cases)}"
                cases.append((cid, sl, ["from", str(s), str(n)]))
                meta[cid] = ("from", ty, bs, kfr, "dur", (s, n))
                if ty in FTYPES:
                    mlines.append(f"{cid} {ty} std (fromdur 1 {U} {T.zlist(dT)} {ksec} {knano} {s} {n})")
    ctx.log(f"{len(h.slots)} slots, {len(cases)} cases; building harness")
    if not h.build():
        ctx.log(h.build_log[-3000:])
        ctx.violation({"kind": "harness-build", "obligation": "the Time<->Duration harness no longer compiles against /repo", "log": h.build_log[-3000:]}, no_input=True)
        return
    impl = h.run(cases)
    # integer storage: the width-checked model runs on the coefficients the storage type publishes
    icoefs = {}
    for cid, sl, args in cases:
        if meta[cid][0] == "coefs":
            got = impl.get(cid)
            try:
                icoefs[(meta[cid][1], meta[cid][2])] = [tuple(int(x) for x in f.split("/")) for f in got.split()]
            except (ValueError, AttributeError):
                icoefs[(meta[cid][1], meta[cid][2])] = None
    ilines = []
    for cid, sl, args in cases:
        kind, ty, bs, k, tag, val = meta[cid]
        if ty in FTYPES or kind not in ("to", "from") or not icoefs.get((ty, bs)):
            continue
        (ks_, kn_, kb_) = icoefs[(ty, bs)]
        st = STYPES[ty]
        Uw = "(" + " ".join(f"({kb_[0]} {kb_[1]})" if i == 2 else "(1 1)" for i in range(len(dT))) + ")"
        if kind == "to":
            ilines.append(f"{cid} dw - (to {st['lo']} {st['hi']} {Uw} {T.zlist(dT)} ({ks_[0]} {ks_[1]}) ({kn_[0]} {kn_[1]}) {val})")
        else:
            ilines.append(f"{cid} dw - (from {st['lo']} {st['hi']} {Uw} {T.zlist(dT)} ({ks_[0]} {ks_[1]}) ({kn_[0]} {kn_[1]}) {val[0]} {val[1]})")
    model = coqbuild.run_model(mlines + ilines)
    ctx.log(f"implementation answered {len(impl)}, model answered {len(model)}")
    ctx.vm_crosscheck(mlines + ilines, model)
    istat = {"cases": 0, "agree": 0, "both_panic": 0}
    spec_fail, disagreements = [], []
    hist = {}
    distinct = set()
    for cid, sl, args in cases:
        kind, ty, bs, k, tag, val = meta[cid]
        if kind == "coefs":
            continue
        got = impl.get(cid)
        hist[f"{kind}/{ty}/{bs}"] = hist.get(f"{kind}/{ty}/{bs}", 0) + 1
        distinct.add((kind, ty, bs, str(val)))
        if ty not in FTYPES and cid in model:
            m = model[cid].split()
            if kind == "to":
                want = {"0": f"ok {m[1]} {m[2]}" if len(m) > 2 else "?", "1": "neg", "2": "ovf", "3": "PANIC"}[m[0]]
            else:
                want = {"0": f"ok {m[1]}" if len(m) > 1 else "?", "2": "ovf", "3": "PANIC"}[m[0]]
            istat["cases"] += 1
            if got == want:
                istat["agree"] += 1
            else:
                disagreements.append((cid, got, want))
            if got == "PANIC" and want == "PANIC":
                istat["both_panic"] += 1
                # the property says "never panics": a genuine defect of the integer conversion path, known and characterised by the model
                if kind == "to" and ty == "i32" and k * 10 ** 9 >= 2 ** 31:
                    if ctx.known_hit("i32-long-base-unit", "Duration::try_from(Time<U, i32>) panics when the time base unit is longer than 2.147 s (factor base/1e-9 overflows Ratio<i32>)"):
                        continue
                elif ctx.known_hit("integer-intermediate-overflow", "Time <-> Duration at integer storage panics when an intermediate Ratio<iN> of the conversion leaves the type's range "
                                                                    "(exactly the cases in which the width-checked model Model/DurationW.v overflows)"):
                    continue
        if got is None or got in ("PANIC", "BADOP", "NOSLOT"):
            if got == "PANIC" and kind == "to" and ty == "i32" and k * 10 ** 9 >= 2 ** 31 and \
                    ctx.known_hit("i32-long-base-unit", "Duration::try_from(Time<U, i32>) panics when the time base unit is longer than 2.147 s (factor base/1e-9 overflows Ratio<i32>)"):
                continue
            spec_fail.append((cid, f"conversion answered {got}: it must never panic"))
            continue
        if cid in model and ty in FTYPES:
            m = model[cid].split()
            if kind == "to":
                want = {"0": f"ok {m[1]} {m[2]}" if len(m) > 2 else "?", "1": "neg", "2": "ovf", "3": "PANIC"}[m[0]]
            else:
                want = "ok " + FC.canon_model(m[0], ty)
            if got != want:
                disagreements.append((cid, got, want))
        # ---- spec
        if kind == "to":
            if ty in FTYPES:
                if FC.is_nan_bits(val, ty):
                    if got != "ovf":
                        spec_fail.append((cid, f"NaN time gave {got}, expected overflow"))
                    continue
                neg = bool(val >> (FC.FMT[ty]["bits"] - 1))
                if FC.is_inf_bits(val, ty):
                    want = "neg" if neg else "ovf"
                    if got != want:
                        spec_fail.append((cid, f"{'-' if neg else '+'}inf gave {got}, expected {want}"))
                    continue
                v = FC.bits_to_frac(val, ty)
                u_ = Fraction(1, 2 ** FC.FMT[ty]["prec"])
            else:
                v = Fraction(val)
                u_ = Fraction(0)
            tsec = v * k
            if v < 0:
                if got != "neg":
                    spec_fail.append((cid, f"strictly negative time ({float(v):.3e} base units) gave {got}, expected the negative-duration error"))
                continue
            slack = 16 * u_ * tsec
            if tsec >= 2 ** 64 + slack:
                if got != "ovf":
                    spec_fail.append((cid, f"time of {float(tsec):.6e} s >= 2^64 s gave {got}, expected overflow"))
                continue
            if tsec > 2 ** 64 - slack - 1:
                continue      # within rounding of the boundary: either classification
            if not got.startswith("ok "):
                # f32/f64 intermediate overflow of the conversion itself (e.g. yoctosecond base): outside "no overflow intervenes"
                if ty in FTYPES and not FC.in_normal_range(tsec * 10 ** 9 if tsec else Fraction(1), ty, 4):
                    continue
                spec_fail.append((cid, f"time of {float(tsec):.9e} s gave {got}, expected Ok"))
                continue
            _, s_, n_ = got.split()
            d = int(s_) + Fraction(int(n_), 10 ** 9)
            if int(n_) >= 10 ** 9:
                spec_fail.append((cid, "nanoseconds >= 10^9"))
            if abs(d - tsec) > Fraction(1, 10 ** 9) + 16 * u_ * tsec + (Fraction(0) if ty in FTYPES else 1):
                spec_fail.append((cid, f"Duration {float(d):.12g} s differs from the time {float(tsec):.12g} s by more than 1 ns + few ulps"))
        else:
            s, n = val
            exact = s + Fraction(n, 10 ** 9)
            if ty in FTYPES:
                if not got.startswith("ok "):
                    spec_fail.append((cid, f"Duration -> float Time gave {got}"))
                    continue
                b = got.split()[1]
                if b == "nan":
                    spec_fail.append((cid, "Duration -> Time gave NaN"))
                    continue
                gb = int(b, 16)
                if FC.is_inf_bits(gb, ty):
                    if FC.in_normal_range(exact / k if exact else Fraction(1), ty, 4):
                        spec_fail.append((cid, "Duration -> Time gave infinity"))
                    continue
                g = FC.bits_to_frac(gb, ty) * k
                u_ = Fraction(1, 2 ** FC.FMT[ty]["prec"])
                if abs(g - exact) > 16 * u_ * exact + FC.ulp_of(exact / k if exact else Fraction(1), ty) * k:
                    spec_fail.append((cid, f"Time {float(g):.17g} s differs from the Duration {float(exact):.17g} s by more than a few ulps"))
            elif k == 1:
                st = STYPES[ty]
                if s > st["hi"]:
                    if got != "ovf":
                        spec_fail.append((cid, f"{s} s does not fit {ty} but conversion gave {got}"))
                elif got != f"ok {s}":
                    spec_fail.append((cid, f"integer Time from Duration({s}, {n}) gave {got}, expected ok {s}"))
            else:
                # integer storage in another base unit: seconds and nanoseconds are converted separately, each truncated toward zero
                st = STYPES[ty]
                if s > st["hi"]:
                    if got != "ovf":
                        spec_fail.append((cid, f"{s} s does not fit {ty} but conversion gave {got}"))
                elif got.startswith("ok "):
                    g = int(got.split()[1])
                    if not (exact / k - 2 < g <= exact / k):
                        spec_fail.append((cid, f"integer Time from Duration({s}, {n}) in a base unit of {k} s gave {g}, expected within two truncations below {float(exact / k):.6f}"))

    def replay_case(cid, extra):
        kind, ty, bs, k, tag, val = meta[cid]
        sl = next(s for c, s, a in cases if c == cid)
        args = next(a for c, s, a in cases if c == cid)
        line = next((l for l in mlines + ilines if l.startswith(cid + " ")), None)
        return dict({"kind": "time/duration conversion", "direction": kind, "storage": ty, "time_base_unit": T.BASE_SETS[bs][2],
                     "value_class": tag, "args": args, "implementation": impl.get(cid), "model": model.get(cid),
                     "harness": {"features": h.features, "prelude": h.prelude,
                                 "cases": [{"slot_body": h.slots[sl], "args": args, "model": line.split(" ", 1)[1] if line else None}]}}, **extra)

    for cid, why in spec_fail[:5]:
        ctx.violation(replay_case(cid, {"spec": "C14", "detail": why}))
    if disagreements and not spec_fail:
        cid, got, want = disagreements[0]
        ctx.violation(replay_case(cid, {"obligation": "correspondence Model.Duration.time_to_duration / duration_to_time (extracted) vs src/si/time.rs",
                                        "model_says": want, "count": len(disagreements)}), no_input=True)
    cov = ctx.coverage
    cov["evaluations"] = len(cases)
    cov["distinct_nontrivial"] = len(distinct)
    cov["rule"] = ("Time -> Duration for f64/f32 stored values in time base units {second, hour, minute, millisecond, yoctosecond}: special values, whole "
                   "seconds and powers of two (incl. 2^64) +-2 ulps mapped into the base unit, sub-second fractions, tiny negatives/positives, every "
                   "binade, random; i64/u64/i32 in range; Duration -> Time for boundary and random durations; distinct by (direction, storage, base, value)")
    cov["disagreements_checked"] = len(disagreements)
    cov["integer_storage_vs_width_checked_model"] = istat
    cov["spec_failures"] = len(spec_fail)
    cov["histogram"] = hist
    smp = ctx.rng.fork("samples").sample(cases, 6)
    cov["samples"] = [{"direction": meta[c][0], "storage": meta[c][1], "base": meta[c][2], "args": a, "implementation": impl.get(c), "model": model.get(c)} for c, _, a in smp]
