"""C02 — dimensionally or kind-wise invalid programs are rejected at compile time."""
from .. import common as C
from .. import coqbuild, tables as T
from .. import progs as PG
from . import c01 as C01

PROPS = "theories/Props/C02.v"
MODULE = "Props.C02"
SUPPORT = ["theories/Proofs/TypingP.v", "theories/Model/Typing.v"]
FEATURES = ["autoconvert", "f64", "si", "std"]


def from_number(b):
    return PG.Program(f"(from_number {b.sexp()})", [], f"let y: {b.rust()} = From::from(1.0f64); d(&y)", "B::from(1.0)")


def into_number(a):
    return PG.Program(f"(into_number {a.sexp()})", [("a", a.rust())], "let _y: f64 = From::from(a); String::new()", "f64::from(a)")


def forms(a, b, t, rng):
    """All operator forms on the ordered pair of types (a, b)."""
    out = [PG.P_additive(o, a, b) for o in ("add", "sub", "rem", "addas", "subas", "remas")]
    out += [PG.P_compare(f, a, b) for f in ("eq", "lt", "pcmp")]
    out.append(PG.Program(f"(let {a.sexp()} {b.sexp()})", [("b", b.rust())], f"let x: {a.rust()} = b; d(&x)", "let x: A = b"))
    out.append(PG.P_hypot(a, b))
    out.append(PG.P_atan2(a, b))
    out.append(PG.P_from(b, a, "from"))
    out.append(PG.P_from(b, a, "into"))
    if b.module and a.module:
        ub = t.qmap[b.module]["units"]
        u = ub[rng.below(len(ub))]["name"]
        out.append(PG.P_unit(a, b.module, u, "new"))
        out.append(PG.P_unit(a, b.module, u, "get"))
        # the other seven unit-taking methods (roundings, format_args, into_format_args): two per pair, seed-chosen
        for f in rng.sample(list(PG.UNIT_FORMS[2:]), 2):
            out.append(PG.P_unit(a, b.module, u, f))
    return out


def generate(t, rng, quick):
    qts = C01.quantity_types(t)
    classes = {}
    for q in qts:
        classes.setdefault((tuple(q.dims), q.kind), q)
    reps = list(classes.values())
    special = [q for q in qts if q.kind != "Kind"]
    progs = []
    npart = 5 if quick else len(reps)
    pairs = set()
    for a in reps:
        for b in rng.fork(a.module).sample(reps, npart):
            pairs.add((a.module, b.module))
    for a in special:
        for b in special:
            pairs.add((a.module, b.module))
        # default-kind twin(s) of the same exponents
        for b in qts:
            if b.dims == a.dims and b.module != a.module:
                pairs.add((a.module, b.module))
                pairs.add((b.module, a.module))
    byname = {q.module: q for q in qts}
    for (am, bm) in sorted(pairs):
        a, b = byname[am], byname[bm]
        r = rng.fork(am + bm)
        progs += forms(a, b, t, r)
        if am != bm and r.below(4) == 0:
            progs += forms(a, a, t, r)           # positive controls: the same forms on matching types
    # same alias, different base-unit sets (compiles with autoconvert, rejected without)
    for q in rng.fork("mix").sample(qts, 12):
        qk = PG.QT(q.dims, q.kind, 1, q.module, q.alias)
        progs += forms(q, qk, t, rng.fork("mix" + q.module))[:13]
    # roots, numbers, temperature
    for q in qts:
        progs.append(PG.P_unary("sqrt", q))
        progs.append(PG.P_unary("cbrt", q))
        progs.append(PG.P_unary("neg", q))
        progs.append(from_number(q))
        progs.append(into_number(q))
    return progs


def run(ctx):
    if not ctx.translate():
        return
    t = ctx.tables
    if not ctx.proof_gate(PROPS, MODULE, SUPPORT):
        ctx.violation({"kind": "proof", "obligation": f"{PROPS}: {getattr(ctx, 'proof_error', '')[-1500:]}"}, no_input=True)
    ok, out = coqbuild.build_runner()
    if not ok:
        ctx.violation({"kind": "runner", "obligation": "extraction/compilation of the model runner failed", "log": out[-2000:]}, no_input=True)
        return
    quick = ctx.tier == "quick"
    programs = generate(t, ctx.rng, quick)
    stats, mv, rv = C01.compare(ctx, t, programs, FEATURES, True, True, "c02", "C02: accept/reject of a program (and its static type when accepted)")
    # without autoconvert: the not_autoconvert! impls carry their own bounds; mixed-base programs must be rejected
    sub = [p for k, p in enumerate(programs) if k % 4 == 0 or "thermodynamic_temperature" in p.rust_fn("x") or "bs_kgh" in p.rust_fn("x")]
    stats2, mv2, rv2 = C01.compare(ctx, t, sub, [f for f in FEATURES if f != "autoconvert"], False, True, "c02noac",
                                   "C02 (autoconvert disabled): accept/reject of a program")
    nsat = PG.check_saturating(ctx, "satprobe", "C02: temperature points cannot be added or subtracted in any form (num_traits::Saturating included); other quantities can")
    cov = ctx.coverage
    cov["saturating_programs_integer_storage"] = nsat
    cov["programs"] = len(programs) + len(sub)
    cov["evaluations"] = len(programs) + len(sub)
    pred_reject = sum(1 for i in range(len(programs)) if mv.get(i, (None,))[0] is False) + sum(1 for i in range(len(sub)) if mv2.get(i, (None,))[0] is False)
    cov["distinct_nontrivial"] = pred_reject
    cov["disagreements_checked"] = stats["mismatches"] + stats2["mismatches"]
    cov["rustc"] = stats
    cov["rustc_without_autoconvert"] = stats2
    cov["rule"] = ("ordered pairs of distinct (dimension, kind) classes of the SI (each x 8 seed-chosen others; all special-kind quantities pairwise and against their "
                   "default-kind twins; thorough: all pairs) x forms {+ - % += -= %= == < partial_cmp, let-binding, hypot, atan2, From, Into, new/get/floor/ceil/round/trunc/fract/format_args/into_format_args with the other "
                   "quantity's unit}, positive controls on matching types, same alias over two base-unit sets, sqrt/cbrt/neg and number conversions of every quantity; "
                   "with and without autoconvert; non-trivial = predicted to be rejected; rustc verdict per function from JSON diagnostics (sentinel-guarded shards)")
    cov["samples"] = [{"program": programs[i].rust_fn(f"p{i}"), "model": str(mv.get(i)), "rustc": str(rv.get(i))} for i in ctx.rng.fork("s").sample(list(range(len(programs))), 5)]
