"""C20 — complex storage: unit conversion scales the number and keeps its phase (known finding F5)."""
from fractions import Fraction

from .. import common as C
from .. import coqbuild, floatcases as FC, tables as T
from ..harness import Harness
from ..stypes import STYPES, parse_expr, show_expr
from . import binops as B
from . import convlib

PROPS = "theories/Props/C20.v"
MODULE = "Props.C20"
SUPPORT = ["theories/Proofs/QuantityP.v", "theories/Proofs/StoragesP.v"]
FEATURES = ["autoconvert", "complex32", "complex64", "f32", "f64", "si", "std"]
TYPES = {"complex64": "f64", "complex32": "f32"}
BASES = ["si", "kgh"]
KNOWN = "complex-modulus"
WHAT = "complex storage: every conversion path replaces the number by its modulus (new::<meter>(3+4i) stores 5+0i)"


def slot(q, u, bs, ty):
    rt = STYPES[ty]["rust"]
    ft = TYPES[ty]
    hx = "hex64" if ft == "f64" else "hex32"
    arith = "" if q["kind"] == "TemperatureKind" else f"""
        "add" => format!("{{}} {{}}", sh((mk(p(a[1])) + mk(p(a[2]))).value), {hx}(p(a[2]).norm())),
        "sub" => format!("{{}} {{}}", sh((mk(p(a[1])) - mk(p(a[2]))).value), {hx}(p(a[2]).norm())),
        "sum" => format!("{{}} {{}}", sh(vec![mk(p(a[1])), mk(p(a[2])), mk(p(a[1]))].into_iter().sum::<Q>().value), sh(vec![p(a[1]), p(a[2]), p(a[1])].into_iter().sum::<V>())),"""
    return f"""    type V = {rt};
    type Q = uom::si::{q['module']}::{q['alias']}<{B.units_type(bs, ty)}, V>;
    type N = uom::si::{q['module']}::{u['name']};
    let p = |s: &str| -> V {{ {parse_expr(ty, 's')} }};
    let sh = |v: V| -> String {{ {show_expr(ty, 'v')} }};
    let mk = |v: V| Q {{ dimension: PhantomData, units: PhantomData, value: v }};
    match a[0] {{
        "n" => format!("{{}} {{}}", sh(Q::new::<N>(p(a[1])).value), {hx}(p(a[1]).norm())),
        "g" => format!("{{}} {{}}", sh(mk(p(a[1])).get::<N>()), {hx}(p(a[1]).norm())),
{arith}
        "mul" => format!("{{}} {{}}", sh((mk(p(a[1])) * mk(p(a[2]))).value), {hx}(p(a[2]).norm())),
        "eq" => format!("{{}} {{}}", b(mk(p(a[1])) == mk(p(a[2]))), {hx}(p(a[2]).norm())),
        _ => "BADOP".to_string(),
    }}"""


def run(ctx):
    if not ctx.translate():
        return
    t = ctx.tables
    if not ctx.proof_gate(PROPS, MODULE, SUPPORT):
        ctx.violation({"kind": "proof", "obligation": f"{PROPS}: {getattr(ctx, 'proof_error', '')[-1500:]}"}, no_input=True)
    ok, out = coqbuild.build_runner()
    if not ok:
        ctx.violation({"kind": "runner", "obligation": "extraction/compilation of the model runner failed", "log": out[-2000:]}, no_input=True)
        return
    quick = ctx.tier == "quick"
    h = Harness("c20", FEATURES, prelude=B.prelude(BASES, list(TYPES)))
    units = convlib.select_units(t, ctx.rng.fork("units"), 30 if quick else 300)
    units = [(q, u) for (q, u) in units if q["kind"] != "TemperatureKind" or True]
    cases, meta = [], {}
    for ty, ft in TYPES.items():
        sp = FC.special_values(ft)

        def fl(x):
            return C.f64_bits(x) if ft == "f64" else C.f32_bits(x)
        for bs in BASES:
            for (q, u) in units:
                sl = h.slot(slot(q, u, bs, ty))
                rng = ctx.rng.fork(f"{ty}:{bs}:{q['module']}:{u['name']}")
                zs = [(fl(3.0), fl(4.0)), (fl(-3.0), fl(4.0)), (fl(3.0), fl(-4.0)), (fl(0.0), fl(1.0)), (fl(-2.0), sp["+0"]), (fl(2.0), sp["-0"]),
                      (fl(2.5), sp["+0"]), (fl(1.0), sp["+0"]), (sp["+0"], sp["+0"]), (fl(1e10), sp["+0"]), (fl(7.25), sp["+0"])]
                big, tiny = (1e200, 1e-200) if ft == "f64" else (1e25, 1e-25)
                zs += [(fl(big), sp["+0"]), (fl(3 * big), fl(4 * big)), (fl(-3 * tiny), fl(4 * tiny)), (fl(tiny), sp["+0"]), (fl(big), fl(tiny))]
                zs += [(FC.random_value(rng, ft), FC.random_value(rng, ft)) for _ in range(3 if quick else 20)]
                zs += [(FC.random_value(rng, ft) & ~(1 << (FC.FMT[ft]["bits"] - 1)), sp["+0"]) for _ in range(3 if quick else 20)]
                for (re, im) in zs:
                    z = f"{FC.hexbits(re, ft)},{FC.hexbits(im, ft)}"
                    for op in ("n", "g"):
                        cid = f"z{len(cases)}"
                        cases.append((cid, sl, [op, z]))
                        meta[cid] = (op, ty, ft, bs, q, u, (re, im), None, sl)
                if u is q["units"][0] or rng.below(6) == 0:
                    for _ in range(6):
                        a_ = rng.choice(zs)
                        b_ = rng.choice(zs)
                        for op in (("add", "sub", "mul", "eq", "sum") if q["kind"] != "TemperatureKind" else ("mul", "eq")):
                            cid = f"z{len(cases)}"
                            cases.append((cid, sl, [op, f"{FC.hexbits(a_[0], ft)},{FC.hexbits(a_[1], ft)}", f"{FC.hexbits(b_[0], ft)},{FC.hexbits(b_[1], ft)}"]))
                            meta[cid] = (op, ty, ft, bs, q, u, a_, b_, sl)
    ctx.log(f"{len(h.slots)} slots, {len(cases)} cases; building harness")
    if not h.build():
        ctx.log(h.build_log[-3000:])
        ctx.violation({"kind": "harness-build", "obligation": "the complex-storage harness no longer compiles against /repo", "log": h.build_log[-3000:]}, no_input=True)
        return
    impl = h.run(cases)
    mlines = []
    for cid, sl, args in cases:
        op, ty, ft, bs, q, u, a_, b_, _ = meta[cid]
        got = impl.get(cid)
        if got in (None, "PANIC", "BADOP"):
            continue
        if op == "sum":
            continue
        nrm = got.split(" ")[1]
        if nrm == "nan":
            continue
        U = T.sexp_list(t.base_unit_exprs(T.BASE_SETS[bs]))
        cls = "c64" if ft == "f64" else "c32"
        if op in ("n", "g"):
            mlines.append(f"{cid} {cls} std ({'new' if op == 'n' else 'get'} {U} {T.zlist(q['dim'])} {T.sexp(u['coef'])} {T.sexp(u['const'])} {a_[0]} {a_[1]} {int(nrm, 16)})")
        elif op == "eq":
            mlines.append(f"{cid} {cls} std (eq 1 {U} {T.zlist(q['dim'])} {a_[0]} {a_[1]} {b_[0]} {b_[1]} {int(nrm, 16)})")
        else:
            mlines.append(f"{cid} {cls} std (bin 1 {op} {U} {T.zlist(q['dim'])} {a_[0]} {a_[1]} {b_[0]} {b_[1]} {int(nrm, 16)})")
    model = coqbuild.run_model(mlines)
    ctx.log(f"implementation answered {len(impl)}, model answered {len(model)}")

    def canon(bits_txt, ft):
        return FC.canon_model(bits_txt, ft)

    def val(x, ft):
        if x == "nan":
            return None
        b_ = int(x, 16) if isinstance(x, str) else x
        if FC.is_nan_bits(b_, ft) or FC.is_inf_bits(b_, ft):
            return None
        return FC.bits_to_frac(b_, ft)

    unexpected, known_cases, holds, out_of_premise = [], 0, 0, 0
    sums_checked = 0
    hist, distinct = {}, set()
    for cid, sl, args in cases:
        op, ty, ft, bs, q, u, a_, b_, _ = meta[cid]
        got = impl.get(cid)
        hist[f"{op}/{ty}/{bs}"] = hist.get(f"{op}/{ty}/{bs}", 0) + 1
        distinct.add((op, ty, bs, q["module"], u["name"], a_, b_))
        if got in (None, "PANIC", "BADOP"):
            unexpected.append((cid, f"harness answered {got}", None))
            continue
        res = got.split(" ")[0]
        if op == "sum":
            # Sum is the one addition that is right on the unchanged tree: the storage type's own sum of the stored values, bit for bit
            sums_checked += 1
            if res != got.split(" ")[1]:
                unexpected.append((cid, f"the sum of complex quantities {res} is not the storage type's sum of the stored values {got.split(' ')[1]}", None))
            continue
        m = model.get(cid)
        if m is None:
            continue
        mm = m.split()
        mtxt = f"{canon(mm[0], ft)},{canon(mm[1], ft)}" if len(mm) == 2 else mm[0]
        # ---- the property on this case (exact rational oracle on published f64/f32 coefficient evaluation is C03's; here: structure)
        spec_ok = None
        if op in ("n", "g"):
            re, im = val(a_[0], ft), val(a_[1], ft)
            if re is None or im is None or res.count("nan") or "inf" in res:
                spec_ok = None
            else:
                rr, ri = res.split(",")
                gr, gi = val(rr, ft), val(ri, ft)
                if gr is None or gi is None:
                    spec_ok = None
                else:
                    # scaling by a real factor keeps the phase: gi * (re + c) == gr * im up to rounding; and a zero imaginary part stays zero
                    c = T.frac(u["const"]) if u["const"] is not None else Fraction(0)
                    lhs, rhs = gi * (re + c if op == "n" else re), gr * im
                    tol = Fraction(1, 2 ** (FC.FMT[ft]["prec"] - 8)) * max(abs(lhs), abs(rhs), Fraction(1, 10 ** 300))
                    phase_kept = abs(lhs - rhs) <= tol and (gi == 0) == (im == 0) and ((gr >= 0) == ((re + c if op == "n" else re) * T.frac(u["coef"]) >= 0) or gr == 0)
                    spec_ok = phase_kept if (op == "n" or u["const"] is None) else None
        elif op in ("add", "sub", "mul", "eq"):
            ar, ai, br, bi = val(a_[0], ft), val(a_[1], ft), val(b_[0], ft), val(b_[1], ft)
            if None in (ar, ai, br, bi):
                spec_ok = None
            elif op == "eq":
                spec_ok = (res == "1") == (ar == br and ai == bi)
            else:
                rr, ri = res.split(",")
                gr, gi = val(rr, ft), val(ri, ft)
                if gr is None or gi is None:
                    spec_ok = None
                else:
                    er, ei = {"add": (ar + br, ai + bi), "sub": (ar - br, ai - bi), "mul": (ar * br - ai * bi, ar * bi + ai * br)}[op]
                    tol = Fraction(1, 2 ** (FC.FMT[ft]["prec"] - 6))
                    sc = max(abs(er), abs(ei), abs(ar * br), abs(ai * bi), abs(ar * bi), abs(ai * br), Fraction(1, 10 ** 300))
                    spec_ok = abs(gr - er) <= tol * sc and abs(gi - ei) <= tol * sc
        same_as_model = (res == mtxt)
        if spec_ok is None:
            out_of_premise += 1
            if not same_as_model:
                unexpected.append((cid, f"implementation {res} differs from the recorded behaviour {mtxt} (special values)", mtxt))
        elif spec_ok:
            holds += 1
            # where the property holds the recorded (defective) behaviour must coincide, or the defect has been repaired: both fine
        else:
            if same_as_model and ctx.known_hit(KNOWN, WHAT):
                known_cases += 1
            else:
                unexpected.append((cid, f"property fails in a way that is NOT the recorded finding: implementation {res}, recorded behaviour {mtxt}", mtxt))

    def replay_case(cid, extra):
        op, ty, ft, bs, q, u, a_, b_, sl = meta[cid]
        args = next(x for c, s, x in cases if c == cid)
        return dict({"kind": "complex storage", "op": op, "storage": ty, "base_set": bs, "unit": f"{q['module']}::{u['name']}", "args": args,
                     "implementation (value, norm of last operand)": impl.get(cid), "model": model.get(cid),
                     "harness": {"features": h.features, "prelude": h.prelude, "cases": [{"slot_body": h.slots[sl], "args": args, "model": None}]}}, **extra)

    for cid, why, _m in unexpected[:5]:
        ctx.violation(replay_case(cid, {"spec": "C20 (outside the known finding complex-modulus)", "detail": why}))
    cov = ctx.coverage
    cov["sums_checked"] = sums_checked
    cov["evaluations"] = len(cases)
    cov["distinct_nontrivial"] = len(distinct)
    cov["rule"] = ("Complex64/Complex32 x base sets {SI, km-g-h} x selected units: new/get of numbers in all quadrants, on both axes, with +-0 imaginary part, random; same-base "
                   "+ - * == ; each case is put in one of three bins: property holds / fails exactly as the recorded finding (implementation = model of the defective code) / "
                   "fails differently (VIOLATION)")
    cov["property_holds"] = holds
    cov["known_finding_cases"] = known_cases
    cov["special_values_compared_with_model_only"] = out_of_premise
    cov["spec_failures"] = len(unexpected)
    cov["histogram"] = hist
    smp = ctx.rng.fork("samples").sample(cases, 6)
    cov["samples"] = [{"op": meta[c][0], "storage": meta[c][1], "unit": meta[c][5]["name"], "args": a_, "implementation": impl.get(c), "model": model.get(c)} for c, _, a_ in smp]
