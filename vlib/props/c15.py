"""C15 — kind conversions keep magnitude and dimension; only to/from the default kind."""
from fractions import Fraction

from .. import common as C
from .. import coqbuild, floatcases as FC, tables as T, valgen as VG
from ..harness import Harness
from ..stypes import STYPES, parse_expr, show_expr, model_val, canon_model_out
from .. import progs as PG
from . import binops as B
from . import c01 as C01
from . import c02 as C02
from . import c06 as C06

PROPS = "theories/Props/C15.v"
MODULE = "Props.C15"
SUPPORT = ["theories/Proofs/TypingP.v", "theories/Proofs/MixedP.v", "theories/Proofs/QuantityP.v"]
TYPES = ["f64", "f32", "bigrational", "i64"]
BASES = ["si", "cgs", "kgh"]
FEATURES = ["autoconvert", "f32", "f64", "i64", "i32", "u64", "bigint", "rational64", "bigrational", "complex32", "complex64", "si", "std"]
# number <-> Ratio is checked for every storage class (the conversions between kinds only where re-basing is meaningful for the class)
RATIO_TYPES = TYPES + ["i32", "u64", "bigint", "rational64", "complex64", "complex32"]


def from_slot(a, b, bsl, bsr, ty):
    """b<bsl>::from(a<bsr>) and a.into()"""
    rt = STYPES[ty]["rust"]
    return f"""    type V = {rt};
    type A = uom::si::{a['module']}::{a['alias']}<{B.units_type(bsr, ty)}, V>;
    type Bq = uom::si::{b['module']}::{b['alias']}<{B.units_type(bsl, ty)}, V>;
    let p = |s: &str| -> V {{ {parse_expr(ty, 's')} }};
    let sh = |v: &V| -> String {{ {show_expr(ty, 'v.clone()')} }};
    let x = A {{ dimension: PhantomData, units: PhantomData, value: p(a[1]) }};
    let y: Bq = match a[0] {{ "from" => Bq::from(x), "into" => x.into(), _ => return "BADOP".to_string() }};
    sh(&y.value)"""


def ratio_slot(bs, ty):
    rt = STYPES[ty]["rust"]
    return f"""    type V = {rt};
    type R = uom::si::ratio::Ratio<{B.units_type(bs, ty)}, V>;
    let p = |s: &str| -> V {{ {parse_expr(ty, 's')} }};
    let sh = |v: &V| -> String {{ {show_expr(ty, 'v.clone()')} }};
    match a[0] {{
        "to_ratio" => {{ let r: R = R::from(p(a[1])); format!("{{}} {{}}", sh(&r.value), sh(&p(a[1]))) }}
        "to_number" => {{ let r = R {{ dimension: PhantomData, units: PhantomData, value: p(a[1]) }}; let v: V = V::from(r); format!("{{}} {{}}", sh(&v), sh(&p(a[1]))) }}
        _ => "BADOP".to_string(),
    }}"""


def run(ctx):
    if not ctx.translate():
        return
    t = ctx.tables
    if not ctx.proof_gate(PROPS, MODULE, SUPPORT):
        ctx.violation({"kind": "proof", "obligation": f"{PROPS}: {getattr(ctx, 'proof_error', '')[-1500:]}"}, no_input=True)
    ok, out = coqbuild.build_runner()
    if not ok:
        ctx.violation({"kind": "runner", "obligation": "extraction/compilation of the model runner failed", "log": out[-2000:]}, no_input=True)
        return
    quick = ctx.tier == "quick"
    # pairs (special-kind quantity, default-kind quantity of the same exponents), both directions
    pairs = []
    for a in t.quantities:
        if a["kind"] in ("Kind", "TemperatureKind"):
            continue
        for b in t.quantities:
            if b["kind"] == "Kind" and b["dim"] == a["dim"]:
                pairs += [(a, b), (b, a)]
    h = Harness("c15", FEATURES, prelude=B.prelude(BASES, RATIO_TYPES))
    cases, meta, mlines = [], {}, []
    bpairs = [(l, r) for l in BASES for r in BASES]
    for ty in TYPES:
        cls = STYPES[ty]["cls"]
        for (a, b) in pairs:
            for (bl, br) in (bpairs if not quick else ctx.rng.fork(f"{ty}{a['module']}{b['module']}").sample(bpairs, 4) + [("si", "si")]):
                if cls == "z" and bl != br:
                    continue
                sl = h.slot(from_slot(a, b, bl, br, ty))
                Ul = T.sexp_list(t.base_unit_exprs(T.BASE_SETS[bl]))
                Ur = T.sexp_list(t.base_unit_exprs(T.BASE_SETS[br]))
                rng = ctx.rng.fork(f"{ty}:{a['module']}:{b['module']}:{bl}:{br}")
                for k in range(6 if quick else 40):
                    if B.is_float(ty):
                        v = rng.choice(list(FC.special_values(ty).values())) if rng.below(4) == 0 else FC.random_value(rng, ty)
                    elif cls == "q":
                        v = VG.rat_value(rng, ty)
                    else:
                        v = VG.int_value(rng, ty, small=True)
                    txt = VG.val_text(ty, v)
                    for op in ("from", "into"):
                        cid = f"k{len(cases)}"
                        cases.append((cid, sl, [op, txt]))
                        meta[cid] = ("kind", ty, a, b, bl, br, v, sl)
                        mlines.append(f"{cid} {cls} std (rebase 1 {Ul} {Ur} {T.zlist(a['dim'])} {model_val(ty, txt)})")
    for ty in RATIO_TYPES:
        cls = STYPES[ty]["cls"]
        for bs in BASES:
            sl = h.slot(ratio_slot(bs, ty))
            rng = ctx.rng.fork(f"ratio:{ty}:{bs}")
            for k in range(8):
                if cls in ("c64", "c32"):
                    ft = "f64" if cls == "c64" else "f32"
                    comp = lambda j: FC.hexbits([FC.special_values(ft)["-0"], FC.special_values(ft)["nan"], FC.special_values(ft)["+inf"]][j] if j < 3 else FC.random_value(rng, ft), ft)
                    txt = f"{comp(k)},{comp((k + 1) % 8)}"
                    v = txt
                else:
                    v = FC.random_value(rng, ty) if B.is_float(ty) else (VG.rat_value(rng, ty) if cls == "q" else VG.int_value(rng, ty, small=True))
                    if ty in ("u64", "biguint") and not B.is_float(ty):
                        v = abs(v)
                    if B.is_float(ty) and k < 3:
                        v = [FC.special_values(ty)["-0"], FC.special_values(ty)["nan"], FC.special_values(ty)["+inf"]][k]
                    txt = VG.val_text(ty, v)
                for op in ("to_ratio", "to_number"):
                    cid = f"k{len(cases)}"
                    cases.append((cid, sl, [op, txt]))
                    meta[cid] = ("ratio", ty, None, None, bs, bs, v, sl)
    ctx.log(f"{len(h.slots)} slots, {len(cases)} cases; building harness")
    if not h.build():
        ctx.log(h.build_log[-3000:])
        ctx.violation({"kind": "harness-build", "obligation": "the kind-conversion harness no longer compiles against /repo (an impl_from! pair is missing?)", "log": h.build_log[-3000:]}, no_input=True)
        return
    impl = h.run(cases)
    model = coqbuild.run_model(mlines)
    ctx.log(f"implementation answered {len(impl)}, model answered {len(model)}")
    ctx.vm_crosscheck(mlines, model)
    coefs = C06.coef_table(t, TYPES)
    bad, disagreements = [], []
    hist, distinct = {}, set()
    for cid, sl, args in cases:
        kind, ty, a, b, bl, br, v, _ = meta[cid]
        got = impl.get(cid)
        hist[f"{kind}/{ty}/{bl}<-{br}"] = hist.get(f"{kind}/{ty}/{bl}<-{br}", 0) + 1
        distinct.add((kind, ty, a["module"] if a else "-", b["module"] if b else "-", bl, br, str(v)))
        if got in (None, "PANIC", "BADOP"):
            bad.append((cid, f"harness answered {got}"))
            continue
        want_same = args[1]
        if kind != "ratio" and B.is_float(ty) and FC.is_nan_bits(int(args[1], 16), ty):
            want_same = "nan"
        if kind == "ratio":
            res, inp = got.split(" ")
            if res != inp:
                bad.append((cid, f"number <-> ratio changed the value: {inp} -> {res}"))
            continue
        if cid in model and canon_model_out(ty, model[cid].strip()) != got:
            disagreements.append((cid, got, canon_model_out(ty, model[cid].strip())))
        cls = STYPES[ty]["cls"]
        if cls == "q":
            fty = "f64"
            fl_ = B.base_factor_frac(t, lambda bq, un: coefs[(fty, bq, un)], bl, a["dim"])
            fr_ = B.base_factor_frac(t, lambda bq, un: coefs[(fty, bq, un)], br, a["dim"])
            n_, d_ = got.split("/")
            if Fraction(int(n_), int(d_)) * fl_ != v * fr_:
                bad.append((cid, f"exact storage: physical magnitude changed by the conversion ({v} in {br} -> {got} in {bl})"))
        elif bl == br and got != want_same:
            bad.append((cid, f"same base units: stored value changed {args[1]} -> {got}"))

    def replay_case(cid, extra):
        kind, ty, a, b, bl, br, v, sl = meta[cid]
        args = next(x for c, s, x in cases if c == cid)
        line = next((l for l in mlines if l.startswith(cid + " ")), None)
        return dict({"kind": "kind conversion" if kind == "kind" else "number <-> ratio", "storage": ty, "from": a["module"] if a else None, "to": b["module"] if b else None,
                     "target_base": bl, "source_base": br, "args": args, "implementation": impl.get(cid), "model": model.get(cid),
                     "harness": {"features": h.features, "prelude": h.prelude,
                                 "cases": [{"slot_body": h.slots[sl], "args": args, "model": line.split(" ", 1)[1] if line else None}]}}, **extra)

    for cid, why in bad[:5]:
        ctx.violation(replay_case(cid, {"spec": "C15: conversion preserves the physical magnitude / copies the value", "detail": why}))
    if disagreements and not bad:
        cid, got, want = disagreements[0]
        ctx.violation(replay_case(cid, {"obligation": "correspondence Model.Quantity.q_from (extracted) vs impl_from!", "count": len(disagreements)}), no_input=True)
    # programs: which conversions exist (special -> other special, temperature <-> default, number -> non-ratio ... predicted by the typing model)
    qts = C01.quantity_types(t)
    special = [q for q in qts if q.kind != "Kind"]
    progs = []
    for a_ in special:
        for b_ in qts:
            if b_.dims == a_.dims and b_.module != a_.module:
                progs += [PG.P_from(a_, b_, "from"), PG.P_from(b_, a_, "into")]
        for b_ in ctx.rng.fork("sp" + a_.module).sample(special, 4):
            progs += [PG.P_from(a_, b_, "from")]
    synth_a = PG.QT(C01.SYNTH[0], "AngleKind", 1)
    progs += [PG.P_from(synth_a, PG.QT(C01.SYNTH[0], "Kind", 0)), PG.P_from(PG.QT(C01.SYNTH[1], "Kind", 1), PG.QT(C01.SYNTH[1], "InformationKind", 0)),
              PG.P_from(synth_a, PG.QT(C01.SYNTH[1], "Kind", 0)), PG.P_from(synth_a, PG.QT(C01.SYNTH[0], "InformationKind", 0))]
    for q in qts:
        progs += [C02.from_number(q), C02.into_number(q)]
    stats, mv, rv = C01.compare(ctx, t, progs, ["autoconvert", "f64", "si", "std"], True, True, "c15", "C15: existence and static type of a conversion")
    cov = ctx.coverage
    cov["evaluations"] = len(cases) + len(progs)
    cov["distinct_nontrivial"] = len(distinct)
    cov["programs"] = len(progs)
    cov["rustc"] = stats
    cov["rule"] = ("values: every special-kind SI quantity <-> each default-kind quantity of the same exponents, From and Into, f64/f32/BigRational (ordered pairs of "
                   "base-unit sets {SI, cgs, km-g-h}) and i64 (same base), number <-> Ratio in every base set for ten storage types incl. integers, BigInt, Rational64, Complex32/64; programs: conversions special <-> twin, special -> "
                   "other special, all-distinct synthetic exponent vectors across kinds and base sets, number <-> every quantity")
    cov["disagreements_checked"] = len(disagreements) + stats["mismatches"]
    cov["spec_failures"] = len(bad)
    cov["histogram"] = dict(sorted(hist.items())[:40])
    smp = ctx.rng.fork("samples").sample(cases, 5)
    cov["samples"] = [{"storage": meta[c][1], "from": (meta[c][2] or {}).get("module"), "to": (meta[c][3] or {}).get("module"), "bases": [meta[c][4], meta[c][5]], "args": a_,
                       "implementation": impl.get(c), "model": model.get(c)} for c, _, a_ in smp]
