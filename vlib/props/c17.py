"""C17 — feature flags change what compiles, never what a compiled program computes."""
from .. import common as C
from .. import coqbuild, floatcases as FC, tables as T, valgen as VG
from ..harness import Harness, FEATURE_SETS
from ..stypes import STYPES, model_val, canon_model_out
from .. import progs as PG
from . import binops as B
from . import c01 as C01
from . import c02 as C02
from . import c07 as C07
from . import c09 as C09
from . import c15 as C15
from . import c16 as C16
from . import convlib

PROPS = "theories/Props/C17.v"
MODULE = "Props.C17"
SUPPORT = ["theories/Proofs/QuantityP.v", "theories/Proofs/TypingP.v", "theories/Proofs/StoragesP.v"]
TYPES = ["f64", "f32"]
BASES = ["si", "cgs", "kgh"]
CONFIGS = {"ac_std": ("default", True, True), "noac_std": ("noac", False, True), "ac_nostd": ("nostd", True, False), "noac_nostd": ("noac_nostd", False, False)}


def run(ctx):
    if not ctx.translate():
        return
    t = ctx.tables
    if not ctx.proof_gate(PROPS, MODULE, SUPPORT):
        ctx.violation({"kind": "proof", "obligation": f"{PROPS}: {getattr(ctx, 'proof_error', '')[-1500:]}"}, no_input=True)
    ok, out = coqbuild.build_runner()
    if not ok:
        ctx.violation({"kind": "runner", "obligation": "extraction/compilation of the model runner failed", "log": out[-2000:]}, no_input=True)
        return
    quick = ctx.tier == "quick"
    units = convlib.select_units(t, ctx.rng.fork("units"), 24 if quick else 200)
    # ---- one slot list and one case list (the transcript), shared by the four builds
    slots, cases, meta = [], [], {}
    sidx = {}

    def slot(body):
        if body not in sidx:
            sidx[body] = len(slots)
            slots.append(body)
        return sidx[body]

    def add(kind, sl, args, info):
        cid = f"x{len(cases)}"
        cases.append((cid, sl, args))
        meta[cid] = (kind,) + info

    for ty in TYPES:
        for bs in BASES:
            for (q, u) in units:
                sl = slot(C16.slot(q, u, bs, ty))
                rng = ctx.rng.fork(f"r:{ty}:{bs}:{q['module']}:{u['name']}")
                vals = rng.sample(C16.unit_values(rng, ty, 2), 10 if quick else 60)
                for vb in vals:
                    for r in C16.RNDS:
                        add("round", sl, [r, "u", FC.hexbits(vb, ty)], (ty, bs, q, u, r, vb))
            for qm, alias in C07.QUANTS[:2]:
                sl = slot(B.same_slot(qm, alias, bs, ty))
                rng = ctx.rng.fork(f"c:{ty}:{bs}:{qm}")
                from . import c10 as C10
                for (x, y, z) in C10.gen_pairs(rng, ty, 10 if quick else 100):
                    add("cmp", sl, ["row", VG.val_text(ty, x), VG.val_text(ty, y), VG.val_text(ty, z)], (ty, bs, t.qmap[qm], None, "row", (x, y)))
            for qm, alias in C07.QUANTS:
                sl = slot(C07.hist_slot(qm, alias, bs, ty))
                rng = ctx.rng.fork(f"h:{ty}:{bs}:{qm}")
                for k in range(10 if quick else 100):
                    init, ops = C07.gen_history(rng, ty, 1 + rng.below(24))
                    add("hist", sl, [init] + [o if a is None else f"{o}={a}" for o, a in ops], (ty, bs, t.qmap[qm], None, ops, init))
        # temperature point +/- interval and kind conversions, same base units on both sides
        qt, qi = t.qmap["thermodynamic_temperature"], t.qmap["temperature_interval"]
        for pu in [u for u in qt["units"] if u["name"] in ("kelvin", "degree_celsius", "degree_fahrenheit")]:
            for iu in [u for u in qi["units"] if u["name"] in ("kelvin", "degree_fahrenheit")]:
                for tb in ("si", "mk"):
                    sl = slot(C09.slot(pu["name"], iu["name"], tb, tb, ty))
                    for (tv, dv) in (("20", "5"), ("-40", "72.5"), ("-273.15", "0"), ("1e6", "-0.125")):
                        from fractions import Fraction
                        tt_, dt_ = (VG.val_text(ty, C09.nearest(Fraction(x), ty, x)) for x in (tv, dv))
                        for op in ("add", "sub", "addas", "subas", "radd"):
                            add("temp", sl, [op, tt_, dt_], (ty, tb, None, None, op, (tv, dv)))
        for a in t.quantities:
            if a["kind"] in ("Kind", "TemperatureKind"):
                continue
            for b in t.quantities:
                if b["kind"] == "Kind" and b["dim"] == a["dim"]:
                    for bs in ("si", "kgh"):
                        for (x, y) in ((a, b), (b, a)):
                            sl = slot(C15.from_slot(x, y, bs, bs, ty))
                            v = FC.hexbits(FC.random_value(ctx.rng.fork(x["module"] + y["module"] + bs + ty), ty), ty)
                            add("from", sl, ["from", v], (ty, bs, x, y, "from", v))
                    break
    prelude = B.prelude(BASES, TYPES) + C09.prelude(TYPES).replace("pub fn", "pub fn")
    impl = {}
    for cfg, (fs, ac, std) in CONFIGS.items():
        h = Harness(f"c17_{cfg}", FEATURE_SETS[fs], prelude=prelude)
        for sbody in slots:
            h.slot(sbody)
        ctx.log(f"[{cfg}] {len(slots)} slots, {len(cases)} cases; building harness (features {FEATURE_SETS[fs]})")
        if not h.build():
            ctx.log(h.build_log[-3000:])
            ctx.violation({"kind": "harness-build", "obligation": f"the transcript harness no longer compiles under feature set {FEATURE_SETS[fs]}: a program that compiled under all "
                           "four {autoconvert} x {std} settings stopped compiling in one", "features": FEATURE_SETS[fs], "log": h.build_log[-3000:]}, no_input=True)
            return
        impl[cfg] = h.run(cases)
    # ---- model under the matching configuration (rounding cases: the std / FloatCore algorithms)
    mlines = []
    for cid, sl, args in cases:
        m = meta[cid]
        if m[0] == "round":
            _, ty, bs, q, u, r, vb = m
            got = impl["ac_std"].get(cid)
            if got in (None, "PANIC", "BADOP") or got.split(" ")[0] == "nan":
                continue
            U = T.sexp_list(t.base_unit_exprs(T.BASE_SETS[bs]))
            for lib in ("std", "core"):
                # stored value before rounding is itself lib-dependent (powi): take each build's own
                g2 = impl["ac_std" if lib == "std" else "ac_nostd"].get(cid)
                if g2 in (None, "PANIC", "BADOP") or g2.split(" ")[0] == "nan":
                    continue
                mlines.append(f"{cid}.new.{lib} {ty} {lib} (new {U} {T.zlist(q['dim'])} {T.sexp(u['coef'])} {T.sexp(u['const'])} {vb})")
                mlines.append(f"{cid}.rnd.{lib} {ty} {lib} (round {r} {U} {T.zlist(q['dim'])} {T.sexp(u['coef'])} {T.sexp(u['const'])} {int(g2.split(' ')[0], 16)})")
    model = coqbuild.run_model(mlines)
    ctx.log(f"model answered {len(model)}")
    bad = []
    stats = {"cases": len(cases), "ac_vs_noac_identical": 0, "std_vs_nostd_identical": 0, "std_vs_nostd_known": 0, "model_compared": 0}
    distinct = set()
    for cid, sl, args in cases:
        m = meta[cid]
        r = {cfg: impl[cfg].get(cid) for cfg in CONFIGS}
        distinct.add((m[0], m[1], m[2], str(args)))
        if any(v in (None, "PANIC", "BADOP") for v in r.values()):
            bad.append((cid, f"a build answered {r}", None))
            continue
        # autoconvert on/off: bit-identical, always
        for s in ("std", "nostd"):
            if r[f"ac_{s}"] != r[f"noac_{s}"]:
                bad.append((cid, f"autoconvert on/off differ ({s}): {r['ac_' + s]} vs {r['noac_' + s]}", None))
            else:
                stats["ac_vs_noac_identical"] += 1
        # std / no-std: identical, or inside a known class where each build equals its own model
        if r["ac_std"] == r["ac_nostd"]:
            stats["std_vs_nostd_identical"] += 1
        else:
            cls = None
            if m[0] == "round":
                _, ty, bs, q, u, rr, vb = m
                fs, fc = r["ac_std"].split(" "), r["ac_nostd"].split(" ")
                ms_new, mc_new = model.get(f"{cid}.new.std"), model.get(f"{cid}.new.core")
                ms_r, mc_r = model.get(f"{cid}.rnd.std"), model.get(f"{cid}.rnd.core")
                ok_std = ms_new is not None and canon_model_out(ty, ms_new.strip()) == fs[0] and ms_r is not None and canon_model_out(ty, ms_r.strip()) == fs[2]
                ok_core = mc_new is not None and canon_model_out(ty, mc_new.strip()) == fc[0] and mc_r is not None and canon_model_out(ty, mc_r.strip()) == fc[2]
                stats["model_compared"] += 1
                if ok_std and ok_core:
                    if fs[0] != fc[0]:
                        # c17_std_nostd_conversions_agree_nonneg: impossible unless the dimension has a negative exponent
                        cls = "nostd-powi" if any(e < 0 for e in q["dim"]) else None
                        stats["powi_class_has_negative_exponent"] = stats.get("powi_class_has_negative_exponent", 0) + (1 if cls else 0)
                    else:
                        cls = "nostd-negzero"
                if cls and ctx.known_hit(cls, {"nostd-powi": "std and no-std differ in the last bit of conversions needing powi with a negative exponent",
                                               "nostd-negzero": "std and no-std differ in the sign of a zero produced by trunc/ceil/round (FloatCore)"}[cls]):
                    stats["std_vs_nostd_known"] += 1
                    continue
            bad.append((cid, f"std and no-std builds differ outside the known classes: {r['ac_std']} vs {r['ac_nostd']}", None))
    # ---- what compiles: mixed-base programs are rejected without autoconvert (typing model vs rustc, autoconvert off)
    qts = C01.quantity_types(t)
    progs = []
    for q in ctx.rng.fork("mix").sample(qts, 10):
        qk = PG.QT(q.dims, q.kind, 1, q.module, q.alias)
        progs += C02.forms(q, qk, t, ctx.rng.fork("m" + q.module))[:13] + C02.forms(q, q, t, ctx.rng.fork("m" + q.module))[:13]
        progs += [PG.P_mul(q, qk), PG.P_div(q, qk), PG.P_mul(q, q)]
    # conversions between kinds: across base-unit sets they exist only with autoconvert; with identical base units always
    for a_ in [q for q in qts if q.kind not in ("Kind", "TemperatureKind")]:
        for b_ in qts:
            if b_.kind == "Kind" and b_.dims == a_.dims and b_.module != a_.module:
                a1, b1 = PG.QT(a_.dims, a_.kind, 1, a_.module, a_.alias), PG.QT(b_.dims, b_.kind, 1, b_.module, b_.alias)
                progs += [PG.P_from(a1, b_, "from"), PG.P_from(b1, a_, "into"), PG.P_from(a_, b_, "from"), PG.P_from(b_, a_, "into")]
                break
    pst, mv, rv = C01.compare(ctx, t, progs, FEATURE_SETS["noac"][:0] + ["f64", "si", "std"], False, True, "c17noac", "C17: mixed-base operands without autoconvert")

    for cid, why, _ in bad[:5]:
        m = meta[cid]
        args = next(a for c, s, a in cases if c == cid)
        sl = next(s for c, s, a in cases if c == cid)
        ctx.violation({"kind": "feature-configuration transcript", "case_kind": m[0], "storage": m[1], "base_set": m[2], "args": args, "detail": why,
                       "results": {cfg: impl[cfg].get(cid) for cfg in CONFIGS},
                       "harness": {"features": FEATURE_SETS["noac"], "prelude": prelude, "cases": [{"slot_body": slots[sl], "args": args, "model": None}]}})
    cov = ctx.coverage
    cov["evaluations"] = len(cases) * 4 + len(progs)
    cov["distinct_nontrivial"] = len(distinct)
    cov["rule"] = ("one transcript (rounding-in-unit of values given in the unit for selected units x 3 base sets — exercising to_base/from_base/powi and the five "
                   "roundings —, same-base operator histories, temperature point +/- interval, kind conversions; f64 and f32) executed by the SAME harness source built "
                   "under {autoconvert on, off} x {std on, off}; autoconvert on/off must agree bit for bit; std/no-std must agree or fall in a recorded known class "
                   "in which each build equals the model run with its own float library; plus mixed-base programs classified by rustc without autoconvert")
    cov["transcript"] = stats
    cov["rustc_without_autoconvert"] = pst
    cov["spec_failures"] = len(bad)
    cov["disagreements_checked"] = pst["mismatches"]
    smp = ctx.rng.fork("samples").sample(cases, 5)
    cov["samples"] = [{"kind": meta[c][0], "args": a, "results": {cfg: impl[cfg].get(c) for cfg in CONFIGS}} for c, _, a in smp]
