"""C10 — equality, ordering and hashing of quantities are mutually coherent."""
from fractions import Fraction

from .. import common as C
from .. import coqbuild, floatcases as FC, tables as T, valgen as VG
from ..harness import Harness, FEATURE_SETS
from ..stypes import STYPES, model_val, canon_model_out
from . import binops as B
from . import c06 as C06

PROPS = "theories/Props/C10.v"
MODULE = "Props.C10"
SUPPORT = ["theories/Proofs/CmpP.v", "theories/Proofs/QuantityP.v", "theories/Proofs/MixedP.v", "theories/Proofs/ExactP.v", "theories/Proofs/Tree.v", "theories/Proofs/ErrBound.v"]

SAME_TYPES = ["f64", "f32", "i32", "i64", "u64", "bigint", "rational64", "bigrational"]
SAME_BASES = ["si", "kgh"]
SAME_Q = [("length", "Length"), ("velocity", "Velocity"), ("angle", "Angle")]
NOAC_TYPES = ["f64", "f32"]
MIX_TYPES = ["f64", "f32", "bigrational"]
MIX_Q = ["velocity", "energy", "length", "thermal_conductivity"]


def nearest_float(fr, ty):
    """Bits of the float nearest to a positive/negative rational (round-half-even via Python for f64)."""
    import struct
    if ty == "f64":
        return C.f64_bits(float(fr))
    x = float(fr)
    try:
        return C.f32_bits(x)
    except OverflowError:
        return FC.special_values("f32")["+inf" if x > 0 else "-inf"]


def order_of(ty, x, y):
    """Expected (eq, ne, lt, le, gt, ge, pcmp) from the raw values."""
    c = STYPES[ty]["cls"]
    if c in ("f64", "f32"):
        if FC.is_nan_bits(x, c) or FC.is_nan_bits(y, c):
            return "010000 2"

        def key(b):
            if FC.is_inf_bits(b, c):
                return (1 if not (b >> (FC.FMT[c]["bits"] - 1)) else -1, 0)
            return (0, FC.bits_to_frac(b, c))
        kx, ky = key(x), key(y)
        lt = kx < ky
        eq = kx == ky
    else:
        lt, eq = x < y, x == y
    gt = not lt and not eq
    return f"{int(eq)}{int(not eq)}{int(lt)}{int(lt or eq)}{int(gt)}{int(gt or eq)} {-1 if lt else (0 if eq else 1)}"


def row_coherent(row, pc):
    eq, ne, lt, le, gt, ge = (ch == "1" for ch in row)
    probs = []
    if ne == eq:
        probs.append("!= is not the negation of ==")
    if le != (lt or eq):
        probs.append("<= differs from (< or ==)")
    if ge != (gt or eq):
        probs.append(">= differs from (> or ==)")
    if (lt, eq, gt).count(True) > 1:
        probs.append("more than one of <, ==, > holds")
    want = {"-1": (True, False, False), "0": (False, True, False), "1": (False, False, True), "2": (False, False, False)}[pc]
    if (lt, eq, gt) != want:
        probs.append(f"partial_cmp = {pc} disagrees with (<, ==, >) = {(lt, eq, gt)}")
    return probs


def gen_pairs(rng, ty, n):
    c = STYPES[ty]["cls"]
    out = []
    if c in ("f64", "f32"):
        sp = FC.special_values(ty)
        names = ["+0", "-0", "nan", "+inf", "-inf", "1", "-1", "1+ulp", "1-ulp", "+minsub", "-minsub", "+max", "-max"]
        for a in names:
            for b_ in ("+0", "-0", "nan", "+inf", "-inf", "1", "1+ulp", "+max"):
                out.append((sp[a], sp[b_], sp["1"]))
        for _ in range(n):
            x = FC.random_value(rng, ty)
            k = rng.below(5)
            y = x if k == 0 else (x + 1 if k == 1 else (x - 1 if k == 2 else FC.random_value(rng, ty)))
            out.append((x, y, FC.random_value(rng, ty)))
        return out
    gen = (lambda: VG.int_value(rng, ty)) if c == "z" else (lambda: VG.rat_value(rng, ty))
    st = STYPES[ty]
    ext = [v for v in (st.get("lo"), st.get("hi"), 0, 1) if v is not None] if c == "z" else [Fraction(0), Fraction(1, 3), Fraction(-1, 3)]
    for a in ext:
        for b_ in ext:
            out.append((a, b_, ext[0]))
    for _ in range(n):
        x = gen()
        k = rng.below(4)
        y = x if k == 0 else (x + 1 if k == 1 and VG.fits(ty, x + 1) else gen())
        z = gen()
        if all(VG.fits(ty, v) for v in (x, y, z)):
            out.append((x, y, z))
    return out


def run(ctx):
    if not ctx.translate():
        return
    if not ctx.proof_gate(PROPS, MODULE, SUPPORT):
        ctx.violation({"kind": "proof", "obligation": f"{PROPS}: {getattr(ctx, 'proof_error', '')[-1500:]}"}, no_input=True)
    ok, out = coqbuild.build_runner()
    if not ok:
        ctx.violation({"kind": "runner", "obligation": "extraction/compilation of the model runner failed", "log": out[-2000:]}, no_input=True)
        return
    t = ctx.tables
    quick = ctx.tier == "quick"
    n = 40 if quick else 600
    hs = Harness("c10same", FEATURE_SETS["all"], prelude=B.prelude(SAME_BASES, SAME_TYPES))
    hn = Harness("c10noac", ["f32", "f64", "si", "std"], prelude=B.prelude(SAME_BASES, NOAC_TYPES))
    hm = Harness("binops", C06.FEATURES, prelude=B.prelude(C06.BASES, C06.TYPES))
    sets = []     # (harness, label, ac)
    cases = {"same": [], "noac": [], "mix": []}
    meta, mlines = {}, []
    ties, tmeta = [], {}
    for label, h, types, ac in (("same", hs, SAME_TYPES, 1), ("noac", hn, NOAC_TYPES, 0)):
        for ty in types:
            for bs in SAME_BASES:
                U = T.sexp_list(t.base_unit_exprs(T.BASE_SETS[bs]))
                for qm, alias in SAME_Q:
                    slot = h.slot(B.same_slot(qm, alias, bs, ty))
                    d = T.zlist(t.qmap[qm]["dim"])
                    rng = ctx.rng.fork(f"{label}:{ty}:{bs}:{qm}")
                    for (x, y, z) in gen_pairs(rng, ty, n):
                        for (p, q_) in ((x, y), (y, x)):
                            cid = f"{label}{len(cases[label])}"
                            cases[label].append((cid, slot, ["row", VG.val_text(ty, p), VG.val_text(ty, q_), VG.val_text(ty, z)]))
                            meta[cid] = (label, ty, bs, bs, qm, p, q_, z, slot)
                            cls = STYPES[ty]["cls"]
                            mp, mq = model_val(ty, VG.val_text(ty, p)), model_val(ty, VG.val_text(ty, q_))
                            for o in B.CMPS:
                                mlines.append(f"{cid}.{o} {cls} std (cmp {ac} {o} {U} {U} {d} {mp} {mq})")
                            mlines.append(f"{cid}.pc {cls} std (pcmp {ac} {U} {U} {d} {mp} {mq})")
                    if label == "same" and STYPES[ty]["cls"] == "q":
                        for (n1, d1, k) in ((1, 2, 2), (2, 4, 3), (-3, 7, 2), (0, 1, 5), (5, 3, -1)):
                            tcid = f"tie{len(ties)}"
                            ties.append((tcid, slot, ["tie", str(n1), str(d1), str(k)]))
                            tmeta[tcid] = (ty, bs, qm, slot)
    coefs = C06.coef_table(t, MIX_TYPES)

    def factor(ty, bs, dim):
        fty = ty if B.is_float(ty) else "f64"
        return B.base_factor_frac(t, lambda bq, un: coefs[(fty, bq, un)], bs, dim)

    for ty in MIX_TYPES:
        cls = STYPES[ty]["cls"]
        for qm in MIX_Q:
            q = t.qmap[qm]
            d = q["dim"]
            for bsl in C06.BASES:
                for bsr in C06.BASES:
                    slot = hm.slot(B.mixed_slot(qm, q["alias"], bsl, bsr, ty, B.third_base(C06.BASES, bsl, bsr)))
                    Ul = T.sexp_list(t.base_unit_exprs(T.BASE_SETS[bsl]))
                    Ur = T.sexp_list(t.base_unit_exprs(T.BASE_SETS[bsr]))
                    rng = ctx.rng.fork(f"mix:{ty}:{qm}:{bsl}:{bsr}")
                    ratio = factor(ty, bsl, d) / factor(ty, bsr, d)     # b = a * ratio is physically equal to a
                    for k in range(max(6, n // 4)):
                        if B.is_float(ty):
                            a = FC.random_value(rng, ty)
                            fa = FC.bits_to_frac(a, ty)
                            beq = nearest_float(fa * ratio, ty)
                            j = rng.below(6)
                            b_ = beq if j == 0 else (beq + rng.below(4) + 1 if j == 1 else (beq - rng.below(4) - 1 if j == 2 else
                                 (nearest_float(fa * ratio * Fraction(1001, 1000), ty) if j == 3 else
                                  (nearest_float(fa * ratio * Fraction(999, 1000), ty) if j == 4 else FC.random_value(rng, ty)))))
                            if FC.is_nan_bits(b_, ty):
                                b_ = beq
                        else:
                            a = VG.rat_value(rng, ty)
                            j = rng.below(3)
                            b_ = a * ratio if j == 0 else (a * ratio + Fraction(1, 10 ** 30) if j == 1 else VG.rat_value(rng, ty))
                        cid = f"mix{len(cases['mix'])}"
                        ta, tb = VG.val_text(ty, a), VG.val_text(ty, b_)
                        cases["mix"].append((cid, slot, ["cmps", ta, tb]))
                        meta[cid] = ("mix", ty, bsl, bsr, qm, a, b_, None, slot)
                        for o in B.CMPS:
                            mlines.append(f"{cid}.{o} {cls} std (cmp 1 {o} {Ul} {Ur} {T.zlist(d)} {model_val(ty, ta)} {model_val(ty, tb)})")
                        mlines.append(f"{cid}.pc {cls} std (pcmp 1 {Ul} {Ur} {T.zlist(d)} {model_val(ty, ta)} {model_val(ty, tb)})")
    impl = {}
    for label, h in (("same", hs), ("noac", hn), ("mix", hm)):
        ctx.log(f"harness {h.name}: {len(h.slots)} slots, {len(cases[label])} cases; building")
        if not h.build():
            ctx.log(h.build_log[-3000:])
            ctx.violation({"kind": "harness-build", "obligation": f"the comparison harness '{h.name}' (features {h.features}) no longer compiles against /repo",
                           "log": h.build_log[-3000:]}, no_input=True)
            return
        impl.update(h.run(cases[label]))
        if label == "same":
            impl.update(h.run(ties))
    model = coqbuild.run_model(mlines)
    ctx.log(f"implementation answered {len(impl)}, model answered {len(model)}")
    ctx.vm_crosscheck(mlines, model)

    spec_fail, disagreements = [], []
    distinct = set()
    hist = {}
    # ties between equal but distinguishable operands (unreduced ratios): max / min / clamp must pick the operand the storage type picks
    tie_bad = []
    for tcid, slot, args in ties:
        got = impl.get(tcid)
        f = (got or "").split(" ")
        if got in (None, "PANIC", "BADOP") or len(f) != 6:
            tie_bad.append((tcid, f"harness answered {got}"))
        elif f[:3] != f[3:]:
            tie_bad.append((tcid, f"Ord::max/min/clamp of {args[1]}/{args[2]} and its multiple by {args[3]}: quantity gives {f[0]} {f[1]} {f[2]}, the storage type {f[3]} {f[4]} {f[5]}"))
    for tcid, why in tie_bad[:3]:
        ty_, bs_, qm_, slot_ = tmeta[tcid]
        args_ = next(a for c, s_, a in ties if c == tcid)
        ctx.violation({"kind": "comparison tie", "storage": ty_, "base_set": bs_, "quantity": qm_, "args": args_, "implementation": impl.get(tcid),
                       "spec": "C10: max/min/clamp agree with the storage type's (which of two equal operands is returned is observable for unreduced ratios)", "detail": why,
                       "harness": {"features": hs.features, "prelude": hs.prelude, "cases": [{"slot_body": hs.slots[slot_], "args": args_, "model": None}]}})
    rows = {}
    for label in ("same", "noac", "mix"):
        for cid, slot, args in cases[label]:
            _, ty, bsl, bsr, qm, x, y, z, _s = meta[cid]
            got = impl.get(cid)
            hist[f"{label}/{ty}"] = hist.get(f"{label}/{ty}", 0) + 1
            if got in (None, "PANIC", "BADOP", "NOSLOT"):
                spec_fail.append((cid, f"harness answered {got}"))
                continue
            f = got.split(" ")
            row, pc = f[0], f[1]
            rows[cid] = (row, pc)
            distinct.add((label, ty, bsl, bsr, qm, str(x), str(y)))
            probs = row_coherent(row, pc)
            # model correspondence
            mrow = "".join(model.get(f"{cid}.{o}", "?").strip() for o in B.CMPS)
            mpc = model.get(f"{cid}.pc", "?").strip()
            if STYPES[ty]["cls"] == "q":
                mrow = "".join(ch for ch in mrow.replace("/1", ""))
                mpc = mpc.replace("/1", "")
            if (mrow, mpc) != (row, pc):
                disagreements.append((cid, f"{row} {pc}", f"{mrow} {mpc}"))
            if label != "mix":
                want = order_of(ty, x, y)
                if f"{row} {pc}" != want:
                    probs.append(f"operators {row} {pc} differ from the order of the stored values {want}")
                if not B.is_float(ty):
                    cm, mx, mn, cl, hh = f[2], f[3], f[4], f[5], f[6]
                    if cm != pc:
                        probs.append(f"Ord::cmp {cm} differs from partial_cmp {pc}")
                    tx, ty_, tz = VG.val_text(ty, x), VG.val_text(ty, y), VG.val_text(ty, z)
                    if mx != VG.val_text(ty, max(x, y)) or mn != VG.val_text(ty, min(x, y)):
                        probs.append(f"max/min = {mx}/{mn}")
                    lo, hi = (y, z) if y <= z else (z, y)
                    if cl != VG.val_text(ty, min(max(x, lo), hi)):
                        probs.append(f"clamp = {cl}")
                    if x == y and hh[0] != "1":
                        probs.append("equal quantities hash differently")
                else:
                    mx, mn = f[3], f[4]
                    if len(f) >= 9 and (mx, mn) != (f[7], f[8]):
                        probs.append(f"float max/min = {mx}/{mn}, the storage type's own max/min of the stored values = {f[7]}/{f[8]}")
                    # float max/min: NaN-ignoring; the result must be one of the operands and bound the other
                    if not (FC.is_nan_bits(x, ty) or FC.is_nan_bits(y, ty)):
                        tx, ty_ = VG.val_text(ty, x), VG.val_text(ty, y)
                        if mx not in (tx, ty_) or mn not in (tx, ty_):
                            probs.append(f"float max/min returned neither operand: {mx}/{mn}")
                        elif tx != ty_ and want[2] == "1" and not (mx == ty_ and mn == tx):
                            probs.append(f"x < y but max/min = {mx}/{mn}")
            else:
                # mixed base: exact storage decides the physical order exactly; floats once separated
                d = t.qmap[qm]["dim"]
                fl_, fr_ = factor(ty, bsl, d), factor(ty, bsr, d)
                if B.is_float(ty):
                    if not (FC.is_nan_bits(y, ty) or FC.is_inf_bits(y, ty)):
                        pa, pb = FC.bits_to_frac(x, ty) * fl_, FC.bits_to_frac(y, ty) * fr_
                        nr = B.nrounds_rebase(t, lambda bq, un: coefs[(ty, bq, un)], bsl, bsr, d)
                        u_ = Fraction(1, 2 ** FC.FMT[ty]["prec"])
                        sep = ((1 + u_ / (1 - u_)) ** (nr + 2) - 1 + 2 * u_) * max(abs(pa), abs(pb))
                        rng_ok = all(FC.in_normal_range(v, ty, margin=16 + 2 * nr) for v in (abs(FC.bits_to_frac(y, ty)) or Fraction(1), fl_, fr_, fl_ / fr_, fr_ / fl_))
                        if rng_ok and abs(pa - pb) > sep:
                            want = "011100 -1" if pa < pb else "010011 1"
                            if f"{row} {pc}" != want:
                                probs.append(f"magnitudes separated by more than the rounding bound but operators say {row} {pc}, physical order {want}")
                else:
                    pa, pb = x * fl_, y * fr_
                    want = order_of(ty, pa, pb)
                    if f"{row} {pc}" != want:
                        probs.append(f"exact storage: operators {row} {pc} differ from the physical order {want}")
            if probs:
                spec_fail.append((cid, "; ".join(probs)))
    # swap symmetry on the same-type rows (generated in (x,y),(y,x) pairs)
    for label in ("same", "noac"):
        cs = cases[label]
        for i in range(0, len(cs) - 1, 2):
            a, b_ = cs[i][0], cs[i + 1][0]
            if a in rows and b_ in rows:
                ra, rb = rows[a][0], rows[b_][0]
                mir = ra[0] + ra[1] + ra[4] + ra[5] + ra[2] + ra[3]
                if rb != mir:
                    spec_fail.append((a, f"swapping the operands does not mirror the answer: {ra} vs {rb}"))

    def replay_case(cid, extra):
        label, ty, bsl, bsr, qm, x, y, z, slot = meta[cid]
        h = {"same": hs, "noac": hn, "mix": hm}[label]
        args = next(a for c, s, a in cases[label] if c == cid)
        return dict({"kind": "comparison row", "stream": label, "features": h.features, "storage": ty, "quantity": qm,
                     "left_base": bsl, "right_base": bsr, "args": args, "implementation": impl.get(cid),
                     "row_order": "== != < <= > >= partial_cmp [cmp max min clamp hash]",
                     "harness": {"features": h.features, "prelude": h.prelude, "default_features": False,
                                 "cases": [{"slot_body": h.slots[slot], "args": args, "model": None}]}}, **extra)

    for cid, why in spec_fail[:5]:
        ctx.violation(replay_case(cid, {"spec": "C10 coherence", "detail": why}))
    if disagreements and not spec_fail:
        cid, got, want = disagreements[0]
        ctx.violation(replay_case(cid, {"obligation": "correspondence of the comparison operators (Model.Quantity.q_bin at fcmp_sem/qcmp_sem/zcmp_sem) with the compiled crate",
                                        "model": want, "count": len(disagreements)}), no_input=True)
    cov = ctx.coverage
    cov["evaluations"] = sum(len(v) for v in cases.values())
    cov["distinct_nontrivial"] = len(distinct)
    cov["tie_cases"] = len(ties)
    cov["rule"] = ("row = all observations (== != < <= > >= partial_cmp, and cmp/max/min/clamp/hash for Ord storage) of one ordered pair; streams: "
                   "same-type rows for 8 storage types x {SI, km-g-h} bases x 3 quantities, both operand orders (with autoconvert, and f32/f64 "
                   "without autoconvert); mixed-base rows for f64/f32/BigRational x 4 quantities x 16 ordered base pairs with physically equal, "
                   "adjacent (few ulps), 0.1% apart and random right operands; distinct by (stream, storage, bases, quantity, values)")
    cov["disagreements_checked"] = len(disagreements)
    cov["spec_failures"] = len(spec_fail)
    cov["histogram"] = hist
    smp = ctx.rng.fork("samples").sample(cases["same"] + cases["mix"] + cases["noac"], 6)
    cov["samples"] = [{"stream": meta[c][0], "storage": meta[c][1], "bases": [meta[c][2], meta[c][3]], "quantity": meta[c][4],
                       "args": a, "implementation": impl.get(c)} for c, _, a in smp]
