"""C12 — parsing accepts exactly `<number> <unit label>` and inverts formatting."""
from fractions import Fraction

from .. import common as C
from .. import coqbuild, floatcases as FC, tables as T
from ..harness import Harness
from ..stypes import STYPES, parse_expr, show_expr, prelude_for, model_val
from ..textlib import hexs, unhex, cps
from . import binops as B

PROPS = "theories/Props/C12.v"
MODULE = "Props.C12"
SUPPORT = ["theories/Proofs/TextP.v", "theories/Model/Text.v"]
FEATURES = ["autoconvert", "f32", "f64", "i64", "bigrational", "si", "std"]
ERR = {"0": "nosep", "1": "valerr", "2": "unk"}


def slot(q, ty):
    rt = STYPES[ty]["rust"]
    return f"""    type V = {rt};
    type Q = uom::si::{q['module']}::{q['alias']}<uom::si::SI<V>, V>;
    let s = unhex(a[1]);
    match a[0] {{
        "parse" => {{
            let head = s.split(' ').next().unwrap();
            let pv = head.parse::<V>();
            match s.parse::<Q>() {{
                Ok(q) => format!("ok {{}} {{}}", match pv {{ Ok(v) => {show_expr(ty, 'v')}, Err(_) => "novalue".to_string() }}, {show_expr(ty, 'q.value')}),
                Err(uom::str::ParseQuantityError::NoSeparator) => format!("nosep {{}}", b(pv.is_ok())),
                Err(uom::str::ParseQuantityError::ValueParseError) => format!("valerr {{}}", b(pv.is_ok())),
                Err(uom::str::ParseQuantityError::UnknownUnit) => format!("unk {{}}", b(pv.is_ok())),
            }}
        }}
        _ => "BADOP".to_string(),
    }}"""


RT_SPECS = ["{}", "{:.1}", "{:.0}", "{:.3}", "{:e}", "{:.2e}", "{:+}"]


def rt_slot(q, u):
    """format (both styles, several specs without width) then parse: must give back the quantity of the printed number in that unit."""
    arms = "\n".join(f'            "{i}" => format!("{sp}", $x),' for i, sp in enumerate(RT_SPECS))
    qm, alias, un = q["module"], q["alias"], u["name"]
    return f"""    type V = f64;
    type Q = uom::si::{qm}::{alias}<uom::si::SI<V>, V>;
    type N = uom::si::{qm}::{un};
    use uom::fmt::DisplayStyle;
    macro_rules! fm {{ ($x:expr) => {{ match a[1] {{
{arms}
            _ => "BADSPEC".to_string(),
        }} }} }}
    let style = if a[2] == "d" {{ DisplayStyle::Description }} else {{ DisplayStyle::Abbreviation }};
    let q = Q::new::<N>(f64_of(a[3]));
    let text = fm!(q.into_format_args(uom::si::{qm}::{un}, style));
    let num = fm!(q.get::<N>());
    let expect = match num.parse::<V>() {{ Ok(x) => hex64(Q::new::<N>(x).value), Err(_) => "novalue".to_string() }};
    match text.parse::<Q>() {{
        Ok(b) => format!("ok {{}} {{}} {{}}", hex64(b.value), expect, hexs(&text)),
        Err(e) => format!("err {{:?}} {{}} {{}}", e, expect, hexs(&text)),
    }}"""


BLANKS = [" ", "\t", " ", " ", "\n", "　"]


def strings_for(rng, q, others, quick):
    """(text, class) inputs for one quantity."""
    out = []
    units = q["units"]
    pick = units if not quick else rng.sample(units, min(len(units), 14))
    nums = ["1", "1.5", "-2.5e3", "0", "7"]
    for u in pick:
        for lab, cl in ((u["abbr"], "abbr"), (u["sing"], "singular"), (u["plur"], "plural")):
            out.append((f"{rng.choice(nums)} {lab}", f"valid:{cl}"))
    # malformed / edge stream
    for u in rng.sample(units, min(len(units), 4)):
        lab = rng.choice([u["abbr"], u["sing"], u["plur"]])
        n = rng.choice(nums)
        bl = rng.choice(BLANKS)
        out += [(f"{n}{lab}", "no-separator"), (f" {n} {lab}", "leading-space"), (f"{n}  {lab}", "double-space"),
                (f"{n} {lab}{bl}", "trailing-blank"), (f"{n} {bl}{lab}", "blank-before-label"), (f"{n}{bl}{lab}", "other-blank-as-separator"),
                (f"{n} {lab} x", "trailing-garbage"), (f"x{n} {lab}", "bad-number"), (f"{n}, {lab}", "bad-number-comma"),
                (f"abc xyz", "bad-number-and-unit"), (f"{n} {lab.upper()}", "case-changed"), (f"{n} {lab.swapcase()}", "case-swapped"),
                (f"NaN {lab}", "nan"), (f"inf {lab}", "inf"), (f"+{n} {lab}", "plus-sign"), (f"1/2 {lab}", "ratio-literal"),
                (f"{n} ", "empty-label"), (f"{n}", "number-only"), ("", "empty"), (" ", "single-space"), (f" {lab}", "empty-number"),
                (f"{n} {lab}s", "label-suffix"), (f"{n} {lab[:-1]}", "label-truncated")]
    for o in others:
        u = rng.choice(o["units"])
        out.append((f"1 {u['sing']}", "label-of-other-quantity"))
    return out


def run(ctx):
    if not ctx.translate():
        return
    t = ctx.tables
    if not ctx.proof_gate(PROPS, MODULE, SUPPORT):
        found = table_conflicts(t)
        if found:
            for f in found[:5]:
                ctx.violation(f)
        else:
            ctx.violation({"kind": "proof", "obligation": f"{PROPS}: {getattr(ctx, 'proof_error', '')[-1500:]}"}, no_input=True)
    ok, out = coqbuild.build_runner()
    if not ok:
        ctx.violation({"kind": "runner", "obligation": "extraction/compilation of the model runner failed", "log": out[-2000:]}, no_input=True)
        return
    quick = ctx.tier == "quick"
    types = ["f64", "i64", "bigrational"]
    h = Harness("c12", FEATURES, prelude=prelude_for(types))
    cases, meta, mlines = [], {}, []
    qs = t.quantities
    for ty in types:
        sel = qs if ty == "f64" else [q for q in qs if q["module"] in ("length", "time", "information", "pressure", "ratio")]
        for q in sel:
            sl = h.slot(slot(q, ty))
            rng = ctx.rng.fork(f"{ty}:{q['module']}")
            for (txt, cl) in strings_for(rng, q, rng.sample(qs, 2), quick):
                cid = f"p{len(cases)}"
                cases.append((cid, sl, ["parse", hexs(txt)]))
                meta[cid] = (ty, q, txt, cl, sl)
    # format -> parse on the implementation itself (f64, SI): every spec without a width, both styles
    from . import convlib
    rt_cases = {}
    rrng = ctx.rng.fork("roundtrip")
    for (q, u) in convlib.select_units(t, rrng.fork("units"), 40 if quick else 300):
        if not u["sing"] or not u["abbr"]:
            continue            # the coherent unit of ratio has empty labels: "1 " cannot be parsed back (documented)
        sl = h.slot(rt_slot(q, u))
        for v in (1.0, 1.5, 2.25, 2500.0, 3.0, 0.001, -7.0):
            for k in range(len(RT_SPECS)):
                for st in ("d", "a"):
                    cid = f"r{len(cases)}"
                    cases.append((cid, sl, ["rt", str(k), st, FC.hexbits(C.f64_bits(v), "f64")]))
                    rt_cases[cid] = (q, u, RT_SPECS[k], st, v, sl)
    ctx.log(f"{len(h.slots)} slots, {len(cases)} strings; building harness")
    if not h.build():
        ctx.log(h.build_log[-3000:])
        ctx.violation({"kind": "harness-build", "obligation": "the FromStr harness no longer compiles against /repo", "log": h.build_log[-3000:]}, no_input=True)
        return
    impl = h.run(cases)
    # model: parse with the value oracle reported by the harness for the text before the first space
    parse_cases = [c for c in cases if c[0] in meta]
    for cid, sl, args in parse_cases:
        ty, q, txt, cl, _ = meta[cid]
        got = impl.get(cid)
        if got is None or got == "PANIC":
            continue
        f = got.split(" ")
        vok = (f[1] != "novalue") if f[0] == "ok" else f[1] == "1"
        units = "(" + " ".join(f"({cps(u['abbr'])} {cps(u['sing'])} {cps(u['plur'])})" for u in q["units"]) + ")"
        mlines.append(f"{cid} text - (parse {units} {cps(txt)} {1 if vok else 0})")
    model = coqbuild.run_model(mlines)
    # expected stored value for successful parses: new::<unit>(v) through the conversion model
    nlines = []
    U = T.sexp_list(t.base_unit_exprs(T.BASE_SETS["si"]))
    for cid, sl, args in parse_cases:
        ty, q, txt, cl, _ = meta[cid]
        m = model.get(cid, "").split()
        got = impl.get(cid, "")
        if m[:1] == ["3"] and got.startswith("ok ") and got.split()[1] not in ("novalue", "nan"):
            u = q["units"][int(m[1])]
            cls = STYPES[ty]["cls"]
            nlines.append(f"{cid} {cls} std (new {U} {T.zlist(q['dim'])} {T.sexp(u['coef'])} {T.sexp(u['const'])} {model_val(ty, got.split()[1])})")
    nmodel = coqbuild.run_model(nlines)
    ctx.log(f"implementation answered {len(impl)}, model answered {len(model)} parses, {len(nmodel)} constructions")
    bad, spec_fail = [], []
    skipped = 0
    hist = {}
    distinct = set()
    for cid, sl, args in parse_cases:
        ty, q, txt, cl, _ = meta[cid]
        got = impl.get(cid)
        hist[cl] = hist.get(cl, 0) + 1
        distinct.add((q["module"], txt))
        if got is None or got == "PANIC":
            if ty == "i64" and got == "PANIC" and i64_out_of_scope(q, txt):
                skipped += 1     # the unit's coefficient (or the converted value) does not fit Ratio<i64>: outside the property's storage scope
                continue
            spec_fail.append((cid, f"parsing answered {got}: it must never panic"))
            continue
        m = model.get(cid, "?").split()
        f = got.split(" ")
        if m[0] in ERR:
            want = ERR[m[0]]
            if f[0] != want:
                bad.append((cid, got, want))
        elif m[0] == "3":
            u = q["units"][int(m[1])]
            if f[0] != "ok":
                bad.append((cid, got, f"ok (unit {u['name']})"))
                continue
            cls = STYPES[ty]["cls"]
            want_v = nmodel.get(cid)
            if want_v is not None:
                from ..stypes import canon_model_out
                wv = canon_model_out(ty, want_v.strip())
                if cls == "z":
                    wv = want_v.strip()
                if f[2] != wv:
                    bad.append((cid, got, f"ok value {wv} = new::<{u['name']}>({f[1]})"))
    # spec (property text) independent of the model: expected class per generated string class
    for cid, sl, args in parse_cases:
        ty, q, txt, cl, _ = meta[cid]
        got = impl.get(cid, "")
        value_parses = got.startswith("ok ") or got.endswith(" 1")
        if cl.startswith("valid:") and value_parses and not got.startswith("ok ") and got != "PANIC":
            spec_fail.append((cid, f"`{txt}`: a number, one space and a registered label must parse, got {got}"))
        if cl in ("no-separator", "number-only", "empty") and not got.startswith("nosep"):
            if " " not in txt:
                spec_fail.append((cid, f"`{txt}` has no space: expected no-separator, got {got}"))

    def replay_case(cid, extra):
        ty, q, txt, cl, sl = meta[cid]
        args = next(a for c, s, a in cases if c == cid)
        return dict({"kind": "parse", "storage": ty, "quantity": q["module"], "text": txt, "text_class": cl, "implementation": impl.get(cid),
                     "model": model.get(cid), "harness": {"features": h.features, "prelude": h.prelude,
                                                          "cases": [{"slot_body": h.slots[sl], "args": args, "model": None}]}}, **extra)

    # format -> parse round trips
    rt_fail = []
    for cid, (q, u, spec, st, v, sl) in rt_cases.items():
        got = impl.get(cid) or "none"
        f = got.split(" ")
        hist["roundtrip"] = hist.get("roundtrip", 0) + 1
        text = unhex(f[-1]) if len(f) >= 3 else "?"
        if f[0] != "ok":
            rt_fail.append((cid, f"format!(\"{spec}\", {v} {u['name']}, {'Description' if st == 'd' else 'Abbreviation'}) = `{text}` does not parse back: {' '.join(f[:-2])}"))
        elif f[1] != f[2]:
            rt_fail.append((cid, f"`{text}` parses back to stored {f[1]}, but the printed number in {u['name']} is stored as {f[2]}"))
    for cid, why in rt_fail[:3]:
        q, u, spec, st, v, sl = rt_cases[cid]
        ctx.violation({"kind": "format-parse round trip", "quantity": q["module"], "unit": u["name"], "spec": spec, "style": st, "value": v, "detail": why,
                       "spec_text": "C12: parsing inverts formatting (the text printed for a quantity in a unit parses to the quantity of the printed number in that unit)",
                       "harness": {"features": h.features, "prelude": h.prelude, "cases": [{"slot_body": h.slots[sl], "args": next(a for c, s_, a in cases if c == cid)}]}})
    for cid, why in spec_fail[:5]:
        ctx.violation(replay_case(cid, {"spec": "C12", "detail": why}))
    for cid, got, want in bad[:5 - min(5, len(spec_fail))]:
        # the model is the property statement itself (c12_success_iff + precedence theorems): a deviation is a failing input
        ctx.violation(replay_case(cid, {"spec": "C12: result differs from Model.Text.parse_quantity (number, first space, trimmed registered label; error precedence)",
                                        "expected": want}))
    cov = ctx.coverage
    cov["evaluations"] = len(cases)
    cov["distinct_nontrivial"] = len(distinct)
    cov["rule"] = ("strings parsed as every SI quantity (f64; i64 and BigRational for five quantities): '<number> <label>' for the three labels of "
                   "all (thorough) / 14 rotating (quick) units per quantity, plus a malformed stream per quantity (no/leading/double space, Unicode blanks, "
                   "case changes, bad number, bad number AND unit, NaN/inf/+, ratio literal, empty label, labels of other quantities, truncated/suffixed "
                   "labels); distinct by (quantity, text); format -> parse round trips on the implementation (f64, 40 / 300 units x 7 values x 7 specs without width x both styles)")
    cov["format_parse_roundtrips"] = len(rt_cases)
    cov["format_parse_roundtrip_failures"] = len(rt_fail)
    cov["disagreements_checked"] = len(bad)
    cov["spec_failures"] = len(spec_fail) + len(rt_fail)
    cov["histogram"] = hist
    cov["skipped_i64_unrepresentable_coefficient"] = skipped
    smp = ctx.rng.fork("samples").sample(parse_cases, 8)
    cov["samples"] = [{"quantity": meta[c][1]["module"], "storage": meta[c][0], "text": meta[c][2], "class": meta[c][3],
                       "implementation": impl.get(c), "model": model.get(c)} for c, _, a in smp]


def i64_out_of_scope(q, txt):
    """i64 storage: does the text name a unit whose coefficient cannot be held by Ratio<i64> (from_f64(..).unwrap() panics in `new`)?"""
    parts = txt.split(" ", 1)
    if len(parts) < 2:
        return False
    lab = parts[1].strip()
    for u in q["units"]:
        if lab in (u["abbr"], u["sing"], u["plur"]):
            n, d = int(u["coef_q"][0]), int(u["coef_q"][1])
            return abs(n) >= 2 ** 40 or d >= 2 ** 40
    return False


def table_conflicts(t):
    """Search for the concrete label behind a failed table theorem (Python mirror of conflicts/untrimmed_labels)."""
    out = []
    ws = set([9, 10, 11, 12, 13, 32, 133, 160, 5760, 8232, 8233, 8239, 8287, 12288] + list(range(8192, 8203)))
    for q in t.quantities:
        us = q["units"]
        for i, u in enumerate(us):
            for lab in (u["abbr"], u["sing"], u["plur"]):
                if lab and (ord(lab[0]) in ws or ord(lab[-1]) in ws):
                    out.append({"kind": "table", "theorem": "c12_labels_trim_invariant", "unit": f"{q['module']}::{u['name']}", "label": lab,
                                "what": "label has a leading/trailing blank: from_str compares the TRIMMED text, so this label can never be parsed",
                                "failing_input": f"1 {lab}"})
            for v in us[i + 1:]:
                shared = set([u["abbr"], u["sing"], u["plur"]]) & set([v["abbr"], v["sing"], v["plur"]])
                if shared and (u["coef_q"] != v["coef_q"] or u["const_q"] != v["const_q"]):
                    out.append({"kind": "table", "theorem": "c12_labels_unambiguous", "units": [f"{q['module']}::{u['name']}", f"{q['module']}::{v['name']}"],
                                "shared_labels": sorted(shared), "coefficients": [u["coef_q"], v["coef_q"]],
                                "what": "one label denotes two different conversions within a quantity: format in the second unit, parse back, get the first",
                                "failing_input": f"1 {sorted(shared)[0]}"})
    return out
