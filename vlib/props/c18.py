"""C18 — angle and ratio functions act on the dimensionless magnitude, whatever the unit."""
from fractions import Fraction

from .. import common as C
from .. import coqbuild, floatcases as FC, tables as T, valgen as VG
from ..harness import Harness, FEATURE_SETS
from ..stypes import STYPES, parse_expr, show_expr, model_val, canon_model_out
from . import binops as B

PROPS = "theories/Props/C18.v"
MODULE = "Props.C18"
SUPPORT = ["theories/Proofs/ConvFloat.v", "theories/Proofs/FloatLemmas.v"]
TYPES = ["f64", "f32"]
BASES = ["si", "kgh"]
TRIG = ["sin", "cos", "tan", "sinh", "cosh", "tanh"]
INV = ["acos", "acosh", "asin", "asinh", "atan", "atanh"]
RATF = ["exp", "exp2", "ln", "log2", "log10", "exp_m1", "ln_1p"]


def angle_slot(u, bs, ty):
    rt = STYPES[ty]["rust"]
    trig = "\n".join(f'        "{f}" => (x.{f}().value, s.{f}()),' for f in TRIG)
    return f"""    type V = {rt};
    type A = uom::si::angle::Angle<{B.units_type(bs, ty)}, V>;
    type N = uom::si::angle::{u['name']};
    let p = |s: &str| -> V {{ {parse_expr(ty, 's')} }};
    let sh = |v: &V| -> String {{ {show_expr(ty, 'v.clone()')} }};
    let x = A::new::<N>(p(a[1]));
    let s = x.value;
    let rad = x.get::<uom::si::angle::radian>();
    let (r, o): (V, V) = match a[0] {{
{trig}
        "sin_cos_s" => (x.sin_cos().0.value, s.sin_cos().0),
        "sin_cos_c" => (x.sin_cos().1.value, s.sin_cos().1),
        _ => return "BADOP".to_string(),
    }};
    format!("{{}} {{}} {{}} {{}}", sh(&s), sh(&rad), sh(&r), sh(&o))"""


def ratio_slot(u, bs, ty):
    rt = STYPES[ty]["rust"]
    inv = "\n".join(f'        "{f}" => (x.{f}().value, s.{f}()),' for f in INV + RATF)
    return f"""    type V = {rt};
    type R = uom::si::ratio::Ratio<{B.units_type(bs, ty)}, V>;
    type N = uom::si::ratio::{u['name']};
    let p = |s: &str| -> V {{ {parse_expr(ty, 's')} }};
    let sh = |v: &V| -> String {{ {show_expr(ty, 'v.clone()')} }};
    let x = R::new::<N>(p(a[1]));
    let s = x.value;
    let rad = x.get::<uom::si::ratio::ratio>();
    let (r, o): (V, V) = match a[0] {{
{inv}
        "log" => (x.log(p(a[2])).value, s.log(p(a[2]))),
        _ => return "BADOP".to_string(),
    }};
    format!("{{}} {{}} {{}} {{}}", sh(&s), sh(&rad), sh(&r), sh(&o))"""


def atan2_slot(q, bs, ty):
    rt = STYPES[ty]["rust"]
    return f"""    type V = {rt};
    type Q = uom::si::{q['module']}::{q['alias']}<{B.units_type(bs, ty)}, V>;
    let p = |s: &str| -> V {{ {parse_expr(ty, 's')} }};
    let sh = |v: &V| -> String {{ {show_expr(ty, 'v.clone()')} }};
    let y = Q {{ dimension: PhantomData, units: PhantomData, value: p(a[1]) }};
    let x = Q {{ dimension: PhantomData, units: PhantomData, value: p(a[2]) }};
    let r = y.atan2(x);
    format!("{{}} {{}} {{}} {{}}", sh(&r.value), sh(&r.get::<uom::si::angle::radian>()), sh(&r.value), sh(&p(a[1]).atan2(p(a[2]))))"""


def const_slot(ty):
    rt = STYPES[ty]["rust"]
    return f"""    type V = {rt};
    use uom::si::angle::*;
    type A = Angle<uom::si::SI<V>, V>;
    type S = uom::si::solid_angle::SolidAngle<uom::si::SI<V>, V>;
    let sh = |v: &V| -> String {{ {show_expr(ty, 'v.clone()')} }};
    let pi: V = std::{ty}::consts::PI;
    let v: Vec<String> = vec![
        sh(&A::HALF_TURN.get::<degree>()), sh(&(180.0 as V)),
        sh(&A::HALF_TURN.get::<radian>()), sh(&pi),
        sh(&A::FULL_TURN.get::<revolution>()), sh(&(1.0 as V)),
        sh(&A::FULL_TURN.get::<degree>()), sh(&(360.0 as V)),
        sh(&S::SPHERE.get::<uom::si::solid_angle::steradian>()), sh(&(4.0 as V * pi)),
        sh(&S::SPHERE.get::<uom::si::solid_angle::spat>()), sh(&(1.0 as V)),
        sh(&A::new::<revolution>(0.5).value), sh(&A::HALF_TURN.value),
    ];
    v.join(" ")"""


# how many of each angle unit make one turn - what the unit NAMES mean, independent of the tables
PER_TURN = {"revolution": 1, "degree": 360, "gon": 400, "mil": 6400, "minute": 21600, "second": 1296000}
PI_Q = Fraction(314159265358979323846, 10 ** 20)


def run(ctx):
    if not ctx.translate():
        return
    t = ctx.tables
    if not ctx.proof_gate(PROPS, MODULE, SUPPORT):
        ctx.violation({"kind": "proof", "obligation": f"{PROPS}: {getattr(ctx, 'proof_error', '')[-1500:]}"}, no_input=True)
    ok, out = coqbuild.build_runner()
    if not ok:
        ctx.violation({"kind": "runner", "obligation": "extraction/compilation of the model runner failed", "log": out[-2000:]}, no_input=True)
        return
    quick = ctx.tier == "quick"
    h = Harness("c18", FEATURE_SETS["default"], prelude=B.prelude(BASES, TYPES))
    qa, qr = t.qmap["angle"], t.qmap["ratio"]
    cases, meta = [], {}
    nrand = 6 if quick else 60
    for ty in TYPES:
        sp = FC.special_values(ty)

        def fl(x):
            return C.f64_bits(x) if ty == "f64" else C.f32_bits(x)
        for bs in BASES:
            for u in qa["units"]:
                sl = h.slot(angle_slot(u, bs, ty))
                rng = ctx.rng.fork(f"a:{ty}:{bs}:{u['name']}")
                k = float(T.frac(u["coef"]))
                vals = [sp["+0"], sp["-0"], sp["nan"], sp["+inf"], sp["-inf"], fl(1.0), fl(-1.0), fl(0.25), fl(90.0), fl(1.5707963267948966 / k), fl(3.141592653589793 / k),
                        fl(1.0e4 / k), fl(1.0e6 / k), fl(-7.3e8 / k), fl(12345.678), fl(1.0e15 / k) if ty == "f64" else fl(3.0e7 / k)]
                vals += [FC.random_value(rng, ty) for _ in range(nrand)]
                if u["name"] in PER_TURN:
                    vals.append(fl(PER_TURN[u["name"]] / 8.0))       # an eighth of a turn in this unit (exactly representable)
                for vb in vals:
                    for f in TRIG + ["sin_cos_s", "sin_cos_c"]:
                        cid = f"a{len(cases)}"
                        cases.append((cid, sl, [f, FC.hexbits(vb, ty)]))
                        meta[cid] = ("angle", ty, bs, qa, u, f, vb, sl)
            for u in qr["units"]:
                sl = h.slot(ratio_slot(u, bs, ty))
                rng = ctx.rng.fork(f"r:{ty}:{bs}:{u['name']}")
                k = float(T.frac(u["coef"]))
                vals = [sp["+0"], sp["-0"], sp["nan"], sp["+inf"], sp["-inf"], fl(1.0 / k), fl(-1.0 / k), fl(0.5 / k), fl(2.0 / k), fl(1.0), fl(100.0), fl(1e-9 / k), fl(0.999999 / k)]
                vals += [FC.random_value(rng, ty) for _ in range(nrand)]
                for vb in vals:
                    for f in INV + RATF:
                        cid = f"a{len(cases)}"
                        cases.append((cid, sl, [f, FC.hexbits(vb, ty)]))
                        meta[cid] = ("ratio", ty, bs, qr, u, f, vb, sl)
                # log in an arbitrary base, the bases 2 and 10 included (for which log2 / log10 round differently from ln x / ln b)
                for vb in vals + [fl(x / k) for x in (1000.0, 1.0e15 if ty == "f64" else 1.0e7, 0.001, 47.0, 125.0, 3.0, 536870912.0)]:
                    for base in (7.0, 2.0, 10.0, 0.5):
                        cid = f"a{len(cases)}"
                        cases.append((cid, sl, ["log", FC.hexbits(vb, ty), FC.hexbits(fl(base), ty)]))
                        meta[cid] = ("ratio", ty, bs, qr, u, "log", vb, sl)
            for qm in ("length", "velocity", "energy", "thermal_conductivity", "ratio"):
                q = t.qmap[qm]
                sl = h.slot(atan2_slot(q, bs, ty))
                rng = ctx.rng.fork(f"t:{ty}:{bs}:{qm}")
                pool = [sp["+0"], sp["-0"], sp["nan"], sp["+inf"], sp["-inf"], fl(1.0), fl(-1.0), fl(3.0), fl(-4.0)] + [FC.random_value(rng, ty) for _ in range(nrand)]
                for _ in range(30 if quick else 300):
                    y, x = rng.choice(pool), rng.choice(pool)
                    cid = f"a{len(cases)}"
                    cases.append((cid, sl, ["atan2", FC.hexbits(y, ty), FC.hexbits(x, ty)]))
                    meta[cid] = ("atan2", ty, bs, q, None, "atan2", (y, x), sl)
        sl = h.slot(const_slot(ty))
        cid = f"a{len(cases)}"
        cases.append((cid, sl, ["const"]))
        meta[cid] = ("const", ty, "si", None, None, "const", 0, sl)
    ctx.log(f"{len(h.slots)} slots, {len(cases)} cases; building harness")
    if not h.build():
        ctx.log(h.build_log[-3000:])
        ctx.violation({"kind": "harness-build", "obligation": "the angle/ratio function harness no longer compiles against /repo", "log": h.build_log[-3000:]}, no_input=True)
        return
    impl = h.run(cases)
    # model: stored value = new::<N>(x) (conversion model); function result = oracle value (c18_result_is_function_value)
    mlines = []
    for cid, sl, args in cases:
        kind, ty, bs, q, u, f, vb, _ = meta[cid]
        if kind in ("angle", "ratio"):
            U = T.sexp_list(t.base_unit_exprs(T.BASE_SETS[bs]))
            mlines.append(f"{cid} {ty} std (new {U} {T.zlist(q['dim'])} {T.sexp(u['coef'])} {T.sexp(u['const'])} {vb})")
    model = coqbuild.run_model(mlines)
    ctx.log(f"implementation answered {len(impl)}, model answered {len(model)}")
    ctx.vm_crosscheck(mlines, model)
    bad, disagreements = [], []
    hist, distinct = {}, set()
    turn_checked = 0
    fl_of = lambda ty_, x: C.f64_bits(x) if ty_ == "f64" else C.f32_bits(x)
    for cid, sl, args in cases:
        kind, ty, bs, q, u, f, vb, _ = meta[cid]
        got = impl.get(cid)
        hist[f"{kind}/{ty}/{bs}"] = hist.get(f"{kind}/{ty}/{bs}", 0) + 1
        distinct.add((kind, ty, bs, u["name"] if u else (q["module"] if q else "-"), f, str(vb)))
        if got in (None, "PANIC", "BADOP"):
            bad.append((cid, f"harness answered {got}"))
            continue
        p = got.split(" ")
        if kind == "const":
            names = ["HALF_TURN in degrees = 180", "HALF_TURN in radians = pi", "FULL_TURN in revolutions = 1", "FULL_TURN in degrees = 360",
                     "SPHERE in steradians = 4 pi", "SPHERE in spats = 1", "half a revolution = HALF_TURN"]
            for i, nm in enumerate(names):
                if p[2 * i] != p[2 * i + 1]:
                    bad.append((cid, f"{nm}: got {p[2*i]}, expected {p[2*i+1]} ({ty})"))
            continue
        s, rad, r, o = p
        if kind == "angle" and u["name"] in PER_TURN and f == "tan" and vb == fl_of(ty, PER_TURN[u["name"]] / 8.0):
            # an eighth of a turn is pi/4 rad whatever the unit (the mil is a 7-digit rounding: 2e-6)
            sv = FC.bits_to_frac(int(s, 16), ty) if s not in ("nan",) else None
            turn_checked += 1
            if sv is None or abs(sv - PI_Q / 4) > Fraction(2, 10 ** 6) * PI_Q / 4:
                bad.append((cid, f"{PER_TURN[u['name']]}/8 {u['name']} is stored as {float(sv) if sv is not None else s} rad, an eighth of a turn is {float(PI_Q / 4)} rad"))
        if s != rad:
            bad.append((cid, f"stored value {s} is not the magnitude in radians/ratio {rad}"))
        if r != o:
            bad.append((cid, f"{f}: quantity result {r} differs from the storage type's {f} of the magnitude {o} (magnitude bits {s})"))
        if cid in model and canon_model_out(ty, model[cid].strip()) != s:
            disagreements.append((cid, s, canon_model_out(ty, model[cid].strip())))

    def replay_case(cid, extra):
        kind, ty, bs, q, u, f, vb, sl = meta[cid]
        args = next(a for c, s, a in cases if c == cid)
        return dict({"kind": kind, "storage": ty, "base_set": bs, "unit": u["name"] if u else None, "quantity": q["module"] if q else None, "function": f,
                     "args": args, "implementation (magnitude stored, magnitude read in radian/ratio, result, storage function of magnitude)": impl.get(cid),
                     "harness": {"features": h.features, "prelude": h.prelude, "default_features": False,
                                 "cases": [{"slot_body": h.slots[sl], "args": args, "model": None}]}}, **extra)

    for cid, why in bad[:5]:
        ctx.violation(replay_case(cid, {"spec": "C18", "detail": why}))
    if disagreements and not bad:
        cid, got, want = disagreements[0]
        ctx.violation(replay_case(cid, {"obligation": "stored magnitude vs conversion model (new::<angle/ratio unit>)", "model": want, "count": len(disagreements)}), no_input=True)
    cov = ctx.coverage
    cov["evaluations"] = len(cases)
    cov["distinct_nontrivial"] = len(distinct)
    cov["rule"] = ("sin cos tan sinh cosh tanh sin_cos of angles constructed in EVERY angle unit; acos..atanh, exp exp2 ln log log2 log10 exp_m1 ln_1p of ratios "
                   "constructed in every ratio unit; atan2 of like quantities of 5 dimensions; f64/f32, SI and km-g-h base units; arguments: domain edges, "
                   "+-0, NaN, inf, pi/2 and pi in the unit, 1e4..1e15 rad, random; result compared bit for bit with the storage type's function of the stored "
                   "magnitude computed in the same process; published constants compared exactly")
    cov["disagreements_checked"] = len(disagreements)
    cov["eighth_of_a_turn_checks"] = turn_checked
    cov["spec_failures"] = len(bad)
    cov["histogram"] = hist
    smp = ctx.rng.fork("samples").sample(cases, 6)
    cov["samples"] = [{"kind": meta[c][0], "storage": meta[c][1], "unit": (meta[c][4] or {}).get("name"), "args": a, "implementation": impl.get(c)} for c, _, a in smp]
