"""C04 — quantities are a zero-cost, transparent wrapper over the storage type (PARTIAL: semantic core, capabilities, layout)."""
from fractions import Fraction

from .. import common as C
from .. import coqbuild, floatcases as FC, tables as T, valgen as VG
from ..harness import Harness, FEATURE_SETS
from ..stypes import STYPES, parse_expr, show_expr
from .. import progs as PG
from . import binops as B
from . import convlib
from .. import irprobe

PROPS = "theories/Props/C04.v"
MODULE = "Props.C04"
SUPPORT = ["theories/Proofs/FloatLemmas.v", "theories/Proofs/ConvFloat.v", "theories/Proofs/QuantityP.v"]
CAPS = ["Copy", "Clone", "PartialEq", "Eq", "PartialOrd", "Ord", "std::hash::Hash", "Default", "Send", "Sync", "Unpin",
        "std::panic::UnwindSafe", "std::panic::RefUnwindSafe", "std::fmt::Debug", "uom::serde::Serialize", "uom::serde::de::DeserializeOwned"]
# the same capabilities do not depend on the kind: also probed on quantities of non-default kinds (for two storage types)
CAP_QUANTITIES = {"velocity": "uom::si::velocity::Velocity", "thermodynamic_temperature": "uom::si::thermodynamic_temperature::ThermodynamicTemperature",
                  "angle": "uom::si::angle::Angle", "information": "uom::si::information::Information"}
CAP_TYPES = ["f64", "f32", "i32", "i64", "u64", "isize", "bigint", "biguint", "rational64", "bigrational", "complex64"]


def fold_slot(q, u, ty, bs="si"):
    """Quantity-level construction/read-back vs the bare-number reference with the factor folded to ONE constant
    (K = coefficient / base factor, or its reciprocal), for default and non-default base units."""
    rt = STYPES[ty]["rust"]
    qm, alias, un = q["module"], q["alias"], u["name"]
    mods = ["length", "mass", "time", "electric_current", "thermodynamic_temperature", "amount_of_substance", "luminous_intensity"]
    fparts = " ".join(f"* <uom::si::{m}::{n} as uom::Conversion<V>>::coefficient().powi({e})" for m, n, e in zip(mods, T.BASE_SETS[bs], q["dim"]))
    return f"""    type V = {rt};
    type Q = uom::si::{qm}::{alias}<{B.units_type(bs, ty)}, V>;
    type N = uom::si::{qm}::{un};
    let p = |s: &str| -> V {{ {parse_expr(ty, 's')} }};
    let sh = |v: &V| -> String {{ {show_expr(ty, 'v.clone()')} }};
    let k: V = <N as uom::Conversion<V>>::coefficient();
    let c: V = <N as uom::Conversion<V>>::constant(uom::ConstantOp::Sub);
    let f: V = (1.0 as V) {fparts};
    let has_offset = c != 0.0;
    let v = p(a[1]);
    // the folded constants
    let (big, kn, kg) = (k >= f, k / f, if k < f {{ f / k }} else {{ k / f }});
    #[inline(never)] fn mul(v: V, k: V) -> V {{ v * k }}
    #[inline(never)] fn div(v: V, k: V) -> V {{ v / k }}
    let ref_new = |x: V| -> V {{ if big {{ mul(x, kn) }} else {{ div(mul(x, k), f) }} }};
    let ref_get = |x: V| -> V {{ if k < f {{ mul(x, kg) }} else {{ div(x, kg) }} }};
    match a[0] {{
        "n" => format!("{{}} {{}}", sh(&Q::new::<N>(v).value), sh(&(if has_offset {{ ref_new(v + c) }} else {{ ref_new(v) }}))),
        "g" => format!("{{}} {{}}", sh(&(Q {{ dimension: PhantomData, units: PhantomData, value: v }}).get::<N>()), sh(&(if has_offset {{ ref_get(v) - c }} else {{ ref_get(v) }}))),
        _ => "BADOP".to_string(),
    }}"""


def layout_slot(ty):
    rt = STYPES[ty]["rust"]
    return f"""    type V = {rt};
    type Q = uom::si::length::Length<uom::si::SI<V>, V>;
    type A = uom::si::angle::Angle<uom::si::SI<V>, V>;
    use std::mem::{{size_of, align_of}};
    format!("{{}} {{}} {{}} {{}} {{}} {{}} {{}} {{}}", size_of::<Q>(), size_of::<V>(), align_of::<Q>(), align_of::<V>(), size_of::<A>(), align_of::<A>(),
        size_of::<Option<Q>>(), size_of::<Option<V>>())"""


def cap_program(ty, cap, on_quantity, qname="velocity"):
    rt = STYPES[ty]["rust"]
    t_ = f"{CAP_QUANTITIES[qname]}<uom::si::SI<{rt}>, {rt}>" if on_quantity else rt
    return PG.Program("(unchanged (() Kind 0))", [], f"fn need<T: {cap}>() {{}} need::<{t_}>(); String::new()", f"{qname + ' quantity' if on_quantity else 'storage'} {ty}: {cap}")


def run(ctx):
    ctx.level = "other"
    if not ctx.translate():
        return
    t = ctx.tables
    if not ctx.proof_gate(PROPS, MODULE, SUPPORT):
        ctx.violation({"kind": "proof", "obligation": f"{PROPS}: {getattr(ctx, 'proof_error', '')[-1500:]}"}, no_input=True)
    quick = ctx.tier == "quick"
    # (a) extensional equality with the folded bare-number expression (default base units, f64/f32)
    h = Harness("c04", FEATURE_SETS["all"], prelude=B.prelude(["si", "cgs", "kgh"], ["f64", "f32"]))
    units = convlib.select_units(t, ctx.rng.fork("units"), 60 if quick else 600)
    cases, meta = [], {}
    for ty in ("f64", "f32"):
        for bs in ("si", "cgs", "kgh"):
            for (q, u) in (units if bs == "si" else units[::3]):
                sl = h.slot(fold_slot(q, u, ty, bs))
                rng = ctx.rng.fork(f"{ty}:{bs}:{q['module']}:{u['name']}")
                vals = list(FC.special_values(ty).values()) + [FC.random_value(rng, ty) for _ in range(8 if quick else 60)]
                for vb in vals:
                    for d_ in ("n", "g"):
                        cid = f"z{len(cases)}"
                        cases.append((cid, sl, [d_, FC.hexbits(vb, ty)]))
                        meta[cid] = ("fold", ty, q, u, d_, vb, sl)
    for ty in CAP_TYPES:
        sl = h.slot(layout_slot(ty))
        cid = f"z{len(cases)}"
        cases.append((cid, sl, ["layout"]))
        meta[cid] = ("layout", ty, None, None, None, None, sl)
    ctx.log(f"{len(h.slots)} slots, {len(cases)} cases; building harness")
    if not h.build():
        ctx.log(h.build_log[-3000:])
        ctx.violation({"kind": "harness-build", "obligation": "the fold/layout harness no longer compiles against /repo", "log": h.build_log[-3000:]}, no_input=True)
        return
    impl = h.run(cases)
    bad = []
    nfold = 0
    for cid, sl, args in cases:
        kind, ty, q, u, d_, vb, _ = meta[cid]
        got = impl.get(cid)
        if got in (None, "PANIC", "BADOP"):
            bad.append((cid, f"harness answered {got}"))
            continue
        f = got.split(" ")
        if kind == "fold":
            nfold += 1
            if f[0] != f[1]:
                bad.append((cid, f"{'new' if d_ == 'n' else 'get'}::<{u['name']}> gives {f[0]}, the folded bare-number expression gives {f[1]} (value bits {FC.hexbits(vb, ty)})"))
        else:
            sq, sv, aq, av, sa, aa, oq, ov = (int(x) for x in f)
            if (sq, aq, sa, aa, oq) != (sv, av, sv, av, ov):
                bad.append((cid, f"layout of a {ty} quantity differs from its storage type: size {sq}/{sv}, align {aq}/{av}, angle {sa}/{aa}, Option {oq}/{ov}"))
    # (b) capabilities: exactly those of the storage type (rustc decides both sides)
    progs, pmeta = [], []
    for ty in CAP_TYPES:
        for cap in CAPS:
            progs.append(cap_program(ty, cap, True))
            progs.append(cap_program(ty, cap, False))
            pmeta.append((ty, cap))
    for qname in ("thermodynamic_temperature", "angle", "information"):
        for ty in ("f64", "bigrational"):
            for cap in CAPS:
                progs.append(cap_program(ty, cap, True, qname))
                progs.append(cap_program(ty, cap, False))
                pmeta.append((ty + "/" + qname, cap))
    rv = PG.classify("c04caps", FEATURE_SETS["all"], progs)
    caps_checked = 0
    cap_table = {}
    for k, (ty, cap) in enumerate(pmeta):
        rq, rs = rv.get(2 * k, (None, []))[0], rv.get(2 * k + 1, (None, []))[0]
        if rq is None or rs is None:
            continue
        caps_checked += 1
        cap_table.setdefault(ty, []).append(cap.split("::")[-1] if rs else "!" + cap.split("::")[-1])
        if rq != rs:
            ctx.violation({"kind": "capability", "storage": ty, "trait": cap, "quantity_implements": rq, "storage_type_implements": rs,
                           "program": progs[2 * k].rust_fn("probe"), "what": "a quantity must have exactly the capabilities of its storage type"})
    # (c) optimised code: each quantity-level function of the catalogue (harness/irprobe.rs) against the bare-number reference with
    #     the factor folded to one constant, in LLVM IR of a release build (signature = call ABI, body = the code)
    ll, ir_src, ir_log = irprobe.build(["autoconvert", "f32", "f64", "si", "std"])
    ir_pairs = []
    if ll is None:
        ctx.violation({"kind": "harness-build", "obligation": "the IR probe crate (harness/irprobe.rs) no longer compiles in release mode against /repo", "log": ir_log[-3000:]}, no_input=True)
    else:
        ir_pairs = irprobe.compare(ll, ir_src)
        for n, same, detail in ir_pairs:
            if not same:
                fn_q = next((l for l in ir_src.splitlines() if f"pub fn q_{n}(" in l), "")
                fn_b = next((l for l in ir_src.splitlines() if f"pub fn b_{n}(" in l), "")
                ctx.violation({"kind": "optimised code", "pair": n, "quantity_level_function": fn_q.strip(), "bare_reference": fn_b.strip(), "detail": detail,
                               "spec": "C04: optimised code (LLVM IR, release, one codegen unit) and call signature identical to the bare-number expression with the factor folded",
                               "how_to_replay": "build harness/irprobe.rs as a lib crate depending on uom (path /repo; features autoconvert f32 f64 si std) with "
                                                "cargo rustc --release --lib -- --emit=llvm-ir and compare @q_<pair> with @b_<pair>"})
    for cid, why in bad[:5]:
        kind, ty, q, u, d_, vb, sl = meta[cid]
        args = next(a for c, s, a in cases if c == cid)
        ctx.violation({"kind": kind, "storage": ty, "unit": f"{q['module']}::{u['name']}" if u else None, "detail": why, "implementation": impl.get(cid),
                       "harness": {"features": h.features, "prelude": h.prelude, "cases": [{"slot_body": h.slots[sl], "args": args, "model": None}]}})
    cov = ctx.coverage
    cov["explanation"] = ("PARTIAL. Decided: (a) Coq theorems that every float conversion/operator is bit-for-bit the bare-number expression with the factor folded to one "
                          "constant (no residual add/sub; identity for the base unit; sensitive to the -0.0/+0.0 ConstantOp choice), checked against the compiled crate by "
                          "comparing Quantity::new/get with a separately compiled bare-number reference function on every value class for selected units; (b) capability "
                          "equality quantity <-> storage type for 16 traits (serde's two included) x 11 storage types, and for quantities of three non-default kinds, by compile probes; (c) size/align/niche equality; (d) the declaration of struct "
                          "Quantity (repr attribute, field kinds) and the attributes and bodies of to_base/from_base/change_base are re-read from src/system.rs on every run and "
                          "theorems state: repr(transparent) over two PhantomData and the value (hence size/align/ABI of the storage type by Rust's layout rules), "
                          "#[inline(always)] on the three functions, bodies equal to the model's functions; (e) validation of (d) against the compiler: a catalogue of "
                          "quantity-level functions vs bare-number references (harness/irprobe.rs) compiled in release mode, LLVM IR signature (call ABI) and body compared. "
                          "Machine-code identity is thus observed on the catalogue, not proved for all programs.")
    cov["ir_pairs"] = {n: ("identical: " + d_) if same else ("DIFFERENT: " + d_[:200]) for n, same, d_ in ir_pairs}
    cov["ir_pairs_identical"] = sum(1 for _n, same, _d in ir_pairs if same)
    cov["evaluations"] = nfold + caps_checked + len(CAP_TYPES)
    cov["distinct_nontrivial"] = nfold
    cov["fold_comparisons"] = nfold
    cov["capability_pairs_checked"] = caps_checked
    cov["capabilities"] = cap_table
    cov["spec_failures"] = len(bad)
    cov["samples"] = [{"case": a, "implementation": impl.get(c)} for c, _, a in ctx.rng.fork("s").sample(cases, 4)]
