"""C05 — the SI unit tables are mutually coherent and anchored."""
from fractions import Fraction

from .. import common as C
from .. import coqbuild, floatcases as FC, tables as T
from ..harness import Harness, FEATURE_SETS

PROPS = "theories/Props/C05.v"
MODULE = "Props.C05"
SUPPORT = ["theories/Spec/Names.v", "theories/Spec/Anchors.v", "theories/Spec/C05Defs.v"]
RS, US = "\x01", "\x02"


def reg_slot(q):
    qm = q["module"]
    lines = []
    for u in q["units"]:
        n = u["name"]
        lines.append(f'        v.push(format!("{{}}:{{}}:{{}}:{{}}:{{}}:{{}}", hex64(<m::{n} as uom::Conversion<f64>>::coefficient()), '
                     f'hex64(<m::{n} as uom::Conversion<f64>>::constant(uom::ConstantOp::Add)), '
                     f'hex64(<m::{n} as uom::Conversion<f64>>::constant(uom::ConstantOp::Sub)), '
                     f'hex32(<m::{n} as uom::Conversion<f32>>::coefficient()), '
                     f'hex32(<m::{n} as uom::Conversion<f32>>::constant(uom::ConstantOp::Add)), '
                     f'hex32(<m::{n} as uom::Conversion<f32>>::constant(uom::ConstantOp::Sub))));')
    body = "\n".join(lines)
    return f"""    use uom::si::{qm} as m;
    use uom::si::Dimension;
    use uom::typenum::Integer;
    let mut v: Vec<String> = Vec::new();
    match a[0] {{
        "reg" => {{
            for u in m::units() {{
                v.push(format!("{{:?}}\\x02{{}}\\x02{{}}\\x02{{}}", u, u.abbreviation(), u.singular(), u.plural()));
            }}
        }}
        "coef" => {{
{body}
        }}
        "dim" => {{
            type D = m::Dimension;
            v.push(format!("{{}} {{}} {{}} {{}} {{}} {{}} {{}}", <D as Dimension>::L::to_i32(), <D as Dimension>::M::to_i32(), <D as Dimension>::T::to_i32(),
                <D as Dimension>::I::to_i32(), <D as Dimension>::Th::to_i32(), <D as Dimension>::N::to_i32(), <D as Dimension>::J::to_i32()));
            v.push(std::any::type_name::<<D as Dimension>::Kind>().to_string());
            v.push(m::description().to_string());
        }}
        _ => return "BADOP".to_string(),
    }}
    v.join("\\x01")"""


def run(ctx):
    if not ctx.translate():
        return
    t = ctx.tables
    proof_ok = ctx.proof_gate(PROPS, MODULE, SUPPORT)
    incoherent = None
    if not proof_ok:
        # search for the concrete unit: the list-returning form of the same checker, evaluated by the kernel VM
        incoherent = find_incoherent(ctx)
        if incoherent:
            for (m, n) in incoherent[:5]:
                u = t.unit(m, n)
                ctx.violation({"kind": "table", "theorem": "c05_composable_units_coherent", "unit": f"{m}::{n}",
                               "declared_coefficient": u["coef"], "declared_coefficient_exact": u["coef_q"], "dimension": t.qmap[m]["dim"],
                               "what": "the identifier composes (prefixes / other units / per, square, cubic, squared, cubed) to a different coefficient or dimension than the unit declares",
                               "source_line": u.get("line")})
        diag = table_diagnostics()
        for thm, what, entries in diag:
            for e in entries[:3]:
                ctx.violation({"kind": "table", "theorem": thm, "entry": e, "what": what, "declared": describe(t, e)})
        if not incoherent and not any(entries for _, _, entries in diag):
            ctx.violation({"kind": "proof", "obligation": f"{PROPS}: {getattr(ctx, 'proof_error', '')[-2500:]}"}, no_input=True)
    # ---- tie of the translated tables to the compiled crate: registry, labels, dimensions, coefficient bits
    ok, out = coqbuild.build_runner()
    if not ok:
        ctx.violation({"kind": "runner", "obligation": "extraction/compilation of the model runner failed", "log": out[-2000:]}, no_input=True)
        return
    h = Harness("c05reg", FEATURE_SETS["default"])
    cases, meta = [], {}
    for q in t.quantities:
        slot = h.slot(reg_slot(q))
        for op in ("reg", "coef", "dim"):
            cid = f"{op}{len(cases)}"
            cases.append((cid, slot, [op]))
            meta[cid] = (op, q)
    ctx.log(f"{len(h.slots)} slots; building registry harness")
    if not h.build():
        ctx.log(h.build_log[-3000:])
        ctx.violation({"kind": "harness-build", "obligation": "the registry/coefficient harness no longer compiles against /repo (a declared unit is missing from the crate, or the registry API changed)",
                       "log": h.build_log[-3000:]}, no_input=True)
        return
    impl = h.run(cases)
    # model evaluation of every coefficient / offset expression
    mlines = []
    for q in t.quantities:
        for u in q["units"]:
            for ty in ("f64", "f32"):
                mlines.append(f"k:{q['module']}:{u['name']}:{ty} {ty} std (coef {T.sexp(u['coef'])})")
                if u["const"] is not None:
                    mlines.append(f"c:{q['module']}:{u['name']}:{ty} {ty} std (coef {T.sexp(u['const'])})")
    model = coqbuild.run_model(mlines)
    bad = []
    nunits = 0
    ncoef = 0
    for cid, slot, args in cases:
        op, q = meta[cid]
        got = impl.get(cid)
        qm = q["module"]
        if got is None or got in ("PANIC", "BADOP"):
            bad.append({"quantity": qm, "what": f"harness answered {got} for {op}"})
            continue
        recs = got.split(RS)
        if op == "reg":
            want = [US.join([u["name"], u["abbr"], u["sing"], u["plur"]]) for u in q["units"]]
            # Debug of the registry enum prints `name(name)`: keep the variant name
            recs = [r.split(US)[0].split("(")[0] + US + US.join(r.split(US)[1:]) for r in recs]
            if recs != want:
                diff = [(a, b) for a, b in zip(recs + [None] * len(want), want + [None] * len(recs)) if a != b][:3]
                bad.append({"quantity": qm, "what": "units() registry differs from the declared units (name, abbreviation, singular, plural; in order)",
                            "registry_count": len(recs), "declared_count": len(want), "first_differences": diff})
            nunits += len(want)
        elif op == "dim":
            dims = [int(x) for x in recs[0].split()]
            kind = recs[1].replace("dyn ", "").split("::")[-1]
            if dims != q["dim"] or kind != q["kind"]:
                bad.append({"quantity": qm, "what": "Dimension exponents / Kind of the compiled alias differ from the translated dimension block",
                            "compiled": [dims, recs[1]], "translated": [q["dim"], q["kind"]]})
        else:
            for u, rec in zip(q["units"], recs):
                f = rec.split(":")
                for ty, (k, ca, cs) in (("f64", f[0:3]), ("f32", f[3:6])):
                    ncoef += 1
                    wk = FC.canon_model(model.get(f"k:{qm}:{u['name']}:{ty}", "?").strip(), ty)
                    if u["const"] is not None:
                        wc = FC.canon_model(model.get(f"c:{qm}:{u['name']}:{ty}", "?").strip(), ty)
                        wa, ws = wc, wc
                    else:
                        wa = FC.hexbits(FC.special_values(ty)["-0"], ty)
                        ws = FC.hexbits(FC.special_values(ty)["+0"], ty)
                    if (k, ca, cs) != (wk, wa, ws):
                        bad.append({"quantity": qm, "unit": u["name"], "storage": ty,
                                    "what": "coefficient()/constant() bits of the compiled crate differ from the translated expression evaluated in the model",
                                    "compiled": [k, ca, cs], "model": [wk, wa, ws]})
    for b in bad[:5]:
        b["kind"] = "translator-validation"
        ctx.violation(b, no_input=False)
    cov = ctx.coverage
    rs = t.reading_stats
    cov["evaluations"] = nunits + ncoef
    cov["distinct_nontrivial"] = rs.get("with_readings", 0)
    cov["exhaustive"] = True
    cov["rule"] = ("exhaustive over the regenerated tables: every declared unit; non-trivial = identifier has a composition reading "
                   "(certificate checked in Coq); registry/labels/dimension/kind of every quantity and coefficient()/constant() bits (f32, f64) of every "
                   "unit compared with the compiled crate")
    cov["units"] = rs.get("units")
    cov["units_with_reading"] = rs.get("with_readings")
    cov["registry_units_compared"] = nunits
    cov["coefficient_bits_compared"] = ncoef
    cov["disagreements_checked"] = len(bad)
    cov["samples"] = [{"unit": "velocity::kilometer_per_hour", "reading": "kilo meter / hour", "declared": t.unit("velocity", "kilometer_per_hour")["coef"]},
                      {"registry_record": (impl.get(cases[0][0]) or "")[:200]}]
    if incoherent is not None:
        cov["incoherent_units"] = incoherent[:20]


def describe(t, e):
    """What the source declares for a table entry named by a diagnostic (unit -> coefficient/offset, prefix -> value)."""
    if isinstance(e, (list, tuple)) and len(e) == 2 and e[0] in t.qmap:
        try:
            u = t.unit(e[0], e[1])
            return {"coefficient": u["coef"], "exact": u["coef_q"], "offset": u["const"], "source_line": u.get("line")}
        except KeyError:
            return None
    if isinstance(e, str) and e in t.d.get("prefixes", {}):
        return {"prefix_value": t.prefix_q[e]}
    return None


def table_diagnostics():
    """Evaluate, inside Coq, the list-returning forms of the table theorems (Spec/C05Defs.v): which entries fail."""
    import os
    import re
    wd = C.ensure_dir(os.path.join(C.BUILD, "audit"))
    ok, out = coqbuild.make(["theories/Spec/C05Defs.vo"])
    if not ok:
        return []
    names = [("c05_anchors_exact", "failing_exact_anchors", "an exactly defined anchor unit does not have its defined value"),
             ("c05_anchors_offsets", "failing_offset_anchors", "a temperature offset differs from its defined value"),
             ("c05_anchors_seven_digit", "failing_seven_digit_anchors", "a unit deviates from its defined value by more than 5e-7"),
             ("c05_reference_values", "failing_reference_values", "a primitive unit differs from its frozen reference value (Spec/RefAnchors.v)"),
             ("c05_anchors_turn", "failing_turn_anchors", "an angle / solid-angle unit is not the fraction of a turn its name says (5e-7)"),
             ("c05_prefix_table", "failing_prefixes", "a prefix! arm is not the power of ten / of 1024 its name denotes"),
             ("c05_coherent_unit_exists", "quantities_without_coherent_unit", "a quantity has no unit with coefficient exactly 1 and no offset"),
             ("c05_base_units_one", "failing_base_units", "a base unit of system! is not coefficient 1 / offset-free / of dimension e_i")]
    src = ["From Coq Require Import ZArith QArith List String Bool.", "From UomV Require Import Model.Tables Spec.C05Defs.", "Open Scope string_scope."]
    for thm, d, _ in names:
        src.append(f'Goal True. idtac "@@ {thm}". exact I. Qed.')
        src.append(f"Eval vm_compute in {d}.")
    with open(os.path.join(wd, "C05Diag.v"), "w") as f:
        f.write("\n".join(src) + "\n")
    rc, out = C.sh(["coqc", "-noglob", "-Q", os.path.join(C.COQ, "theories"), "UomV", "C05Diag.v"], cwd=wd, timeout=900)
    if rc != 0:
        return []
    res = []
    chunks = out.split("@@ ")[1:]
    for (thm, d, what), ch in zip(names, chunks):
        body = ch.split("\n", 1)[1] if "\n" in ch else ""
        pairs = re.findall(r'\("([a-z_0-9]+)",\s*"([a-z_0-9]+)"\)', body)
        singles = [] if pairs else re.findall(r'"([a-z_0-9]+)"', body)
        res.append((thm, what, [list(p) for p in pairs] or singles))
    return res


def find_incoherent(ctx):
    """Evaluate the list-returning checker (known finding excluded) inside Coq; returns [(module, unit)] or None."""
    import os
    import re
    wd = C.ensure_dir(os.path.join(C.BUILD, "audit"))
    ok, out = coqbuild.make(["theories/Gen/SiReadings.vo", "theories/Spec/Anchors.vo"])
    if not ok:
        return None
    src = """From Coq Require Import ZArith QArith List String Bool.
From UomV Require Import Model.Tables Spec.Names Spec.Anchors Gen.SiTables Gen.SiReadings.
Import ListNotations. Open Scope string_scope.
Definition nist_rounded : list (string * string) := [
  ("volume", "acre_foot"); ("energy", "foot_poundal"); ("volume", "cubic_inch"); ("volume", "cubic_foot");
  ("volume", "cubic_yard"); ("energy", "foot_pound"); ("molar_energy", "foot_pound_force_per_mole");
  ("area", "square_yard"); ("area", "square_mile"); ("volume", "cubic_mile"); ("inverse_velocity", "minute_per_mile")].
Definition in_list (l : list (string * string)) (m n : string) : bool :=
  existsb (fun p => String.eqb (fst p) m && String.eqb (snd p) n) l.
Definition tol (m n : string) : Q := if in_list nist_rounded m n then (2 # 1000000)%Q else (1 # 1000000000000000)%Q.
Definition known : list (string * string) := [("thermal_conductance", "watt_per_meter_degree_celsius")].
Eval vm_compute in (incoherent si_quantities si_prefixes tol (in_list known) si_readings).
"""
    with open(os.path.join(wd, "Incoherent.v"), "w") as f:
        f.write(src)
    rc, out = C.sh(["coqc", "-noglob", "-Q", os.path.join(C.COQ, "theories"), "UomV", "Incoherent.v"], cwd=wd, timeout=900)
    if rc != 0:
        return None
    return re.findall(r'\("([a-z_0-9]+)",\s*"([a-z_0-9]+)"\)', out)
