"""Units added AFTERWARDS through the public unit! macro (the arm a downstream crate uses).  "Every unit of every quantity"
includes those: the conversion, formatting and rounding streams each carry these two (a length whose singular and plural
differ, an offset temperature scale)."""

PRELUDE = """
pub mod add_length {
    unit! {
        system: uom::si;
        quantity: uom::si::length;
        @smoot: 1.702_E0; "smt", "smoot", "smoots";
    }
}
pub mod add_temperature {
    unit! {
        system: uom::si;
        quantity: uom::si::thermodynamic_temperature;
        @degree_reaumur: 1.25_E0, 2.185_2_E2; "°Ré", "degree Réaumur", "degrees Réaumur";
    }
}
pub use add_length::smoot;
pub use add_temperature::degree_reaumur;
"""

UNITS = [
    ("length", {"name": "smoot", "abbr": "smt", "sing": "smoot", "plur": "smoots", "coef": {"lit": ["1702", -3]}, "const": None, "coef_q": ["1702", "1000"], "added": True}),
    ("thermodynamic_temperature", {"name": "degree_reaumur", "abbr": "°Ré", "sing": "degree Réaumur", "plur": "degrees Réaumur", "coef": {"lit": ["125", -2]},
                                   "const": {"lit": ["21852", -2]}, "coef_q": ["5", "4"], "added": True}),
]


def pairs(t):
    return [(t.qmap[qm], u) for qm, u in UNITS]


def repath(body, q, u):
    """A slot body written for a built-in unit, re-addressed to an added one (in scope through `use common::*`)."""
    return body.replace(f"uom::si::{q['module']}::{u['name']}", u["name"])


def lookup(t, qm, un):
    for m, u in UNITS:
        if m == qm and u["name"] == un:
            return u
    return t.unit(qm, un)
