"""C09 — temperature points are affine, temperature intervals are linear."""
from fractions import Fraction

from .. import common as C
from .. import coqbuild, floatcases as FC, tables as T, valgen as VG
from ..harness import Harness
from ..stypes import STYPES, parse_expr, show_expr, prelude_for, model_val, canon_model_out
from . import binops as B
from . import convx as X
from .. import progs as PG

PROPS = "theories/Props/C09.v"
MODULE = "Props.C09"
SUPPORT = ["theories/Proofs/ExactP.v", "theories/Proofs/MixedP.v"]
FEATURES = ["autoconvert", "f32", "f64", "bigrational", "si", "std"]
TYPES = ["f64", "f32", "bigrational"]
# base-unit sets differing in the temperature base unit only
TBASES = {"si": "kelvin", "mk": "millikelvin", "kk": "kilokelvin"}


def base_names(b):
    return ("meter", "kilogram", "second", "ampere", TBASES[b], "mole", "candela")


def units_type(b, ty):
    rt = STYPES[ty]["rust"]
    return f"uom::si::SI<{rt}>" if b == "si" else f"tb_{b}_{ty}::Units"


def prelude(types):
    out = [prelude_for(types)]
    for b in TBASES:
        if b == "si":
            continue
        for ty in types:
            out.append(f"pub mod tb_{b}_{ty} {{ ISQ!(uom::si, {STYPES[ty]['rust']}, ({', '.join(base_names(b))})); }}")
    return "\n".join(out) + "\n"


from . import added as AD
ADDED_POINTS = {u["name"]: u for m, u in AD.UNITS if m == "thermodynamic_temperature"}     # an offset scale added downstream with unit!


def slot(ttu, tiu, bl, br, ty):
    if ttu in ADDED_POINTS:
        return slot("kelvin", tiu, bl, br, ty).replace("type NP = uom::si::thermodynamic_temperature::kelvin;", f"type NP = {ttu};")
    rt = STYPES[ty]["rust"]
    return f"""    type V = {rt};
    type P = uom::si::thermodynamic_temperature::ThermodynamicTemperature<{units_type(bl, ty)}, V>;
    type PR = uom::si::thermodynamic_temperature::ThermodynamicTemperature<{units_type(br, ty)}, V>;
    type I = uom::si::temperature_interval::TemperatureInterval<{units_type(br, ty)}, V>;
    type IL = uom::si::temperature_interval::TemperatureInterval<{units_type(bl, ty)}, V>;
    type NP = uom::si::thermodynamic_temperature::{ttu};
    type NI = uom::si::temperature_interval::{tiu};
    let p = |s: &str| -> V {{ {parse_expr(ty, 's')} }};
    let sh = |v: &V| -> String {{ {show_expr(ty, 'v.clone()')} }};
    let t = P::new::<NP>(p(a[1]));
    let d = I::new::<NI>(p(a[2]));
    let (ts, ds) = (sh(&t.value), sh(&d.value));
    let r: P = match a[0] {{
        "add" => t + d,
        "sub" => t - d,
        "addas" => {{ let mut x = t; x += d; x }}
        "subas" => {{ let mut x = t; x -= d; x }}
        "radd" => {{
            let dl = IL::new::<NI>(p(a[2])); let tr = PR::new::<NP>(p(a[1]));
            let (trs, dls) = (sh(&tr.value), sh(&dl.value));
            let r2: P = dl + tr;
            return format!("{{}} {{}} {{}} {{}}", trs, dls, sh(&r2.value), sh(&r2.get::<NP>()));
        }}
        _ => return "BADOP".to_string(),
    }};
    format!("{{}} {{}} {{}} {{}}", ts, ds, sh(&r.value), sh(&r.get::<NP>()))"""


def anchor_slot(bl, ty):
    """0 degC = 273.15 K = 32 degF, asked of the implementation itself (the numbers are the property's, not the tables')."""
    rt = STYPES[ty]["rust"]
    return f"""    type V = {rt};
    type P = uom::si::thermodynamic_temperature::ThermodynamicTemperature<{units_type(bl, ty)}, V>;
    use uom::si::thermodynamic_temperature::{{kelvin, degree_celsius, degree_fahrenheit}};
    let p = |s: &str| -> V {{ {parse_expr(ty, 's')} }};
    let sh = |v: &V| -> String {{ {show_expr(ty, 'v.clone()')} }};
    let c0 = P::new::<degree_celsius>(p(a[1]));
    let k = P::new::<kelvin>(p(a[2]));
    let f = P::new::<degree_fahrenheit>(p(a[3]));
    format!("{{}} {{}} {{}} {{}} {{}} {{}}", sh(&c0.get::<kelvin>()), sh(&c0.get::<degree_fahrenheit>()), sh(&k.get::<degree_celsius>()), sh(&k.get::<degree_fahrenheit>()),
            sh(&f.get::<degree_celsius>()), sh(&f.get::<kelvin>()))"""


def run(ctx):
    if not ctx.translate():
        return
    t = ctx.tables
    if not ctx.proof_gate(PROPS, MODULE, SUPPORT):
        ctx.violation({"kind": "proof", "obligation": f"{PROPS}: {getattr(ctx, 'proof_error', '')[-1500:]}"}, no_input=True)
    ok, out = coqbuild.build_runner()
    if not ok:
        ctx.violation({"kind": "runner", "obligation": "extraction/compilation of the model runner failed", "log": out[-2000:]}, no_input=True)
        return
    quick = ctx.tier == "quick"
    qt, qi = t.qmap["thermodynamic_temperature"], t.qmap["temperature_interval"]
    h = Harness("c09", FEATURES, prelude=prelude(TYPES) + AD.PRELUDE)
    d = qt["dim"]
    dz = T.zlist(d)
    cases, meta = [], {}
    pairs_b = [("si", "si"), ("si", "mk"), ("mk", "kk"), ("kk", "si"), ("mk", "mk")]
    ttus = qt["units"] if not quick else [u for u in qt["units"] if u["name"] in ("kelvin", "degree_celsius", "degree_fahrenheit", "degree_rankine", "millikelvin", "kilokelvin")] + ctx.rng.fork("tt").sample(qt["units"], 3)
    ttus = list(ttus) + list(ADDED_POINTS.values())
    for ty in TYPES:
        for (bl, br) in pairs_b:
            for pu in ttus:
                tius = qi["units"] if not quick else [u for u in qi["units"] if u["name"] in ("degree_celsius", "degree_fahrenheit", "kelvin")] + ctx.rng.fork(f"ti{pu['name']}").sample(qi["units"], 1)
                for iu in tius:
                    sl = h.slot(slot(pu["name"], iu["name"], bl, br, ty))
                    rng = ctx.rng.fork(f"{ty}:{bl}:{br}:{pu['name']}:{iu['name']}")
                    vals = [("0", "1"), ("-40", "72"), ("-273.15", "0"), ("1000000", "-0.5"), ("20", "5"), ("-0.0", "0.25")]
                    vals += [(str(rng.below(4000) - 300 + rng.below(100) / 100), str(rng.below(200) - 100 + rng.below(8) / 8)) for _ in range(2 if quick else 10)]
                    for (tv, dv) in vals:
                        ft, fd = Fraction(tv), Fraction(dv)
                        if B.is_float(ty):
                            tt_, dt_ = VG.val_text(ty, nearest(ft, ty, tv)), VG.val_text(ty, nearest(fd, ty, dv))
                        else:
                            tt_, dt_ = VG.val_text(ty, ft), VG.val_text(ty, fd)
                        for op in ("add", "sub", "addas", "subas", "radd"):
                            cid = f"t{len(cases)}"
                            cases.append((cid, sl, [op, tt_, dt_]))
                            meta[cid] = (ty, bl, br, pu, iu, op, tt_, dt_, sl)
    anchor_cases = {}
    for ty in TYPES:
        for bl in TBASES:
            sl = h.slot(anchor_slot(bl, ty))
            cid = f"an{len(anchor_cases)}"
            if B.is_float(ty):
                args = [VG.val_text(ty, nearest(Fraction(x), ty, x)) for x in ("0", "273.15", "32")]
            else:
                args = [VG.val_text(ty, Fraction(x)) for x in ("0", "273.15", "32")]
            anchor_cases[cid] = (ty, bl, sl, ["anchor"] + args)
    ctx.log(f"{len(h.slots)} slots, {len(cases)} cases; building harness")
    if not h.build():
        ctx.log(h.build_log[-3000:])
        ctx.violation({"kind": "harness-build", "obligation": "the temperature point/interval harness no longer compiles against /repo", "log": h.build_log[-3000:]}, no_input=True)
        return
    impl = h.run(cases + [(cid, v[2], v[3]) for cid, v in anchor_cases.items()])
    # model, stage by stage, each stage fed with the implementation's previous stage
    mlines = []
    Ub = {b: T.sexp_list(t.base_unit_exprs(base_names(b))) for b in TBASES}
    for cid, sl, args in cases:
        ty, bl, br, pu, iu, op, tv, dv, _ = meta[cid]
        got = impl.get(cid)
        if got in (None, "PANIC", "BADOP"):
            continue
        ts, ds, rs, rb = got.split(" ")
        cls = STYPES[ty]["cls"]
        if "nan" in (ts, ds, rs):
            continue
        pb, ib = (br, bl) if op == "radd" else (bl, br)       # base of the point operand / of the interval operand
        mlines.append(f"{cid}.t {cls} std (new {Ub[pb]} {dz} {T.sexp(pu['coef'])} {T.sexp(pu['const'])} {model_val(ty, tv)})")
        mlines.append(f"{cid}.d {cls} std (new {Ub[ib]} {dz} {T.sexp(iu['coef'])} {T.sexp(iu['const'])} {model_val(ty, dv)})")
        if op == "radd":
            mlines.append(f"{cid}.r {cls} std (bin 1 add {Ub[bl]} {Ub[br]} {dz} {model_val(ty, ds)} {model_val(ty, ts)})")
        else:
            mlines.append(f"{cid}.r {cls} std (bin 1 {'add' if 'add' in op else 'sub'} {Ub[bl]} {Ub[br]} {dz} {model_val(ty, ts)} {model_val(ty, ds)})")
        mlines.append(f"{cid}.g {cls} std (get {Ub[bl]} {dz} {T.sexp(pu['coef'])} {T.sexp(pu['const'])} {model_val(ty, rs)})")
    model = coqbuild.run_model(mlines)
    ctx.log(f"implementation answered {len(impl)}, model answered {len(model)}")
    ctx.vm_crosscheck(mlines, model)
    disagreements, spec_fail = [], []
    hist, distinct = {}, set()
    checked = 0
    out_of_range = 0
    for cid, sl, args in cases:
        ty, bl, br, pu, iu, op, tv, dv, _ = meta[cid]
        got = impl.get(cid)
        hist[f"{ty}/{bl}<-{br}/{op}"] = hist.get(f"{ty}/{bl}<-{br}/{op}", 0) + 1
        distinct.add((ty, bl, br, pu["name"], iu["name"], op, tv, dv))
        if got in (None, "PANIC", "BADOP"):
            spec_fail.append((cid, f"harness answered {got}"))
            continue
        parts = got.split(" ")
        for stage, val in zip(("t", "d", "r", "g"), parts):
            m = model.get(f"{cid}.{stage}")
            if m is not None and canon_model_out(ty, m.strip()) != val:
                disagreements.append((cid, stage, val, canon_model_out(ty, m.strip())))
                break
        # spec: read back in the point's scale = t +/- delta * k'/k
        k, c = T.frac(pu["coef"]), T.frac(pu["const"]) if pu["const"] is not None else Fraction(0)
        k2 = T.frac(iu["coef"])
        tq, dq = X.parse_value(ty, tv), X.parse_value(ty, dv)
        rb = X.parse_value(ty, parts[3])
        if tq is None or dq is None:
            continue
        ex = tq + dq * k2 / k if "add" in op else tq - dq * k2 / k
        if B.is_float(ty):
            # the accuracy clause presupposes that no exact intermediate leaves the normal range of the storage type
            # (1 yottakelvin read in attokelvin is 1e42: not an f32); the bit-exact comparison with the model above still applies
            f_ = FC.FMT[ty]
            hi = Fraction(2) ** ((1 << (f_["ew"] - 1)) - 1) / 1000
            lo = Fraction(1, 2 ** ((1 << (f_["ew"] - 1)) - 2)) * 1000
            inter = [ex, tq, dq, (tq + c) * k, dq * k2, (ex + c) * k, dq * k2 / k, k2 / k, 1 / k]
            if any(abs(x) >= hi or (x != 0 and abs(x) <= lo) for x in inter):
                out_of_range += 1
                continue
        if rb is None:
            spec_fail.append((cid, f"read-back is {parts[3]}"))
            continue
        checked += 1
        if B.is_float(ty):
            u_ = Fraction(1, 2 ** FC.FMT[ty]["prec"])
            scale = max(abs(ex), abs(c), abs(tq), abs(dq * k2 / k))
            tol = 64 * u_ * scale
            if abs(rb - ex) > tol:
                spec_fail.append((cid, f"read-back {float(rb):.10g} differs from t {'+' if 'add' in op else '-'} delta k'/k = {float(ex):.10g} by more than a few ulps of {float(scale):.4g}"))
        else:
            # exact storage: coefficients are from_f64 of the f64 literals, so compare with the formula on those
            kf, cf, k2f = coef_f64(pu["coef"]), (coef_f64(pu["const"]) if pu["const"] is not None else Fraction(0)), coef_f64(iu["coef"])
            exf = tq + dq * k2f / kf if "add" in op else tq - dq * k2f / kf
            if rb != exf:
                spec_fail.append((cid, f"exact storage: read-back {rb} != {exf}"))

    def replay_case(cid, extra):
        ty, bl, br, pu, iu, op, tv, dv, sl = meta[cid]
        args = next(a for c, s, a in cases if c == cid)
        return dict({"kind": "temperature point +/- interval", "storage": ty, "point_unit": pu["name"], "interval_unit": iu["name"],
                     "left_temperature_base": TBASES[bl], "right_temperature_base": TBASES[br], "op": op, "point": tv, "interval": dv,
                     "implementation (stored point, stored interval, stored result, read-back)": impl.get(cid),
                     "harness": {"features": h.features, "prelude": h.prelude,
                                 "cases": [{"slot_body": h.slots[sl], "args": args, "model": None}]}}, **extra)

    for cid, why in spec_fail[:5]:
        ctx.violation(replay_case(cid, {"spec": "C09: (t in scale s) +/- (delta in scale s') read in s = t +/- delta k'/k", "detail": why}))
    if disagreements and not spec_fail:
        cid, stage, got, want = disagreements[0]
        ctx.violation(replay_case(cid, {"obligation": "correspondence of the temperature operators with Model.Quantity (stage " + stage + ")",
                                        "model": want, "count": len(disagreements)}), no_input=True)
    cov = ctx.coverage
    cov["evaluations"] = len(cases)
    cov["distinct_nontrivial"] = len(distinct)
    cov["rule"] = ("point (24 units; quick: K, degC, degF, degR, mK, kK + 3 rotating) +/- interval (24 units; quick: K, degC, degF + 1 rotating) with + - += -= and "
                   "interval + point, f64/f32/BigRational, temperature base units kelvin/millikelvin/kilokelvin on either side (5 ordered pairs); values incl. "
                   "-273.15, -40, 0, -0.0, 1e6; each stage (stored point, stored interval, stored result, read-back) compared with the extracted model; "
                   "read-back compared with t +/- delta k'/k exactly (BigRational) / to 64 ulps of the largest term (floats); the same-base cases of K, degC, degF, mK rerun in a build "
                   "without autoconvert and compared answer by answer; programs: From/Into between point and interval in "
                   "every direction and base combination, point +/- point, point +/- interval, interval - point, negation, with positive controls, judged by rustc with "
                   "and without autoconvert against the typing model")
    # 0 degC = 273.15 K = 32 degF in every storage precision and temperature base unit: the property's own numbers
    anchor_bad = []
    for cid, (ty, bl, sl, args) in anchor_cases.items():
        got = (impl.get(cid) or "").split(" ")
        want = [Fraction("273.15"), Fraction(32), Fraction(0), Fraction(32), Fraction(0), Fraction("273.15")]
        names = ["0 degC in K", "0 degC in degF", "273.15 K in degC", "273.15 K in degF", "32 degF in degC", "32 degF in K"]
        if len(got) != 6:
            anchor_bad.append((cid, f"harness answered {impl.get(cid)}"))
            continue
        tol = Fraction(1, 10 ** 4) if ty == "f32" else Fraction(1, 10 ** 11)      # absolute, in kelvin-sized units (values are <= 300)
        for g, w, nm in zip(got, want, names):
            gv = X_parse(ty, g)
            if gv is None or abs(gv - w) > tol:
                anchor_bad.append((cid, f"{nm}: got {g if gv is None else float(gv)!r}, the property says {float(w)}"))
                break
    for cid, why in anchor_bad[:3]:
        ty, bl, sl, args = anchor_cases[cid]
        ctx.violation({"kind": "temperature anchor", "spec": "C09: 0 degC = 273.15 K = 32 degF for every storage precision and base-unit set", "storage": ty,
                       "temperature_base": TBASES[bl], "detail": why, "implementation": impl.get(cid),
                       "harness": {"features": h.features, "prelude": h.prelude, "cases": [{"slot_body": h.slots[sl], "args": args}]}})
    cov["anchor_cases"] = len(anchor_cases)
    cov["anchor_failures"] = len(anchor_bad)
    # the same programs built WITHOUT autoconvert (same-base pairs only: the others do not compile there) give the same answers
    hn = Harness("c09n", [f for f in FEATURES if f != "autoconvert"], prelude=prelude(TYPES) + AD.PRELUDE)
    ncases, nref = [], {}
    slot_n = {}
    for cid, sl, args in cases:
        ty, bl, br, pu, iu, op, tv, dv, _ = meta[cid]
        if bl != br or pu["name"] not in ("kelvin", "degree_celsius", "degree_fahrenheit", "millikelvin") or iu["name"] not in ("degree_celsius", "degree_fahrenheit", "kelvin"):
            continue
        key = (pu["name"], iu["name"], bl, br, ty)
        if key not in slot_n:
            slot_n[key] = hn.slot(slot(pu["name"], iu["name"], bl, br, ty))
        ncases.append((cid, slot_n[key], args))
    noac_diff = []
    if not hn.build():
        ctx.violation({"kind": "harness-build", "obligation": "the temperature point/interval harness no longer compiles against /repo without autoconvert",
                       "log": hn.build_log[-3000:]}, no_input=True)
    else:
        nimpl = hn.run(ncases)
        for cid, sl, args in ncases:
            if nimpl.get(cid) != impl.get(cid):
                noac_diff.append((cid, nimpl.get(cid)))
        for cid, gotn in noac_diff[:3]:
            ctx.violation(replay_case(cid, {"spec": "C09: point +/- interval in one scale is t +/- d - also in a build without the autoconvert feature (same base units)",
                                            "detail": f"without autoconvert the same program answers {gotn}, with autoconvert {impl.get(cid)} (stored point, stored interval, stored result, read-back)",
                                            "features_without": hn.features}))
    cov["no_autoconvert_same_base_cases"] = len(ncases)
    cov["no_autoconvert_differences"] = len(noac_diff)
    cov["spec_checked"] = checked
    cov["spec_skipped_exact_intermediate_out_of_range"] = out_of_range
    cov["disagreements_checked"] = len(disagreements)
    cov["spec_failures"] = len(spec_fail)
    cov["histogram"] = dict(sorted(hist.items())[:40])
    # programs: no conversion between a point and an interval, no point +/- point (rustc vs the typing model), with positive controls
    from . import c01 as C01
    qts = {q.module: q for q in C01.quantity_types(t)}
    tt0, ti0 = qts["thermodynamic_temperature"], qts["temperature_interval"]
    tt1, ti1 = PG.QT(tt0.dims, tt0.kind, 1, tt0.module, tt0.alias), PG.QT(ti0.dims, ti0.kind, 1, ti0.module, ti0.alias)
    progs = []
    for a_, b_ in [(tt0, ti0), (ti0, tt0), (tt0, ti1), (ti1, tt0), (tt1, ti0), (ti0, tt1)]:
        progs += [PG.P_from(a_, b_, "from"), PG.P_from(a_, b_, "into")]
    for a_, b_ in [(tt0, tt0), (tt0, tt1), (tt0, ti0), (tt0, ti1), (ti0, tt0), (ti1, tt0), (ti0, ti0)]:
        progs += [PG.P_additive(o, a_, b_) for o in ("add", "sub", "addas", "subas")]
    progs += [PG.P_from(tt0, tt0, "from"), PG.P_from(ti0, ti0, "into"), PG.P_from(qts["angle"], qts["ratio"], "from"), PG.P_from(qts["ratio"], qts["angle"], "into"),
              PG.P_unary("neg", tt0), PG.P_unary("neg", ti0)]
    must_reject = set(range(12)) | {i for i in range(12, 12 + 28) if progs[i].sexp.count("TemperatureKind") == 2}   # conversions; point (+|-) point
    st1, _, rv1 = C01.compare(ctx, t, progs, ["autoconvert", "f64", "si", "std"], True, True, "c09p", "C09: which point/interval programs exist")
    st2, _, rv2 = C01.compare(ctx, t, progs, ["f64", "si", "std"], False, True, "c09pn", "C09 (autoconvert disabled): which point/interval programs exist")
    # the property's own oracle, independent of the regenerated tables: these programs must not exist
    for label, rv, feats in (("autoconvert", rv1, ["autoconvert", "f64", "si", "std"]), ("no autoconvert", rv2, ["f64", "si", "std"])):
        for i in sorted(must_reject):
            if rv.get(i, (None,))[0] is True:
                ctx.violation({"kind": "program", "spec": "C09: no operation lets an offset be applied twice or to an interval - this program must not compile",
                               "program": progs[i].rust_fn(f"p{i}"), "note": progs[i].note if hasattr(progs[i], "note") else "", "features": feats,
                               "detail": f"rustc accepts it ({label})",
                               "how_to_replay": "put PRELUDE (vlib/progs.py) and this function into a crate depending on uom (path /repo) with the listed features; cargo check"})
                break
    cov["saturating_programs_integer_storage"] = PG.check_saturating(ctx, "satprobe", "C09: no operation lets an offset be applied twice - two temperature points must not combine, "
                                                                     "also not through num_traits::Saturating at integer storage")
    cov["programs"] = 2 * len(progs)
    cov["rustc"] = {"autoconvert": st1, "no_autoconvert": st2}
    cov["disagreements_checked"] = cov.get("disagreements_checked", 0) + st1["mismatches"] + st2["mismatches"]
    smp = ctx.rng.fork("samples").sample(cases, 6)
    cov["samples"] = [{"storage": meta[c][0], "bases": [meta[c][1], meta[c][2]], "point_unit": meta[c][3]["name"], "interval_unit": meta[c][4]["name"], "args": a,
                       "implementation": impl.get(c)} for c, _, a in smp]


def X_parse(ty, text):
    from . import convx
    try:
        return convx.parse_value(ty, text)
    except (ValueError, ZeroDivisionError):
        return None


def nearest(fr, ty, txt):
    if txt == "-0.0":
        return FC.special_values(ty)["-0"]
    x = float(fr)
    return C.f64_bits(x) if ty == "f64" else C.f32_bits(x)


def coef_f64(e):
    """Exact value of the f64 evaluation of a conversion expression (what from_f64 hands to BigRational)."""
    def ev(x):
        if "lit" in x:
            return float(Fraction(int(x["lit"][0])) * Fraction(10) ** x["lit"][1])
        if "mul" in x:
            return ev(x["mul"][0]) * ev(x["mul"][1])
        if "div" in x:
            return ev(x["div"][0]) / ev(x["div"][1])
        if "neg" in x:
            return -ev(x["neg"])
        return ev(x["body"])
    return Fraction(ev(e))
