"""C03 — float unit conversion on construction/read-back is numerically faithful."""
from fractions import Fraction

from .. import common as C
from .. import coqbuild, floatcases as FC, tables as T
from ..harness import Harness
from . import convlib
from .added import PRELUDE as AD_PRELUDE
from . import added as AD

PROPS = "theories/Props/C03.v"
MODULE = "Props.C03"
SUPPORT = ["theories/Proofs/FloatLemmas.v", "theories/Proofs/ConvFloat.v", "theories/Proofs/Tree.v", "theories/Proofs/PowR.v", "theories/Proofs/ErrBound.v"]


OFFSET_ANCHORS = {"degree_celsius": Fraction("273.15"), "degree_fahrenheit": Fraction("459.67") * 5 / 9}


def run(ctx):
    if not ctx.translate():
        return
    proof_ok = ctx.proof_gate(PROPS, MODULE, SUPPORT)
    if not proof_ok:
        ctx.violation({"kind": "proof", "obligation": f"{PROPS}: {getattr(ctx, 'proof_error', '')[-1500:]}"}, no_input=True)
    ok, out = coqbuild.build_runner()
    if not ok:
        ctx.violation({"kind": "runner", "obligation": "extraction/compilation of the model runner failed", "log": out[-2000:]}, no_input=True)
        return
    t = ctx.tables
    quick = ctx.tier == "quick"
    units = convlib.select_units(t, ctx.rng.fork("units"), 110 if quick else None)
    from . import added as AD
    units = list(units) + AD.pairs(t)
    base_sets = ["si", "cgs", "kgh", "fpm", "mtm", "tiny"]
    ftypes = ["f64", "f32"]
    h = Harness("c03" if quick else "c03t", ["f32", "f64", "si", "std", "autoconvert"],
                prelude=convlib.base_prelude(base_sets, ftypes) + AD_PRELUDE)
    cases = []      # (cid, slot, args)
    mlines = []     # model lines
    alines = []     # accuracy-premise lines
    meta = {}       # cid -> dict
    nvals = 14 if quick else 40
    for ty in ftypes:
        specials = FC.special_values(ty)
        for bs in base_sets:
            if bs == "tiny" and ty == "f32":
                continue
            U = t.base_unit_exprs(T.BASE_SETS[bs])
            for (q, u) in units:
                slot = h.slot(convlib.conv_slot_body(q, u, bs, ty))
                rng = ctx.rng.fork(f"{ty}:{bs}:{q['module']}:{u['name']}")
                vals = list(specials.items())
                for k in range(nvals):
                    vals.append((f"rnd{k}", FC.random_value(rng, ty)))
                for k, b in enumerate(FC.binade_values(rng, ty, 6 if quick else 24)):
                    vals.append((f"binade{k}", b))
                # values around the coherent-unit identity and around 1/coef
                for vname, vb in vals:
                    for d in ("n", "g"):
                        cid = f"c{len(cases)}"
                        cases.append((cid, slot, [d, FC.hexbits(vb, ty)]))
                        op = "new" if d == "n" else "get"
                        mlines.append(f"{cid} {ty} std ({op} {T.sexp_list(U)} {T.zlist(q['dim'])} {T.sexp(u['coef'])} {T.sexp(u['const'])} {vb})")
                        meta[cid] = (ty, bs, q["module"], u["name"], d, vname, vb, slot)
                        if u["const"] is None:
                            # the accuracy theorems (c03_new/get_relative_error): Safe premise and operation count, decided by the extracted safe_q
                            alines.append(f"{cid} a{ty[1:]} std ({op} {T.sexp_list(U)} {T.zlist(q['dim'])} {T.sexp(u['coef'])} - {vb})")
                # published coefficient / constants
                for d in ("c", "ka", "ks"):
                    cid = f"c{len(cases)}"
                    cases.append((cid, slot, [d, "0"]))
                    meta[cid] = (ty, bs, q["module"], u["name"], d, "-", 0, slot)
    ctx.log(f"{len(h.slots)} slots, {len(cases)} cases; building harness")
    if not h.build():
        ctx.log(h.build_log[-3000:])
        ctx.violation({"kind": "harness-build", "obligation": "the C03 harness (new/get of registered units) no longer compiles against /repo",
                       "log": h.build_log[-3000:]}, no_input=True)
        return
    ctx.log("harness built; running implementation and model")
    impl = h.run(cases)
    model = coqbuild.run_model(mlines)
    acc = coqbuild.run_model(alines)
    ctx.log(f"implementation answered {len(impl)}, model answered {len(model)}, accuracy premises decided for {len(acc)}")

    # published coefficients (what the compiled crate reports)
    pub = {}
    for cid, slot, args in cases:
        ty, bs, qm, un, d, *_ = meta[cid]
        if d == "c":
            k = convlib.published(impl.get(cid), ty)
            pub[(ty, qm, un)] = (k, pub.get((ty, qm, un), (None, Fraction(0)))[1])
    for cid, slot, args in cases:
        ty, bs, qm, un, d, *_ = meta[cid]
        if d == "ka" and (ty, qm, un) in pub:
            pub[(ty, qm, un)] = (pub[(ty, qm, un)][0], convlib.published(impl.get(cid), ty))

    # ---- compare
    disagreements = []
    spec_fail = []
    hist = {}
    distinct = set()
    evals = 0
    coef_cache = {}
    thm = {"offset_free_cases": 0, "premise_holds": 0, "instances_checked": 0, "max_ops": 0}
    thm_fail = []
    for cid, slot, args in cases:
        ty, bs, qm, un, d, vname, vb, _ = meta[cid]
        u = AD.lookup(t, qm, un)
        got = impl.get(cid)
        if d in ("c", "ka", "ks"):
            # translator validation for this unit: coefficient()/constant() bits vs model evaluation
            continue
        evals += 1
        want = FC.canon_model(model.get(cid), ty)
        hist[(ty, bs, d)] = hist.get((ty, bs, d), 0) + 1
        if got != want:
            disagreements.append(cid)
        nontrivial = not (bs == "si" and T.frac(u["coef"]) == 1 and u["const"] is None) or vname in ("-0", "nan", "+inf", "-inf", "+minsub")
        if nontrivial:
            distinct.add((ty, bs, qm, un, d, vb))
        # the two offset scales against the property's own numbers (independent of the tables): 0 degC is stored as 273.15 K, 0 degF as 459.67 x 5/9 K
        if qm == "thermodynamic_temperature" and bs == "si" and d == "n" and vname == "+0" and un in OFFSET_ANCHORS and got not in (None, "PANIC", "nan"):
            g_ = FC.bits_to_frac(int(got, 16), ty)
            w_ = OFFSET_ANCHORS[un]
            if abs(g_ - w_) > 4 * FC.ulp_of(w_, ty):
                spec_fail.append((cid, (False, f"new::<{un}>(0) stores {float(g_)!r} K; the scale's zero is {float(w_)!r} K", None)))
        # spec checker on the implementation's answer
        r = convlib.spec_check(t, pub, ty, bs, qm, un, d, vb, got)
        if r is not None and not r[0]:
            spec_fail.append((cid, r))
        # the proved bound itself: where the extracted safe_q decides the Safe premise, the implementation's answer must be within
        # (H^n - 1) |exact| with n the theorem's operation count - no extra slack
        a_ = acc.get(cid)
        if a_ is not None:
            thm["offset_free_cases"] += 1
            sf, nops = (a_.split() + ["0", "0"])[:2]
            if sf == "1":
                thm["premise_holds"] += 1
                ec = convlib.exact_conv(t, pub, ty, bs, qm, un, d, FC.bits_to_frac(vb, ty))
                if ec is not None and got not in (None, "PANIC", "nan") and not FC.is_inf_bits(int(got, 16), ty):
                    ex = ec[0]
                    u_ = Fraction(1, 2 ** FC.FMT[ty]["prec"])
                    bound = ((1 / (1 - u_)) ** int(nops) - 1) * abs(ex)
                    g = FC.bits_to_frac(int(got, 16), ty)
                    thm["instances_checked"] += 1
                    thm["max_ops"] = max(thm["max_ops"], int(nops))
                    if abs(g - ex) > bound:
                        thm_fail.append((cid, (False, f"outside the PROVED bound: |impl - exact| = {float(abs(g - ex)):.3e} > (H^{nops} - 1)|exact| = {float(bound):.3e}")))
                else:
                    thm_fail.append((cid, (False, f"Safe premise holds but the implementation answered {got}")))
    # coefficient / constant validation through the model (runner coefNN)
    clines = []
    for cid, slot, args in cases:
        ty, bs, qm, un, d, *_ = meta[cid]
        if d == "c":
            u = AD.lookup(t, qm, un)
            clines.append(f"{cid} {ty} std (coef {T.sexp(u['coef'])})")
        elif d in ("ka", "ks"):
            u = AD.lookup(t, qm, un)
            if u["const"] is not None:
                clines.append(f"{cid} {ty} std (coef {T.sexp(u['const'])})")
    cmodel = coqbuild.run_model(clines)
    coef_bad = []
    for cid, slot, args in cases:
        ty, bs, qm, un, d, *_ = meta[cid]
        if d not in ("c", "ka", "ks"):
            continue
        got = impl.get(cid)
        if cid in cmodel:
            want = FC.canon_model(cmodel[cid], ty)
        else:
            want = FC.hexbits(FC.special_values(ty)["-0" if d == "ka" else "+0"], ty)
        if got != want:
            coef_bad.append((cid, got, want))

    def replay_case(cid, extra):
        ty, bs, qm, un, d, vname, vb, slot = meta[cid]
        line = next((l for l in mlines if l.startswith(cid + " ")), None)
        args = next(a for c, s, a in cases if c == cid)
        return dict({"kind": "correspondence", "unit": f"{qm}::{un}", "base_set": bs, "storage": ty,
                     "direction": {"n": "new", "g": "get"}.get(d, d), "value_class": vname,
                     "value_bits": FC.hexbits(vb, ty), "implementation": impl.get(cid),
                     "model": FC.canon_model(model.get(cid), ty) if cid in model else None,
                     "harness": {"features": h.features, "prelude": h.prelude,
                                 "cases": [{"slot_body": h.slots[slot], "args": args,
                                            "model": line.split(" ", 1)[1] if line else None}]}}, **extra)

    # ---- decide
    if coef_bad:
        cid, got, want = coef_bad[0]
        ty, bs, qm, un, d, *_ = meta[cid]
        ctx.violation({"kind": "translator-validation", "what": "coefficient()/constant() bits of the compiled crate differ from the "
                       "translated table evaluated in the model", "unit": f"{qm}::{un}", "storage": ty, "which": d,
                       "implementation": got, "model": want, "count": len(coef_bad)}, no_input=False)
    for cid, r in spec_fail[:5]:
        ctx.violation(replay_case(cid, {"kind": "spec", "spec": "C03 ulp bound", "detail": r[1]}))
    for cid, r in thm_fail[:3]:
        ctx.violation(replay_case(cid, {"kind": "theorem-instance", "spec": "c03_new_relative_error / c03_get_relative_error instantiated on this case", "detail": r[1]}))
    if disagreements and not spec_fail:
        # correspondence broken but every implementation answer still satisfies the spec checker
        cid = disagreements[0]
        ctx.violation(replay_case(cid, {"obligation": "bit-exact correspondence Model.Run.f_new/f_get vs Quantity::new/get",
                                        "count": len(disagreements)}), no_input=True)
    elif disagreements:
        ctx.log(f"{len(disagreements)} correspondence disagreements (spec failures reported above)")

    # ---- extraction cross-check by the kernel VM on a sample
    sample = ctx.rng.fork("vm").sample([l for l in mlines], 60 if quick else 300)
    vm_lines = []
    exp = {}
    for l in sample:
        cid, ty_, lib, (op, U, d, coef, const, vb) = convlib.split_model_line(l)
        ctor = "RNew" if op == "new" else "RGet"
        term = (f"run{'64' if ty_ == 'f64' else '32'} LibStd ({ctor} {convlib.coq_cexprs(U)} {convlib.coq_zs(d)} "
                f"{convlib.coq_cexpr(coef)} {convlib.coq_const(const)} {convlib.coq_z(vb)})")
        vm_lines.append((cid, term))
        exp[cid] = model.get(cid)
    bad, out = coqbuild.vm_crosscheck(vm_lines, exp)
    if bad is None:
        ctx.violation({"kind": "vm-crosscheck", "obligation": "vm_compute re-evaluation failed to run", "log": out[-1500:]}, no_input=True)
    elif bad:
        ctx.violation({"kind": "vm-crosscheck", "obligation": "extracted runner disagrees with vm_compute", "cases": bad[:5]}, no_input=True)

    cov = ctx.coverage
    cov["evaluations"] = evals
    cov["distinct_nontrivial"] = len(distinct)
    cov["rule"] = ("cases = (storage f32/f64) x (base set) x (unit) x (new|get) x value class; value classes: signed zeros, subnormals, "
                   "min/max normal, infinities, NaN, 1, 1+-ulp, powers of two, random mantissas over moderate and all binades; units: all "
                   "offset/negative/extreme-coefficient units + a seed-rotated selection (quick) or all units (thorough). non-trivial = "
                   "not (default base and coefficient 1) or a special value; distinct by (storage, base, unit, direction, value bits)")
    cov["disagreements_checked"] = len(disagreements)
    cov["spec_failures"] = len(spec_fail)
    cov["coefficient_checks"] = sum(1 for c in cases if meta[c[0]][4] in ("c", "ka", "ks"))
    cov["vm_crosschecked"] = len(vm_lines)
    cov["units"] = len(units)
    cov["slots"] = len(h.slots)
    cov["histogram"] = {f"{a}/{b}/{'new' if c == 'n' else 'get'}": n for (a, b, c), n in sorted(hist.items())}
    cov["spec_checked"] = convlib.SPEC_STATS.copy()
    cov["accuracy_theorem_instances"] = dict(thm, failures=len(thm_fail))
    some = ctx.rng.fork("samples").sample([c for c in cases if meta[c[0]][4] in ("n", "g")], 6)
    cov["samples"] = [{"unit": f"{meta[c][2]}::{meta[c][3]}", "base": meta[c][1], "storage": meta[c][0], "dir": meta[c][4],
                       "value": FC.hexbits(meta[c][6], meta[c][0]), "implementation": impl.get(c),
                       "model": FC.canon_model(model.get(c), meta[c][0])} for c, _, _ in some]
