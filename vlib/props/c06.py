"""C06 — results do not depend on the base units operands happen to be stored in."""
from fractions import Fraction

from .. import common as C
from .. import coqbuild, floatcases as FC, tables as T, valgen as VG
from ..harness import Harness, FEATURE_SETS
from ..stypes import STYPES, model_val, canon_model_out
from . import binops as B

PROPS = "theories/Props/C06.v"
MODULE = "Props.C06"
SUPPORT = ["theories/Proofs/MixedArith.v", "theories/Proofs/QuantityP.v", "theories/Proofs/ExactP.v", "theories/Proofs/StoragesP.v", "theories/Proofs/MixedP.v", "theories/Proofs/Tree.v", "theories/Proofs/ErrBound.v"]

QUICK_Q = ["velocity", "energy", "thermal_conductivity", "molar_heat_capacity", "length", "electric_potential",
           "luminance", "mass_density"]
BASES = ["si", "cgs", "kgh", "fpm"]
TYPES = ["f64", "f32", "bigrational", "bigint"]
FEATURES = ["autoconvert", "f32", "f64", "bigint", "bigrational", "si", "std"]


TBN = {"si": "kelvin", "mk": "millikelvin", "kk": "kilokelvin"}


def coef_table(t, types):
    """Base-unit coefficients as the model evaluates them (validated against coefficient() by C03)."""
    lines, keys = [], []
    for ty in ("f64", "f32"):
        for bs in BASES:
            for b, name in zip(t.base, T.BASE_SETS[bs]):
                k = (ty, b["name"], name)
                if k in keys:
                    continue
                keys.append(k)
                lines.append(f"k{len(keys) - 1} {ty} std (coef {T.sexp(t.unit(b['name'], name)['coef'])})")
    res = coqbuild.run_model(lines, shards=1)
    out = {}
    for i, k in enumerate(keys):
        out[k] = FC.bits_to_frac(int(res[f"k{i}"]), k[0])
    return out


def run(ctx):
    if not ctx.translate():
        return
    if not ctx.proof_gate(PROPS, MODULE, SUPPORT):
        ctx.violation({"kind": "proof", "obligation": f"{PROPS}: {getattr(ctx, 'proof_error', '')[-1500:]}"}, no_input=True)
    ok, out = coqbuild.build_runner()
    if not ok:
        ctx.violation({"kind": "runner", "obligation": "extraction/compilation of the model runner failed", "log": out[-2000:]}, no_input=True)
        return
    t = ctx.tables
    quick = ctx.tier == "quick"
    quants = QUICK_Q if quick else QUICK_Q + ctx.rng.fork("q").sample([q["module"] for q in t.quantities if q["kind"] == "Kind" and q["module"] not in QUICK_Q], 24)
    npairs = 10 if quick else 40
    coefs = coef_table(t, TYPES)
    h = Harness("binops", FEATURES, prelude=B.prelude(BASES, TYPES))
    tdim = t.qmap["time"]["dim"]
    cases, meta, mlines = [], {}, []
    alines = []
    for ty in TYPES:
        cls = STYPES[ty]["cls"]
        for qm in quants:
            q = t.qmap[qm]
            if ty == "bigint" and qm not in ("length", "velocity", "energy"):
                continue
            d = q["dim"]
            ds = [x + y for x, y in zip(d, tdim)]
            for bsl in BASES:
                for bsr in BASES:
                    bs3 = B.third_base(BASES, bsl, bsr)
                    slot = h.slot(B.mixed_slot(qm, q["alias"], bsl, bsr, ty, bs3))
                    U3 = T.sexp_list(t.base_unit_exprs(T.BASE_SETS[bs3]))
                    Ul = T.sexp_list(t.base_unit_exprs(T.BASE_SETS[bsl]))
                    Ur = T.sexp_list(t.base_unit_exprs(T.BASE_SETS[bsr]))
                    rng = ctx.rng.fork(f"{ty}:{qm}:{bsl}:{bsr}")
                    for k in range(npairs):
                        if B.is_float(ty):
                            sp = list(FC.special_values(ty).values())
                            pick = lambda: rng.choice(sp) if rng.below(5) == 0 else FC.random_value(rng, ty, None, None)
                            va, vb, vc = pick(), pick(), pick()
                        elif cls == "q":
                            va, vb, vc = VG.rat_value(rng, ty), VG.rat_value(rng, ty), VG.rat_value(rng, ty)
                        else:
                            va, vb, vc = VG.int_value(rng, ty), VG.int_value(rng, ty), VG.int_value(rng, ty)
                            if ty == "biguint":
                                va, vb, vc = abs(va), abs(vb), abs(vc)
                        ta, tb, tc = VG.val_text(ty, va), VG.val_text(ty, vb), VG.val_text(ty, vc)
                        ma, mb, mc = model_val(ty, ta), model_val(ty, tb), model_val(ty, tc)
                        ops = list(B.ARITH) + (["hypot", "muladd"] if B.is_float(ty) else [])
                        for op in ops:
                            if op in ("rem", "remas", "div") and not B.is_float(ty) and vb == 0:
                                continue
                            cid = f"c{len(cases)}"
                            args = [op, ta, tb] + ([tc] if op == "muladd" else [])
                            cases.append((cid, slot, args))
                            meta[cid] = (ty, qm, bsl, bsr, op, va, vb, vc, slot)
                            base = {"addas": "add", "subas": "sub", "remas": "rem"}.get(op, op)
                            if cls == "z" and base in ("rem", "div"):
                                mlines.append(f"r{cid} {cls} std (rebase 1 {Ul} {Ur} {T.zlist(d if base == 'rem' else tdim)} {mb})")
                            if base in ("add", "sub", "rem"):
                                mlines.append(f"{cid} {cls} std (bin 1 {base} {Ul} {Ur} {T.zlist(d)} {ma} {mb})")
                            elif base in ("mul", "div"):
                                mlines.append(f"{cid} {cls} std (bin 1 {base} {Ul} {Ur} {T.zlist(tdim)} {ma} {mb})")
                            elif base == "muladd":
                                mlines.append(f"{cid} {cls} std (muladd 1 {Ul} {Ur} {U3} {T.zlist(tdim)} {T.zlist(ds)} {ma} {mb} {mc})")
    # conversions between kinds across base-unit sets (impl_from!): pairs (special kind, default-kind twin) with a non-zero dimension
    kpairs = []
    for a in t.quantities:
        if a["kind"] in ("Kind", "TemperatureKind") or not any(a["dim"]):
            continue
        for b in t.quantities:
            if b["kind"] == "Kind" and b["dim"] == a["dim"]:
                kpairs += [(a, b), (b, a)]
    if quick:
        kpairs = ctx.rng.fork("kpairs").sample(kpairs, 6)
    for ty in ("f64", "f32", "bigrational"):
        cls = STYPES[ty]["cls"]
        for (a, b) in kpairs:
            for bsl in BASES:
                for bsr in BASES:
                    slot = h.slot(B.kind_from_slot(a, b, bsl, bsr, ty))
                    Ul = T.sexp_list(t.base_unit_exprs(T.BASE_SETS[bsl]))
                    Ur = T.sexp_list(t.base_unit_exprs(T.BASE_SETS[bsr]))
                    rng = ctx.rng.fork(f"k:{ty}:{a['module']}:{b['module']}:{bsl}:{bsr}")
                    for k in range(3 if quick else 12):
                        va = (rng.choice(list(FC.special_values(ty).values())) if rng.below(5) == 0 else FC.random_value(rng, ty, None, None)) if B.is_float(ty) else VG.rat_value(rng, ty)
                        ta = VG.val_text(ty, va)
                        for op in ("kfrom", "kinto"):
                            cid = f"c{len(cases)}"
                            cases.append((cid, slot, [op, ta]))
                            meta[cid] = (ty, f"{a['module']}->{b['module']}", bsl, bsr, op, va, tuple(a["dim"]), None, slot)
                            mlines.append(f"{cid} {cls} std (rebase 1 {Ul} {Ur} {T.zlist(a['dim'])} {model_val(ty, ta)})")
                            if B.is_float(ty):
                                # c06_float_rebase_relative_error: premise and operation count from the extracted safe_q
                                alines.append(f"{cid} a{ty[1:]} std (rebase 1 {Ul} {Ur} {T.zlist(a['dim'])} {model_val(ty, ta)})")
    ctx.log(f"{len(h.slots)} slots, {len(cases)} cases; building harness")
    if not h.build():
        ctx.log(h.build_log[-3000:])
        ctx.violation({"kind": "harness-build", "obligation": "the mixed-base operator harness no longer compiles against /repo (autoconvert operators between base-unit sets)",
                       "log": h.build_log[-3000:]}, no_input=True)
        return
    impl = h.run(cases)
    model = coqbuild.run_model(mlines)
    acc = coqbuild.run_model(alines)
    ctx.log(f"implementation answered {len(impl)}, model answered {len(model)}")
    ctx.vm_crosscheck(mlines, model)
    thm = {"rebase_cases": 0, "premise_holds": 0, "instances_checked": 0, "max_ops": 0, "failures": 0}

    def factor(ty, bs, dim):
        fty = ty if B.is_float(ty) else "f64"   # exact classes: from_f64 of the f64 coefficient
        return B.base_factor_frac(t, lambda bq, un: coefs[(fty, bq, un)], bs, dim)

    def nr(ty, bsl, bsr, dim):
        fty = ty if B.is_float(ty) else "f64"
        return B.nrounds_rebase(t, lambda bq, un: coefs[(fty, bq, un)], bsl, bsr, dim)

    disagreements, spec_fail = [], []
    hist, distinct = {}, set()
    spec_checked = 0
    for cid, slot, args in cases:
        ty, qm, bsl, bsr, op, va, vb, vc, _ = meta[cid]
        got = impl.get(cid)
        hist[f"{ty}/{bsl}<-{bsr}/{op}"] = hist.get(f"{ty}/{bsl}<-{bsr}/{op}", 0) + 1
        if bsl != bsr:
            distinct.add((ty, qm, bsl, bsr, op, va, vb))
        if cid in model:
            want = canon_model_out(ty, model[cid].strip())
            if got == "PANIC" and model.get("r" + cid, "").strip() == "0":
                continue    # integer division by a right operand that truncates to zero in the left base: the raw type's own panic
            if got != want:
                disagreements.append((cid, got, want))
        if op in ("kfrom", "kinto"):
            # conversion between kinds: the same physical magnitude, now in the target's base units
            kd = vb
            if got in (None, "PANIC", "BADOP"):
                spec_fail.append((cid, f"conversion answered {got}"))
                continue
            ratio = factor(ty, bsr, kd) / factor(ty, bsl, kd)
            if B.is_float(ty):
                if FC.is_nan_bits(va, ty) or FC.is_inf_bits(va, ty):
                    continue
                fa = FC.bits_to_frac(va, ty)
                ex = fa * ratio
                n = nr(ty, bsl, bsr, kd)
                u_ = Fraction(1, 2 ** FC.FMT[ty]["prec"])
                En = (1 + u_ / (1 - u_)) ** (n + 2) - 1
                if not all(FC.in_normal_range(x, ty, margin=8 + 2 * n) for x in (fa if fa else Fraction(1), ex if ex else Fraction(1), ratio, 1 / ratio)):
                    continue
                spec_checked += 1
                a_ = acc.get(cid)
                if a_ is not None:
                    thm["rebase_cases"] += 1
                    sf, nops = (a_.split() + ["0", "0"])[:2]
                    if sf == "1" and got != "nan" and not FC.is_inf_bits(int(got, 16), ty):
                        thm["premise_holds"] += 1
                        thm["instances_checked"] += 1
                        thm["max_ops"] = max(thm["max_ops"], int(nops))
                        bound = ((1 / (1 - u_)) ** int(nops) - 1) * abs(ex)
                        if abs(FC.bits_to_frac(int(got, 16), ty) - ex) > bound:
                            thm["failures"] += 1
                            spec_fail.append((cid, f"outside the PROVED bound of c06_float_rebase_relative_error: (H^{nops} - 1)|exact| = {float(bound):.3e}"))
                if got == "nan" or FC.is_inf_bits(int(got, 16), ty):
                    spec_fail.append((cid, f"finite in-range magnitude converted to {got}"))
                elif abs(FC.bits_to_frac(int(got, 16), ty) - ex) > En * abs(ex) + FC.ulp_of(ex, ty):
                    spec_fail.append((cid, f"kind conversion changed the magnitude: exact {float(ex):.17g}, impl {float(FC.bits_to_frac(int(got, 16), ty)):.17g}"))
            else:
                spec_checked += 1
                n_, d_ = got.split("/")
                if Fraction(int(n_), int(d_)) != va * ratio:
                    spec_fail.append((cid, f"exact storage: kind conversion gave {got}, exact {va * ratio}"))
            continue
        # ---- spec: same physical quantity as if b had first been re-expressed in the left base
        d = t.qmap[qm]["dim"]
        base = {"addas": "add", "subas": "sub", "remas": "rem"}.get(op, op)
        dr = tdim if base in ("mul", "div", "muladd") else d
        cls = STYPES[ty]["cls"]
        if base == "rem" or got in (None, "PANIC"):
            if got in (None, "PANIC") and not (cls == "z"):
                spec_fail.append((cid, f"operation answered {got}"))
            continue
        if B.is_float(ty):
            if any(FC.is_nan_bits(x, ty) or FC.is_inf_bits(x, ty) for x in (va, vb, vc)):
                continue
            fa, fb, fc = (FC.bits_to_frac(x, ty) for x in (va, vb, vc))
            ratio = factor(ty, bsr, dr) / factor(ty, bsl, dr)
            bp = fb * ratio
            n = nr(ty, bsl, bsr, dr)
            u_ = Fraction(1, 2 ** FC.FMT[ty]["prec"])
            En = (1 + u_ / (1 - u_)) ** (n + 2) - 1
            if not all(FC.in_normal_range(x, ty, margin=8 + 2 * n) for x in (fb if fb else Fraction(1), bp if bp else Fraction(1), ratio, 1 / ratio)):
                continue
            if base in ("add", "sub"):
                ex = fa + bp if base == "add" else fa - bp
                tol = u_ * abs(ex) + En * (1 + u_) * abs(bp) + FC.ulp_of(max(abs(ex), abs(bp)), ty)
            elif base == "mul":
                ex = fa * bp
                tol = En * abs(ex) + FC.ulp_of(ex, ty)
            elif base == "div":
                if bp == 0:
                    continue
                ex = fa / bp
                tol = En * abs(ex) + FC.ulp_of(ex, ty)
            elif base == "hypot":
                ex2 = fa * fa + bp * bp
                if got == "nan":
                    spec_fail.append((cid, "hypot of finite operands is NaN"))
                    continue
                gb = int(got, 16)
                if FC.is_inf_bits(gb, ty):
                    continue
                g = FC.bits_to_frac(gb, ty)
                rel = Fraction(1, 10 ** (5 if ty == "f32" else 13))
                spec_checked += 1
                if ex2 and FC.in_normal_range(ex2, ty, margin=8) and FC.in_normal_range(fa * fa if fa else Fraction(1), ty, 8) and not (abs(g * g - ex2) <= rel * ex2):
                    spec_fail.append((cid, f"hypot^2 = {float(g*g):.9g}, exact a^2 + b'^2 = {float(ex2):.9g}"))
                continue
            elif base == "muladd":
                # x*a' + c' with a' (Time) and c' re-expressed in the left base
                ds = [x + y for x, y in zip(d, tdim)]
                bs3 = B.third_base(BASES, bsl, bsr)
                ratio_c = factor(ty, bs3, ds) / factor(ty, bsl, ds)
                cp = fc * ratio_c
                n2 = nr(ty, bsl, bs3, ds)
                En2 = (1 + u_ / (1 - u_)) ** (n + n2 + 3) - 1
                if not all(FC.in_normal_range(x, ty, margin=8 + 2 * n2) for x in (fc if fc else Fraction(1), cp if cp else Fraction(1), ratio_c, 1 / ratio_c)):
                    continue
                ex = fa * bp + cp
                tol = En2 * (abs(fa * bp) + abs(cp)) + FC.ulp_of(max(abs(fa * bp), abs(cp), abs(ex)), ty)
            else:
                continue
            if not (FC.in_normal_range(ex if ex else Fraction(1), ty, 8) and FC.in_normal_range(fa if fa else Fraction(1), ty, 8)):
                continue
            spec_checked += 1
            if got == "nan":
                spec_fail.append((cid, "finite in-range operands gave NaN"))
                continue
            gb = int(got, 16)
            if FC.is_inf_bits(gb, ty):
                spec_fail.append((cid, "finite in-range operands gave an infinity"))
                continue
            g = FC.bits_to_frac(gb, ty)
            if abs(g - ex) > tol:
                spec_fail.append((cid, f"|impl - exact| = {float(abs(g-ex)):.3e} > tol {float(tol):.3e}; exact={float(ex):.17g} impl={float(g):.17g}"))
        elif cls == "q":
            ratio = factor(ty, bsr, dr) / factor(ty, bsl, dr)
            bp = vb * ratio
            ex = {"add": lambda: va + bp, "sub": lambda: va - bp, "mul": lambda: va * bp,
                  "div": lambda: va / bp if bp else None}[base]()
            if ex is None:
                continue
            spec_checked += 1
            n_, d_ = got.split("/")
            if Fraction(int(n_), int(d_)) != ex:
                spec_fail.append((cid, f"exact storage: impl {got} != exact {ex}"))

    def replay_case(cid, extra):
        ty, qm, bsl, bsr, op, va, vb, vc, slot = meta[cid]
        args = next(a for c, s, a in cases if c == cid)
        line = next((l for l in mlines if l.startswith(cid + " ")), None)
        return dict({"kind": "mixed-base operation", "storage": ty, "quantity": qm, "left_base": bsl, "right_base": bsr, "op": op,
                     "args": args, "implementation": impl.get(cid),
                     "model": canon_model_out(ty, model[cid].strip()) if cid in model else None,
                     "harness": {"features": h.features, "prelude": h.prelude,
                                 "cases": [{"slot_body": h.slots[slot], "args": args, "model": line.split(" ", 1)[1] if line else None}]}}, **extra)

    for cid, why in spec_fail[:5]:
        ctx.violation(replay_case(cid, {"spec": "C06: result equals the operation on the re-expressed right operand (exact / few ulps)", "detail": why}))
    if disagreements and not spec_fail:
        cid, got, want = disagreements[0]
        ctx.violation(replay_case(cid, {"obligation": "bit-exact correspondence Model.Quantity.q_bin/q_muladd (extracted) vs the autoconvert operators",
                                        "count": len(disagreements)}), no_input=True)
    # temperature point (+|-|+=|-=) interval and interval + point with the two operands in DIFFERENT temperature base units: the result, in the
    # left operand's base unit, is t +/- (d re-expressed in that base unit) - exactly for BigRational, to a few ulps for f64
    from . import c09 as C09
    from . import convx as X
    ht = Harness("c06t", C09.FEATURES, prelude=C09.prelude(["f64", "bigrational"]))
    tcases, tmeta = [], {}
    # the base units' coefficients as every storage type here holds them: the exact values of the f64 literals 1e-3 and 1e3
    kb = {"si": Fraction(1), "mk": Fraction(1.0e-3), "kk": Fraction(1.0e3)}
    for ty in ("f64", "bigrational"):
        for (bl, br) in (("si", "mk"), ("mk", "kk"), ("kk", "si"), ("mk", "si")):
            for pu, iu in (("kelvin", "kelvin"), ("degree_celsius", "degree_fahrenheit"), ("degree_fahrenheit", "kelvin")):
                sl = ht.slot(C09.slot(pu, iu, bl, br, ty))
                for (tv, dv) in (("300", "2.5"), ("-40", "72"), ("0.5", "-0.25"), ("1000", "1")):
                    if ty == "f64":
                        a_ = [FC.hexbits(C.f64_bits(float(tv)), "f64"), FC.hexbits(C.f64_bits(float(dv)), "f64")]
                    else:
                        a_ = [VG.val_text(ty, Fraction(tv)), VG.val_text(ty, Fraction(dv))]
                    for op in ("add", "sub", "addas", "subas", "radd"):
                        cid = f"x{len(tcases)}"
                        tcases.append((cid, sl, [op] + a_))
                        tmeta[cid] = (ty, bl, br, pu, iu, op, tv, dv, sl)
    temp_bad = []
    if not ht.build():
        ctx.violation({"kind": "harness-build", "obligation": "the mixed-base temperature harness no longer compiles against /repo", "log": ht.build_log[-3000:]}, no_input=True)
    else:
        timpl = ht.run(tcases)
        for cid, sl, a_ in tcases:
            ty, bl, br, pu, iu, op, tv, dv, _ = tmeta[cid]
            got = timpl.get(cid)
            if got in (None, "PANIC", "BADOP"):
                temp_bad.append((cid, f"harness answered {got}"))
                continue
            f_ = got.split(" ")
            ts, ds, rs = X.parse_value(ty, f_[0]), X.parse_value(ty, f_[1]), X.parse_value(ty, f_[2])
            if None in (ts, ds, rs):
                continue
            # radd: the interval is the LEFT operand (stored in bl), the point the right one (stored in br); the result is a point in bl
            if op == "radd":
                want = ts * kb[br] / kb[bl] + ds
            else:
                dl = ds * kb[br] / kb[bl]
                want = ts + dl if "add" in op else ts - dl
            tol = 0 if ty == "bigrational" else 8 * FC.ulp_of(max(abs(want), abs(ts), abs(ds * kb[br] / kb[bl]), Fraction(1, 10 ** 300)), ty)
            if abs(rs - want) > tol:
                temp_bad.append((cid, f"{pu} point ({TBN[bl] if op != 'radd' else TBN[br]} base) {op} {iu} interval: stored result {float(rs)!r}, "
                                      f"expected {float(want)!r} in the left operand's base unit"))
        for cid, why in temp_bad[:3]:
            ty, bl, br, pu, iu, op, tv, dv, sl = tmeta[cid]
            ctx.violation({"kind": "mixed-base temperature operator", "spec": "C06: point +/- interval between different temperature base units = the same operation after re-expressing the right operand",
                           "storage": ty, "left_base": TBN[bl], "right_base": TBN[br], "op": op, "point": f"{tv} {pu}", "interval": f"{dv} {iu}", "detail": why,
                           "implementation": timpl.get(cid),
                           "harness": {"features": ht.features, "prelude": ht.prelude, "cases": [{"slot_body": ht.slots[sl], "args": next(a for c, s_, a in tcases if c == cid)}]}})
    cov = ctx.coverage
    cov["temperature_mixed_base_cases"] = len(tcases)
    cov["temperature_mixed_base_failures"] = len(temp_bad)
    cov["evaluations"] = len(cases)
    cov["distinct_nontrivial"] = len(distinct)
    cov["rule"] = ("case = (storage f64/f32/BigRational/BigInt) x quantity x ordered pair of base-unit sets {SI, cgs, km-g-h-mA-mK-kmol, ft-lb-min} x "
                   "operator {+ - % += -= %= , * / by a Time in the right base, hypot, mul_add} x value triple; plus From/Into between a special-kind quantity and its "
                   "default-kind twin (non-zero dimension) over every ordered pair of base sets; non-trivial = the two base sets differ")
    cov["disagreements_checked"] = len(disagreements)
    cov["spec_checked"] = spec_checked
    cov["accuracy_theorem_instances"] = thm
    cov["spec_failures"] = len(spec_fail)
    cov["slots"] = len(h.slots)
    cov["histogram"] = dict(sorted(hist.items())[:60])
    smp = ctx.rng.fork("samples").sample(cases, 6)
    cov["samples"] = [{"storage": meta[c][0], "quantity": meta[c][1], "left": meta[c][2], "right": meta[c][3], "args": a,
                       "implementation": impl.get(c), "model": canon_model_out(meta[c][0], model[c].strip()) if c in model else None} for c, _, a in smp]
