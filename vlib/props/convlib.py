"""Shared pieces of the conversion correspondence streams (C03, C06, C08, C09, C16 ...)."""
import re
from fractions import Fraction

from .. import floatcases as FC
from .. import tables as T

RUST_TY = {"f64": "f64", "f32": "f32"}


def select_units(t, rng, limit):
    """All offset / negative / extreme-coefficient units + coherent units of the base quantities
    + a seed-rotated selection; `limit=None` means every unit."""
    allu = list(t.all_units())
    if limit is None:
        return allu
    must = []
    seen = set()

    def add(q, u):
        k = (q["module"], u["name"])
        if k not in seen:
            seen.add(k)
            must.append((q, u))

    for q, u in allu:
        c = T.frac(u["coef"])
        if u["const"] is not None or c < 0:
            add(q, u)
    by = sorted(allu, key=lambda qu: T.frac(qu[1]["coef"]))
    for q, u in by[:3] + by[-3:]:
        add(q, u)
    # base units of every base set + a few anchors
    for names in T.BASE_SETS.values():
        if len(names) != len(t.base):
            continue        # base tuples of another system (the harness' own 4-base system)
        for b, n in zip(t.base, names):
            add(t.qmap[b["name"]], t.unit(b["name"], n))
    for qm, un in (("length", "mile"), ("velocity", "kilometer_per_hour"), ("energy", "kilowatt_hour"),
                   ("thermal_conductivity", "watt_per_meter_kelvin"), ("mass_density", "kilogram_per_cubic_meter"),
                   ("pressure", "psi"), ("temperature_interval", "degree_fahrenheit"), ("angle", "degree"),
                   ("information", "kibibyte"), ("molar_heat_capacity", "joule_per_kelvin_mole")):
        if qm in t.qmap:
            try:
                add(t.qmap[qm], t.unit(qm, un))
            except KeyError:
                pass
    rest = [(q, u) for q, u in allu if (q["module"], u["name"]) not in seen]
    for q, u in rng.sample(rest, max(0, limit - len(must))):
        add(q, u)
    return must


def base_prelude(base_sets, ftypes, system="uom::si"):
    out = []
    for bs in base_sets:
        if bs == "si":
            continue
        for ty in ftypes:
            if bs == "tiny" and ty == "f32":
                continue
            names = ", ".join(T.BASE_SETS[bs])
            out.append(f"pub mod bs_{bs}_{ty} {{ ISQ!({system}, {ty}, ({names})); }}")
    return "\n".join(out) + "\n"


def units_type(bs, ty):
    return f"uom::si::SI<{ty}>" if bs == "si" else f"bs_{bs}_{ty}::Units"


def conv_slot_body(q, u, bs, ty):
    if u.get("added"):
        from . import added as AD
        return AD.repath(conv_slot_body(q, dict(u, added=False), bs, ty), q, u)
    qm, alias, un = q["module"], q["alias"], u["name"]
    hx = "hex64" if ty == "f64" else "hex32"
    of = "f64_of" if ty == "f64" else "f32_of"
    return f"""    type Q = uom::si::{qm}::{alias}<{units_type(bs, ty)}, {ty}>;
    type N = uom::si::{qm}::{un};
    match a[0] {{
        "n" => {hx}(Q::new::<N>({of}(a[1])).value),
        "g" => {hx}((Q {{ dimension: PhantomData, units: PhantomData, value: {of}(a[1]) }}).get::<N>()),
        "c" => {hx}(<N as uom::Conversion<{ty}>>::coefficient()),
        "ka" => {hx}(<N as uom::Conversion<{ty}>>::constant(uom::ConstantOp::Add)),
        "ks" => {hx}(<N as uom::Conversion<{ty}>>::constant(uom::ConstantOp::Sub)),
        _ => "BADOP".to_string(),
    }}"""


# ----------------------------------------------------------------------------- spec checker (search oracle)

SPEC_STATS = {"checked": 0, "skipped_range": 0, "skipped_special": 0}


def published(impl_bits, ty):
    """impl-reported coefficient()/constant() text -> Fraction or None (non-finite)."""
    if impl_bits in (None, "nan", "PANIC"):
        return None
    b = int(impl_bits, 16)
    if FC.is_inf_bits(b, ty) or FC.is_nan_bits(b, ty):
        return None
    return FC.bits_to_frac(b, ty)


def exact_conv(t, pub, ty, bs, qm, un, d, v):
    """Exact rational result of the conversion formula applied to the PUBLISHED coefficients
    (`pub[(ty, module, unit)] = (coefficient, constant)` as reported by the compiled crate).
    Returns (exact, intermediates, nrounds, offset term) or None when a coefficient is not finite."""
    q = t.qmap[qm]
    kc = pub.get((ty, qm, un))
    if kc is None or kc[0] is None or kc[1] is None or kc[0] == 0:
        return None
    kf, cf = kc
    f = Fraction(1)
    inter = []
    n = 2
    for b, name, e in zip(t.base, T.BASE_SETS[bs], q["dim"]):
        if e == 0:
            continue
        bc = pub.get((ty, b["name"], name))
        if bc is None or bc[0] is None or bc[0] == 0:
            return None
        if bc[0] != 1:
            # powi: square-and-multiply products + optional reciprocal, + 1 product into f
            n += 2 * max(1, abs(e).bit_length()) + 2
        f *= bc[0] ** e
        inter.append(f)
    has_off = cf != 0
    if d == "n":
        ex = (v + cf) * kf / f
        inter += [v + cf if (v + cf) != 0 else Fraction(1), kf / f, (v + cf) * kf if (v + cf) != 0 else Fraction(1)]
        offs = abs(cf * kf / f)
    else:
        ex = v * f / kf - cf
        inter += [f / kf, kf / f, v * f / kf if v != 0 else Fraction(1)]
        offs = abs(cf)
    if has_off:
        n += 1
    return ex, inter, n, offs


def spec_check(t, pub, ty, bs, qm, un, d, vbits, got):
    """The C03 statement on one implementation answer: within E_n (n roundings) of the exact result,
    ulps taken at the larger of result and offset term.  None = outside the property's premise."""
    if FC.is_nan_bits(vbits, ty) or FC.is_inf_bits(vbits, ty):
        SPEC_STATS["skipped_special"] += 1
        return None
    v = FC.bits_to_frac(vbits, ty)
    r = exact_conv(t, pub, ty, bs, qm, un, d, v)
    if r is None:
        SPEC_STATS["skipped_range"] += 1
        return None
    ex, inter, n, offs = r
    # value-independent intermediates (base factor, coefficient quotients) must be representable:
    # otherwise "no overflow or underflow intervenes" fails whatever the value (0 * inf = NaN)
    kf = pub[(ty, qm, un)][0]
    fq = inter[-2]      # kf / f
    fixed = [x for x in inter[:-3]] + [fq, 1 / fq, kf]
    if not all(FC.in_normal_range(x, ty) for x in fixed):
        SPEC_STATS["skipped_range"] += 1
        return None
    if v == 0 and offs == 0:
        # zero maps to zero exactly
        SPEC_STATS["checked"] += 1
        if got in ("PANIC", None, "nan"):
            return (False, f"zero input gave {got}")
        g = FC.bits_to_frac(int(got, 16), ty) if not FC.is_inf_bits(int(got, 16), ty) else None
        return (g == 0, f"zero input gave {got}")
    if not all(FC.in_normal_range(x, ty) for x in inter) or (ex != 0 and not FC.in_normal_range(ex, ty)) or not FC.in_normal_range(v if v != 0 else Fraction(1), ty):
        SPEC_STATS["skipped_range"] += 1
        return None
    SPEC_STATS["checked"] += 1
    if got in ("PANIC", None, "nan"):
        return (False, f"finite in-range input gave {got}")
    gb = int(got, 16)
    if FC.is_inf_bits(gb, ty):
        return (False, "finite in-range input gave an infinity")
    g = FC.bits_to_frac(gb, ty)
    u_ = Fraction(1, 2 ** FC.FMT[ty]["prec"])
    w = u_ / (1 - u_)
    En = (1 + w) ** n - 1
    scale = max(abs(ex), offs)
    tol = En * scale + FC.ulp_of(scale, ty)
    ok = abs(g - ex) <= tol
    return (ok, f"|impl - exact| = {float(abs(g - ex)):.3e} > tol {float(tol):.3e} (n={n}, exact={float(ex):.17g}, impl={float(g):.17g})")


# ----------------------------------------------------------------------------- sexp -> Coq syntax (vm cross-check)

def tokenize(s):
    return re.findall(r"\(|\)|[^\s()]+", s)


def parse(tokens, i=0):
    if tokens[i] == "(":
        out = []
        i += 1
        while tokens[i] != ")":
            e, i = parse(tokens, i)
            out.append(e)
        return out, i + 1
    return tokens[i], i + 1


def split_model_line(line):
    toks = tokenize(line)
    items = []
    i = 0
    while i < len(toks):
        e, i = parse(toks, i)
        items.append(e)
    return items


def coq_z(a):
    n = int(a)
    return f"({n})" if n < 0 else str(n)


def coq_cexpr(e):
    if e[0] == "L":
        return f"(ELit {coq_z(e[1])} {coq_z(e[2])})"
    if e[0] == "M":
        return f"(EMul {coq_cexpr(e[1])} {coq_cexpr(e[2])})"
    if e[0] == "D":
        return f"(EDiv {coq_cexpr(e[1])} {coq_cexpr(e[2])})"
    if e[0] == "N":
        return f"(ENeg {coq_cexpr(e[1])})"
    raise ValueError(e)


def coq_cexprs(es):
    return "[" + "; ".join(coq_cexpr(e) for e in es) + "]"


def coq_zs(zs):
    return "[" + "; ".join(coq_z(z) for z in zs) + "]"


def coq_const(c):
    return "None" if c == "-" else f"(Some {coq_cexpr(c)})"
