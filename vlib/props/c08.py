"""C08 — exact storage converts exactly; integer storage truncates toward zero."""
from fractions import Fraction

from .. import common as C
from .. import coqbuild, floatcases as FC, tables as T, valgen as VG
from ..harness import Harness, FEATURE_SETS
from ..stypes import STYPES, model_val, canon_model_out
from . import binops as B
from . import convx as X
from . import convlib

PROPS = "theories/Props/C08.v"
MODULE = "Props.C08"
SUPPORT = ["theories/Proofs/ExactP.v"]
BIG = ["bigrational", "bigint", "biguint"]
FIXED = ["rational64", "i64", "i32", "u64"]
BASES = ["si", "kgh", "cgs"]


def small_coef(u, bits):
    n, d = abs(int(u["coef_q"][0])), int(u["coef_q"][1])
    return n < 2 ** bits and d < 2 ** bits


def run(ctx):
    if not ctx.translate():
        return
    t = ctx.tables
    if not ctx.proof_gate(PROPS, MODULE, SUPPORT):
        ctx.violation({"kind": "proof", "obligation": f"{PROPS}: {getattr(ctx, 'proof_error', '')[-1500:]}"}, no_input=True)
    ok, out = coqbuild.build_runner()
    if not ok:
        ctx.violation({"kind": "runner", "obligation": "extraction/compilation of the model runner failed", "log": out[-2000:]}, no_input=True)
        return
    quick = ctx.tier == "quick"
    types = BIG + FIXED
    h = Harness("c08", FEATURE_SETS["all"], prelude=B.prelude(BASES, types))
    units = convlib.select_units(t, ctx.rng.fork("units"), 60 if quick else 500)
    cases, meta, mlines = [], {}, []
    bslots = {}
    for ty in types:
        for bs in BASES:
            bslots[(ty, bs)] = h.slot(X.base_coef_slot(bs, ty))
            cid = f"b{len(cases)}"
            cases.append((cid, bslots[(ty, bs)], ["bc"]))
            meta[cid] = ("bc", ty, bs, None, None, None, None)
    for ty in types:
        cls = STYPES[ty]["cls"]
        st = STYPES[ty]
        for bs in BASES:
            U = T.sexp_list(t.base_unit_exprs(T.BASE_SETS[bs]))
            for (q, u) in units:
                neg_coef = T.frac(u["coef"]) < 0
                if ty in ("biguint", "u64") and (neg_coef or (u["const"] is not None and T.frac(u["const"]) < 0)):
                    continue
                if ty in FIXED and not (small_coef(u, 20) and all(abs(e) <= 2 for e in q["dim"])):
                    continue
                if ty in FIXED and bs == "kgh" and sum(abs(e) for e in q["dim"]) > 3:
                    continue
                sl = h.slot(X.conv_slot(q, u, bs, ty))
                rng = ctx.rng.fork(f"{ty}:{bs}:{q['module']}:{u['name']}")
                for op in ("c", "ka", "ks"):
                    cid = f"k{len(cases)}"
                    cases.append((cid, sl, [op]))
                    meta[cid] = (op, ty, bs, q, u, None, sl)
                vals = []
                for k in range(4 if quick else 16):
                    if cls == "z":
                        v = VG.int_value(rng, ty, small=(ty in FIXED))
                        if ty in ("biguint", "u64"):
                            v = abs(v)
                        if ty in FIXED:
                            v = max(-1000, min(1000, v))
                            if st["lo"] == 0:
                                v = abs(v)
                    else:
                        v = VG.rat_value(rng, ty)
                        if ty == "rational64":
                            v = Fraction(rng.below(201) - 100, 1 + rng.below(8))
                    vals.append(v)
                vals += ([0, 1, -1, 7, -7] if st.get("lo", -1) != 0 and ty != "biguint" else [0, 1, 7]) if cls == "z" else [Fraction(0), Fraction(1), Fraction(-7, 2)]
                for v in vals:
                    for d in ("n", "g"):
                        cid = f"v{len(cases)}"
                        txt = VG.val_text(ty, v)
                        cases.append((cid, sl, [d, txt]))
                        meta[cid] = (d, ty, bs, q, u, v, sl)
                        if ty in BIG:
                            mlines.append(f"{cid} {cls} - ({'new' if d == 'n' else 'get'} {U} {T.zlist(q['dim'])} {T.sexp(u['coef'])} {T.sexp(u['const'])} {model_val(ty, txt)})")
    ctx.log(f"{len(h.slots)} slots, {len(cases)} cases; building harness")
    if not h.build():
        ctx.log(h.build_log[-3000:])
        ctx.violation({"kind": "harness-build", "obligation": "the exact-storage conversion harness no longer compiles against /repo", "log": h.build_log[-3000:]}, no_input=True)
        return
    impl = h.run(cases)
    model = coqbuild.run_model(mlines)
    ctx.log(f"implementation answered {len(impl)}, model answered {len(model)}")
    ctx.vm_crosscheck(mlines, model)
    # published coefficients
    basec = {}
    for cid, sl, args in cases:
        m = meta[cid]
        if m[0] == "bc":
            got = impl.get(cid)
            basec[(m[1], m[2])] = [X.parse_factor(m[1], x) for x in got.split()] if got and got != "PANIC" else None
    pub = {}
    for cid, sl, args in cases:
        m = meta[cid]
        if m[0] in ("c", "ka", "ks"):
            pub[(m[1], m[2], m[3]["module"], m[4]["name"], m[0])] = X.parse_factor(m[1], impl.get(cid))
    spec_fail, disagreements = [], []
    hist, distinct = {}, set()
    checked = panics_scoped = 0
    for cid, sl, args in cases:
        d, ty, bs, q, u, v, _ = meta[cid]
        if d not in ("n", "g"):
            continue
        got = impl.get(cid)
        cls = STYPES[ty]["cls"]
        hist[f"{ty}/{bs}/{d}"] = hist.get(f"{ty}/{bs}/{d}", 0) + 1
        distinct.add((ty, bs, q["module"], u["name"], d, str(v)))
        k = pub.get((ty, bs, q["module"], u["name"], "c"))
        ca = pub.get((ty, bs, q["module"], u["name"], "ka"))
        cs = pub.get((ty, bs, q["module"], u["name"], "ks"))
        bc = basec.get((ty, bs))
        if cid in model:
            want = model[cid].strip()
            if ty in ("biguint", "u64") and want.startswith("-"):
                pass        # unsigned storage cannot hold the (negative) result: the raw type's own subtraction panics
            elif got != want:
                disagreements.append((cid, got, want))
        if k is None or ca is None or cs is None or bc is None or any(x is None for x in bc) or k == 0:
            panics_scoped += 1      # coefficient not representable in this storage type: outside the property's scope
            continue
        f = Fraction(1)
        for bcoef, e in zip(bc, q["dim"]):
            f *= bcoef ** e
        ex = (Fraction(v) + ca) * k / f if d == "n" else Fraction(v) * f / k - cs
        want_v = Fraction(X.tquot(ex)) if cls == "z" else ex
        if ty in ("biguint", "u64") and ex < 0:
            continue
        if got in (None, "PANIC"):
            if ty in FIXED:
                # fixed width: only cases whose every intermediate is far inside the type's range must not overflow
                big = max(abs(x.numerator) + x.denominator for x in (Fraction(v) + ca, k, f, k / f, f / k, ex if ex else Fraction(1)))
                if big < 2 ** ((STYPES[ty]["hi"].bit_length()) // 2 - 2):
                    spec_fail.append((cid, f"conversion panicked although every intermediate is tiny for {ty} (exact result {ex})"))
                else:
                    panics_scoped += 1
                continue
            spec_fail.append((cid, f"conversion answered {got}"))
            continue
        checked += 1
        g = X.parse_value(ty, got)
        if g != want_v:
            spec_fail.append((cid, f"impl {got} != exact {'truncated ' if cls == 'z' else ''}result {want_v} (exact rational {ex})"))

    def replay_case(cid, extra):
        d, ty, bs, q, u, v, sl = meta[cid]
        args = next(a for c, s, a in cases if c == cid)
        line = next((l for l in mlines if l.startswith(cid + " ")), None)
        return dict({"kind": "exact conversion", "storage": ty, "base_set": bs, "unit": f"{q['module']}::{u['name']}",
                     "direction": "new" if d == "n" else "get", "value": str(v), "implementation": impl.get(cid), "model": model.get(cid),
                     "harness": {"features": h.features, "prelude": h.prelude,
                                 "cases": [{"slot_body": h.slots[sl], "args": args, "model": line.split(" ", 1)[1] if line else None}]}}, **extra)

    for cid, why in spec_fail[:5]:
        ctx.violation(replay_case(cid, {"spec": "C08: exact rational result of the conversion formula on the published coefficient/offset (truncated toward zero for integers)", "detail": why}))
    if disagreements and not spec_fail:
        cid, got, want = disagreements[0]
        ctx.violation(replay_case(cid, {"obligation": "exact correspondence Model.Run.q_run/z_run (extracted) vs Quantity::new/get at BigRational/BigInt/BigUint",
                                        "count": len(disagreements)}), no_input=True)
    cov = ctx.coverage
    cov["evaluations"] = sum(1 for c in cases if meta[c[0]][0] in ("n", "g"))
    cov["distinct_nontrivial"] = len(distinct)
    cov["rule"] = ("new/get for BigRational, BigInt, BigUint (all selected units: offset, negative, extreme coefficients + rotation; values to 2^200, negative, "
                   "non-integral) and Rational64/i64/i32/u64 (units with coefficient numerator/denominator < 2^20, |value| <= 1000) x base sets {SI, km-g-h, cgs}; "
                   "expected = exact rational formula on the PUBLISHED coefficient()/constant() of the storage type, truncated toward zero for integers; "
                   "Big* additionally equal to the extracted model")
    cov["spec_checked"] = checked
    cov["outside_scope_unrepresentable_or_wide"] = panics_scoped
    cov["disagreements_checked"] = len(disagreements)
    cov["spec_failures"] = len(spec_fail)
    cov["histogram"] = hist
    smp = ctx.rng.fork("samples").sample([c for c in cases if meta[c[0]][0] in ("n", "g")], 6)
    cov["samples"] = [{"storage": meta[c][1], "base": meta[c][2], "unit": meta[c][4]["name"], "args": a, "implementation": impl.get(c), "model": model.get(c)} for c, _, a in smp]
