"""C08 — exact storage converts exactly; integer storage truncates toward zero."""
from fractions import Fraction

from .. import common as C
from .. import coqbuild, floatcases as FC, tables as T, valgen as VG
from ..harness import Harness, FEATURE_SETS
from ..stypes import STYPES, model_val, canon_model_out
from . import binops as B
from . import convx as X
from . import convlib

PROPS = "theories/Props/C08.v"
MODULE = "Props.C08"
SUPPORT = ["theories/Proofs/ExactP.v"]
BIG = ["bigrational", "bigint", "biguint"]
FIXED = ["rational64", "i64", "i32", "u64"]
BASES = ["si", "kgh", "cgs"]


PRIM_TYPES = {"i64": (-2**63, 2**63 - 1), "i32": (-2**31, 2**31 - 1), "u64": (0, 2**64 - 1), "i8": (-128, 127)}
PRIM_OPS = {"mul": 0, "div": 1, "add": 2, "sub": 3, "cmp": 4, "pow": 5, "toi": 6, "new": 7}


def prim_slot(ity):
    """Raw num-rational operations on Ratio<iN> (the dependency that Model/Fixed.v transcribes)."""
    return f"""    type I = {ity};
    type R = uom::num::rational::Ratio<I>;
    let z = |s: &str| s.parse::<I>().unwrap();
    let sh = |x: R| format!("{{}}/{{}}", x.numer(), x.denom());
    let x = R::new_raw(z(a[1]), z(a[2]));
    let y = || R::new_raw(z(a[3]), z(a[4]));
    match a[0] {{
        "mul" => sh(x * y()),
        "div" => sh(x / y()),
        "add" => sh(x + y()),
        "sub" => sh(x - y()),
        "cmp" => match x.cmp(&y()) {{ std::cmp::Ordering::Less => "-1".to_string(), std::cmp::Ordering::Equal => "0".to_string(), _ => "1".to_string() }},
        "pow" => sh(x.pow(a[3].parse::<i32>().unwrap())),
        "toi" => x.to_integer().to_string(),
        "new" => sh(R::new(z(a[1]), z(a[2]))),
        _ => "BADOP".to_string(),
    }}"""


def prim_ratios(rng, lo, hi, n_random):
    """Reduced ratios with positive denominators: the edges of the type and a random draw over all magnitudes."""
    from math import gcd
    nums = {0, 1, 2, 3, 5, 6, 7, 10, 12, 64, 100, hi, hi - 1, hi // 2, hi // 2 + 1, hi // 3}
    if lo < 0:
        nums |= {-x for x in (1, 2, 3, 5, 6, 7, 10, 12, 64, 100)} | {lo, lo + 1, lo // 2, lo // 3}
    dens = {1, 2, 3, 4, 5, 6, 7, 10, 12, 64, 100, hi, hi - 1, hi // 2 + 1}
    for _ in range(n_random):
        e = rng.below(hi.bit_length()) + 1
        v = rng.below(1 << e)
        nums.add(-v if lo < 0 and rng.below(2) else v)
        e = rng.below(hi.bit_length()) + 1
        dens.add(1 + rng.below(1 << e))
    nums = sorted(x for x in nums if lo <= x <= hi)
    dens = sorted(x for x in dens if 1 <= x <= hi)
    return [(n, d) for n in nums for d in dens if gcd(n, d) == 1], nums


def fixed_values(rng, ty, k, quick):
    """Values over the WHOLE range of a fixed-width type: edges, both sides of the overflow thresholds of v * numer(k) and
    v * denom(k), random magnitudes; for rational storage also denominators of every size."""
    st = STYPES[ty]
    lo, hi = st["lo"], st["hi"]
    ints = {0, 1, 7, hi, hi - 1, hi // 2}
    if lo < 0:
        ints |= {-1, -7, lo, lo + 1, lo // 2}
    if k:
        for m in (abs(k.numerator), k.denominator):
            if m > 1:
                t = hi // m
                ints |= {t - 1, t, t + 1, t + 2}
                if lo < 0:
                    ints |= {-t - 2, -t - 1, -t, -t + 1}
    for _ in range(4 if quick else 16):
        e = rng.below(hi.bit_length())
        v = (1 << e) + rng.below(1 << e)
        ints.add(-v if lo < 0 and rng.below(2) else v)
    ints = sorted(x for x in ints if lo <= x <= hi)
    if st["cls"] == "z":
        return ints
    dens = [1, 1, 2, 3, 7, 10, 1000, 1 << 20, 10**9 + 7, (1 << 62) - 57]
    out = []
    for n in ints:
        d = dens[rng.below(len(dens))]
        f = Fraction(n, d)
        if lo <= f.numerator <= hi:
            out.append(f)
    return out


def wpair(f):
    return f"({f.numerator} {f.denominator})"


def small_coef(u, bits):
    n, d = abs(int(u["coef_q"][0])), int(u["coef_q"][1])
    return n < 2 ** bits and d < 2 ** bits


def run(ctx):
    if not ctx.translate():
        return
    t = ctx.tables
    if not ctx.proof_gate(PROPS, MODULE, SUPPORT):
        ctx.violation({"kind": "proof", "obligation": f"{PROPS}: {getattr(ctx, 'proof_error', '')[-1500:]}"}, no_input=True)
    ok, out = coqbuild.build_runner()
    if not ok:
        ctx.violation({"kind": "runner", "obligation": "extraction/compilation of the model runner failed", "log": out[-2000:]}, no_input=True)
        return
    quick = ctx.tier == "quick"
    types = BIG + FIXED
    from .added import PRELUDE as AD_PRELUDE
    h = Harness("c08", FEATURE_SETS["all"], prelude=B.prelude(BASES, types) + AD_PRELUDE)
    units = convlib.select_units(t, ctx.rng.fork("units"), 60 if quick else 500)
    from . import added as AD
    units = list(units) + AD.pairs(t)
    cases, meta, mlines = [], {}, []
    bslots = {}
    for ty in types:
        for bs in BASES:
            bslots[(ty, bs)] = h.slot(X.base_coef_slot(bs, ty))
            cid = f"b{len(cases)}"
            cases.append((cid, bslots[(ty, bs)], ["bc"]))
            meta[cid] = ("bc", ty, bs, None, None, None, None)
    for ty in types:
        cls = STYPES[ty]["cls"]
        st = STYPES[ty]
        for bs in BASES:
            U = T.sexp_list(t.base_unit_exprs(T.BASE_SETS[bs]))
            for (q, u) in units:
                neg_coef = T.frac(u["coef"]) < 0
                if ty in ("biguint", "u64") and (neg_coef or (u["const"] is not None and T.frac(u["const"]) < 0)):
                    continue
                if ty in FIXED and not (small_coef(u, 40) and all(abs(e) <= 3 for e in q["dim"])):
                    continue
                sl = h.slot(X.conv_slot(q, u, bs, ty))
                rng = ctx.rng.fork(f"{ty}:{bs}:{q['module']}:{u['name']}")
                for op in ("c", "ka", "ks"):
                    cid = f"k{len(cases)}"
                    cases.append((cid, sl, [op]))
                    meta[cid] = (op, ty, bs, q, u, None, sl)
                vals = []
                for k in range(4 if quick else 16):
                    if cls == "z":
                        v = VG.int_value(rng, ty, small=(ty in FIXED))
                        if ty in ("biguint", "u64"):
                            v = abs(v)
                        if ty in FIXED:
                            v = max(-1000, min(1000, v))
                            if st["lo"] == 0:
                                v = abs(v)
                    else:
                        v = VG.rat_value(rng, ty)
                        if ty == "rational64":
                            v = Fraction(rng.below(201) - 100, 1 + rng.below(8))
                    vals.append(v)
                vals += ([0, 1, -1, 7, -7] if st.get("lo", -1) != 0 and ty != "biguint" else [0, 1, 7]) if cls == "z" else [Fraction(0), Fraction(1), Fraction(-7, 2)]
                if ty in FIXED:
                    # the whole range: which of these overflow is decided by Model/Fixed.v, case by case
                    kq = Fraction(int(u["coef_q"][0]), int(u["coef_q"][1]))
                    more = fixed_values(rng, ty, kq, quick)
                    vals = list(dict.fromkeys(vals + more))
                for v in vals:
                    for d in ("n", "g"):
                        cid = f"v{len(cases)}"
                        txt = VG.val_text(ty, v)
                        cases.append((cid, sl, [d, txt]))
                        meta[cid] = (d, ty, bs, q, u, v, sl)
                        if ty in BIG:
                            mlines.append(f"{cid} {cls} - ({'new' if d == 'n' else 'get'} {U} {T.zlist(q['dim'])} {T.sexp(u['coef'])} {T.sexp(u['const'])} {model_val(ty, txt)})")
    # the tie of Model/Fixed.v to num-rational's Ratio<iN>: single operations on edge values and random magnitudes
    prim_cases, plines = {}, []
    for ity, (lo, hi) in PRIM_TYPES.items():
        sl = h.slot(prim_slot(ity))
        prng = ctx.rng.fork(f"prim:{ity}")
        rs, nums = prim_ratios(prng, lo, hi, 12 if quick else 40)
        npairs = 2500 if quick else 20000
        for _ in range(npairs):
            x, y = rs[prng.below(len(rs))], rs[prng.below(len(rs))]
            for op in ("mul", "div", "add", "sub", "cmp"):
                cid = f"p{len(cases)}"
                cases.append((cid, sl, [op, str(x[0]), str(x[1]), str(y[0]), str(y[1])]))
                meta[cid] = ("prim", ity, None, None, None, None, sl)
                plines.append(f"{cid} w - (prim {lo} {hi} {PRIM_OPS[op]} ({x[0]} {x[1]}) ({y[0]} {y[1]}))")
                prim_cases[cid] = (ity, op, x, y)
        for x in rs[:: max(1, len(rs) // (300 if quick else 3000))]:
            for e in (-7, -3, -2, -1, 0, 1, 2, 3, 5, 8, 63):
                cid = f"p{len(cases)}"
                cases.append((cid, sl, ["pow", str(x[0]), str(x[1]), str(e), "1"]))
                meta[cid] = ("prim", ity, None, None, None, None, sl)
                plines.append(f"{cid} w - (prim {lo} {hi} 5 ({x[0]} {x[1]}) ({e} 1))")
                prim_cases[cid] = (ity, "pow", x, (e, 1))
            cid = f"p{len(cases)}"
            cases.append((cid, sl, ["toi", str(x[0]), str(x[1]), "0", "1"]))
            meta[cid] = ("prim", ity, None, None, None, None, sl)
            plines.append(f"{cid} w - (prim {lo} {hi} 6 ({x[0]} {x[1]}) (0 1))")
            prim_cases[cid] = (ity, "toi", x, (0, 1))
        for _ in range(300 if quick else 3000):
            n, d = nums[prng.below(len(nums))], nums[prng.below(len(nums))]
            cid = f"p{len(cases)}"
            cases.append((cid, sl, ["new", str(n), str(d), "0", "1"]))
            meta[cid] = ("prim", ity, None, None, None, None, sl)
            plines.append(f"{cid} w - (prim {lo} {hi} 7 ({n} {d}) (0 1))")
            prim_cases[cid] = (ity, "new", (n, d), (0, 1))
    ctx.log(f"{len(h.slots)} slots, {len(cases)} cases; building harness")
    if not h.build():
        ctx.log(h.build_log[-3000:])
        ctx.violation({"kind": "harness-build", "obligation": "the exact-storage conversion harness no longer compiles against /repo", "log": h.build_log[-3000:]}, no_input=True)
        return
    impl = h.run(cases)
    model = coqbuild.run_model(mlines)
    ctx.log(f"implementation answered {len(impl)}, model answered {len(model)}")
    ctx.vm_crosscheck(mlines, model)
    # published coefficients
    basec = {}
    for cid, sl, args in cases:
        m = meta[cid]
        if m[0] == "bc":
            got = impl.get(cid)
            basec[(m[1], m[2])] = [X.parse_factor(m[1], x) for x in got.split()] if got and got != "PANIC" else None
    pub = {}
    for cid, sl, args in cases:
        m = meta[cid]
        if m[0] in ("c", "ka", "ks"):
            pub[(m[1], m[2], m[3]["module"], m[4]["name"], m[0])] = X.parse_factor(m[1], impl.get(cid))
    # fixed-width classes: the model runs on the PUBLISHED coefficients (Ratio<iN>::from_f64 is the dependency's), every
    # machine operation checked against the type's range
    wlines, wdec = [], {}
    for cid, sl, args in cases:
        d, ty, bs, q, u, v, _ = meta[cid]
        if d not in ("n", "g") or ty not in FIXED:
            continue
        k = pub.get((ty, bs, q["module"], u["name"], "c"))
        cc = pub.get((ty, bs, q["module"], u["name"], "ka" if d == "n" else "ks"))
        bc = basec.get((ty, bs))
        if k is None or cc is None or bc is None or any(x is None for x in bc):
            continue
        st = STYPES[ty]
        isint = st["cls"] == "z"
        fv = Fraction(v)
        wlines.append(f"{cid} w - ({'new' if d == 'n' else 'get'} {st['lo']} {st['hi']} {1 if isint else 0} ({' '.join(wpair(x) for x in bc)}) "
                      f"{T.zlist(q['dim'])} {wpair(k)} {wpair(cc)} {wpair(fv)})")
    wmodel = coqbuild.run_model(wlines + plines)
    ctx.log(f"fixed-width model answered {len(wmodel)} of {len(wlines) + len(plines)}")
    ctx.vm_crosscheck(wlines + plines[:2000], wmodel, n=30)

    def wdecode(txt, isint):
        f = (txt or "").split()
        if not f:
            return None
        if f[0] == "0":
            return "PANIC"
        if f[0] == "1" and isint and len(f) == 2:
            return f[1]
        if f[0] == "1" and len(f) == 3:
            return f"{f[1]}/{f[2]}"
        return None

    spec_fail, disagreements = [], []
    wstat = {"cases": 0, "model_value": 0, "model_panics": 0, "agree": 0}
    w_impl_panics, w_model_panics, w_other = [], [], []
    prim_bad = []
    for cid, (ity, op, x, y) in prim_cases.items():
        want = wdecode(wmodel.get(cid), op in ("cmp", "toi"))
        got = impl.get(cid)
        if want is None or got != want:
            prim_bad.append((cid, ity, op, x, y, got, want))
    hist, distinct = {}, set()
    checked = panics_scoped = 0
    for cid, sl, args in cases:
        d, ty, bs, q, u, v, _ = meta[cid]
        if d not in ("n", "g"):
            continue
        got = impl.get(cid)
        cls = STYPES[ty]["cls"]
        hist[f"{ty}/{bs}/{d}"] = hist.get(f"{ty}/{bs}/{d}", 0) + 1
        distinct.add((ty, bs, q["module"], u["name"], d, str(v)))
        k = pub.get((ty, bs, q["module"], u["name"], "c"))
        ca = pub.get((ty, bs, q["module"], u["name"], "ka"))
        cs = pub.get((ty, bs, q["module"], u["name"], "ks"))
        bc = basec.get((ty, bs))
        if cid in model:
            want = model[cid].strip()
            if ty in ("biguint", "u64") and want.startswith("-"):
                pass        # unsigned storage cannot hold the (negative) result: the raw type's own subtraction panics
            elif got != want:
                disagreements.append((cid, got, want))
        if cid in wmodel:
            want = wdecode(wmodel[cid], cls == "z")
            wstat["cases"] += 1
            wstat["model_panics" if want == "PANIC" else "model_value"] += 1
            if got == want:
                wstat["agree"] += 1
            elif got == "PANIC":
                w_impl_panics.append((cid, want))
            elif want == "PANIC":
                w_model_panics.append((cid, got))
            else:
                w_other.append((cid, got, want))
        if k is None or ca is None or cs is None or bc is None or any(x is None for x in bc) or k == 0:
            panics_scoped += 1      # coefficient not representable in this storage type: outside the property's scope
            continue
        f = Fraction(1)
        for bcoef, e in zip(bc, q["dim"]):
            f *= bcoef ** e
        ex = (Fraction(v) + ca) * k / f if d == "n" else Fraction(v) * f / k - cs
        want_v = Fraction(X.tquot(ex)) if cls == "z" else ex
        if ty in ("biguint", "u64") and ex < 0:
            continue
        if got in (None, "PANIC"):
            if ty in FIXED:
                # fixed width: a panic is a violation when no intermediate of the transcribed evaluation (Model/Fixed.v) leaves the
                # type's range -- or, independently of the model, when every intermediate is tiny
                pows = [bcoef ** e for bcoef, e in zip(bc, q["dim"]) if e]
                big = max(abs(x.numerator) + x.denominator for x in [Fraction(v) + ca, k, f, k / f, f / k, ex if ex else Fraction(1)] + pows)
                mw = wdecode(wmodel.get(cid), cls == "z") if cid in wmodel else None
                if mw is None and big < 2 ** ((STYPES[ty]["hi"].bit_length()) // 2 - 2):
                    # (only where the width-checked model gave no answer) every intermediate, the single powers of the base factor included, is tiny
                    spec_fail.append((cid, f"conversion panicked although every intermediate is tiny for {ty} (exact result {ex})"))
                elif mw not in (None, "PANIC"):
                    spec_fail.append((cid, f"conversion panicked although no intermediate overflows {ty} in the order of operations of to_base/from_base "
                                           f"(width-checked model: {mw}; exact result {ex})"))
                else:
                    panics_scoped += 1
                continue
            spec_fail.append((cid, f"conversion answered {got}"))
            continue
        checked += 1
        g = X.parse_value(ty, got)
        if g != want_v:
            spec_fail.append((cid, f"impl {got} != exact {'truncated ' if cls == 'z' else ''}result {want_v} (exact rational {ex})"))

    def replay_case(cid, extra):
        d, ty, bs, q, u, v, sl = meta[cid]
        args = next(a for c, s, a in cases if c == cid)
        line = next((l for l in mlines if l.startswith(cid + " ")), None)
        return dict({"kind": "exact conversion", "storage": ty, "base_set": bs, "unit": f"{q['module']}::{u['name']}",
                     "direction": "new" if d == "n" else "get", "value": str(v), "implementation": impl.get(cid), "model": model.get(cid),
                     "harness": {"features": h.features, "prelude": h.prelude,
                                 "cases": [{"slot_body": h.slots[sl], "args": args, "model": line.split(" ", 1)[1] if line else None}]}}, **extra)

    for cid, why in spec_fail[:5]:
        ctx.violation(replay_case(cid, {"spec": "C08: exact rational result of the conversion formula on the published coefficient/offset (truncated toward zero for integers)", "detail": why}))
    if prim_bad:
        cid, ity, op, x, y, got, want = prim_bad[0]
        ctx.violation({"kind": "dependency model", "obligation": "Model/Fixed.v (width-checked Ratio<iN>) vs num-rational on single operations",
                       "type": ity, "op": op, "x": list(x), "y": list(y), "implementation": got, "model": want, "count": len(prim_bad),
                       "harness": {"features": h.features, "prelude": h.prelude, "cases": [{"slot_body": h.slots[meta[cid][6]], "args": next(a for c, s_, a in cases if c == cid)}]}},
                      no_input=True)
    if (w_model_panics or w_other) and not spec_fail:
        cid = (w_model_panics or w_other)[0][0]
        ctx.violation(replay_case(cid, {"obligation": "fixed-width correspondence: Model.Fixed (StQw/StZw, extracted) vs Quantity::new/get at Rational64/i64/i32/u64: "
                                        "the implementation returns a value where the width-checked model overflows, or another value",
                                        "model_w": wmodel.get(cid), "count": len(w_model_panics) + len(w_other)}), no_input=True)
    if disagreements and not spec_fail:
        cid, got, want = disagreements[0]
        ctx.violation(replay_case(cid, {"obligation": "exact correspondence Model.Run.q_run/z_run (extracted) vs Quantity::new/get at BigRational/BigInt/BigUint",
                                        "count": len(disagreements)}), no_input=True)
    cov = ctx.coverage
    cov["evaluations"] = sum(1 for c in cases if meta[c[0]][0] in ("n", "g"))
    cov["distinct_nontrivial"] = len(distinct)
    cov["rule"] = ("new/get for BigRational, BigInt, BigUint (all selected units: offset, negative, extreme coefficients + rotation; values to 2^200, negative, "
                   "non-integral) and Rational64/i64/i32/u64 (units with coefficient numerator/denominator < 2^20, |value| <= 1000) x base sets {SI, km-g-h, cgs}; "
                   "expected = exact rational formula on the PUBLISHED coefficient()/constant() of the storage type, truncated toward zero for integers; "
                   "Big* additionally equal to the extracted model")
    wstat["impl_panics_model_value"] = len(w_impl_panics)
    wstat["impl_value_model_panics"] = len(w_model_panics)
    wstat["different_values"] = len(w_other)
    cov["fixed_width"] = wstat
    cov["dependency_model"] = {"single_operations": len(prim_cases), "disagreements": len(prim_bad), "types": sorted(PRIM_TYPES)}
    cov["spec_checked"] = checked
    cov["outside_scope_unrepresentable_or_wide"] = panics_scoped
    cov["disagreements_checked"] = len(disagreements)
    cov["spec_failures"] = len(spec_fail)
    cov["histogram"] = hist
    smp = ctx.rng.fork("samples").sample([c for c in cases if meta[c[0]][0] in ("n", "g")], 6)
    cov["samples"] = [{"storage": meta[c][1], "base": meta[c][2], "unit": meta[c][4]["name"], "args": a, "implementation": impl.get(c), "model": model.get(c)} for c, _, a in smp]
