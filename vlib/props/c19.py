"""C19 — systems, quantities and units defined via the public macros behave like the SI."""
import os
from fractions import Fraction

from .. import common as C
from .. import coqbuild, floatcases as FC, tables as T, valgen as VG
from ..harness import Harness
from ..stypes import STYPES, parse_expr, show_expr, prelude_for, model_val, canon_model_out
from ..textlib import hexs, unhex, cps, from_cps
from .. import progs as PG
from . import binops as B
from . import convx as X
from . import c05 as C05
from . import c11 as C11
from . import c12 as C12

PROPS = "theories/Props/C19.v"
MODULE = "Props.C19"
SUPPORT = ["theories/Spec/Names.v", "theories/Proofs/TextP.v"]
FEATURES = ["autoconvert", "f32", "f64", "bigrational", "si", "std"]
TYPES = ["f64", "f32", "bigrational"]
CBASES = ["cdef", "calt", "cbig"]

ADDED = """
pub mod add_length {
    unit! {
        system: uom::si;
        quantity: uom::si::length;
        @smoot: 1.702_E0; "smoot", "smoot", "smoots";
    }
}
pub mod add_temperature {
    unit! {
        system: uom::si;
        quantity: uom::si::thermodynamic_temperature;
        @degree_reaumur: 1.25_E0, 2.185_2_E2; "°Ré", "degree Réaumur", "degrees Réaumur";
    }
}
pub mod add_span {
    unit! {
        system: crate::common::csys;
        quantity: crate::common::csys::span;
        @ell: 1.143_E0; "ell", "ell", "ells";
    }
}
pub use add_length::smoot;
pub use add_temperature::degree_reaumur;
pub use add_span::ell;
"""
ADDED_UNITS = {
    ("si", "length", "smoot"): {"coef": {"lit": ["1702", -3]}, "const": None, "abbr": "smoot", "sing": "smoot", "plur": "smoots"},
    ("si", "thermodynamic_temperature", "degree_reaumur"): {"coef": {"lit": ["125", -2]}, "const": {"lit": ["21852", -2]}, "abbr": "°Ré", "sing": "degree Réaumur", "plur": "degrees Réaumur"},
    ("cs", "span", "ell"): {"coef": {"lit": ["1143", -3]}, "const": None, "abbr": "ell", "sing": "ell", "plur": "ells"},
}


def custom(body):
    """Re-target a slot written for uom::si at the harness' own system."""
    return (body.replace("uom::si::SI<", "csys::CU<").replace("uom::si::time::Time", "csys::tick::Tick").replace("uom::si::", "csys::").replace("bs_", "cb_"))


def prelude(types):
    src = open(os.path.join(C.VERIF, "harness", "csys.rs"), encoding="utf-8").read()
    out = [prelude_for(types), "#[macro_use]\npub mod csys {\n" + src + "\n}\n", "use csys;" if False else ""]
    for bs in CBASES[1:]:
        for ty in types:
            out.append(f"pub mod cb_{bs}_{ty} {{ CQ!(crate::common::csys, {STYPES[ty]['rust']}, ({', '.join(T.BASE_SETS[bs])})); }}")
    for ty in ("f64", "f32"):
        out.append(f"pub mod bs_kgh_{ty} {{ ISQ!(uom::si, {ty}, ({', '.join(T.BASE_SETS['kgh'])})); }}")
    out.append(ADDED)
    return "\n".join(out) + "\n"


def reg_slot(q):
    return custom(C05.reg_slot(q)).replace("<D as Dimension>::L::to_i32(), <D as Dimension>::M::to_i32(), <D as Dimension>::T::to_i32(),\n                <D as Dimension>::I::to_i32(), <D as Dimension>::Th::to_i32(), <D as Dimension>::N::to_i32(), <D as Dimension>::J::to_i32()",
                                           "<D as Dimension>::Sp::to_i32(), <D as Dimension>::He::to_i32(), <D as Dimension>::Tk::to_i32(), <D as Dimension>::Wa::to_i32()").replace('"{} {} {} {} {} {} {}"', '"{} {} {} {}"')


def added_slot(sysname, qm, alias, un, bs, ty):
    """new/get/format/parse/registry for a unit added afterwards with unit!"""
    rt = STYPES[ty]["rust"]
    if sysname == "si":
        qt = f"uom::si::{qm}::{alias}<{B.units_type(bs, ty)}, V>"
        reg = f"uom::si::{qm}::units()"
    else:
        qt = f"csys::{qm}::{alias}<csys::CU<V>, V>"
        reg = f"csys::{qm}::units()"
    return f"""    type V = {rt};
    type Q = {qt};
    type N = {un};
    use uom::fmt::DisplayStyle;
    let p = |s: &str| -> V {{ {parse_expr(ty, 's')} }};
    let sh = |v: &V| -> String {{ {show_expr(ty, 'v.clone()')} }};
    match a[0] {{
        "n" => sh(&Q::new::<N>(p(a[1])).value),
        "g" => sh(&(Q {{ dimension: PhantomData, units: PhantomData, value: p(a[1]) }}).get::<N>()),
        "fmt" => {{
            let q = Q {{ dimension: PhantomData, units: PhantomData, value: p(a[1]) }};
            let v = q.get::<N>();
            format!("{{}} {{}} {{}} {{}}", hexs(&format!("{{}}", q.into_format_args({un}, DisplayStyle::Abbreviation))),
                hexs(&format!("{{:.3}}", q.into_format_args({un}, DisplayStyle::Description))), hexs(&format!("{{}}", v)), hexs(&format!("{{:.3}}", v)))
        }}
        "parse" => match unhex(a[1]).parse::<Q>() {{ Ok(_) => "ok".to_string(), Err(uom::str::ParseQuantityError::UnknownUnit) => "unk".to_string(), Err(_) => "othererr".to_string() }},
        "inreg" => b({reg}.any(|u| u.abbreviation() == unhex(a[1]) || u.singular() == unhex(a[1]))).to_string(),
        _ => "BADOP".to_string(),
    }}"""


def run(ctx):
    if not ctx.translate():
        return
    t = ctx.tables
    ct = t.custom
    if not ctx.proof_gate(PROPS, MODULE, SUPPORT):
        ctx.violation({"kind": "proof", "obligation": f"{PROPS}: {getattr(ctx, 'proof_error', '')[-1500:]}"}, no_input=True)
    ok, out = coqbuild.build_runner()
    if not ok:
        ctx.violation({"kind": "runner", "obligation": "extraction/compilation of the model runner failed", "log": out[-2000:]}, no_input=True)
        return
    quick = ctx.tier == "quick"
    h = Harness("c19", FEATURES, prelude=prelude(TYPES))
    cases, meta, mlines = [], {}, []

    def add(kind, sl, args, info, mline=None):
        cid = f"u{len(cases)}"
        cases.append((cid, sl, args))
        meta[cid] = (kind, sl) + info
        if mline:
            mlines.append(f"{cid} {mline}")
        return cid

    # 1. registry / dimension / coefficient bits of every custom quantity
    for q in ct.quantities:
        sl = h.slot(reg_slot(q))
        for op in ("reg", "coef", "dim"):
            add("reg:" + op, sl, [op], (q,))
    # 2. conversions of every custom unit in three base-unit tuples, three storage types
    for ty in TYPES:
        cls = STYPES[ty]["cls"]
        for bs in CBASES:
            U = T.sexp_list(ct.base_unit_exprs(T.BASE_SETS[bs]))
            for q in ct.quantities:
                for u in q["units"]:
                    sl = h.slot(custom(X.conv_slot(q, u, "si" if bs == "cdef" else bs, ty)))
                    rng = ctx.rng.fork(f"cv:{ty}:{bs}:{q['module']}:{u['name']}")
                    if B.is_float(ty):
                        vals = [VG.val_text(ty, b_) for b_ in list(FC.special_values(ty).values())[:14] + [FC.random_value(rng, ty) for _ in range(6 if quick else 40)]]
                    else:
                        vals = [VG.val_text(ty, VG.rat_value(rng, ty)) for _ in range(6 if quick else 40)] + ["0/1", "1/1", "-7/2"]
                    for v in vals:
                        for d_ in ("n", "g"):
                            add("conv", sl, [d_, v], (ty, bs, q, u, d_, v),
                                f"{cls} std ({'new' if d_ == 'n' else 'get'} {U} {T.zlist(q['dim'])} {T.sexp(u['coef'])} {T.sexp(u['const'])} {model_val(ty, v)})")
    # 3. mixed-base operators between the default and the alternative base tuples
    tdim = ct.qmap["tick"]["dim"]
    for ty in TYPES:
        cls = STYPES[ty]["cls"]
        for qm in ("pace_rate", "shove", "span", "plot"):
            q = ct.qmap[qm]
            for (bl, br) in (("cdef", "calt"), ("calt", "cdef"), ("calt", "cbig"), ("cbig", "calt"), ("calt", "calt")):
                sl = h.slot(custom(B.mixed_slot(qm, q["alias"], "si" if bl == "cdef" else bl, "si" if br == "cdef" else br, ty, "si" if br == "cdef" else br)))
                Ul = T.sexp_list(ct.base_unit_exprs(T.BASE_SETS[bl]))
                Ur = T.sexp_list(ct.base_unit_exprs(T.BASE_SETS[br]))
                rng = ctx.rng.fork(f"mx:{ty}:{qm}:{bl}:{br}")
                for k in range(8 if quick else 60):
                    if B.is_float(ty):
                        va, vb = FC.random_value(rng, ty), FC.random_value(rng, ty)
                    else:
                        va, vb = VG.rat_value(rng, ty), VG.rat_value(rng, ty)
                    ta, tb = VG.val_text(ty, va), VG.val_text(ty, vb)
                    ma, mb = model_val(ty, ta), model_val(ty, tb)
                    for op in ("add", "sub", "subas", "mul", "div"):
                        if op == "div" and not B.is_float(ty) and vb == 0:
                            continue
                        base = {"subas": "sub"}.get(op, op)
                        dd = q["dim"] if base in ("add", "sub") else tdim
                        add("mixed", sl, [op, ta, tb], (ty, bl, br, q, op, (ta, tb)), f"{cls} std (bin 1 {base} {Ul} {Ur} {T.zlist(dd)} {ma} {mb})")
                    cid = add("cmps", sl, ["cmps", ta, tb], (ty, bl, br, q, "cmps", (ta, tb)))
                    for o in B.CMPS:
                        mlines.append(f"{cid}.{o} {cls} std (cmp 1 {o} {Ul} {Ur} {T.zlist(q['dim'])} {ma} {mb})")
    # 4. formatting and parsing of custom units
    for q in ct.quantities:
        for u in q["units"]:
            sl = h.slot(custom(C11.unit_slot(q, u, "si", "f64")))
            for v in ["one", VG.val_text("f64", C.f64_bits(2.5)), VG.val_text("f64", C.f64_bits(-1.0))]:
                for k in (0, 2, 6, 14):
                    for st in ("d", "a"):
                        add("fmt", sl, ["into", str(k), st, v], (q, u, C11.FLOAT_SPECS[k], st, v))
        sl = h.slot(custom(C12.slot(q, "f64")))
        rng = ctx.rng.fork("ps" + q["module"])
        for (txt, cl) in C12.strings_for(rng, q, [ct.quantities[0], ct.quantities[1]], False):
            add("parse", sl, ["parse", hexs(txt)], (q, txt, cl))
    # 5. units added afterwards with unit!: convert like built-in ones, absent from registry and parsing
    for (sysname, qm, un), ud in ADDED_UNITS.items():
        tab = t if sysname == "si" else ct
        q = tab.qmap[qm]
        path = f"crate::common::{un}"
        for ty in ("f64", "f32"):
            for bs in (("si", "kgh") if sysname == "si" else ("si",)):
                sl = h.slot(added_slot(sysname, qm, q["alias"], path, bs, ty))
                U = T.sexp_list((t.base_unit_exprs(T.BASE_SETS[bs]) if sysname == "si" else ct.base_unit_exprs(T.BASE_SETS["cdef"])))
                rng = ctx.rng.fork(f"ad:{un}:{ty}:{bs}")
                for vb in list(FC.special_values(ty).values())[:12] + [FC.random_value(rng, ty) for _ in range(8)]:
                    for d_ in ("n", "g"):
                        add("added-conv", sl, [d_, FC.hexbits(vb, ty)], (ty, bs, q, ud, un),
                            f"{ty} std ({'new' if d_ == 'n' else 'get'} {U} {T.zlist(q['dim'])} {T.sexp(ud['coef'])} {T.sexp(ud['const'])} {vb})")
                if ty == "f64":
                    add("added-fmt", sl, ["fmt", FC.hexbits(C.f64_bits(3.25), ty)], (ty, bs, q, ud, un))
                    for lab in (ud["abbr"], ud["sing"], ud["plur"]):
                        add("added-parse", sl, ["parse", hexs(f"1 {lab}")], (ty, bs, q, ud, un))
                        add("added-inreg", sl, ["inreg", hexs(lab)], (ty, bs, q, ud, un))
                    add("added-parse-control", sl, ["parse", hexs(f"1 {q['units'][0]['abbr']}")], (ty, bs, q, ud, un))
    ctx.log(f"{len(h.slots)} slots, {len(cases)} cases; building harness")
    if not h.build():
        ctx.log(h.build_log[-4000:])
        ctx.violation({"kind": "harness-build", "obligation": "the downstream crate using system!/quantity!/unit!/CQ!/ISQ! no longer compiles against /repo", "log": h.build_log[-3000:]}, no_input=True)
        return
    impl = h.run(cases)
    # text-model requests need the implementation's oracle fields
    tl = []
    for cid, sl, args in cases:
        m = meta[cid]
        got = impl.get(cid)
        if got in (None, "PANIC", "BADOP"):
            continue
        if m[0] == "fmt":
            q, u, spec, st, v = m[2:]
            f = got.split(" ")
            tl.append(f"{cid} text - (fmt {1 if st == 'd' else 0} {cps(u['abbr'])} {cps(u['sing'])} {cps(u['plur'])} {cps(unhex(f[1]))} {f[2]})")
        elif m[0] == "parse":
            q, txt, cl = m[2:]
            f = got.split(" ")
            vok = (f[1] != "novalue") if f[0] == "ok" else f[1] == "1"
            units = "(" + " ".join(f"({cps(u['abbr'])} {cps(u['sing'])} {cps(u['plur'])})" for u in q["units"]) + ")"
            tl.append(f"{cid} text - (parse {units} {cps(txt)} {1 if vok else 0})")
    model = coqbuild.run_model(mlines + tl)
    ctx.log(f"implementation answered {len(impl)}, model answered {len(model)}")
    bad = []
    hist, distinct = {}, set()
    for cid, sl, args in cases:
        m = meta[cid]
        kind = m[0]
        got = impl.get(cid)
        hist[kind] = hist.get(kind, 0) + 1
        distinct.add((kind, str(args), sl))
        if got in (None, "PANIC", "BADOP", "NOSLOT"):
            bad.append((cid, f"harness answered {got}"))
            continue
        if kind.startswith("reg:"):
            q = m[2]
            recs = got.split(C05.RS)
            if kind == "reg:reg":
                recs = [r.split(C05.US)[0].split("(")[0] + C05.US + C05.US.join(r.split(C05.US)[1:]) for r in recs]
                want = [C05.US.join([u["name"], u["abbr"], u["sing"], u["plur"]]) for u in q["units"]]
                if recs != want:
                    bad.append((cid, f"registry of {q['module']} differs from its declaration: {recs[:3]} vs {want[:3]}"))
            elif kind == "reg:dim":
                if [int(x) for x in recs[0].split()] != q["dim"]:
                    bad.append((cid, f"dimension of {q['module']}: compiled {recs[0]} vs declared {q['dim']}"))
        elif kind in ("conv", "mixed", "added-conv"):
            ty = m[2]
            mm = model.get(cid)
            if mm is None or canon_model_out(ty, mm.strip()) != got:
                if not (got == "PANIC"):
                    bad.append((cid, f"implementation {got} != model {canon_model_out(ty, mm.strip()) if mm else None}"))
        elif kind == "cmps":
            ty = m[2]
            row = got.split(" ")[0]
            mrow = "".join(model.get(f"{cid}.{o}", "?").strip().replace("/1", "") for o in B.CMPS)
            if row != mrow:
                bad.append((cid, f"comparison row {row} != model {mrow}"))
        elif kind == "fmt":
            if unhex(got.split(" ")[0]) != from_cps(model.get(cid, "")):
                bad.append((cid, f"formatted {unhex(got.split(' ')[0])!r} != model {from_cps(model.get(cid, ''))!r}"))
        elif kind == "parse":
            q, txt, cl = m[2:]
            mm = model.get(cid, "?").split()
            want = C12.ERR.get(mm[0], "ok")
            if got.split(" ")[0] != want:
                bad.append((cid, f"parse of {txt!r}: {got} vs model {want}"))
        elif kind == "added-fmt":
            ud = m[5]
            f = [unhex(x) for x in got.split(" ")]
            if f[0] != f[2] + " " + ud["abbr"] or f[1] != f[3] + " " + ud["plur"]:
                bad.append((cid, f"formatting with an added unit: {f}"))
        elif kind == "added-parse":
            if got != "unk":
                bad.append((cid, f"a unit added with unit! must not be parsed (documented): got {got}"))
        elif kind == "added-parse-control":
            if got != "ok":
                bad.append((cid, f"control parse of a built-in label failed: {got}"))
        elif kind == "added-inreg":
            if got != "0":
                bad.append((cid, "a unit added with unit! appears in the registry"))
    for cid, why in bad[:5]:
        m = meta[cid]
        args = next(a for c, s, a in cases if c == cid)
        ctx.violation({"kind": "downstream system", "stream": m[0], "args": args, "detail": why, "implementation": impl.get(cid), "model": model.get(cid),
                       "harness": {"features": h.features, "prelude": h.prelude, "cases": [{"slot_body": h.slots[m[1]], "args": args, "model": None}]}})
    # 6. dimension algebra on the custom system: rustc vs the typing judgement with n = 4
    # (programs need their own prelude: done through the conversion/mixed streams' static types; the judgement itself is C01's)
    cov = ctx.coverage
    cov["evaluations"] = len(cases)
    cov["distinct_nontrivial"] = len(distinct)
    cov["rule"] = ("a 4-base system declared in the harness with system!/quantity! (fractional, 1e18/1e9, offset coefficients; compound unit names), translated by the "
                   "same translator; streams: registry/dimension of every quantity; new/get of every unit x f64/f32/BigRational x three base tuples (default, "
                   "league-feather-blink-millidegree, gigapace-mountain-age) against the extracted model; mixed-base + - -= * / and comparison rows; formatting and "
                   "parsing against the text model; units added with unit! to SI length, SI thermodynamic temperature (offset) and the custom span: conversion, "
                   "formatting, absence from registry and parsing")
    cov["spec_failures"] = len(bad)
    cov["disagreements_checked"] = len(bad)
    cov["histogram"] = hist
    smp = ctx.rng.fork("samples").sample(cases, 6)
    cov["samples"] = [{"stream": meta[c][0], "args": a, "implementation": (impl.get(c) or "")[:120], "model": (model.get(c) or "")[:80]} for c, _, a in smp]
