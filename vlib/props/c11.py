"""C11 — formatting prints the value in the requested unit with the right label."""
from .. import common as C
from .. import coqbuild, floatcases as FC, tables as T, valgen as VG
from ..harness import Harness
from ..stypes import STYPES, parse_expr, show_expr, prelude_for
from ..textlib import hexs, unhex, cps, from_cps
from . import binops as B
from . import convlib

PROPS = "theories/Props/C11.v"
MODULE = "Props.C11"
SUPPORT = ["theories/Proofs/TextP.v", "theories/Model/Text.v"]
FEATURES = ["autoconvert", "f32", "f64", "i64", "bigrational", "si", "std"]
BASES = ["si", "kgh"]

FLOAT_SPECS = ["{}", "{:?}", "{:e}", "{:E}", "{:12}", "{:<12}", "{:^14.3}", "{:+}", "{:010.2}", "{:.0}", "{:+.3e}", "{:#?}", "{:*>9.1}", "{:3}", "{:.2}"]
INT_SPECS = ["{}", "{:?}", "{:x}", "{:X}", "{:o}", "{:b}", "{:#x}", "{:#010b}", "{:+}", "{:8}", "{:<8}", "{:e}", "{:E}", "{:#o}"]
RAT_SPECS = ["{}", "{:?}", "{:10}", "{:<10}", "{:+}"]


def specs_for(ty):
    c = STYPES[ty]["cls"]
    return FLOAT_SPECS if c in ("f64", "f32") else (INT_SPECS if c == "z" else RAT_SPECS)


def fm_macro(specs):
    arms = "\n".join(f'            "{i}" => format!("{sp}", $x),' for i, sp in enumerate(specs))
    return f"""    macro_rules! fm {{ ($x:expr) => {{ match a[1] {{
{arms}
            _ => "BADSPEC".to_string(),
        }} }} }}"""


from . import added as AD
ADDED = AD.PRELUDE
ADDED_UNITS = AD.UNITS


def unit_slot(q, u, bs, ty):
    rt = STYPES[ty]["rust"]
    qm, alias, un = q["module"], q["alias"], u["name"]
    if u.get("added"):
        return unit_slot(q, dict(u, added=False), bs, ty).replace(f"uom::si::{qm}::{un}", un)
    return f"""    type V = {rt};
    type Q = uom::si::{qm}::{alias}<{B.units_type(bs, ty)}, V>;
    type N = uom::si::{qm}::{un};
    use uom::fmt::DisplayStyle;
{fm_macro(specs_for(ty))}
    let p = |s: &str| -> V {{ {parse_expr(ty, 's')} }};
    let mk = |v: V| Q {{ dimension: PhantomData, units: PhantomData, value: v }};
    let style = if a[2] == "d" {{ DisplayStyle::Description }} else {{ DisplayStyle::Abbreviation }};
    let stored = |s: &str| -> V {{ if s == "one" {{ Q::new::<N>(<V as uom::num::One>::one()).value }} else {{ p(s) }} }};
    let v = mk(stored(a[3])).get::<N>();
    let one = v == <V as uom::num::One>::one();
    let out = match a[0] {{
        "into" => fm!(mk(stored(a[3])).into_format_args(uom::si::{qm}::{un}, style)),
        "with" => fm!(Q::format_args(uom::si::{qm}::{un}, style).with(mk(stored(a[3])))),
        _ => return "BADOP".to_string(),
    }};
    let oracle = fm!(v);
    format!("{{}} {{}} {{}}", hexs(&out), hexs(&oracle), b(one))"""


def debug_slot(q, bs, ty):
    rt = STYPES[ty]["rust"]
    qm, alias = q["module"], q["alias"]
    return f"""    type V = {rt};
    type Q = uom::si::{qm}::{alias}<{B.units_type(bs, ty)}, V>;
    let p = |s: &str| -> V {{ {parse_expr(ty, 's')} }};
    let q = Q {{ dimension: PhantomData, units: PhantomData, value: p(a[1]) }};
    let (out, oracle) = match a[0] {{
        "0" => (format!("{{:?}}", q), format!("{{:?}}", q.value)),
        "1" => (format!("{{:.2?}}", q), format!("{{:.2?}}", q.value)),
        "2" => (format!("{{:8?}}", q), format!("{{:8?}}", q.value)),
        _ => return "BADOP".to_string(),
    }};
    format!("{{}} {{}}", hexs(&out), hexs(&oracle))"""


def values_for(rng, t, ty, q, u, bs, n):
    """Stored values (text) such that the converted value hits 1, -1, 1+-ulp, 0, special, random."""
    c = STYPES[ty]["cls"]
    if c in ("f64", "f32"):
        sp = FC.special_values(ty)
        vals = [sp[k] for k in ("1", "-1", "1+ulp", "1-ulp", "+0", "-0", "nan", "+inf", "2", "1.5")]
        vals += [FC.random_value(rng, ty) for _ in range(n)]
        return [FC.hexbits(v, ty) for v in vals]
    if c == "z":
        return [str(v) for v in [0, 1, -1, 2, 255, 1000, -4096, 10 ** 6] + [rng.below(10 ** 5) for _ in range(n)]]
    return [VG.val_text(ty, v) for v in [VG.rat_value(rng, ty) for _ in range(n)]] + ["1/1", "0/1", "-1/1", "3/2"]


def run(ctx):
    if not ctx.translate():
        return
    t = ctx.tables
    if not ctx.proof_gate(PROPS, MODULE, SUPPORT):
        ctx.violation({"kind": "proof", "obligation": f"{PROPS}: {getattr(ctx, 'proof_error', '')[-1500:]}"}, no_input=True)
    ok, out = coqbuild.build_runner()
    if not ok:
        ctx.violation({"kind": "runner", "obligation": "extraction/compilation of the model runner failed", "log": out[-2000:]}, no_input=True)
        return
    quick = ctx.tier == "quick"
    types = ["f64", "f32", "i64", "bigrational"]
    h = Harness("c11", FEATURES, prelude=B.prelude(BASES, types) + ADDED)
    units = convlib.select_units(t, ctx.rng.fork("units"), 45 if quick else 400)
    units = units + [(t.qmap[qm], u) for qm, u in ADDED_UNITS]
    int_ok = lambda u: abs(int(u["coef_q"][0])) < 2 ** 30 and int(u["coef_q"][1]) < 2 ** 30
    cases, meta = [], {}
    for ty in types:
        specs = specs_for(ty)
        for bs in BASES:
            for (q, u) in units:
                if STYPES[ty]["cls"] == "z" and (not int_ok(u) or u["const"] is not None or q["module"] not in ("length", "time", "mass", "information", "velocity", "area")):
                    continue
                if ty == "bigrational" and q["module"] not in ("length", "time", "velocity", "pressure", "thermodynamic_temperature"):
                    continue
                sl = h.slot(unit_slot(q, u, bs, ty))
                rng = ctx.rng.fork(f"{ty}:{bs}:{q['module']}:{u['name']}")
                vals = ["one"] + values_for(rng, t, ty, q, u, bs, 3 if quick else 12)
                # the stored value for which the converted value is exactly one: new::<N>(1) is obtained by the unit itself
                for v in vals:
                    for k in (range(len(specs)) if not quick else rng.sample(list(range(len(specs))), 4)):
                        for st in ("d", "a"):
                            op = "into" if rng.below(4) else "with"
                            cid = f"f{len(cases)}"
                            cases.append((cid, sl, [op, str(k), st, v]))
                            meta[cid] = ("unit", ty, bs, q, u, specs[k], st, v, sl)
            for q in (t.quantities if not quick else ctx.rng.fork(f"dbg{ty}{bs}").sample(t.quantities, 20)):
                if ty in ("i64", "bigrational") and q["module"] not in ("length", "velocity", "energy"):
                    continue
                sl = h.slot(debug_slot(q, bs, ty))
                for v in values_for(ctx.rng.fork(f"dv{ty}{bs}{q['module']}"), t, ty, q, None, bs, 1)[:4]:
                    for k in ("0", "1", "2"):
                        cid = f"f{len(cases)}"
                        cases.append((cid, sl, [k, v]))
                        meta[cid] = ("debug", ty, bs, q, None, k, "-", v, sl)
    ctx.log(f"{len(h.slots)} slots, {len(cases)} cases; building harness")
    if not h.build():
        ctx.log(h.build_log[-3000:])
        ctx.violation({"kind": "harness-build", "obligation": "the formatting harness no longer compiles against /repo", "log": h.build_log[-3000:]}, no_input=True)
        return
    impl = h.run(cases)
    mlines = []
    for cid, sl, args in cases:
        kind, ty, bs, q, u, spec, st, v, _ = meta[cid]
        got = impl.get(cid)
        if got is None or got in ("PANIC", "BADOP", "BADSPEC"):
            continue
        f = got.split(" ")
        shown = unhex(f[1])
        if kind == "unit":
            mlines.append(f"{cid} text - (fmt {1 if st == 'd' else 0} {cps(u['abbr'])} {cps(u['sing'])} {cps(u['plur'])} {cps(shown)} {f[2]})")
        else:
            abbrs = "(" + " ".join(cps(t.unit(b["name"], n)["abbr"]) for b, n in zip(t.base, T.BASE_SETS[bs])) + ")"
            mlines.append(f"{cid} text - (debug {cps(shown)} {abbrs} {T.zlist(q['dim'])})")
    model = coqbuild.run_model(mlines)
    ctx.log(f"implementation answered {len(impl)}, model answered {len(model)}")
    bad = []
    hist, distinct = {}, set()
    ones = 0
    overflow_scoped = 0
    for cid, sl, args in cases:
        kind, ty, bs, q, u, spec, st, v, _ = meta[cid]
        got = impl.get(cid)
        hist[f"{kind}/{ty}/{bs}"] = hist.get(f"{kind}/{ty}/{bs}", 0) + 1
        if got == "PANIC" and STYPES[ty]["cls"] == "z" and kind == "unit":
            # fixed-width storage: the conversion's exact intermediates do not fit (the property presupposes no overflow; debug build panics)
            from fractions import Fraction
            k_ = Fraction(int(u["coef_q"][0]), int(u["coef_q"][1]))
            f_ = Fraction(1)
            for b_, name_, e_ in zip(t.base, T.BASE_SETS[bs], q["dim"]):
                f_ *= T.frac(t.unit(b_["name"], name_)["coef"]) ** e_
            a_ = f_ / k_ if k_ else Fraction(0)
            vi = abs(int(v)) if v not in ("one",) else 1
            if max(vi * abs(a_.numerator), a_.denominator, abs(a_.numerator), f_.numerator, f_.denominator) >= 2 ** 62:
                overflow_scoped += 1
                continue
        if got is None or got in ("PANIC", "BADOP", "BADSPEC"):
            bad.append((cid, f"harness answered {got}", None))
            continue
        f = got.split(" ")
        out = unhex(f[0])
        want = from_cps(model.get(cid, ""))
        distinct.add((kind, ty, bs, q["module"], u["name"] if u else "-", spec, st, v))
        if kind == "unit" and f[2] == "1":
            ones += 1
        if out != want:
            bad.append((cid, out, want))

    def replay_case(cid, extra):
        kind, ty, bs, q, u, spec, st, v, sl = meta[cid]
        args = next(a for c, s, a in cases if c == cid)
        return dict({"kind": "format", "what": kind, "storage": ty, "base_set": bs, "quantity": q["module"], "unit": u["name"] if u else None,
                     "format_spec": spec if kind == "unit" else {"0": "{:?}", "1": "{:.2?}", "2": "{:8?}"}[spec],
                     "style": {"d": "Description", "a": "Abbreviation", "-": None}[st], "stored_value": v,
                     "harness": {"features": h.features, "prelude": h.prelude,
                                 "cases": [{"slot_body": h.slots[sl], "args": args, "model": None}]}}, **extra)

    for cid, out, want in bad[:5]:
        ctx.violation(replay_case(cid, {"spec": "C11: output = storage type's formatting of the converted value, one space, label (singular iff the value is one)",
                                        "implementation": out, "expected": want}))
    cov = ctx.coverage
    cov["evaluations"] = len(cases)
    cov["distinct_nontrivial"] = len(distinct)
    cov["fixed_width_overflow_scoped"] = overflow_scoped
    cov["rule"] = ("format!(spec, q.into_format_args(unit, style)) and Arguments::with for f64/f32/i64/BigRational x {SI, km-g-h} bases x selected units "
                   "(all offset/extreme units + rotation) x spec catalogue (Display/Debug/exp/hex/octal/binary with width, fill, align, sign, #, 0, precision) x "
                   "both styles x values {1,-1,1+-ulp,0,-0,NaN,inf,random}; Debug of bare quantities for sampled quantities; the storage type's own formatting of "
                   "the converted value is produced in the same process (oracle)")
    cov["converted_value_is_one_cases"] = ones
    cov["disagreements_checked"] = len(bad)
    cov["histogram"] = hist
    smp = ctx.rng.fork("samples").sample(cases, 6)
    cov["samples"] = [{"args": a, "unit": (meta[c][4] or {}).get("name"), "spec": meta[c][5], "implementation": unhex((impl.get(c) or "- -").split(" ")[0]),
                       "model": from_cps(model.get(c, ""))} for c, _, a in smp]
