"""C16 — rounding to a unit rounds the value as expressed in that unit."""
import math
from fractions import Fraction

from .. import common as C
from .. import coqbuild, floatcases as FC, tables as T, valgen as VG
from ..harness import Harness, FEATURE_SETS
from ..stypes import STYPES, parse_expr, show_expr, model_val, canon_model_out
from . import binops as B
from . import convx as X
from . import convlib

PROPS = "theories/Props/C16.v"
MODULE = "Props.C16"
SUPPORT = ["theories/Proofs/RoundP.v", "theories/Proofs/ExactP.v"]
TYPES = ["f64", "f32"]
BASES = ["si", "kgh", "cgs"]
RNDS = ["floor", "ceil", "round", "trunc", "fract"]


def slot(q, u, bs, ty):
    if u.get("added"):
        from . import added as AD
        return AD.repath(slot(q, dict(u, added=False), bs, ty), q, u)
    rt = STYPES[ty]["rust"]
    qm, alias, un = q["module"], q["alias"], u["name"]
    arms = "\n".join(f'        "{r}" => x.{r}::<N>(),' for r in RNDS)
    return f"""    type V = {rt};
    type Q = uom::si::{qm}::{alias}<{B.units_type(bs, ty)}, V>;
    type N = uom::si::{qm}::{un};
    let p = |s: &str| -> V {{ {parse_expr(ty, 's')} }};
    let sh = |v: &V| -> String {{ {show_expr(ty, 'v.clone()')} }};
    // a[1] = "u": a[2] is a value IN THE UNIT; "s": a[2] is the stored value
    let x: Q = if a[1] == "u" {{ Q::new::<N>(p(a[2])) }} else {{ Q {{ dimension: PhantomData, units: PhantomData, value: p(a[2]) }} }};
    let g0 = x.get::<N>();
    let s0 = x.value;
    let r: Q = match a[0] {{
{arms}
        _ => return "BADOP".to_string(),
    }};
    format!("{{}} {{}} {{}} {{}}", sh(&s0), sh(&g0), sh(&r.value), sh(&r.get::<N>()))"""


def must_values(ty):
    """Values every run includes: where an add-one-half-then-floor style rounding goes wrong."""
    f = FC.FMT[ty]
    sp = FC.special_values(ty)
    mw = f["prec"] - 1
    bias = (1 << (f["ew"] - 1)) - 1
    sign = 1 << (f["bits"] - 1)
    half = (bias - 1) << mw
    big = (bias + mw) << mw          # 2^(prec-1)
    vals = [half, half - 1, half + 1, sign | half, sign | (half - 1), big + 1, big + 3, sign | (big + 1), big - 1,
            ((bias) << mw) | (1 << (mw - 1)), ((bias + 1) << mw) | (1 << (mw - 2)), sign | ((bias + 1) << mw) | (1 << (mw - 2)), sp["1-ulp"], sp["-0"]]
    return vals


def unit_values(rng, ty, n):
    """Values in the unit: integers, half-integers, k +- ulp, negatives, beyond 2^prec, specials."""
    prec = FC.FMT[ty]["prec"]
    out = []
    for k in (0, 1, 2, 3, 7, 10, 100, 12345):
        for s in (1, -1):
            for off in (Fraction(0), Fraction(1, 2), Fraction(-1, 2), Fraction(3, 10), Fraction(-3, 10), Fraction(1, 1000)):
                out.append(Fraction(s * k) + off)
    bits = []
    for fr in out:
        b = C.f64_bits(float(fr)) if ty == "f64" else C.f32_bits(float(fr))
        bits += [b, b + 1, b - 1] if fr != 0 else [b]
    sp = FC.special_values(ty)
    bits += [sp[k] for k in ("+0", "-0", "nan", "+inf", "-inf", "2^prec", "2^prec+2", "+max", "-max", "+minsub", "1-ulp", "1+ulp")]
    for _ in range(n):
        bits.append(FC.random_value(rng, ty, FC.FMT[ty]["emax"] - 1 - 8, FC.FMT[ty]["emax"] - 1 + prec + 3))
    return bits


def run(ctx):
    if not ctx.translate():
        return
    t = ctx.tables
    if not ctx.proof_gate(PROPS, MODULE, SUPPORT):
        ctx.violation({"kind": "proof", "obligation": f"{PROPS}: {getattr(ctx, 'proof_error', '')[-1500:]}"}, no_input=True)
    ok, out = coqbuild.build_runner()
    if not ok:
        ctx.violation({"kind": "runner", "obligation": "extraction/compilation of the model runner failed", "log": out[-2000:]}, no_input=True)
        return
    quick = ctx.tier == "quick"
    from .added import PRELUDE as AD_PRELUDE
    h = Harness("c16", FEATURE_SETS["default"], prelude=B.prelude(BASES, TYPES) + AD_PRELUDE)
    units = convlib.select_units(t, ctx.rng.fork("units"), 40 if quick else 400)
    from . import added as AD
    units = list(units) + AD.pairs(t)
    cases, meta = [], {}
    for ty in TYPES:
        for bs in BASES:
            for (q, u) in units:
                sl = h.slot(slot(q, u, bs, ty))
                rng = ctx.rng.fork(f"{ty}:{bs}:{q['module']}:{u['name']}")
                vals = unit_values(rng, ty, 4 if quick else 40)
                if quick:
                    vals = rng.sample(vals, 40)
                vals = must_values(ty) + vals
                for vb in vals:
                    for r in RNDS:
                        cid = f"r{len(cases)}"
                        cases.append((cid, sl, [r, "u", FC.hexbits(vb, ty)]))
                        meta[cid] = (ty, bs, q, u, r, vb, sl)
    ctx.log(f"{len(h.slots)} slots, {len(cases)} cases; building harness")
    if not h.build():
        ctx.log(h.build_log[-3000:])
        ctx.violation({"kind": "harness-build", "obligation": "the rounding harness no longer compiles against /repo", "log": h.build_log[-3000:]}, no_input=True)
        return
    impl = h.run(cases)
    mlines = []
    for cid, sl, args in cases:
        ty, bs, q, u, r, vb, _ = meta[cid]
        got = impl.get(cid)
        if got in (None, "PANIC", "BADOP"):
            continue
        s0 = got.split(" ")[0]
        if s0 == "nan":
            continue
        U = T.sexp_list(t.base_unit_exprs(T.BASE_SETS[bs]))
        mlines.append(f"{cid} {ty} std (round {r} {U} {T.zlist(q['dim'])} {T.sexp(u['coef'])} {T.sexp(u['const'])} {int(s0, 16)})")
    model = coqbuild.run_model(mlines)
    ctx.log(f"implementation answered {len(impl)}, model answered {len(model)}")
    ctx.vm_crosscheck(mlines, model)
    disagreements, spec_fail = [], []
    hist, distinct = {}, set()
    checked = 0
    for cid, sl, args in cases:
        ty, bs, q, u, r, vb, _ = meta[cid]
        got = impl.get(cid)
        hist[f"{ty}/{bs}/{r}"] = hist.get(f"{ty}/{bs}/{r}", 0) + 1
        distinct.add((ty, bs, q["module"], u["name"], r, vb))
        if got in (None, "PANIC", "BADOP"):
            spec_fail.append((cid, f"harness answered {got}"))
            continue
        s0, g0, s1, g1 = got.split(" ")
        if cid in model and canon_model_out(ty, model[cid].strip()) != s1:
            disagreements.append((cid, s1, canon_model_out(ty, model[cid].strip())))
        # spec on the implementation: g1 (result read back in N) vs the rounding of g0 (original value in N)
        x0, x1 = X.parse_value(ty, g0), X.parse_value(ty, g1)
        if x0 is None or x1 is None:
            continue
        u_ = Fraction(1, 2 ** FC.FMT[ty]["prec"])
        c = abs(T.frac(u["const"])) if u["const"] is not None else Fraction(0)
        if not FC.in_normal_range(x0 if x0 else Fraction(1), ty, 40) or abs(x0) > Fraction(10) ** 30:
            continue
        fl = Fraction(math.floor(x0))
        want = {"floor": fl, "ceil": Fraction(math.ceil(x0)), "trunc": Fraction(X.tquot(x0)),
                "round": Fraction(math.floor(x0 + Fraction(1, 2))) if x0 >= 0 else -Fraction(math.floor(-x0 + Fraction(1, 2))),
                "fract": x0 - X.tquot(x0)}[r]
        scale = max(abs(want), c, abs(x0) if r == "fract" else Fraction(0), Fraction(1) if r != "fract" else Fraction(0))
        tol = 256 * u_ * max(scale, abs(x0) * (1 if r == "fract" else 0))
        if u["const"] is not None or bs != "si":
            tol = tol * 4
        checked += 1
        if abs(x1 - want) > tol + (FC.ulp_of(x0, ty) * 4 if r == "fract" else 0):
            spec_fail.append((cid, f"{r}::<{u['name']}> of {float(x0):.17g} read back as {float(x1):.17g}, expected {float(want):.17g} within a few ulps"))

    def replay_case(cid, extra):
        ty, bs, q, u, r, vb, sl = meta[cid]
        args = next(a for c, s, a in cases if c == cid)
        return dict({"kind": "rounding in a unit", "storage": ty, "base_set": bs, "unit": f"{q['module']}::{u['name']}", "rounding": r,
                     "value_in_unit_bits": FC.hexbits(vb, ty),
                     "implementation (stored before, value in unit before, stored after, value in unit after)": impl.get(cid), "model_stored_after": model.get(cid),
                     "harness": {"features": h.features, "prelude": h.prelude,
                                 "cases": [{"slot_body": h.slots[sl], "args": args, "model": None}]}}, **extra)

    for cid, why in spec_fail[:5]:
        ctx.violation(replay_case(cid, {"spec": "C16", "detail": why}))
    if disagreements and not spec_fail:
        cid, got, want = disagreements[0]
        ctx.violation(replay_case(cid, {"obligation": "bit-exact correspondence Model.Quantity.q_round (extracted) vs floor/ceil/round/trunc/fract::<N>", "count": len(disagreements)}), no_input=True)
    cov = ctx.coverage
    cov["evaluations"] = len(cases)
    cov["distinct_nontrivial"] = len(distinct)
    cov["rule"] = ("floor/ceil/round/trunc/fract::<N> for f64/f32 x base sets {SI, km-g-h, cgs} x selected units (all offset/extreme units + rotation) x values given "
                   "IN THE UNIT: integers, half-integers, +-0.3, k +- 1 ulp, negatives, beyond 2^prec, specials; stored result compared bit-exactly with the "
                   "extracted model; read-back compared with the mathematical rounding of the original value in the unit")
    cov["spec_checked"] = checked
    cov["disagreements_checked"] = len(disagreements)
    cov["spec_failures"] = len(spec_fail)
    cov["histogram"] = hist
    smp = ctx.rng.fork("samples").sample(cases, 6)
    cov["samples"] = [{"storage": meta[c][0], "base": meta[c][1], "unit": meta[c][3]["name"], "args": a, "implementation": impl.get(c), "model": model.get(c)} for c, _, a in smp]
