"""C07 — same-base operations equal the storage type's operations over any history."""
from fractions import Fraction

from .. import common as C
from .. import coqbuild, floatcases as FC, tables as T, valgen as VG
from ..harness import Harness, FEATURE_SETS
from ..stypes import STYPES, parse_expr, show_expr, prelude_for, model_val, canon_model_out
from . import convlib

PROPS = "theories/Props/C07.v"
MODULE = "Props.C07"
SUPPORT = ["theories/Proofs/QuantityP.v", "theories/Proofs/StoragesP.v", "theories/Proofs/FloatLemmas.v",
           "theories/Proofs/ExactP.v"]

QUANTS = [("length", "Length"), ("velocity", "Velocity"), ("energy", "Energy"), ("angle", "Angle"),
          ("information", "Information"), ("power", "Power")]
TYPES = ["f64", "f32", "i32", "i64", "u32", "u64", "isize", "bigint", "biguint", "rational64", "bigrational"]
BASES = ["si", "kgh", "ufs", "tiny", "ums"]


def bases_for(ty):
    """Base-unit sets per storage class: floats also get sub-multiples whose powers over/underflow (1e-15^3, 1e-24^2 in f32),
    exact types one whose powers overflow a 32-bit ratio (10^6 squared): identical base units must never need those powers."""
    return ["si", "kgh", "ufs", "tiny"] if is_float(ty) else ["si", "kgh", "ums"]


def is_float(ty):
    return STYPES[ty]["cls"] in ("f64", "f32")


def signed(ty):
    return not ty.startswith("u") and ty != "biguint"


def prim_int(ty):
    return ty in ("i32", "i64", "u32", "u64", "isize")


def units_type(bs, ty):
    rt = STYPES[ty]["rust"]
    return f"uom::si::SI<{rt}>" if bs == "si" else f"bs_{bs}_{ty}::Units"


def prelude(bases, types):
    out = [prelude_for(types)]
    for bs in bases:
        if bs == "si":
            continue
        for ty in types:
            out.append(f"pub mod bs_{bs}_{ty} {{ ISQ!(uom::si, {STYPES[ty]['rust']}, ({', '.join(T.BASE_SETS[bs])})); }}")
    return "\n".join(out) + "\n"


def ops_for(ty):
    ops = ["add", "sub", "rem", "addas", "subas", "remas", "smul", "sdiv", "smulas", "sdivas", "max", "min", "lmul", "ldiv"]
    if signed(ty):
        ops += ["neg", "abs", "signum"]
    if prim_int(ty):
        ops += ["satadd", "satsub"]
    return ops


def hist_slot(qm, alias, bs, ty):
    rt = STYPES[ty]["rust"]
    fl = is_float(ty)
    arms = []
    for o, sym in (("add", "+"), ("sub", "-"), ("rem", "%")):
        arms.append(f'"{o}" => {{ let b = p(arg); q = q.clone() {sym} mk(b.clone()); r = r.clone() {sym} b; }}')
        arms.append(f'"{o}as" => {{ let b = p(arg); q {sym}= mk(b.clone()); r {sym}= b; }}')
    for o, sym in (("smul", "*"), ("sdiv", "/")):
        arms.append(f'"{o}" => {{ let b = p(arg); q = q.clone() {sym} b.clone(); r = r.clone() {sym} b; }}')
        arms.append(f'"{o}as" => {{ let b = p(arg); q {sym}= b.clone(); r {sym}= b; }}')
    # a bare number on the LEFT: the result has another type (for / the reciprocal dimension), so the register is left alone and the
    # step reports the pair (stored value of b op q, b op r)
    arms.append('"lmul" => { let b = p(arg); let t_ = b.clone() * q.clone(); chk = Some(format!("{}|{}", sh(&t_.value), sh(&(b.clone() * r.clone())))); }')
    arms.append('"ldiv" => { let b = p(arg); let t_ = b.clone() / q.clone(); chk = Some(format!("{}|{}", sh(&t_.value), sh(&(b.clone() / r.clone())))); }')
    if fl:
        arms.append('"max" => { let b = p(arg); q = q.max(mk(b)); r = r.max(b); }')
        arms.append('"min" => { let b = p(arg); q = q.min(mk(b)); r = r.min(b); }')
        arms.append('"neg" => { q = -q; r = -r; }')
        arms.append('"abs" => { q = q.abs(); r = r.abs(); }')
        arms.append('"signum" => { q = q.signum(); r = r.signum(); }')
    else:
        arms.append('"max" => { let b = p(arg); q = Ord::max(q.clone(), mk(b.clone())); r = Ord::max(r.clone(), b); }')
        arms.append('"min" => { let b = p(arg); q = Ord::min(q.clone(), mk(b.clone())); r = Ord::min(r.clone(), b); }')
        if signed(ty):
            arms.append('"neg" => { q = -q.clone(); r = -r.clone(); }')
            arms.append('"abs" => { q = q.clone().abs(); r = uom::num::Signed::abs(&r); }')
            arms.append('"signum" => { q = q.clone().signum(); r = uom::num::Signed::signum(&r); }')
        if prim_int(ty):
            arms.append('"satadd" => { let b = p(arg); q = uom::num::Saturating::saturating_add(q.clone(), mk(b)); r = r.saturating_add(b); }')
            arms.append('"satsub" => { let b = p(arg); q = uom::num::Saturating::saturating_sub(q.clone(), mk(b)); r = r.saturating_sub(b); }')
    arms_s = "\n            ".join(arms)
    return f"""    type V = {rt};
    type Q = uom::si::{qm}::{alias}<{units_type(bs, ty)}, V>;
    fn mk(v: V) -> Q {{ Q {{ dimension: PhantomData, units: PhantomData, value: v }} }}
    let p = |s: &str| -> V {{ {parse_expr(ty, 's')} }};
    let sh = |v: &V| -> String {{ {show_expr(ty, 'v.clone()')} }};
    if a[0] == "misc0" {{
        let e: Vec<V> = Vec::new();
        let sq: Q = e.iter().cloned().map(mk).sum();
        let sr: V = e.iter().cloned().sum();
        return format!("{{}}|{{}}", sh(&sq.value), sh(&sr));
    }}
    if a[0] == "misc" {{
        let vals: Vec<V> = a[1..].iter().map(|s| p(s)).collect();
        let sq: Q = vals.iter().cloned().map(mk).sum();
        let sr: V = vals.iter().cloned().sum();
        let z = <Q as uom::num::Zero>::zero();
        let zr = <V as uom::num::Zero>::zero();
        let dq = <Q as Default>::default();
        let dr = <V as Default>::default();
        let iz = uom::num::Zero::is_zero(&mk(vals[0].clone()));
        let izr = uom::num::Zero::is_zero(&vals[0]);
        {"let cz = <Q as uom::ConstZero>::ZERO;" if (fl or prim_int(ty)) else "let cz = <Q as uom::num::Zero>::zero();"}
        return format!("{{}}|{{}};{{}}|{{}};{{}}|{{}};{{}}|{{}};{{}}|{{}}", sh(&sq.value), sh(&sr), sh(&z.value), sh(&zr), sh(&dq.value), sh(&dr), b(iz), b(izr), sh(&cz.value), sh(&zr));
    }}
    {float_misc(ty) if fl else ""}
    let mut q: Q = mk(p(a[0]));
    let mut r: V = p(a[0]);
    let mut out: Vec<String> = Vec::new();
    for t in &a[1..] {{
        let (op, arg) = match t.split_once('=') {{ Some((o, x)) => (o, x), None => (*t, "") }};
        let mut chk: Option<String> = None;
        match op {{
            {arms_s}
            _ => return "BADOP".to_string(),
        }}
        out.push(chk.unwrap_or_else(|| format!("{{}}|{{}}", sh(&q.value), sh(&r))));
    }}
    out.join(";")"""


def float_misc(ty):
    return """if a[0] == "class" {
        let v = p(a[1]); let x = mk(v);
        return format!("{}{}{}{}{}{}{:?}|{}{}{}{}{}{}{:?}", b(x.is_nan()), b(x.is_infinite()), b(x.is_finite()), b(x.is_normal()),
            b(x.is_sign_positive()), b(x.is_sign_negative()), x.classify(),
            b(v.is_nan()), b(v.is_infinite()), b(v.is_finite()), b(v.is_normal()), b(v.is_sign_positive()), b(v.is_sign_negative()), v.classify());
    }"""


def gen_history(rng, ty, length):
    """Returns (init_text, [(op, arg_text or None)], python-side exact trace or None)."""
    ops_avail = ops_for(ty)
    c = STYPES[ty]["cls"]
    if c in ("f64", "f32"):
        vals = [b for _, b in VG.float_values(rng, ty, 12)]
        pick = lambda: rng.choice(vals) if rng.below(3) == 0 else FC.random_value(rng, ty)
        init = pick()
        ops = []
        for _ in range(length):
            o = rng.choice(ops_avail)
            if o in ("neg", "abs", "signum"):
                ops.append((o, None))
                continue
            bv = pick()
            if o in ("max", "min"):
                while FC.bits_to_frac(bv, ty) == 0 if not (FC.is_nan_bits(bv, ty) or FC.is_inf_bits(bv, ty)) else False:
                    bv = FC.random_value(rng, ty)
            ops.append((o, FC.hexbits(bv, ty)))
        return FC.hexbits(init, ty), ops
    # exact classes: keep the RAW register inside the type's range
    gen = (lambda: VG.int_value(rng, ty)) if c == "z" else (lambda: VG.rat_value(rng, ty))
    acc = gen()
    while not VG.fits(ty, acc):
        acc = gen()
    init = acc
    ops = []
    tries = 0
    while len(ops) < length and tries < length * 20:
        tries += 1
        o = rng.choice(ops_avail)
        if o in ("neg", "abs", "signum"):
            r = VG.exact_un(ty, o, acc)
            if r is None:
                continue
            ops.append((o, None))
            acc = r
            continue
        bv = gen()
        if not VG.fits(ty, bv):
            continue
        if o in ("lmul", "ldiv"):
            if VG.exact_bin(ty, "mul" if o == "lmul" else "div", bv, acc) is None:
                continue
            if c == "q" and o == "ldiv" and not VG.fits(ty, bv / acc):
                continue
            ops.append((o, VG.val_text(ty, bv)))
            continue
        if o in ("satadd", "satsub"):
            st = STYPES[ty]
            r = acc + bv if o == "satadd" else acc - bv
            r = max(st["lo"], min(st["hi"], r))
        else:
            base = {"addas": "add", "subas": "sub", "remas": "rem", "smul": "mul", "sdiv": "div",
                    "smulas": "mul", "sdivas": "div"}.get(o, o)
            r = VG.exact_bin(ty, base, acc, bv)
            if r is None:
                continue
            if c == "q" and base in ("rem", "div"):
                # keep rational64 intermediates small
                if not VG.fits(ty, acc / bv):
                    continue
        ops.append((o, VG.val_text(ty, bv)))
        acc = r
    return VG.val_text(ty, init), ops


MODEL_OP = {"add": ("bin", "add"), "sub": ("bin", "sub"), "rem": ("bin", "rem"),
            "addas": ("bin", "add"), "subas": ("bin", "sub"), "remas": ("bin", "rem"),
            "smul": ("same", "mul"), "sdiv": ("same", "div"), "smulas": ("same", "mul"), "sdivas": ("same", "div"),
            "max": ("same", "max"), "min": ("same", "min"),
            "neg": ("un", "neg"), "abs": ("un", "abs"), "signum": ("un", "signum")}


def run(ctx):
    if not ctx.translate():
        return
    if not ctx.proof_gate(PROPS, MODULE, SUPPORT):
        ctx.violation({"kind": "proof", "obligation": f"{PROPS}: {getattr(ctx, 'proof_error', '')[-1500:]}"}, no_input=True)
    ok, out = coqbuild.build_runner()
    if not ok:
        ctx.violation({"kind": "runner", "obligation": "extraction/compilation of the model runner failed", "log": out[-2000:]}, no_input=True)
        return
    t = ctx.tables
    quick = ctx.tier == "quick"
    nhist = 40 if quick else 400
    hlen = 32 if quick else 256
    h = Harness("c07", FEATURE_SETS["all"], prelude=prelude(BASES, TYPES))
    cases, meta, mlines = [], {}, []
    for ty in TYPES:
        for bs in bases_for(ty):
            U = T.sexp_list(t.base_unit_exprs(T.BASE_SETS[bs]))
            for qm, alias in QUANTS:
                slot = h.slot(hist_slot(qm, alias, bs, ty))
                d = T.zlist(t.qmap[qm]["dim"])
                rng = ctx.rng.fork(f"{ty}:{bs}:{qm}")
                for k in range(nhist):
                    init, ops = gen_history(rng, ty, 1 + rng.below(hlen))
                    cid = f"h{len(cases)}"
                    args = [init] + [o if a is None else f"{o}={a}" for o, a in ops]
                    cases.append((cid, slot, args))
                    meta[cid] = ("hist", ty, bs, qm, init, ops, slot)
                    cls = STYPES[ty]["cls"]
                    if all(o in MODEL_OP or o in ("lmul", "ldiv") for o, _ in ops):
                        hs = []
                        for o, a in ops:
                            if o in ("lmul", "ldiv"):
                                continue        # leaves the register alone: not a step of the model history
                            kind, mo = MODEL_OP[o]
                            if kind == "bin":
                                hs.append(f"(bin {mo} {U} {model_val(ty, a)})")
                            elif kind == "same":
                                hs.append(f"(same {mo} {model_val(ty, a)})")
                            else:
                                hs.append(f"(un {mo})")
                        mlines.append(f"{cid} {cls} std (hist 1 {U} {d} {model_val(ty, init)} ({' '.join(hs)}))")
                # misc: sum / zero / default / is_zero / ConstZero
                vals = []
                acc = 0
                for k in range(1 + rng.below(40 if quick else 200)):
                    if is_float(ty):
                        vals.append(FC.hexbits(FC.random_value(rng, ty), ty))
                    else:
                        v = VG.int_value(rng, ty, small=True) if STYPES[ty]["cls"] == "z" else VG.rat_value(rng, ty)
                        if not VG.fits(ty, v) or not VG.fits(ty, acc + v):
                            continue
                        acc += v
                        vals.append(VG.val_text(ty, v))
                sums = [vals] if vals else []
                if is_float(ty):
                    nz, pz = FC.hexbits(FC.special_values(ty)["-0"], ty), FC.hexbits(FC.special_values(ty)["+0"], ty)
                    sums += [[nz], [nz, nz, nz], [pz], [nz, pz], [pz, nz], [FC.hexbits(FC.special_values(ty)["nan"], ty), nz]]
                else:
                    sums += [["0"] if STYPES[ty]["cls"] == "z" else ["0/1"]]
                for vs in sums:
                    cid = f"h{len(cases)}"
                    cases.append((cid, slot, ["misc"] + vs))
                    meta[cid] = ("misc", ty, bs, qm, vs[0], [], slot)
                cid = f"h{len(cases)}"
                cases.append((cid, slot, ["misc0"]))
                meta[cid] = ("misc", ty, bs, qm, "-", [], slot)
                if is_float(ty):
                    for name, bits in FC.special_values(ty).items():
                        cid = f"h{len(cases)}"
                        cases.append((cid, slot, ["class", FC.hexbits(bits, ty)]))
                        meta[cid] = ("class", ty, bs, qm, name, [], slot)
    ctx.log(f"{len(h.slots)} slots, {len(cases)} cases ({len(mlines)} with model trace); building harness")
    if not h.build():
        ctx.log(h.build_log[-3000:])
        ctx.violation({"kind": "harness-build", "obligation": "the C07 harness (operators of every storage type on quantities sharing base units) no longer compiles against /repo",
                       "log": h.build_log[-3000:]}, no_input=True)
        return
    impl = h.run(cases)
    model = coqbuild.run_model(mlines)
    ctx.log(f"implementation answered {len(impl)}, model answered {len(model)}")
    ctx.vm_crosscheck(mlines, model)

    bad_impl, bad_model = [], []
    steps = 0
    distinct = set()
    hist = {}
    for cid, slot, args in cases:
        kind, ty, bs, qm, init, ops, _ = meta[cid]
        got = impl.get(cid)
        hist[f"{ty}/{bs}/{kind}"] = hist.get(f"{ty}/{bs}/{kind}", 0) + 1
        if got is None or got in ("PANIC", "BADOP", "NOSLOT"):
            bad_impl.append((cid, 0, f"harness answered {got}"))
            continue
        pairs = [p.split("|") for p in got.split(";")]
        for k, pr in enumerate(pairs):
            steps += 1
            if len(pr) != 2 or pr[0] != pr[1]:
                bad_impl.append((cid, k, f"quantity register {pr[0]} != bare register {pr[1] if len(pr) > 1 else None}"))
                break
        if kind == "hist":
            for k, (o, a) in enumerate(ops):
                distinct.add((ty, bs, qm, o, a, pairs[k][1] if k < len(pairs) else None))
            if cid in model:
                mt = [canon_model_out(ty, x) for x in model[cid].split()]
                it = [p[0] for k_, p in enumerate(pairs) if k_ >= len(ops) or ops[k_][0] not in ("lmul", "ldiv")]
                if mt != it:
                    k = next((i for i, (x, y) in enumerate(zip(mt, it)) if x != y), min(len(mt), len(it)))
                    bad_model.append((cid, k, mt[k] if k < len(mt) else None, it[k] if k < len(it) else None))

    def replay_for(cid, k, extra):
        kind, ty, bs, qm, init, ops, slot = meta[cid]
        args = next(a for c, s, a in cases if c == cid)
        if kind == "hist":
            if impl.get(cid) in (None, "PANIC"):
                # the whole history panicked: bisect to the shortest prefix that still does
                lo, hi = 1, len(args) - 1
                while lo < hi:
                    mid = (lo + hi) // 2
                    if h.run([("x", slot, args[:mid + 1])]).get("x") in (None, "PANIC"):
                        hi = mid
                    else:
                        lo = mid + 1
                args = args[:lo + 1]
            else:
                args = args[:k + 2]     # shrink: the prefix up to the first differing step
        line = next((l for l in mlines if l.startswith(cid + " ")), None)
        return dict({"kind": "history", "storage": ty, "base_set": bs, "quantity": qm, "case": kind,
                     "operations": args, "implementation": impl.get(cid), "first_differing_step": k,
                     "harness": {"features": h.features, "prelude": h.prelude,
                                 "cases": [{"slot_body": h.slots[slot], "args": args, "model": None}]}}, **extra)

    for cid, k, why in bad_impl[:5]:
        ctx.violation(replay_for(cid, k, {"spec": "C07: stored value == raw operation on stored values", "detail": why}))
    if bad_model and not bad_impl:
        cid, k, mv, iv = bad_model[0]
        ctx.violation(replay_for(cid, k, {"obligation": "correspondence Model.Quantity.trace_q (extracted) vs the compiled crate",
                                          "model_step": mv, "implementation_step": iv, "count": len(bad_model)}), no_input=True)
    # the same slots and a third of the cases in a build WITHOUT autoconvert (every operation here is between quantities sharing base
    # units, so all of it compiles there): the quantity register must still follow the bare register
    hn = Harness("c07n", [f for f in FEATURE_SETS["all"] if f != "autoconvert"], prelude=prelude(BASES, TYPES))
    # (three storage types - a float, a primitive integer, a big rational - keep the second build small)
    keep_ty = ("f64", "i32", "bigrational")
    remap = {}
    ncases = []
    for i, (cid, slot, args) in enumerate(cases):
        if meta[cid][1] not in keep_ty or i % 2:
            continue
        if slot not in remap:
            remap[slot] = hn.slot(h.slots[slot])
        ncases.append((cid, remap[slot], args))
    noac_bad = []
    if not hn.build():
        ctx.violation({"kind": "harness-build", "obligation": "the C07 harness no longer compiles against /repo without the autoconvert feature",
                       "log": hn.build_log[-3000:]}, no_input=True)
    else:
        nimpl = hn.run(ncases)
        for cid, slot, args in ncases:
            got = nimpl.get(cid)
            if got is None or got in ("PANIC", "BADOP", "NOSLOT"):
                if impl.get(cid) not in (None, "PANIC", "BADOP", "NOSLOT"):
                    noac_bad.append((cid, 0, f"without autoconvert the harness answered {got}"))
                continue
            for k, pr in enumerate(p.split("|") for p in got.split(";")):
                if len(pr) != 2 or pr[0] != pr[1]:
                    noac_bad.append((cid, k, f"without autoconvert: quantity register {pr[0]} != bare register {pr[1] if len(pr) > 1 else None}"))
                    break
        for cid, k, why in noac_bad[:3]:
            ctx.violation(replay_for(cid, k, {"spec": "C07: stored value == raw operation on stored values (build without the autoconvert feature)", "detail": why,
                                              "features_without": hn.features}))
    cov = ctx.coverage
    cov["no_autoconvert_cases"] = len(ncases)
    cov["no_autoconvert_failures"] = len(noac_bad)
    cov["evaluations"] = steps
    cov["distinct_nontrivial"] = len(distinct)
    cov["rule"] = ("one case = one history (initial value + op sequence) applied to a quantity register and to a bare register of the storage "
                   "type, for 11 storage types x base sets {SI default, km-g-h-mA-mK-kmol-cd} x 5 quantities (default kind, AngleKind, "
                   "InformationKind); ops: + - % += -= %= (quantity rhs), * / *= /= (scalar), max min, neg abs signum, saturating_add/sub, "
                   "plus Sum/Zero/Default/ConstZero/is_zero and float classification; evaluations = compared steps; distinct non-trivial = "
                   "distinct (storage, base, quantity, op, operand, result)")
    cov["histories"] = sum(1 for c in cases if meta[c[0]][0] == "hist")
    cov["model_traces_compared"] = len([c for c in model])
    cov["disagreements_checked"] = len(bad_model)
    cov["spec_failures"] = len(bad_impl)
    cov["histogram"] = hist
    smp = ctx.rng.fork("samples").sample([c for c in cases if meta[c[0]][0] == "hist"], 4)
    cov["samples"] = [{"storage": meta[c][1], "base": meta[c][2], "quantity": meta[c][3], "ops": a[:8],
                       "implementation": (impl.get(c) or "")[:300]} for c, _, a in smp]
