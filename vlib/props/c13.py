"""C13 — serialization is transparent and round-trips."""
from fractions import Fraction

from .. import common as C
from .. import coqbuild, floatcases as FC, tables as T, valgen as VG
from ..harness import Harness, FEATURE_SETS
from ..stypes import STYPES, parse_expr, show_expr
from ..textlib import hexs, unhex
from . import binops as B

PROPS = "theories/Props/C13.v"
MODULE = "Props.C13"
SUPPORT = ["theories/Model/Serde.v"]
TYPES = ["f64", "f32", "i32", "i64", "u64", "bigint", "rational64", "bigrational", "complex64"]
BASES = ["si", "kgh", "cgs"]
QUANTS = ["length", "velocity", "energy", "angle", "information", "thermodynamic_temperature"]


def slot(q, bs, ty):
    rt = STYPES[ty]["rust"]
    return f"""    type V = {rt};
    type Q = uom::si::{q['module']}::{q['alias']}<{B.units_type(bs, ty)}, V>;
    let p = |s: &str| -> V {{ {parse_expr(ty, 's')} }};
    let sh = |v: &V| -> String {{ {show_expr(ty, 'v.clone()')} }};
    match a[0] {{
        "ser" => {{
            let v = p(a[1]);
            let q = Q {{ dimension: PhantomData, units: PhantomData, value: v.clone() }};
            let sq = serde_json::to_string(&q); let sv = serde_json::to_string(&v);
            let jq = serde_json::to_value(&q); let jv = serde_json::to_value(&v);
            let text_same = match (&sq, &sv) {{ (Ok(a_), Ok(b_)) => a_ == b_, (Err(_), Err(_)) => true, _ => false }};
            let val_same = match (&jq, &jv) {{ (Ok(a_), Ok(b_)) => a_ == b_, (Err(_), Err(_)) => true, _ => false }};
            // round trip through both formats
            let rt_text = match &sq {{ Ok(s) => match (serde_json::from_str::<Q>(s), serde_json::from_str::<V>(s)) {{
                (Ok(q2), Ok(v2)) => sh(&q2.value) == sh(&v2), (Err(_), Err(_)) => true, _ => false }}, Err(_) => true }};
            let rt_val = match jq {{ Ok(j) => match (serde_json::from_value::<Q>(j.clone()), serde_json::from_value::<V>(j)) {{
                (Ok(q2), Ok(v2)) => sh(&q2.value) == sh(&v2), (Err(_), Err(_)) => true, _ => false }}, Err(_) => true }};
            format!("{{}}{{}}{{}}{{}} {{}}", b(text_same), b(val_same), b(rt_text), b(rt_val), hexs(&sq.unwrap_or_else(|_| "ERR".to_string())))
        }}
        "de" => {{
            let s = unhex(a[1]);
            match (serde_json::from_str::<Q>(&s), serde_json::from_str::<V>(&s)) {{
                (Ok(q2), Ok(v2)) => format!("ok {{}} {{}}", sh(&q2.value), sh(&v2)),
                (Err(_), Err(_)) => "err err".to_string(),
                (Ok(q2), Err(_)) => format!("MISMATCH quantity accepted {{}} but storage type rejects", sh(&q2.value)),
                (Err(_), Ok(v2)) => format!("MISMATCH quantity rejects but storage type accepts {{}}", sh(&v2)),
            }}
        }}
        "tser" => {{
            // the token-level format: floats travel by bit pattern (NaN, infinities, -0.0 included)
            let v = p(a[1]);
            let q = Q {{ dimension: PhantomData, units: PhantomData, value: v.clone() }};
            let tq = tokfmt::to_tok(&q); let tv = tokfmt::to_tok(&v);
            let same = match (&tq, &tv) {{ (Ok(x), Ok(y)) => x == y, (Err(_), Err(_)) => true, _ => false }};
            let rt = match &tq {{ Ok(t) => match (tokfmt::from_tok::<Q>(t.clone()), tokfmt::from_tok::<V>(t.clone())) {{
                (Ok(q2), Ok(v2)) => sh(&q2.value) == sh(&v2) && sh(&v2) == sh(&v), (Err(_), Err(_)) => true, _ => false }}, Err(_) => true }};
            format!("{{}}{{}} {{}}", b(same), b(rt), match &tq {{ Ok(t) => tokfmt::show(t), Err(_) => "ERR".to_string() }})
        }}
        "tde" => {{
            match tokfmt::parse(a[1]) {{
                None => "BADDOC".to_string(),
                Some(t) => match (tokfmt::from_tok::<Q>(t.clone()), tokfmt::from_tok::<V>(t)) {{
                    (Ok(q2), Ok(v2)) => format!("ok {{}} {{}}", sh(&q2.value), sh(&v2)),
                    (Err(_), Err(_)) => "err err".to_string(),
                    (Ok(q2), Err(_)) => format!("MISMATCH quantity accepted {{}} but storage type rejects", sh(&q2.value)),
                    (Err(_), Ok(v2)) => format!("MISMATCH quantity rejects but storage type accepts {{}}", sh(&v2)),
                }},
            }}
        }}
        _ => "BADOP".to_string(),
    }}"""


DOCS = ["1", "1.5", "-2", "0", "null", "\"1\"", "[1,2]", "{\"value\":1}", "{}", "true", "1e400", "18446744073709551616", "-9223372036854775809",
        "[1,[2]]", "[-1,[7,1]]", "[3,4]", "[[1,[1]],[1,[2]]]", "[1.5,2.5]", " 7 ", "7 m", "", "[", "2147483648", "-0.0", "NaN"]


# token documents (harness/tokfmt.rs text form): every scalar token kind incl. the floats JSON cannot carry, options, newtypes,
# sequences / tuples shaped like BigInt (sign, digits), Ratio (numer, denom; zero denominator), Complex (re, im), maps
NAN64, INF64, NINF64, NZ64, F15 = "f64:7ff8000000000000", "f64:7ff0000000000000", "f64:fff0000000000000", "f64:8000000000000000", "f64:3ff8000000000000"
TDOCS = [NAN64, INF64, NINF64, NZ64, F15, "f64:7ff0000000000001", "f64:0000000000000001", "f32:7fc00000", "f32:7f800000", "f32:80000000", "f32:3fc00000",
         "i64:-5", "i64:7", "u64:18446744073709551615", "i8:-3", "u8:200", "i16:-300", "u16:65535", "i32:2147483647", "i32:-2147483648", "u32:4294967295",
         "i128:170141183460469231731687303715884105727", "u128:5", "i64:9223372036854775807", "b1", "b0", "c:37", "s:31", "s:", "y:0102", "N", "U",
         f"S({F15})", "S(i64:4)", f"W({F15})", "W(i32:4)", f"W({NAN64})", f"S({NAN64})",
         "L[i64:1,i64:2]", "T[i64:1,i64:2]", "T[i8:-1,L[u32:7,u32:1]]", "T[i8:1,L[]]", "T[i8:0,L[]]", "T[i8:1,L[u32:5]]", "T[i8:2,L[u32:5]]",
         "L[T[i8:1,L[u32:1]],T[i8:1,L[u32:2]]]", "T[T[i8:-1,L[u32:3]],T[i8:1,L[u32:4]]]", "T[T[i8:1,L[u32:3]],T[i8:0,L[]]]",
         "T[i64:3,i64:4]", "T[i64:3,i64:0]", "T[i64:6,i64:4]", "T[i64:3,i64:-4]", "L[i64:3,i64:4]",
         f"T[{F15},{F15}]", f"T[{NAN64},{F15}]", f"L[{F15},{NZ64}]", f"T[{INF64},{NAN64}]",
         "M[s:76616c7565=i64:1]", "M[]", "L[]", "T[]", "T[i64:1]", "T[i64:1,i64:2,i64:3]", f"T[{F15}]"]


def run(ctx):
    if not ctx.translate():
        return
    t = ctx.tables
    if not ctx.proof_gate(PROPS, MODULE, SUPPORT):
        ctx.violation({"kind": "proof", "obligation": f"{PROPS}: {getattr(ctx, 'proof_error', '')[-1500:]}"}, no_input=True)
    quick = ctx.tier == "quick"
    with open(C.VERIF + "/harness/tokfmt.rs") as f:
        tok_rs = f.read()
    h = Harness("c13", FEATURE_SETS["all"], prelude=B.prelude(BASES, TYPES) + "\n" + tok_rs, extra_deps='serde_json = "1.0"\nserde = "1.0"')
    cases, meta = [], {}
    for ty in TYPES:
        cls = STYPES[ty]["cls"]
        for bs in BASES:
            for qm in QUANTS:
                q = t.qmap[qm]
                sl = h.slot(slot(q, bs, ty))
                rng = ctx.rng.fork(f"{ty}:{bs}:{qm}")
                vals = []
                if cls in ("f64", "f32"):
                    vals = [FC.hexbits(b_, ty) for b_ in list(FC.special_values(ty).values()) + [FC.random_value(rng, ty, 1, (1 << FC.FMT[ty]["ew"]) - 2) for _ in range(6 if quick else 60)]]
                elif cls == "z":
                    vals = [str(v) for v in [0, 1] + [VG.int_value(rng, ty) for _ in range(8 if quick else 80)] if VG.fits(ty, v)]
                elif cls == "q":
                    vals = [VG.val_text(ty, VG.rat_value(rng, ty)) for _ in range(8 if quick else 80)]
                else:
                    f = lambda: FC.hexbits(FC.random_value(rng, "f64"), "f64")
                    vals = [f"{f()},{f()}" for _ in range(6 if quick else 60)]
                for v in vals:
                    for op in ("ser", "tser"):
                        cid = f"s{len(cases)}"
                        cases.append((cid, sl, [op, v]))
                        meta[cid] = (op, ty, bs, qm, v, sl)
                for dct in TDOCS:
                    cid = f"s{len(cases)}"
                    cases.append((cid, sl, ["tde", dct]))
                    meta[cid] = ("tde", ty, bs, qm, dct, sl)
                for dct in DOCS:
                    cid = f"s{len(cases)}"
                    cases.append((cid, sl, ["de", hexs(dct)]))
                    meta[cid] = ("de", ty, bs, qm, dct, sl)
    ctx.log(f"{len(h.slots)} slots, {len(cases)} cases; building harness")
    if not h.build():
        ctx.log(h.build_log[-3000:])
        # which quantity lost (or gained a condition on) Serialize / Deserialize?  rustc decides quantity and storage type side by side
        from .. import progs as PG
        probes, pm = [], []
        for qm in QUANTS:
            q = t.qmap[qm]
            for ty in ("f64", "i64", "bigrational"):
                rt = STYPES[ty]["rust"]
                for cap in ("uom::serde::Serialize", "uom::serde::de::DeserializeOwned"):
                    for onq in (True, False):
                        ty_ = f"uom::si::{qm}::{q['alias']}<uom::si::SI<{rt}>, {rt}>" if onq else rt
                        probes.append(PG.Program("(unchanged (() Kind 0))", [], f"fn need<T: {cap}>() {{}} need::<{ty_}>(); String::new()", f"{ty_}: {cap}"))
                    pm.append((qm, ty, cap))
        rv = PG.classify("c13caps", FEATURE_SETS["all"], probes)
        found = 0
        for k, (qm, ty, cap) in enumerate(pm):
            rq, rs = rv.get(2 * k, (None, []))[0], rv.get(2 * k + 1, (None, []))[0]
            if rq is not None and rs is not None and rq != rs and found < 3:
                found += 1
                ctx.violation({"kind": "capability", "spec": "C13: a quantity serializes / deserializes exactly when (and as) its storage type does",
                               "quantity": qm, "storage": ty, "trait": cap, "quantity_implements": rq, "storage_type_implements": rs,
                               "program": probes[2 * k].rust_fn("probe"), "features": FEATURE_SETS["all"],
                               "how_to_replay": "put PRELUDE (vlib/progs.py) and this function into a crate depending on uom (path /repo) with the listed features; cargo check"})
        if not found:
            ctx.violation({"kind": "harness-build", "obligation": "the serde harness (feature serde) no longer compiles against /repo", "log": h.build_log[-3000:]}, no_input=True)
        return
    impl = h.run(cases)
    ctx.log(f"implementation answered {len(impl)}")
    bad = []
    hist, distinct = {}, set()
    accepted = 0
    tokens_seen = set()
    for cid, sl, args in cases:
        op, ty, bs, qm, v, _ = meta[cid]
        got = impl.get(cid)
        hist[f"{op}/{ty}"] = hist.get(f"{op}/{ty}", 0) + 1
        distinct.add((op, ty, bs, qm, v))
        if got in (None, "PANIC", "BADOP", "BADDOC"):
            bad.append((cid, f"harness answered {got}"))
            continue
        if op == "tser":
            flags, tk = got.split(" ")[0], got.split(" ", 1)[1]
            for i, ch in enumerate(flags):
                if ch != "1":
                    bad.append((cid, ("token stream equals that of the stored value", "token round trip returns the quantity")[i] + f": fails; quantity serialized as {tk}"))
            tokens_seen.add(tk.split(":")[0].split("[")[0].split("(")[0])
        elif op == "ser":
            flags = got.split(" ")[0]
            names = ["JSON text equals the stored value's", "serde_json::Value equals the stored value's", "text round trip", "Value round trip"]
            for i, ch in enumerate(flags):
                if ch != "1":
                    bad.append((cid, f"{names[i]}: fails; quantity serialized as {unhex(got.split(' ')[1])}"))
        else:
            if got.startswith("MISMATCH"):
                bad.append((cid, got))
            elif got.startswith("ok "):
                accepted += 1
                _, a_, b_ = got.split(" ")
                if a_ != b_:
                    bad.append((cid, f"deserialized quantity holds {a_}, storage type deserializes {b_}"))

    def replay_case(cid, extra):
        op, ty, bs, qm, v, sl = meta[cid]
        args = next(a for c, s, a in cases if c == cid)
        return dict({"kind": "serde", "op": op, "storage": ty, "base_set": bs, "quantity": qm, "input": v, "implementation": impl.get(cid),
                     "harness": {"features": h.features, "prelude": h.prelude, "extra_deps": h.extra_deps, "cases": [{"slot_body": h.slots[sl], "args": args, "model": None}]}}, **extra)

    for cid, why in bad[:5]:
        ctx.violation(replay_case(cid, {"spec": "C13: quantity (de)serializes exactly as its stored value does", "detail": why}))
    cov = ctx.coverage
    cov["evaluations"] = len(cases)
    cov["distinct_nontrivial"] = len(distinct)
    cov["rule"] = ("serialize every value class of f64/f32/i32/i64/u64/BigInt/Rational64/BigRational/Complex64 quantities (6 dimensions incl. non-default kinds, 3 base-unit "
                   "sets) to JSON text, to serde_json::Value and to the harness' own token-level format (harness/tokfmt.rs; floats by bit pattern, so NaN/inf/-0.0 travel) and compare with the stored value's serialization; round trips in both formats; deserialize a "
                   "catalogue of well- and ill-typed JSON and token documents as quantity and as storage type and compare acceptance and value")
    cov["documents_accepted_by_both"] = accepted
    cov["token_documents"] = len(TDOCS)
    cov["token_kinds_emitted_by_storage_types"] = sorted(tokens_seen)
    cov["spec_failures"] = len(bad)
    cov["histogram"] = hist
    smp = ctx.rng.fork("samples").sample(cases, 6)
    cov["samples"] = [{"op": meta[c][0], "storage": meta[c][1], "quantity": meta[c][3], "input": meta[c][4], "implementation": (impl.get(c) or "")[:120]} for c, _, a in smp]
