"""C13 — serialization is transparent and round-trips."""
from fractions import Fraction

from .. import common as C
from .. import coqbuild, floatcases as FC, tables as T, valgen as VG
from ..harness import Harness, FEATURE_SETS
from ..stypes import STYPES, parse_expr, show_expr
from ..textlib import hexs, unhex
from . import binops as B

PROPS = "theories/Props/C13.v"
MODULE = "Props.C13"
SUPPORT = ["theories/Model/Serde.v"]
TYPES = ["f64", "f32", "i32", "i64", "u64", "bigint", "rational64", "bigrational", "complex64"]
BASES = ["si", "kgh", "cgs"]
QUANTS = ["length", "velocity", "energy", "angle", "information", "thermodynamic_temperature"]


def slot(q, bs, ty):
    rt = STYPES[ty]["rust"]
    return f"""    type V = {rt};
    type Q = uom::si::{q['module']}::{q['alias']}<{B.units_type(bs, ty)}, V>;
    let p = |s: &str| -> V {{ {parse_expr(ty, 's')} }};
    let sh = |v: &V| -> String {{ {show_expr(ty, 'v.clone()')} }};
    match a[0] {{
        "ser" => {{
            let v = p(a[1]);
            let q = Q {{ dimension: PhantomData, units: PhantomData, value: v.clone() }};
            let sq = serde_json::to_string(&q); let sv = serde_json::to_string(&v);
            let jq = serde_json::to_value(&q); let jv = serde_json::to_value(&v);
            let text_same = match (&sq, &sv) {{ (Ok(a_), Ok(b_)) => a_ == b_, (Err(_), Err(_)) => true, _ => false }};
            let val_same = match (&jq, &jv) {{ (Ok(a_), Ok(b_)) => a_ == b_, (Err(_), Err(_)) => true, _ => false }};
            // round trip through both formats
            let rt_text = match &sq {{ Ok(s) => match (serde_json::from_str::<Q>(s), serde_json::from_str::<V>(s)) {{
                (Ok(q2), Ok(v2)) => sh(&q2.value) == sh(&v2), (Err(_), Err(_)) => true, _ => false }}, Err(_) => true }};
            let rt_val = match jq {{ Ok(j) => match (serde_json::from_value::<Q>(j.clone()), serde_json::from_value::<V>(j)) {{
                (Ok(q2), Ok(v2)) => sh(&q2.value) == sh(&v2), (Err(_), Err(_)) => true, _ => false }}, Err(_) => true }};
            format!("{{}}{{}}{{}}{{}} {{}}", b(text_same), b(val_same), b(rt_text), b(rt_val), hexs(&sq.unwrap_or_else(|_| "ERR".to_string())))
        }}
        "de" => {{
            let s = unhex(a[1]);
            match (serde_json::from_str::<Q>(&s), serde_json::from_str::<V>(&s)) {{
                (Ok(q2), Ok(v2)) => format!("ok {{}} {{}}", sh(&q2.value), sh(&v2)),
                (Err(_), Err(_)) => "err err".to_string(),
                (Ok(q2), Err(_)) => format!("MISMATCH quantity accepted {{}} but storage type rejects", sh(&q2.value)),
                (Err(_), Ok(v2)) => format!("MISMATCH quantity rejects but storage type accepts {{}}", sh(&v2)),
            }}
        }}
        _ => "BADOP".to_string(),
    }}"""


DOCS = ["1", "1.5", "-2", "0", "null", "\"1\"", "[1,2]", "{\"value\":1}", "{}", "true", "1e400", "18446744073709551616", "-9223372036854775809",
        "[1,[2]]", "[-1,[7,1]]", "[3,4]", "[[1,[1]],[1,[2]]]", "[1.5,2.5]", " 7 ", "7 m", "", "[", "2147483648", "-0.0", "NaN"]


def run(ctx):
    if not ctx.translate():
        return
    t = ctx.tables
    if not ctx.proof_gate(PROPS, MODULE, SUPPORT):
        ctx.violation({"kind": "proof", "obligation": f"{PROPS}: {getattr(ctx, 'proof_error', '')[-1500:]}"}, no_input=True)
    quick = ctx.tier == "quick"
    h = Harness("c13", FEATURE_SETS["all"], prelude=B.prelude(BASES, TYPES), extra_deps='serde_json = "1.0"\nserde = "1.0"')
    cases, meta = [], {}
    for ty in TYPES:
        cls = STYPES[ty]["cls"]
        for bs in BASES:
            for qm in QUANTS:
                q = t.qmap[qm]
                sl = h.slot(slot(q, bs, ty))
                rng = ctx.rng.fork(f"{ty}:{bs}:{qm}")
                vals = []
                if cls in ("f64", "f32"):
                    vals = [FC.hexbits(b_, ty) for b_ in list(FC.special_values(ty).values()) + [FC.random_value(rng, ty, 1, (1 << FC.FMT[ty]["ew"]) - 2) for _ in range(6 if quick else 60)]]
                elif cls == "z":
                    vals = [str(v) for v in [0, 1] + [VG.int_value(rng, ty) for _ in range(8 if quick else 80)] if VG.fits(ty, v)]
                elif cls == "q":
                    vals = [VG.val_text(ty, VG.rat_value(rng, ty)) for _ in range(8 if quick else 80)]
                else:
                    f = lambda: FC.hexbits(FC.random_value(rng, "f64"), "f64")
                    vals = [f"{f()},{f()}" for _ in range(6 if quick else 60)]
                for v in vals:
                    cid = f"s{len(cases)}"
                    cases.append((cid, sl, ["ser", v]))
                    meta[cid] = ("ser", ty, bs, qm, v, sl)
                for dct in DOCS:
                    cid = f"s{len(cases)}"
                    cases.append((cid, sl, ["de", hexs(dct)]))
                    meta[cid] = ("de", ty, bs, qm, dct, sl)
    ctx.log(f"{len(h.slots)} slots, {len(cases)} cases; building harness")
    if not h.build():
        ctx.log(h.build_log[-3000:])
        ctx.violation({"kind": "harness-build", "obligation": "the serde harness (feature serde) no longer compiles against /repo", "log": h.build_log[-3000:]}, no_input=True)
        return
    impl = h.run(cases)
    ctx.log(f"implementation answered {len(impl)}")
    bad = []
    hist, distinct = {}, set()
    accepted = 0
    for cid, sl, args in cases:
        op, ty, bs, qm, v, _ = meta[cid]
        got = impl.get(cid)
        hist[f"{op}/{ty}"] = hist.get(f"{op}/{ty}", 0) + 1
        distinct.add((op, ty, bs, qm, v))
        if got in (None, "PANIC", "BADOP"):
            bad.append((cid, f"harness answered {got}"))
            continue
        if op == "ser":
            flags = got.split(" ")[0]
            names = ["JSON text equals the stored value's", "serde_json::Value equals the stored value's", "text round trip", "Value round trip"]
            for i, ch in enumerate(flags):
                if ch != "1":
                    bad.append((cid, f"{names[i]}: fails; quantity serialized as {unhex(got.split(' ')[1])}"))
        else:
            if got.startswith("MISMATCH"):
                bad.append((cid, got))
            elif got.startswith("ok "):
                accepted += 1
                _, a_, b_ = got.split(" ")
                if a_ != b_:
                    bad.append((cid, f"deserialized quantity holds {a_}, storage type deserializes {b_}"))

    def replay_case(cid, extra):
        op, ty, bs, qm, v, sl = meta[cid]
        args = next(a for c, s, a in cases if c == cid)
        return dict({"kind": "serde", "op": op, "storage": ty, "base_set": bs, "quantity": qm, "input": v, "implementation": impl.get(cid),
                     "harness": {"features": h.features, "prelude": h.prelude, "extra_deps": h.extra_deps, "cases": [{"slot_body": h.slots[sl], "args": args, "model": None}]}}, **extra)

    for cid, why in bad[:5]:
        ctx.violation(replay_case(cid, {"spec": "C13: quantity (de)serializes exactly as its stored value does", "detail": why}))
    cov = ctx.coverage
    cov["evaluations"] = len(cases)
    cov["distinct_nontrivial"] = len(distinct)
    cov["rule"] = ("serialize every value class of f64/f32/i32/i64/u64/BigInt/Rational64/BigRational/Complex64 quantities (6 dimensions incl. non-default kinds, 3 base-unit "
                   "sets) to JSON text and to serde_json::Value and compare with the stored value's serialization; round trips in both formats; deserialize a "
                   "catalogue of well- and ill-typed documents as quantity and as storage type and compare acceptance and value")
    cov["documents_accepted_by_both"] = accepted
    cov["spec_failures"] = len(bad)
    cov["histogram"] = hist
    smp = ctx.rng.fork("samples").sample(cases, 6)
    cov["samples"] = [{"op": meta[c][0], "storage": meta[c][1], "quantity": meta[c][3], "input": meta[c][4], "implementation": (impl.get(c) or "")[:120]} for c, _, a in smp]
