"""Shared harness for two-operand quantity operations across base-unit sets (C06, C10, C15, C17...)."""
from fractions import Fraction

from .. import common as C
from .. import floatcases as FC, tables as T, valgen as VG
from ..harness import Harness, FEATURE_SETS
from ..stypes import STYPES, parse_expr, show_expr, prelude_for, model_val, canon_model_out


def is_float(ty):
    return STYPES[ty]["cls"] in ("f64", "f32")


def units_type(bs, ty):
    rt = STYPES[ty]["rust"]
    return f"uom::si::SI<{rt}>" if bs == "si" else f"bs_{bs}_{ty}::Units"


def prelude(bases, types):
    out = [prelude_for(types)]
    for bs in bases:
        if bs == "si":
            continue
        for ty in types:
            out.append(f"pub mod bs_{bs}_{ty} {{ ISQ!(uom::si, {STYPES[ty]['rust']}, ({', '.join(T.BASE_SETS[bs])})); }}")
    return "\n".join(out) + "\n"


ARITH = ["add", "sub", "rem", "addas", "subas", "remas", "mul", "div"]
CMPS = ["eq", "ne", "lt", "le", "gt", "ge"]


def third_base(bases, bsl, bsr):
    """A base set for the third operand of mul_add, different from the right one whenever possible."""
    i = bases.index(bsr)
    for k in range(1, len(bases)):
        c = bases[(i + k) % len(bases)]
        if c != bsr and c != bsl:
            return c
    return bases[(i + 1) % len(bases)]


def mixed_slot(qm, alias, bsl, bsr, ty, bs3=None):
    """a: quantity in base set bsl, b: same quantity in bsr, t: Time in bsr (rhs of * and /);
    mul_add: self in bsl, multiplier (Time) in bsr, addend in bs3."""
    bs3 = bs3 or bsr
    rt = STYPES[ty]["rust"]
    fl = is_float(ty)
    ul, ur = units_type(bsl, ty), units_type(bsr, ty)
    extra = ""
    if fl:
        extra = f"""
        "hypot" => sh(&mka(p(a[1])).hypot(mkb(p(a[2]))).value),
        "muladd" => sh(&mka(p(a[1])).mul_add(mkt(p(a[2])), uom::si::Quantity {{ dimension: PhantomData, units: PhantomData::<{units_type(bs3, ty)}>, value: p(a[3]) }}).value),"""
    return f"""    type V = {rt};
    type QA = uom::si::{qm}::{alias}<{ul}, V>;
    type QB = uom::si::{qm}::{alias}<{ur}, V>;
    type TB = uom::si::time::Time<{ur}, V>;
    fn mka(v: V) -> QA {{ QA {{ dimension: PhantomData, units: PhantomData, value: v }} }}
    fn mkb(v: V) -> QB {{ QB {{ dimension: PhantomData, units: PhantomData, value: v }} }}
    fn mkt(v: V) -> TB {{ TB {{ dimension: PhantomData, units: PhantomData, value: v }} }}
    let p = |s: &str| -> V {{ {parse_expr(ty, 's')} }};
    let sh = |v: &V| -> String {{ {show_expr(ty, 'v.clone()')} }};
    match a[0] {{
        "add" => sh(&(mka(p(a[1])) + mkb(p(a[2]))).value),
        "sub" => sh(&(mka(p(a[1])) - mkb(p(a[2]))).value),
        "rem" => sh(&(mka(p(a[1])) % mkb(p(a[2]))).value),
        "addas" => {{ let mut x = mka(p(a[1])); x += mkb(p(a[2])); sh(&x.value) }}
        "subas" => {{ let mut x = mka(p(a[1])); x -= mkb(p(a[2])); sh(&x.value) }}
        "remas" => {{ let mut x = mka(p(a[1])); x %= mkb(p(a[2])); sh(&x.value) }}
        "mul" => sh(&(mka(p(a[1])) * mkt(p(a[2]))).value),
        "div" => sh(&(mka(p(a[1])) / mkt(p(a[2]))).value),
        "cmps" => {{
            let x = mka(p(a[1])); let y = mkb(p(a[2]));
            let pc = match x.partial_cmp(&y) {{ Some(std::cmp::Ordering::Less) => "-1", Some(std::cmp::Ordering::Equal) => "0", Some(std::cmp::Ordering::Greater) => "1", None => "2" }};
            format!("{{}}{{}}{{}}{{}}{{}}{{}} {{}}", b(x == y), b(x != y), b(x < y), b(x <= y), b(x > y), b(x >= y), pc)
        }}{extra}
        _ => "BADOP".to_string(),
    }}"""


def same_slot(qm, alias, bs, ty):
    """Same-type observations: the six operators, partial_cmp, and for Ord storage cmp/max/min/clamp, hash."""
    rt = STYPES[ty]["rust"]
    fl = is_float(ty)
    u = units_type(bs, ty)
    if fl:
        tail = """let (rx, rn) = (x.value.max(y.value), x.value.min(y.value));
            let mx = x.max(y); let mn = x.min(y);
            format!("{} {} - {} {} - - {} {}", row, pc, sh(&mx.value), sh(&mn.value), sh(&rx), sh(&rn))"""
    else:
        tail = """let cm = match Ord::cmp(&x, &y) { std::cmp::Ordering::Less => "-1", std::cmp::Ordering::Equal => "0", std::cmp::Ordering::Greater => "1" };
            let mx = Ord::max(x.clone(), y.clone()); let mn = Ord::min(x.clone(), y.clone());
            let (lo, hi) = if y <= z { (y.clone(), z.clone()) } else { (z.clone(), y.clone()) };
            let cl = Ord::clamp(x.clone(), lo, hi);
            use std::hash::{Hash, Hasher};
            let mut h1 = std::collections::hash_map::DefaultHasher::new(); x.hash(&mut h1);
            let mut h2 = std::collections::hash_map::DefaultHasher::new(); y.hash(&mut h2);
            let mut h3 = std::collections::hash_map::DefaultHasher::new(); x.value.hash(&mut h3);
            format!("{} {} {} {} {} {} {}{}", row, pc, cm, sh(&mx.value), sh(&mn.value), sh(&cl.value), b(h1.finish() == h2.finish()), b(h1.finish() == h3.finish()))"""
    # equal but distinguishable operands exist for Ratio storage only: 1/2 and 2/4 put into the public field unreduced
    tie = ""
    if STYPES[ty]["cls"] == "q":
        tie = """"tie" => {
            let n1: i32 = a[1].parse().unwrap(); let d1: i32 = a[2].parse().unwrap(); let k: i32 = a[3].parse().unwrap();
            let (ra, rb) = (V::new_raw(n1.into(), d1.into()), V::new_raw((n1 * k).into(), (d1 * k).into()));
            let raw = |v: &V| format!("{}/{}", v.numer(), v.denom());
            let (x, y) = (mk(ra.clone()), mk(rb.clone()));
            let (mx, mn, cl) = (Ord::max(x.clone(), y.clone()), Ord::min(x.clone(), y.clone()), Ord::clamp(x.clone(), y.clone(), y.clone()));
            let (sx, sn, sc) = (Ord::max(ra.clone(), rb.clone()), Ord::min(ra.clone(), rb.clone()), Ord::clamp(ra.clone(), rb.clone(), rb.clone()));
            format!("{} {} {} {} {} {}", raw(&mx.value), raw(&mn.value), raw(&cl.value), raw(&sx), raw(&sn), raw(&sc))
        }"""
    return f"""    type V = {rt};
    type Q = uom::si::{qm}::{alias}<{u}, V>;
    fn mk(v: V) -> Q {{ Q {{ dimension: PhantomData, units: PhantomData, value: v }} }}
    let p = |s: &str| -> V {{ {parse_expr(ty, 's')} }};
    let sh = |v: &V| -> String {{ {show_expr(ty, 'v.clone()')} }};
    match a[0] {{
        "row" => {{
            let x = mk(p(a[1])); let y = mk(p(a[2])); let z = mk(p(a[3]));
            let pc = match x.partial_cmp(&y) {{ Some(std::cmp::Ordering::Less) => "-1", Some(std::cmp::Ordering::Equal) => "0", Some(std::cmp::Ordering::Greater) => "1", None => "2" }};
            let row = format!("{{}}{{}}{{}}{{}}{{}}{{}}", b(x == y), b(x != y), b(x < y), b(x <= y), b(x > y), b(x >= y));
            {tail}
        }}
        {tie}
        _ => "BADOP".to_string(),
    }}"""


# ----------------------------------------------------------------------------- exact side (spec checker)

def published_coefs(t, impl_coefs):
    return impl_coefs


def base_factor_frac(t, coef_of, bs, dim):
    """Exact product of published base-unit coefficients ^ exponents."""
    f = Fraction(1)
    for b, name, e in zip(t.base, T.BASE_SETS[bs], dim):
        if e:
            f *= coef_of(b["name"], name) ** e
    return f


def nrounds_rebase(t, coef_of, bsl, bsr, dim):
    """Upper bound on the number of roundings of change_base (skipped factors cost nothing)."""
    n = 0
    for b, nl, nr, e in zip(t.base, T.BASE_SETS[bsl], T.BASE_SETS[bsr], dim):
        if e == 0:
            # powi(x, 0) = 1: v * 1 / 1 is exact
            continue
        if coef_of(b["name"], nl) == coef_of(b["name"], nr):
            continue
        n += 2 + 2 * (2 * max(1, abs(e).bit_length()) + 1)
    return n


def kind_from_slot(a, b, bsl, bsr, ty):
    """Conversion between kinds across base-unit sets: b<bsl>::from(a<bsr>) and a.into()  (impl_from!, autoconvert flavour)."""
    rt = STYPES[ty]["rust"]
    return f"""    type V = {rt};
    type A = uom::si::{a['module']}::{a['alias']}<{units_type(bsr, ty)}, V>;
    type Bq = uom::si::{b['module']}::{b['alias']}<{units_type(bsl, ty)}, V>;
    let p = |s: &str| -> V {{ {parse_expr(ty, 's')} }};
    let sh = |v: &V| -> String {{ {show_expr(ty, 'v.clone()')} }};
    let x = A {{ dimension: PhantomData, units: PhantomData, value: p(a[1]) }};
    let y: Bq = match a[0] {{ "kfrom" => Bq::from(x), "kinto" => x.into(), _ => return "BADOP".to_string() }};
    sh(&y.value)"""
