"""C04: optimised code of quantity-level functions vs the bare-number reference with the factor folded to one
constant, at the level of LLVM IR (release profile, one codegen unit).  On an unchanged tree LLVM's function
merging turns every quantity-level function into an alias of its reference; a pair counts as identical when the
two symbols resolve to one definition or have textually identical signatures and bodies."""
import os
import re
import glob

from . import common as C

PAIR_RE = re.compile(r"pub fn q_([a-z0-9_]+)\(")


def build(features):
    d = os.path.join(C.BUILD, "harness", "c04ir")
    with open(os.path.join(C.VERIF, "harness", "irprobe.rs")) as f:
        src = f.read()
    feats = ", ".join(f'"{x}"' for x in features)
    cargo = f'''[package]
name = "irprobe"
version = "0.0.0"
edition = "2021"
[workspace]
[lib]
crate-type = ["rlib"]
[dependencies]
uom = {{ path = "{C.REPO}", default-features = false, features = [{feats}] }}
[profile.release]
opt-level = 3
codegen-units = 1
debug = 0
panic = "abort"
incremental = false
'''
    C.write_if_changed(os.path.join(d, "Cargo.toml"), cargo)
    C.write_if_changed(os.path.join(d, ".cargo", "config.toml"), "[net]\noffline = true\n")
    C.write_if_changed(os.path.join(d, "src", "lib.rs"), src)
    lock_src, lock_dst = os.path.join(C.REPO, "Cargo.lock"), os.path.join(d, "Cargo.lock")
    if not os.path.exists(lock_dst) and os.path.exists(lock_src):
        with open(lock_src) as f:
            C.write_if_changed(lock_dst, f.read())
    tdir = os.path.join(C.BUILD, "target_ir")
    # the probe crate itself is recompiled on every run (about a second), so that the IR file always belongs to this run
    for f in glob.glob(os.path.join(tdir, "release", "deps", "irprobe-*.ll")):
        os.remove(f)
    os.utime(os.path.join(d, "src", "lib.rs"), None)
    env = dict(C.CARGO_ENV)
    env["CARGO_TARGET_DIR"] = tdir
    rc, out = C.sh(["cargo", "rustc", "--release", "--offline", "-q", "--lib", "--", "--emit=llvm-ir"], cwd=d, env=env, timeout=1800)
    lls = glob.glob(os.path.join(tdir, "release", "deps", "irprobe-*.ll"))
    if rc != 0 or not lls:
        return None, src, out
    # cargo's fingerprinting keeps the file of an up-to-date build; the newest one belongs to the current inputs
    with open(max(lls, key=os.path.getmtime)) as f:
        return f.read(), src, out


def parse(ll):
    """-> (aliases: name -> target, defs: name -> (signature, body))"""
    aliases, defs = {}, {}
    for m in re.finditer(r"^@([A-Za-z0-9_]+) = (?:[a-z_]+ )*alias (.+), ptr @([A-Za-z0-9_]+)\s*$", ll, re.M):
        aliases[m.group(1)] = (m.group(3), m.group(2).strip())
    for m in re.finditer(r"^define ([^@]*)@([A-Za-z0-9_]+)\(([^)]*)\)([^{]*)\{\n(.*?)^\}", ll, re.M | re.S):
        ret, name, params, _attrs, body = m.groups()
        sig = (re.sub(r"\s+", " ", ret).strip(), [re.sub(r"\s+", " ", re.sub(r"%[A-Za-z0-9_.]+", "", p)).strip() for p in params.split(",")] if params.strip() else [])
        defs[name] = (sig, body)
    return aliases, defs


def root(name, aliases):
    seen = set()
    while name in aliases and name not in seen:
        seen.add(name)
        name = aliases[name][0]
    return name


def compare(ll, src):
    """-> list of (pair name, identical?, detail)"""
    aliases, defs = parse(ll)
    out = []
    for n in PAIR_RE.findall(src):
        q, b = "q_" + n, "b_" + n
        rq, rb = root(q, aliases), root(b, aliases)
        if rq not in defs or rb not in defs:
            out.append((n, False, f"symbol missing in the IR (q -> {rq}, b -> {rb})"))
            continue
        if rq == rb:
            out.append((n, True, f"one definition ({rq})"))
            continue
        (sq, bq), (sb, bb) = defs[rq], defs[rb]
        norm = lambda body: re.sub(r"@(q|b)_[a-z0-9_]+", "@F", body)
        if sq == sb and norm(bq) == norm(bb):
            out.append((n, True, "identical signature and body"))
        else:
            out.append((n, False, f"quantity-level: define {sq[0]} ({', '.join(sq[1])}) {{ {bq.strip()[:400]} }}  vs bare: define {sb[0]} ({', '.join(sb[1])}) {{ {bb.strip()[:400]} }}"))
    return out
