"""Generic Rust harness builder: a generated crate (depending on uom by path=/repo) made of
"slots".  A slot is a Rust function `fn(a: &[&str]) -> String` instantiating uom generics for one
concrete (quantity, unit, base set, storage type, operation); run-time data (values) arrive as text
arguments, so the compiled harness is reused for any number of cases.  Slots are spread over
several bin targets so that cargo compiles them in parallel."""
import os
import subprocess

from . import common as C

COMMON_RS = r'''
#![allow(dead_code, unused_imports, unused_macros, non_camel_case_types, non_snake_case, clippy::all)]
pub use std::marker::PhantomData;

pub fn f64_of(s: &str) -> f64 { f64::from_bits(u64::from_str_radix(s, 16).unwrap()) }
pub fn f32_of(s: &str) -> f32 { f32::from_bits(u32::from_str_radix(s, 16).unwrap()) }
pub fn hex64(x: f64) -> String { if x.is_nan() { "nan".to_string() } else { format!("{:016x}", x.to_bits()) } }
pub fn hex32(x: f32) -> String { if x.is_nan() { "nan".to_string() } else { format!("{:08x}", x.to_bits()) } }
pub fn b(x: bool) -> &'static str { if x { "1" } else { "0" } }
pub fn hexs(s: &str) -> String { if s.is_empty() { "-".to_string() } else { s.bytes().map(|c| format!("{:02x}", c)).collect() } }
pub fn unhex(s: &str) -> String {
    if s == "-" { return String::new(); }
    let bytes: Vec<u8> = (0..s.len() / 2).map(|i| u8::from_str_radix(&s[2 * i..2 * i + 2], 16).unwrap()).collect();
    String::from_utf8(bytes).unwrap()
}

pub fn run_main(dispatch: fn(usize, &[&str]) -> String) {
    use std::io::{BufRead, Write};
    std::panic::set_hook(Box::new(|_| {}));
    let stdin = std::io::stdin();
    let stdout = std::io::stdout();
    let mut out = std::io::BufWriter::new(stdout.lock());
    for line in stdin.lock().lines() {
        let line = line.unwrap();
        if line.is_empty() { continue; }
        let parts: Vec<&str> = line.split(' ').collect();
        let id = parts[0];
        let slot: usize = parts[1].parse().unwrap();
        let args: Vec<&str> = parts[2..].to_vec();
        let r = std::panic::catch_unwind(move || dispatch(slot, &args));
        match r {
            Ok(s) => writeln!(out, "{} {}", id, s).unwrap(),
            Err(_) => writeln!(out, "{} PANIC", id).unwrap(),
        }
    }
    out.flush().unwrap();
}
'''


# uom feature sets shared by the checks (one uom build each in the shared target directory)
FEATURE_SETS = {
    "default": ["autoconvert", "f32", "f64", "si", "std"],
    "all": ["autoconvert", "f32", "f64", "i32", "i64", "u32", "u64", "isize", "bigint", "biguint",
            "rational64", "bigrational", "complex32", "complex64", "si", "std", "serde"],
    "noac": ["f32", "f64", "si", "std"],
    "nostd": ["autoconvert", "f32", "f64", "si"],
    "noac_nostd": ["f32", "f64", "si"],
}


class Harness:
    def __init__(self, name, features, prelude="", shards=None, default_features=False, extra_deps=""):
        self.name = name
        self.features = list(features)
        self.prelude = prelude
        self.shards = shards or C.NCPU
        self.slots = []
        self.slot_index = {}
        self.dir = os.path.join(C.BUILD, "harness", name)
        self.default_features = default_features
        self.extra_deps = extra_deps
        self.build_log = ""

    def slot(self, body):
        """Register a slot; `body` is the body of `fn(a: &[&str]) -> String`.  Returns slot id."""
        k = self.slot_index.get(body)
        if k is None:
            k = len(self.slots)
            self.slots.append(body)
            self.slot_index[body] = k
        return k

    def bin_name(self, k):
        return f"h_{self.name}_s{k}"

    def write(self):
        feats = ", ".join(f'"{f}"' for f in self.features)
        cargo = f'''[package]
name = "h_{self.name}"
version = "0.0.0"
edition = "2021"
autobins = false

[workspace]

[dependencies]
uom = {{ path = "{C.REPO}", default-features = {"true" if self.default_features else "false"}, features = [{feats}] }}
{self.extra_deps}

[profile.dev]
debug = 0
incremental = false
opt-level = 0
overflow-checks = true
debug-assertions = true
panic = "unwind"
'''
        nsh = min(self.shards, max(1, len(self.slots)))
        self.nsh = nsh
        for k in range(nsh):
            cargo += f'\n[[bin]]\nname = "{self.bin_name(k)}"\npath = "src/bin/s{k}.rs"\n'
        C.write_if_changed(os.path.join(self.dir, "Cargo.toml"), cargo)
        C.write_if_changed(os.path.join(self.dir, ".cargo", "config.toml"), "[net]\noffline = true\n")
        lock_src = os.path.join(C.REPO, "Cargo.lock")
        lock_dst = os.path.join(self.dir, "Cargo.lock")
        if not os.path.exists(lock_dst) and os.path.exists(lock_src):
            with open(lock_src) as f:
                C.write_if_changed(lock_dst, f.read())
        C.write_if_changed(os.path.join(self.dir, "src", "common.rs"), COMMON_RS + "\n" + self.prelude)
        for k in range(nsh):
            fns = []
            arms = []
            for i in range(k, len(self.slots), nsh):
                fns.append(f"#[inline(never)]\nfn s{i}(a: &[&str]) -> String {{\n{self.slots[i]}\n}}\n")
                arms.append(f"        {i} => s{i}(a),")
            src = ("#![allow(dead_code, unused_imports, unused_variables, unused_mut, non_camel_case_types, non_snake_case, unused_parens, clippy::all)]\n"
                   "#[macro_use]\nextern crate uom;\n"
                   "#[path = \"../common.rs\"]\n#[macro_use]\nmod common;\nuse common::*;\n\n" + "\n".join(fns) +
                   "\nfn dispatch(slot: usize, a: &[&str]) -> String {\n    match slot {\n" + "\n".join(arms) +
                   "\n        _ => \"NOSLOT\".to_string(),\n    }\n}\n\nfn main() { run_main(dispatch); }\n")
            C.write_if_changed(os.path.join(self.dir, "src", "bin", f"s{k}.rs"), src)
        # remove stale shard files
        bdir = os.path.join(self.dir, "src", "bin")
        for f in os.listdir(bdir):
            if f.startswith("s") and f.endswith(".rs"):
                try:
                    idx = int(f[1:-3])
                except ValueError:
                    continue
                if idx >= nsh:
                    os.remove(os.path.join(bdir, f))

    def build(self, timeout=3000):
        self.write()
        rc, out = C.sh(["cargo", "build", "--offline", "-j", str(C.NCPU), "--bins"], cwd=self.dir,
                       env=C.CARGO_ENV, timeout=timeout)
        self.build_log = out
        return rc == 0

    def run(self, cases, timeout=1800):
        """cases: list of (case_id, slot, [args]).  Returns dict case_id -> result string."""
        per = {}
        for cid, slot, args in cases:
            per.setdefault(slot % self.nsh, []).append(f"{cid} {slot} " + " ".join(args))
        procs = []
        for k, lines in per.items():
            exe = os.path.join(C.TARGET, "debug", self.bin_name(k))
            p = subprocess.Popen([exe], stdin=subprocess.PIPE, stdout=subprocess.PIPE, stderr=subprocess.DEVNULL, text=True)
            procs.append((p, "\n".join(lines) + "\n"))
        # feed concurrently
        import threading
        results = {}
        outs = [None] * len(procs)

        def work(i, p, data):
            try:
                outs[i] = p.communicate(data, timeout=timeout)[0]
            except subprocess.TimeoutExpired:
                p.kill()
                outs[i] = ""

        ths = [threading.Thread(target=work, args=(i, p, d)) for i, (p, d) in enumerate(procs)]
        for t in ths:
            t.start()
        for t in ths:
            t.join()
        for o in outs:
            for line in (o or "").splitlines():
                sp = line.split(" ", 1)
                if len(sp) == 2:
                    results[sp[0]] = sp[1]
        return results
