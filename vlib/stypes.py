"""Storage types of uom as the harness and the model see them."""
from fractions import Fraction

from . import floatcases as FC

# name -> rust type, uom feature, model class (f64|f32|z|q|c64|c32), integer range
STYPES = {
    "f64": dict(rust="f64", feat="f64", cls="f64"),
    "f32": dict(rust="f32", feat="f32", cls="f32"),
    "i32": dict(rust="i32", feat="i32", cls="z", lo=-2**31, hi=2**31 - 1),
    "i64": dict(rust="i64", feat="i64", cls="z", lo=-2**63, hi=2**63 - 1),
    "u32": dict(rust="u32", feat="u32", cls="z", lo=0, hi=2**32 - 1),
    "u64": dict(rust="u64", feat="u64", cls="z", lo=0, hi=2**64 - 1),
    "isize": dict(rust="isize", feat="isize", cls="z", lo=-2**63, hi=2**63 - 1),
    "bigint": dict(rust="uom::num::BigInt", feat="bigint", cls="z", lo=None, hi=None),
    "biguint": dict(rust="uom::num::BigUint", feat="biguint", cls="z", lo=0, hi=None),
    "rational64": dict(rust="uom::num::rational::Rational64", feat="rational64", cls="q", lo=-2**63, hi=2**63 - 1),
    "bigrational": dict(rust="uom::num::BigRational", feat="bigrational", cls="q", lo=None, hi=None),
    "complex64": dict(rust="uom::num::complex::Complex64", feat="complex64", cls="c64"),
    "complex32": dict(rust="uom::num::complex::Complex32", feat="complex32", cls="c32"),
}


def ident(ty):
    return ty


def parse_expr(ty, s):
    """Rust expression parsing the &str expression `s` into the storage type."""
    st = STYPES[ty]
    c = st["cls"]
    if ty == "f64":
        return f"f64_of({s})"
    if ty == "f32":
        return f"f32_of({s})"
    if c == "z":
        return f"{s}.parse::<{st['rust']}>().unwrap()"
    if ty == "rational64":
        return f"rat64_of({s})"
    if ty == "bigrational":
        return f"bigrat_of({s})"
    if ty == "complex64":
        return f"c64_of({s})"
    if ty == "complex32":
        return f"c32_of({s})"
    raise KeyError(ty)


def show_expr(ty, v):
    """Rust expression rendering the value expression `v` (by reference semantics: pass &v where needed)."""
    c = STYPES[ty]["cls"]
    if ty == "f64":
        return f"hex64({v})"
    if ty == "f32":
        return f"hex32({v})"
    if c == "z":
        return f"({v}).to_string()"
    if ty == "rational64":
        return f"show_rat64(&({v}))"
    if ty == "bigrational":
        return f"show_bigrat(&({v}))"
    if ty == "complex64":
        return f"show_c64({v})"
    if ty == "complex32":
        return f"show_c32({v})"
    raise KeyError(ty)


def prelude_for(types):
    """Rust helper functions needed by the given storage types."""
    out = []
    if "rational64" in types:
        out.append('''pub fn rat64_of(s: &str) -> uom::num::rational::Rational64 {
    let (n, d) = s.split_once('/').unwrap();
    uom::num::rational::Rational64::new(n.parse().unwrap(), d.parse().unwrap())
}''')
    if "bigrational" in types:
        out.append('''pub fn bigrat_of(s: &str) -> uom::num::BigRational {
    let (n, d) = s.split_once('/').unwrap();
    uom::num::BigRational::new(n.parse().unwrap(), d.parse().unwrap())
}''')
    if "rational64" in types:
        out.append('pub fn show_rat64(r: &uom::num::rational::Rational64) -> String { format!("{}/{}", r.numer(), r.denom()) }')
    if "bigrational" in types:
        out.append('pub fn show_bigrat(r: &uom::num::BigRational) -> String { format!("{}/{}", r.numer(), r.denom()) }')
    if "complex64" in types:
        out.append('''pub fn c64_of(s: &str) -> uom::num::complex::Complex64 {
    let (a, b) = s.split_once(',').unwrap();
    uom::num::complex::Complex64::new(f64_of(a), f64_of(b))
}
pub fn show_c64(z: uom::num::complex::Complex64) -> String { format!("{},{}", hex64(z.re), hex64(z.im)) }''')
    if "complex32" in types:
        out.append('''pub fn c32_of(s: &str) -> uom::num::complex::Complex32 {
    let (a, b) = s.split_once(',').unwrap();
    uom::num::complex::Complex32::new(f32_of(a), f32_of(b))
}
pub fn show_c32(z: uom::num::complex::Complex32) -> String { format!("{},{}", hex32(z.re), hex32(z.im)) }''')
    return "\n".join(out) + "\n"


# ---- value text <-> model text ------------------------------------------------------------------

def model_val(ty, text):
    """harness value text -> model sexp value."""
    c = STYPES[ty]["cls"]
    if c in ("f64", "f32"):
        return str(int(text, 16))
    if c == "z":
        return text
    if c == "q":
        n, d = text.split("/")
        return f"({n} {d})"
    raise KeyError(ty)


def canon_model_out(ty, text):
    """model output token -> canonical text as printed by the harness."""
    c = STYPES[ty]["cls"]
    if c in ("f64", "f32"):
        return FC.canon_model(text, c)
    return text


def frac_text(fr):
    fr = Fraction(fr)
    return f"{fr.numerator}/{fr.denominator}"
